(* C02, final assembly: names of the constrained parameter sets = names of the template's constraint families (pairwise
   distinct), the four families (RefineTermsFam.v, RefineTermsStat.v), and the theorem for every accepted specification. *)
From Coq Require Import Bool Arith Lia Permutation Ring String QArith Qcanon Reals List.
Require Import PV.Num PV.Sort PV.Spec PV.Impl PV.Ref PV.Wf PV.Config PV.RefineLookup PV.RefineMonoid PV.RefineRates PV.RefineTop PV.RefineParams
               PV.RefineTerms PV.RefineTermsBlocks PV.RefineTermsTop PV.RefineTermsFam PV.RefineTermsStat.
Import ListNotations.
Local Open Scope nat_scope.
Local Open Scope list_scope.

Section Names.
  Variable N : Num.
  Notation V := (V N).
  Hypothesis Heqb : forall a b : V, neqb N a b = true -> a = b.
  Variable sp : spec N.
  Variable md : model N.
  Hypothesis Hb : build N sp = Ok md.
  Notation chs := (cfg_channels N sp).
  Notation smps := (cfg_samples N sp).
  Notation mods := (cfg_modifiers N sp).
  Notation reqall := (required_all N sp chs smps mods).
  Notation requ := (required N sp chs smps mods).
  Notation walk := (walk_decls N sp chs smps mods).
  Notation firsts := (first_decls N sp chs smps mods).
  Notation ps := (md_psets N md).
  Notation listed := (listed N sp).

  (* the JSON schema: shapesys and staterror modifiers carry a list of numbers *)
  Definition list_shape_ok : Prop := forall c s m, In c (channels sp) -> In s (c_samples c) -> In m (s_mods s) ->
    match m_type m with Shapesys | Staterror => exists l, m_data m = MDList l | _ => True end.

  Definition family_type (t : mtype) : ptype :=
    match t with Histosys | Normsys | Lumi | Staterror => PNormal | Shapesys => PPoisson | _ => PUnconstrained end.
  Lemma required_type t name rs r : In (name, rs) (requ t) -> In r rs -> r_type N r = family_type t.
  Proof.
    intros H Hr. destruct t; unfold required in H; apply in_map_iff in H; destruct H as [d [E H]].
    - destruct d as [n' [[cn sn] m]]. inversion E; subst. destruct Hr as [<-|[]]. reflexivity.
    - destruct d as [n' [[cn sn] m]]. inversion E; subst. destruct Hr as [<-|[]]. reflexivity.
    - destruct d as [n' [[cn sn] m]]. inversion E; subst. destruct Hr as [<-|[]]. reflexivity.
    - destruct d as [n' [[cn sn] m]]. inversion E; subst. destruct Hr as [<-|[]]. reflexivity.
    - inversion E; subst. apply in_map_iff in Hr. destruct Hr as [n [<- _]]. reflexivity.
    - destruct d as [n' [[cn sn] m]]. inversion E; subst. destruct Hr as [<-|[]]. reflexivity.
    - inversion E; subst. destruct Hr as [<-|[]]. reflexivity.
  Qed.
  (* every requirement is contributed by a listed modifier of that type and name *)
  Lemma required_name_listed t name rs : In (name, rs) (requ t) -> exists c s m, listed c s m /\ m_name m = name /\ m_type m = t.
  Proof.
    intros H. assert (Hn : In name (map fst (requ t))) by (apply in_map_iff; exists (name, rs); auto).
    rewrite required_names in Hn.
    assert (Hkey : In (name, tyname t) (mods_of mods t) \/ exists cn sn m, cellmod N sp cn sn (name, tyname t) = Some m).
    { destruct t; try (right; apply first_decls_names in Hn; apply in_map_iff in Hn; destruct Hn as [[n' [[cn sn] m]] [E Hw]];
                       simpl in E; subst n'; apply walk_decls_in in Hw; destruct Hw as (_ & _ & _ & Hcm); eauto; fail).
      left. unfold names_of in Hn. apply in_map_iff in Hn. destruct Hn as [[kn kt] [E Hk]]. simpl in E. subst kn.
      pose proof Hk as Hk'. apply in_mods_of_iff in Hk'. destruct Hk' as [_ Ht]. simpl in Ht. now subst kt. }
    destruct Hkey as [Hk|(cn & sn & m & Hcm)].
    - destruct (mods_of_listed N sp t _ Hk) as (c & s & m & Hl & Hkm & Ht). exists c, s, m. split; [exact Hl|]. split; [|exact Ht].
      apply (f_equal fst) in Hkm. exact Hkm.
    - apply cellmod_listed in Hcm. destruct Hcm as (c & s & Hl & _ & _ & Hkm). exists c, s, m. split; [exact Hl|]. split.
      + apply (f_equal fst) in Hkm. exact Hkm.
      + apply (f_equal snd) in Hkm. simpl in Hkm. now apply tyname_inj.
  Qed.

  Lemma map_fst_alpha : map (A:=cblock N) fst (ref_alpha_blocks N sp) = alpha_names N sp.
  Proof. unfold ref_alpha_blocks. rewrite map_map. simpl. apply map_id. Qed.
  Lemma map_fst_lumi : map (A:=cblock N) fst (ref_lumi_blocks N sp) = names_with N sp Lumi.
  Proof. unfold ref_lumi_blocks. rewrite map_map. simpl. apply map_id. Qed.
  Lemma map_fst_stat : map (A:=cblock N) fst (ref_stat_blocks N sp) = names_with N sp Staterror.
  Proof. unfold ref_stat_blocks. rewrite map_map. simpl. apply map_id. Qed.
  Lemma in_shapesys_names n : In n (map (A:=cblock N) fst (ref_shapesys_blocks N sp)) ->
    exists c s m, listed c s m /\ m_name m = n /\ m_type m = Shapesys.
  Proof.
    intros H. apply in_map_iff in H. destruct H as [rb [<- H]]. unfold ref_shapesys_blocks in H.
    apply in_flat_map in H. destruct H as [c [Hc H]]. apply in_flat_map in H. destruct H as [s [Hs H]].
    apply in_flat_map in H. destruct H as [m [Hm H]]. unfold ref_shapesys_block in H.
    destruct (m_type m) eqn:Et; try (destruct H; fail). destruct (m_data m); try (destruct H; fail). destruct H as [<-|[]].
    exists c, s, m. unfold RefineParams.listed. auto.
  Qed.
  Lemma shapesys_names_in c s m : list_shape_ok -> listed c s m -> m_type m = Shapesys -> In (m_name m) (map (A:=cblock N) fst (ref_shapesys_blocks N sp)).
  Proof.
    intros Hsh (Hc & Hs & Hm) Ht. pose proof (Hsh c s m Hc Hs Hm) as Hd. rewrite Ht in Hd. destruct Hd as [l Hd].
    apply in_map_iff. eexists. split; [|unfold ref_shapesys_blocks; apply in_flat_map; exists c; split; [exact Hc|];
      apply in_flat_map; exists s; split; [exact Hs|]; apply in_flat_map; exists m; split; [exact Hm|];
      unfold ref_shapesys_block; rewrite Ht, Hd; left; reflexivity]. reflexivity.
  Qed.

  (* ---------------- every constrained parameter set is named by one of the template's families ---------------- *)
  Theorem accepted_names_covered : list_shape_ok -> names_covered N sp ps.
  Proof.
    intros Hsh p Hp Hcon.
    destruct (accepted_pset_requirement N sp md Hb p Hp) as (i & rs & st & _ & Hrs & Hone).
    destruct rs as [|r0 rs']; [discriminate Hone|].
    destruct (reduce_one_fields N sp _ _ _ _ Hone) as (_ & _ & Hall). destruct (Hall r0 (or_introl eq_refl)) as (_ & Hpt & _).
    apply nth_error_In in Hrs.
    assert (Hq : req_in reqall (p_name N p) r0) by (exists (r0 :: rs'); split; auto; now left).
    apply required_all_in in Hq. destruct Hq as (t & rs2 & H1 & H2).
    pose proof (required_type t _ _ _ H1 H2) as Hty.
    destruct (required_name_listed t _ _ H1) as (c & s & m & Hl & Hnm & Ht).
    unfold ref_blocks. rewrite !map_app, map_fst_alpha, map_fst_lumi, map_fst_stat.
    unfold constrained in Hcon. rewrite Hpt, Hty in Hcon.
    destruct t; simpl in Hcon; try discriminate Hcon.
    - apply in_or_app. left. unfold alpha_names. apply nodup_In. apply in_or_app. right. apply names_with_listed. exists c, s, m. auto.
    - apply in_or_app. right. apply in_or_app. left. apply names_with_listed. exists c, s, m. auto.
    - apply in_or_app. left. unfold alpha_names. apply nodup_In. apply in_or_app. left. apply names_with_listed. exists c, s, m. auto.
    - apply in_or_app. right. apply in_or_app. right. apply in_or_app. right. rewrite <- Hnm. now apply (shapesys_names_in c s m).
    - apply in_or_app. right. apply in_or_app. right. apply in_or_app. left. apply names_with_listed. exists c, s, m. auto.
  Qed.

  (* ---------------- the template's family names are pairwise distinct ---------------- *)
  Definition fam_sig (t : mtype) (p : pset N) : Prop :=
    match t with
    | Histosys | Normsys => p_type N p = PNormal /\ p_scalar N p = true /\ p_var N p = Undef
    | Lumi => p_type N p = PNormal /\ p_scalar N p = true /\ exists l, p_var N p = Val l
    | Staterror => p_type N p = PNormal /\ p_scalar N p = false
    | Shapesys => p_type N p = PPoisson
    | _ => True end.
  Definition fam_class (t : mtype) : nat :=
    match t with Histosys | Normsys => 0 | Lumi => 1 | Staterror => 2 | Shapesys => 3 | _ => 4 end.

  Lemma listed_pset_sig c s m : listed c s m -> exists p, (fam_class (m_type m) < 4 -> find_pset N ps (m_name m) = Some p /\ fam_sig (m_type m) p).
  Proof.
    intros Hl. destruct (m_type m) eqn:Et; simpl; try (exists (Build_pset N ""%string PNormal 0 false Undef Undef Undef Undef Undef (FBool false) 0); intros; lia).
    - pose proof (listed_req_alpha N sp md Hb c s m Hl (or_introl Et)) as Hreq. rewrite Et in Hreq.
      destruct (accepted_req_pset N sp md Hb _ _ _ (req_alpha N) Hreq (or_introl eq_refl)) as (p & rs & st & Hp & Hf & Hname & Hone & Hr).
      destruct (reduce_one_fields N sp _ _ _ _ Hone) as (_ & _ & Hall). destruct (Hall _ Hr) as (_ & Hpt & Hps).
      destruct (reduce_one_vf N sp Heqb _ _ _ _ Hone _ Hr) as (Hv & _ & _). simpl in Hpt, Hps, Hv.
      apply user_merge_undef in Hv. exists p. auto.
    - pose proof (listed_req_lumi N sp md Hb c s m Hl Et) as Hreq.
      destruct (accepted_req_pset N sp md Hb _ _ _ (req_lumi N) Hreq (or_introl eq_refl)) as (p & rs & st & Hp & Hf & Hname & Hone & Hr).
      destruct (reduce_one_fields N sp _ _ _ _ Hone) as (_ & _ & Hall). destruct (Hall _ Hr) as (_ & Hpt & Hps).
      destruct (reduce_one_vf N sp Heqb _ _ _ _ Hone _ Hr) as (Hv & _ & _). simpl in Hpt, Hps, Hv.
      exists p. intros _. repeat split; auto.
      destruct (option_map _ _) as [l|]; [|discriminate Hv]. apply user_merge_some in Hv. eauto.
    - pose proof (listed_req_alpha N sp md Hb c s m Hl (or_intror Et)) as Hreq. rewrite Et in Hreq.
      destruct (accepted_req_pset N sp md Hb _ _ _ (req_alpha N) Hreq (or_introl eq_refl)) as (p & rs & st & Hp & Hf & Hname & Hone & Hr).
      destruct (reduce_one_fields N sp _ _ _ _ Hone) as (_ & _ & Hall). destruct (Hall _ Hr) as (_ & Hpt & Hps).
      destruct (reduce_one_vf N sp Heqb _ _ _ _ Hone _ Hr) as (Hv & _ & _). simpl in Hpt, Hps, Hv.
      apply user_merge_undef in Hv. exists p. auto.
    - pose proof (listed_req_shapesys N sp md Hb c s m Hl Et) as Hreq.
      destruct (accepted_req_pset N sp md Hb _ _ _ _ Hreq (or_introl eq_refl)) as (p & rs & st & Hp & Hf & Hname & Hone & Hr).
      destruct (reduce_one_fields N sp _ _ _ _ Hone) as (_ & _ & Hall). destruct (Hall _ Hr) as (_ & Hpt & _).
      exists p. auto.
    - assert (Hkm : mkey m = (m_name m, tyname Staterror)) by (unfold mkey; now rewrite Et).
      destruct (listed_names N sp c s m Hl) as (_ & _ & _ & Hk). rewrite Et, Hkm in Hk.
      assert (Hreq : In (m_name m, [req_staterror N (stat_vars N sp chs smps (m_name m, tyname Staterror))]) (requ Staterror)).
      { unfold required. apply in_map_iff. exists (m_name m, tyname Staterror). split; auto. }
      destruct (accepted_req_pset N sp md Hb _ _ _ _ Hreq (or_introl eq_refl)) as (p & rs & st & Hp & Hf & Hname & Hone & Hr).
      destruct (reduce_one_fields N sp _ _ _ _ Hone) as (_ & _ & Hall). destruct (Hall _ Hr) as (_ & Hpt & Hps).
      exists p. auto.
  Qed.
  Lemma sig_conflict t1 t2 p : fam_sig t1 p -> fam_sig t2 p -> fam_class t1 < 4 -> fam_class t2 < 4 -> fam_class t1 = fam_class t2.
  Proof.
    destruct t1, t2; simpl; intros H1 H2 L1 L2; try lia; try reflexivity;
      repeat match goal with
             | H : _ /\ _ |- _ => destruct H
             | H : exists _, _ |- _ => destruct H
             end; congruence.
  Qed.
  Definition name_family (n : string) (t : mtype) : Prop := exists c s m, listed c s m /\ m_name m = n /\ m_type m = t.
  Lemma families_disjoint n t1 t2 : name_family n t1 -> name_family n t2 -> fam_class t1 < 4 -> fam_class t2 < 4 ->
    fam_class t1 = fam_class t2.
  Proof.
    intros (c1 & s1 & m1 & Hl1 & Hn1 & Ht1) (c2 & s2 & m2 & Hl2 & Hn2 & Ht2) L1 L2.
    destruct (listed_pset_sig c1 s1 m1 Hl1) as [p1 H1]. destruct (listed_pset_sig c2 s2 m2 Hl2) as [p2 H2].
    rewrite Ht1, Hn1 in H1. rewrite Ht2, Hn2 in H2. destruct (H1 L1) as [F1 S1]. destruct (H2 L2) as [F2 S2].
    rewrite F1 in F2. inversion F2; subst p2. eapply sig_conflict; eauto.
  Qed.

  Lemma NoDup_app' {A} (l1 l2 : list A) : NoDup l1 -> NoDup l2 -> (forall x, In x l1 -> ~ In x l2) -> NoDup (l1 ++ l2).
  Proof.
    induction l1 as [|a l1 IH]; simpl; intros H1 H2 Hd; auto. inversion H1 as [|? ? Hni H1']; subst. constructor.
    - intros Hin. apply in_app_or in Hin. destruct Hin as [Hin|Hin]; [contradiction|]. apply (Hd a); auto.
    - apply IH; auto.
  Qed.
  Lemma shapesys_block_names : list_shape_ok -> map (A:=cblock N) fst (ref_shapesys_blocks N sp) = shapesys_names_listed N sp.
  Proof.
    intros Hsh. unfold ref_shapesys_blocks, shapesys_names_listed, all_samples.
    rewrite !map_flat_map, !flat_map_flat_map. apply flat_map_ext_in. intros c Hc. rewrite map_flat_map.
    apply flat_map_ext_in. intros s Hs. rewrite map_flat_map. apply flat_map_ext_in. intros m Hm.
    pose proof (Hsh c s m Hc Hs Hm) as Hd. unfold ref_shapesys_block. destruct (m_type m); try reflexivity.
    destruct Hd as [l ->]. reflexivity.
  Qed.
  Lemma alpha_family_names n : In n (alpha_names N sp) -> exists t, name_family n t /\ fam_class t = 0.
  Proof.
    unfold alpha_names. rewrite nodup_In. intros H. apply in_app_or in H. destruct H as [H|H]; apply names_with_listed in H.
    - exists Normsys. split; auto.
    - exists Histosys. split; auto.
  Qed.

  Theorem accepted_family_names_nodup : list_shape_ok -> NoDup (map (A:=cblock N) fst (ref_blocks N sp)).
  Proof.
    intros Hsh. unfold ref_blocks. rewrite !map_app, map_fst_alpha, map_fst_lumi, map_fst_stat, (shapesys_block_names Hsh).
    assert (HL : forall n, In n (names_with N sp Lumi) -> name_family n Lumi) by (intros n H; now apply names_with_listed in H).
    assert (HS : forall n, In n (names_with N sp Staterror) -> name_family n Staterror) by (intros n H; now apply names_with_listed in H).
    assert (HY : forall n, In n (shapesys_names_listed N sp) -> name_family n Shapesys).
    { intros n H. rewrite <- (shapesys_block_names Hsh) in H. now apply in_shapesys_names in H. }
    apply NoDup_app'; [apply NoDup_nodup| |].
    - apply NoDup_app'; [apply NoDup_nodup| |].
      + apply NoDup_app'; [apply NoDup_nodup|exact (accepted_shapesys_unique N sp md Hb)|].
        intros n H1 H2. pose proof (families_disjoint n _ _ (HS n H1) (HY n H2)) as E. simpl in E. lia.
      + intros n H1 H2. apply in_app_or in H2. destruct H2 as [H2|H2].
        * pose proof (families_disjoint n _ _ (HL n H1) (HS n H2)) as E. simpl in E. lia.
        * pose proof (families_disjoint n _ _ (HL n H1) (HY n H2)) as E. simpl in E. lia.
    - intros n H1 H2. destruct (alpha_family_names n H1) as (t & Hf & Hcl).
      apply in_app_or in H2. destruct H2 as [H2|H2]; [|apply in_app_or in H2; destruct H2 as [H2|H2]].
      + pose proof (families_disjoint n _ _ Hf (HL n H2)) as E. simpl in E. lia.
      + pose proof (families_disjoint n _ _ Hf (HS n H2)) as E. simpl in E. lia.
      + pose proof (families_disjoint n _ _ Hf (HY n H2)) as E. simpl in E. lia.
  Qed.
End Names.

(* ---------------- auxiliary data: as many as constrained components ---------------- *)
Section AuxSizes.
  Variable N : Num.
  Notation V := (V N).
  Hypothesis Heqb : forall a b : V, neqb N a b = true -> a = b.
  Variable sp : spec N.
  Variable md : model N.
  Hypothesis Hb : build N sp = Ok md.
  Notation chs := (cfg_channels N sp).
  Notation smps := (cfg_samples N sp).
  Notation mods := (cfg_modifiers N sp).
  Notation reqall := (required_all N sp chs smps mods).
  Notation requ := (required N sp chs smps mods).
  Notation ps := (md_psets N md).

  Lemma required_aux_wf t name rs r : In (name, rs) (requ t) -> In r rs ->
    match r_aux N r with Val l => length l = r_n N r | PyNone => True | Undef => r_type N r = PUnconstrained end.
  Proof.
    intros H Hr. destruct t; unfold required in H; apply in_map_iff in H; destruct H as [d [E H]].
    - destruct d as [n' [[cn sn] m]]. inversion E; subst. destruct Hr as [<-|[]]. reflexivity.
    - destruct d as [n' [[cn sn] m]]. inversion E; subst. destruct Hr as [<-|[]]. simpl. exact I.
    - destruct d as [n' [[cn sn] m]]. inversion E; subst. destruct Hr as [<-|[]]. reflexivity.
    - destruct d as [n' [[cn sn] m]]. inversion E; subst. destruct Hr as [<-|[]]. reflexivity.
    - inversion E; subst. apply in_map_iff in Hr. destruct Hr as [n [<- _]]. reflexivity.
    - destruct d as [n' [[cn sn] m]]. inversion E; subst. destruct Hr as [<-|[]]. simpl. now rewrite !map_length.
    - inversion E; subst. destruct Hr as [<-|[]]. simpl. apply repeat_length.
  Qed.

  (* size 0 is excluded: there the length check of user-configured auxdata is skipped by the code (falsy default);
     pyhf's JSON schema refuses empty sample data *)
  Theorem accepted_aux_sizes : (forall p, In p ps -> constrained N p = true -> p_n N p <> 0) -> aux_sizes_okb N ps = true.
  Proof.
    intros Hpos. unfold aux_sizes_okb. apply forallb_forall. intros p Hp. apply filter_In in Hp. destruct Hp as [Hp Hcon].
    apply Nat.eqb_eq.
    destruct (accepted_pset_requirement N sp md Hb p Hp) as (i & rs & st & _ & Hrs & Hone).
    destruct rs as [|r0 rs']; [discriminate Hone|].
    destruct (reduce_one_fields N sp _ _ _ _ Hone) as (_ & _ & Hall). destruct (Hall r0 (or_introl eq_refl)) as (Hpn & Hpt & _).
    destruct (reduce_one_vf N sp Heqb _ _ _ _ Hone r0 (or_introl eq_refl)) as (_ & _ & Ha).
    apply nth_error_In in Hrs.
    assert (Hq : req_in reqall (p_name N p) r0) by (exists (r0 :: rs'); split; auto; now left).
    apply required_all_in in Hq. destruct Hq as (t & rs2 & H1 & H2).
    pose proof (required_aux_wf t _ _ _ H1 H2) as Hwf.
    assert (Hnz : p_n N p <> 0) by (apply Hpos; auto).
    assert (Hcon' : r_type N r0 <> PUnconstrained).
    { intros E. unfold constrained in Hcon. rewrite Hpt, E in Hcon. discriminate. }
    unfold aux_of. unfold user_merge in Ha.
    destruct (user_of N sp (p_name N p) pc_auxdata) as [l|]; destruct (r_aux N r0) as [| |dl] eqn:Ed; try discriminate Ha.
    - destruct (Nat.eqb_spec (length l) (r_n N r0)) as [El|]; [|discriminate Ha]. inversion Ha as [Hpa]. congruence.
    - destruct dl as [|x dl]; [simpl in Hwf; congruence|].
      destruct (Nat.eqb_spec (length l) (length (x :: dl))) as [El|]; [|discriminate Ha]. inversion Ha as [Hpa]. congruence.
    - contradiction.
    - inversion Ha as [Hpa]. congruence.
  Qed.
End AuxSizes.

(* ---------------- the theorem ---------------- *)
Section Final.
  Variable N : Num.
  Notation V := (V N).
  Hypothesis Hring : ring_theory (n0 N) (n1 N) (nadd N) (nmul N) (nsub N) (nopp N) eq.
  Hypothesis Heqb : forall a b : V, neqb N a b = true -> a = b.
  Hypothesis Hdiv : forall a b : V, ndiv N a b = nmul N a (ninv N b).
  Variable interp_add interp_mul : string -> V -> V -> V -> V -> V.
  Variable sp : spec N.
  Variable st : settings N.
  Variable md : model N.
  Hypothesis Hb : build N sp = Ok md.
  Hypothesis Hlist : list_shape_ok N sp.

  (* the block comparison of RefineTermsBlocks.v holds for every accepted specification *)
  Theorem accepted_families : fam_ok N (md_psets N md) (ref_blocks N sp).
  Proof.
    unfold ref_blocks. apply fam_ok_app; [apply (alpha_family N Heqb sp md Hb)|].
    apply fam_ok_app; [apply (lumi_family N Heqb sp md Hb)|].
    apply fam_ok_app; [apply (stat_family N Hring Heqb Hdiv sp md Hb)|apply (shapesys_family N Heqb sp md Hb)].
  Qed.

  (* exactly one constraint term per constrained parameter component, of the family's kind and width, paired with the
     auxiliary datum at the position the configuration assigns to it: for EVERY parameter vector and auxiliary data vector *)
  Theorem accepted_cterms_perm par auxd :
    Permutation (cterms N par (md_psets N md) auxd O)
                (ref_cterms N sp (theta N md par) (aux_by_name N (md_psets N md) auxd)).
  Proof.
    apply cterms_perm_prop.
    - exact (accepted_names_nodup N sp md Hb).
    - exact (accepted_family_names_nodup N Heqb sp md Hb Hlist).
    - exact (accepted_names_covered N sp md Hb Hlist).
    - exact accepted_families.
  Qed.

  Theorem logpdf_terms_refines_layout pars data l :
    shape_ok N sp -> clip_guard N st -> layout_ok N sp md ->
    logpdf_terms N interp_add interp_mul sp st md pars data = Ok l ->
    Permutation l (ref_terms N interp_add interp_mul (normsys_code N st) (histosys_code N st) (clip_sample N st) (clip_bin N st) sp
                             (theta N md (parf N pars)) (obs_by_name N sp data) (aux_of_data N sp md data)).
  Proof.
    intros Hs Hc Hl Hlog.
    destruct (main_plus_constraint N Hring (fun _ _ => n0 N) (fun _ _ _ => n0 N) interp_add interp_mul sp st md pars data l Hlog)
      as (El & _ & Hnp & Hlen).
    subst l. unfold ref_terms. apply Permutation_app.
    - rewrite (main_terms_refine N interp_add interp_mul sp st md (parf N pars) Hring
                 (accepted_distinct_channels N sp md Hb)
                 (fun c => accepted_distinct_samples N sp md c Hb)
                 (fun c s => accepted_distinct_modifiers N sp md c s Hb) Hs Hc Hl data) by lia.
      apply Permutation_refl.
    - apply accepted_cterms_perm.
  Qed.

  (* hence, for any log-density primitives: the reported log-density is the template's *)
  Theorem logpdf_refines_layout logpois lognorm pars data l :
    shape_ok N sp -> clip_guard N st -> layout_ok N sp md ->
    logpdf_terms N interp_add interp_mul sp st md pars data = Ok l ->
    sumlog N logpois lognorm l =
    sumlog N logpois lognorm (ref_terms N interp_add interp_mul (normsys_code N st) (histosys_code N st) (clip_sample N st) (clip_bin N st) sp
                                        (theta N md (parf N pars)) (obs_by_name N sp data) (aux_of_data N sp md data)).
  Proof. intros Hs Hc Hl Hlog. apply (sumlog_perm N Hring). now apply logpdf_terms_refines_layout. Qed.

  (* the decidable comparison the checks evaluate per generated model is implied *)
  Theorem length_cterms_auxdata par auxd k :
    (forall p, In p (md_psets N md) -> constrained N p = true -> p_n N p <> 0) ->
    length (cterms N par (md_psets N md) auxd k) = length (md_auxdata N md).
  Proof.
    intros Hpos. rewrite cterms_length. destruct (rt_build_parts N sp md Hb) as [_ Ha]. rewrite Ha.
    symmetry. apply auxdata_length. now apply (accepted_aux_sizes N Heqb sp md Hb).
  Qed.
End Final.

(* the two number instances *)
Lemma QcNum_eqb_sound : forall a b : Num.V QcNum, neqb QcNum a b = true -> a = b.
Proof. intros a b H. now apply Qc_eq_bool_correct. Qed.
Lemma QcNum_div : forall a b : Num.V QcNum, ndiv QcNum a b = nmul QcNum a (ninv QcNum b).
Proof. reflexivity. Qed.
Lemma RNum_eqb_sound : forall a b : Num.V RNum, neqb RNum a b = true -> a = b.
Proof. intros a b. simpl. unfold reqb. destruct (Req_EM_T a b); [auto|discriminate]. Qed.
Lemma RNum_div : forall a b : Num.V RNum, ndiv RNum a b = nmul RNum a (ninv RNum b).
Proof. reflexivity. Qed.

Theorem logpdf_terms_refines_layout_Qc : forall ia im (sp : spec QcNum) st md pars data l,
  build QcNum sp = Ok md -> list_shape_ok QcNum sp -> shape_ok QcNum sp -> clip_guard QcNum st -> layout_ok QcNum sp md ->
  logpdf_terms QcNum ia im sp st md pars data = Ok l ->
  Permutation l (ref_terms QcNum ia im (normsys_code QcNum st) (histosys_code QcNum st) (clip_sample QcNum st) (clip_bin QcNum st) sp
                           (theta QcNum md (parf QcNum pars)) (obs_by_name QcNum sp data) (aux_of_data QcNum sp md data)).
Proof. intros. eapply (logpdf_terms_refines_layout QcNum Qcrt QcNum_eqb_sound QcNum_div); eauto. Qed.
Theorem logpdf_terms_refines_layout_R : forall ia im (sp : spec RNum) st md pars data l,
  build RNum sp = Ok md -> list_shape_ok RNum sp -> shape_ok RNum sp -> clip_guard RNum st -> layout_ok RNum sp md ->
  logpdf_terms RNum ia im sp st md pars data = Ok l ->
  Permutation l (ref_terms RNum ia im (normsys_code RNum st) (histosys_code RNum st) (clip_sample RNum st) (clip_bin RNum st) sp
                           (theta RNum md (parf RNum pars)) (obs_by_name RNum sp data) (aux_of_data RNum sp md data)).
Proof. intros. eapply (logpdf_terms_refines_layout RNum RTheory RNum_eqb_sound RNum_div); eauto. Qed.

(* the form exposed as property theorem: the access-field layout premise in its decidable form (the C01 check evaluates it for
   every generated model; RefineLayout.v derives it from build = Ok) *)
Theorem logpdf_terms_refines_partial : forall N,
  ring_theory (n0 N) (n1 N) (nadd N) (nmul N) (nsub N) (nopp N) eq ->
  (forall a b : Num.V N, neqb N a b = true -> a = b) -> (forall a b : Num.V N, ndiv N a b = nmul N a (ninv N b)) ->
  forall interp_add interp_mul (sp : spec N) st md pars data l,
  build N sp = Ok md -> list_shape_ok N sp -> shape_ok N sp -> clip_guard N st -> layout_okb N sp md = true ->
  logpdf_terms N interp_add interp_mul sp st md pars data = Ok l ->
  Permutation l (ref_terms N interp_add interp_mul (normsys_code N st) (histosys_code N st) (clip_sample N st) (clip_bin N st) sp
                           (theta N md (parf N pars)) (obs_by_name N sp data) (aux_of_data N sp md data)).
Proof. intros. eapply logpdf_terms_refines_layout; eauto. now apply layout_okb_ok. Qed.
Theorem logpdf_refines_partial : forall N,
  ring_theory (n0 N) (n1 N) (nadd N) (nmul N) (nsub N) (nopp N) eq ->
  (forall a b : Num.V N, neqb N a b = true -> a = b) -> (forall a b : Num.V N, ndiv N a b = nmul N a (ninv N b)) ->
  forall interp_add interp_mul (sp : spec N) st md logpois lognorm pars data l,
  build N sp = Ok md -> list_shape_ok N sp -> shape_ok N sp -> clip_guard N st -> layout_okb N sp md = true ->
  logpdf_terms N interp_add interp_mul sp st md pars data = Ok l ->
  sumlog N logpois lognorm l =
  sumlog N logpois lognorm (ref_terms N interp_add interp_mul (normsys_code N st) (histosys_code N st) (clip_sample N st) (clip_bin N st) sp
                                      (theta N md (parf N pars)) (obs_by_name N sp data) (aux_of_data N sp md data)).
Proof. intros. eapply logpdf_refines_layout; eauto. now apply layout_okb_ok. Qed.
