(* C02, structural part: the likelihood term list of the implementation model (Impl.logpdf_terms).
   Exported:
     cterms_structure, cterms_length, cterms_length_auxdata   one constraint term per constrained component, aux position
     combine_blocks, main_terms_blocks, main_terms_refine     main terms = Poisson(obs of the channel's slice | template rate)
     expected_auxdata_spec                                    expected_auxdata = means / rates of the constraint terms
     sumlog_app, sumlog_perm, main_plus_constraint            log-density sums
   The relation with the template's constraint terms is in RefineTermsBlocks.v / RefineTermsTop.v. *)
From Coq Require Import Bool Arith Lia Permutation Ring String List.
Require Import PV.Num PV.Sort PV.Spec PV.Impl PV.Ref PV.Wf PV.Config PV.RefineLookup PV.RefineMonoid PV.RefineRates.
Import ListNotations.
Local Open Scope list_scope.

(* ---------- list lemmas ---------- *)
Lemma tab_length {A} n (f : nat -> A) : length (tab n f) = n.
Proof. unfold tab. now rewrite map_length, seq_length. Qed.
Lemma tab_ext {A} n (f g : nat -> A) : (forall i, i < n -> f i = g i) -> tab n f = tab n g.
Proof. intros H. unfold tab. apply map_ext_in. intros i Hi. apply in_seq in Hi. apply H. lia. Qed.
Lemma map_tab {A B} (h : A -> B) n f : map h (tab n f) = tab n (fun i => h (f i)).
Proof. unfold tab. now rewrite map_map. Qed.
Lemma tab_S {A} n (f : nat -> A) : tab (S n) f = f 0 :: tab n (fun i => f (S i)).
Proof. unfold tab. simpl. f_equal. rewrite <- seq_shift, map_map. reflexivity. Qed.
Lemma firstn_tab {A} (d : A) : forall n l, n <= length l -> firstn n l = tab n (fun i => nth i l d).
Proof.
  induction n as [|n IH]; intros l Hl; [reflexivity|].
  destruct l as [|a l]; simpl in Hl; [lia|]. rewrite tab_S. simpl. f_equal. apply IH. lia.
Qed.
Lemma nth_skipn {A} (d : A) : forall s l i, nth i (skipn s l) d = nth (s + i) l d.
Proof. induction s as [|s IH]; intros l i; [reflexivity|]. destruct l as [|a l]; simpl; [now destruct i|apply IH]. Qed.
Lemma skipn_skipn {A} : forall a b (l : list A), skipn a (skipn b l) = skipn (b + a) l.
Proof. intros a b. revert a. induction b as [|b IH]; intros a l; [reflexivity|]. destruct l as [|x l]; simpl; [now rewrite skipn_nil|apply IH]. Qed.
Lemma firstn_add {A} : forall a b (l : list A), firstn (a + b) l = firstn a l ++ firstn b (skipn a l).
Proof. induction a as [|a IH]; intros b l; [reflexivity|]. destruct l as [|x l]; simpl; [now rewrite firstn_nil|]. f_equal. apply IH. Qed.
Lemma combine_app {A B} : forall (l1 l1' : list A) (l2 l2' : list B), length l1 = length l2 ->
  combine (l1 ++ l1') (l2 ++ l2') = combine l1 l2 ++ combine l1' l2'.
Proof. induction l1 as [|a l1 IH]; intros l1' [|b l2] l2' H; simpl in *; try discriminate; auto. f_equal. apply IH. lia. Qed.
Lemma combine_tab {A B} n (f : nat -> A) (g : nat -> B) : combine (tab n f) (tab n g) = tab n (fun i => (f i, g i)).
Proof. revert f g. induction n as [|n IH]; intros f g; [reflexivity|]. rewrite !tab_S. simpl. f_equal. apply IH. Qed.
Lemma flat_map_ext_in {A B} (f g : A -> list B) l : (forall a, In a l -> f a = g a) -> flat_map f l = flat_map g l.
Proof. induction l; simpl; intros H; auto. rewrite H by auto. f_equal. apply IHl. auto. Qed.
Lemma flat_map_map {A B C} (f : B -> list C) (g : A -> B) l : flat_map f (map g l) = flat_map (fun a => f (g a)) l.
Proof. induction l; simpl; auto. now rewrite IHl. Qed.
Lemma map_flat_map {A B C} (f : B -> C) (g : A -> list B) l : map f (flat_map g l) = flat_map (fun a => map f (g a)) l.
Proof. induction l; simpl; auto. now rewrite map_app, IHl. Qed.
Lemma flat_map_length_sum {A B} (f : A -> list B) l : length (flat_map f l) = fold_right Nat.add O (map (fun a => length (f a)) l).
Proof. induction l; simpl; auto. now rewrite app_length, IHl. Qed.

(* ---------- blocks laid out one after the other: the datum paired with entry b of block k sits at offset k + b ---------- *)
Section Blocks.
  Variable size : string -> nat.
  Fixpoint block_off (ks : list string) (k : string) : nat :=
    match ks with [] => O | k' :: t => if String.eqb k' k then O else (size k' + block_off t k)%nat end.
  Definition block_total (ks : list string) : nat := fold_right Nat.add O (map size ks).

  Lemma combine_blocks {A B} (d : A) (g : string -> nat -> B) : forall ks (data : list A) s, NoDup ks ->
    (s + block_total ks <= length data)%nat ->
    combine (firstn (block_total ks) (skipn s data)) (flat_map (fun k => tab (size k) (g k)) ks) =
    flat_map (fun k => tab (size k) (fun b => (nth (s + block_off ks k + b) data d, g k b))) ks.
  Proof.
    induction ks as [|k t IH]; intros data s Hnd Hlen; [reflexivity|].
    inversion Hnd as [|? ? Hni Hnd']; subst. unfold block_total in *. simpl in *.
    rewrite firstn_add, combine_app.
    2:{ rewrite firstn_length, tab_length, skipn_length. lia. }
    f_equal.
    - rewrite String.eqb_refl. rewrite (firstn_tab d) by (rewrite skipn_length; lia).
      rewrite combine_tab. apply tab_ext. intros i _. now rewrite nth_skipn, Nat.add_0_r.
    - rewrite skipn_skipn. rewrite IH by (auto; lia). apply flat_map_ext_in. intros k' Hk'.
      destruct (String.eqb_spec k k') as [->|ne]; [contradiction|]. apply tab_ext. intros i _. f_equal. f_equal. lia.
  Qed.
End Blocks.

Section Terms.
  Variable N : Num.
  Notation V := (V N).
  Notation "0" := (n0 N). Notation "1" := (n1 N).
  Infix "+" := (nadd N). Infix "*" := (nmul N).

  (* ================= 1. constraint terms: one per constrained component, auxiliary datum by position ================= *)
  Definition csize (p : pset N) : nat := if constrained N p then p_n N p else O.
  (* total size of the constrained parameter sets listed before the one called name *)
  Fixpoint aux_offset (ps : list (pset N)) (name : string) : nat :=
    match ps with
    | [] => O
    | p :: t => if String.eqb (p_name N p) name then O else (csize p + aux_offset t name)%nat
    end.
  Definition ctotal (ps : list (pset N)) : nat := fold_right Nat.add O (map csize ps).
  (* term of component i of a constrained parameter set whose auxiliary data start at position off *)
  Definition term_of (par : nat -> V) (aux : list V) (off : nat) (p : pset N) (i : nat) : term N :=
    match p_type N p with
    | PPoisson => TPois (nth (off + i) aux 0) (par (p_start N p + i)%nat * fac_of N p i)
    | _ => TNorm (nth (off + i) aux 0) (par (p_start N p + i)%nat) (var_of N p i)
    end.

  Lemma cterms_structure_from par aux : forall ps k, NoDup (map (p_name N) ps) ->
    cterms N par ps aux k =
    flat_map (fun p => tab (p_n N p) (term_of par aux (k + aux_offset ps (p_name N p)) p)) (filter (constrained N) ps).
  Proof.
    induction ps as [|p t IH]; intros k Hnd; [reflexivity|].
    inversion Hnd as [|? ? Hni Hnd']; subst.
    assert (Htail : forall k', flat_map (fun q => tab (p_n N q) (term_of par aux (k' + csize p + aux_offset t (p_name N q)) q)) (filter (constrained N) t) =
                    flat_map (fun q => tab (p_n N q) (term_of par aux (k' + aux_offset (p :: t) (p_name N q)) q)) (filter (constrained N) t)).
    { intros k'. apply flat_map_ext_in. intros q Hq. apply filter_In in Hq. destruct Hq as [Hq _].
      simpl. destruct (String.eqb_spec (p_name N p) (p_name N q)) as [e|ne].
      - exfalso. apply Hni. rewrite e. now apply in_map.
      - apply tab_ext. intros i _. f_equal. lia. }
    specialize (Htail k). simpl cterms. simpl filter. unfold constrained at 1.
    destruct (p_type N p) eqn:Et.
    - assert (Hc : csize p = O) by (unfold csize, constrained; now rewrite Et). rewrite Hc, Nat.add_0_r in Htail.
      rewrite IH by assumption. exact Htail.
    - assert (Hc : csize p = p_n N p) by (unfold csize, constrained; now rewrite Et). rewrite Hc in Htail.
      simpl flat_map. f_equal.
      + simpl. rewrite String.eqb_refl. apply tab_ext. intros i _. unfold term_of. rewrite Et. now rewrite Nat.add_0_r.
      + rewrite IH by assumption. exact Htail.
    - assert (Hc : csize p = p_n N p) by (unfold csize, constrained; now rewrite Et). rewrite Hc in Htail.
      simpl flat_map. f_equal.
      + simpl. rewrite String.eqb_refl. apply tab_ext. intros i _. unfold term_of. rewrite Et. now rewrite Nat.add_0_r.
      + rewrite IH by assumption. exact Htail.
  Qed.

  (* the walk with ONE running index pairs component i of a constrained parameter set with the auxiliary datum at
     (total size of the constrained sets before it) + i *)
  Theorem cterms_structure par aux ps : NoDup (map (p_name N) ps) ->
    cterms N par ps aux O =
    flat_map (fun p => tab (p_n N p) (term_of par aux (aux_offset ps (p_name N p)) p)) (filter (constrained N) ps).
  Proof. intros H. now rewrite (cterms_structure_from par aux ps O H). Qed.

  Theorem cterms_length par aux : forall ps k, length (cterms N par ps aux k) = ctotal ps.
  Proof.
    induction ps as [|p t IH]; intros k; [reflexivity|]. unfold ctotal in *. simpl. unfold csize, constrained.
    destruct (p_type N p); simpl; [apply IH| |]; rewrite app_length, tab_length, IH; reflexivity.
  Qed.

  (* config.auxdata lists the auxiliary data of the constrained parameter sets in the same order: when every
     constrained set has as many auxiliary data as components, there are exactly as many constraint terms as auxiliary data *)
  Definition aux_sizes_okb (ps : list (pset N)) : bool :=
    forallb (fun p => Nat.eqb (length (aux_of N p)) (p_n N p)) (filter (constrained N) ps).
  Lemma auxdata_length ps : aux_sizes_okb ps = true -> length (flat_map (aux_of N) (filter (constrained N) ps)) = ctotal ps.
  Proof.
    unfold aux_sizes_okb, ctotal. induction ps as [|p t IH]; intros H; [reflexivity|]. simpl in *. unfold csize at 1.
    destruct (constrained N p); simpl in *; [|now apply IH].
    apply andb_true_iff in H. destruct H as [H1 H2]. apply Nat.eqb_eq in H1. rewrite app_length, H1, IH; auto.
  Qed.

  (* ================= 3. expected_auxdata: the means of the Gaussian terms / the rates of the Poisson terms ================= *)
  Definition term_center (t : term N) : V := match t with TPois _ lam => lam | TNorm _ mu _ => mu end.
  Definition term_datum (t : term N) : V := match t with TPois n _ => n | TNorm x _ _ => x end.
  Lemma expected_auxdata_from par aux : forall ps k,
    flat_map (fun p => match p_type N p with
                       | PUnconstrained => []
                       | PNormal => tab (p_n N p) (fun i => par (p_start N p + i)%nat)
                       | PPoisson => tab (p_n N p) (fun i => par (p_start N p + i)%nat * fac_of N p i) end) ps
    = map term_center (cterms N par ps aux k).
  Proof.
    induction ps as [|p t IH]; intros k; [reflexivity|]. simpl. destruct (p_type N p); simpl.
    - apply IH.
    - rewrite map_app, map_tab. f_equal. apply IH.
    - rewrite map_app, map_tab. f_equal. apply IH.
  Qed.
  Theorem expected_auxdata_spec md pars aux :
    expected_auxdata N md pars = map term_center (cterms N (parf N pars) (md_psets N md) aux O).
  Proof. unfold expected_auxdata, expected_auxdata_hot. apply expected_auxdata_from. Qed.
  (* and the data of the constraint terms are the auxiliary data, in order *)
  Lemma cterms_data_from par aux : forall ps k, (k + ctotal ps <= length aux)%nat ->
    map term_datum (cterms N par ps aux k) = firstn (ctotal ps) (skipn k aux).
  Proof.
    induction ps as [|p t IH]; intros k Hk; [reflexivity|]. unfold ctotal in *. simpl in *. unfold csize, constrained in *.
    destruct (p_type N p); simpl in *.
    - now apply IH.
    - rewrite map_app, map_tab, firstn_add, skipn_skipn. rewrite IH by lia. f_equal.
      rewrite (firstn_tab 0) by (rewrite skipn_length; lia). apply tab_ext. intros i _. simpl. now rewrite nth_skipn.
    - rewrite map_app, map_tab, firstn_add, skipn_skipn. rewrite IH by lia. f_equal.
      rewrite (firstn_tab 0) by (rewrite skipn_length; lia). apply tab_ext. intros i _. simpl. now rewrite nth_skipn.
  Qed.
  Theorem auxdata_layout par aux ps : length aux = ctotal ps -> map term_datum (cterms N par ps aux O) = aux.
  Proof. intros H. rewrite cterms_data_from by (simpl; lia). simpl. rewrite <- H. apply firstn_all. Qed.

  (* ================= 2. main terms ================= *)
  Section Main.
    Variable interp_add interp_mul : string -> V -> V -> V -> V -> V.
    Variable sp : spec N.
    Variable st : settings N.
    Variable md : model N.
    Variable par : nat -> V.
    Notation chs := (cfg_channels N sp).
    Notation smps := (cfg_samples N sp).
    Notation mods := (cfg_modifiers N sp).

    (* start of the slice of channel cn in the main data: config.channel_slices *)
    Definition chan_start (cn : string) : nat :=
      match find (fun e => String.eqb (fst e) cn) (channel_slices N sp) with Some e => fst (snd e) | None => O end.
    Definition obs_of (data : list V) (cn : string) (b : nat) : V := nth (chan_start cn + b) data 0.

    Lemma find_combine_running : forall cs start cn, In cn cs ->
      find (fun e : string * (nat * nat) => String.eqb (fst e) cn) (combine cs (running (map (nbins N sp) cs) start)) =
      Some (cn, ((start + block_off (nbins N sp) cs cn)%nat, (start + block_off (nbins N sp) cs cn + nbins N sp cn)%nat)).
    Proof.
      induction cs as [|c t IH]; intros start cn Hin; [destruct Hin|]. simpl.
      destruct (String.eqb_spec c cn) as [->|ne].
      - now rewrite Nat.add_0_r.
      - destruct Hin as [e|Hin]; [contradiction|]. rewrite (IH _ _ Hin). f_equal. f_equal. f_equal; lia.
    Qed.
    Lemma chan_start_off cn : In cn chs -> chan_start cn = block_off (nbins N sp) chs cn.
    Proof. intros Hin. unfold chan_start, channel_slices. now rewrite (find_combine_running chs O cn Hin). Qed.
    Lemma nmaindata_total : nmaindata N sp = block_total (nbins N sp) chs.
    Proof. reflexivity. Qed.
    Lemma chs_nodup : NoDup chs.
    Proof. apply sort_uniq_nodup. Qed.

    (* the main terms pair, channel by channel in config.channels order, bin b of the channel's slice of the data
       with the model's expected rate of that bin *)
    Theorem main_terms_blocks data : (nmaindata N sp <= length data)%nat ->
      main_terms N interp_add interp_mul sp chs smps mods st md par (firstn (nmaindata N sp) data) =
      flat_map (fun cn => tab (nbins N sp cn) (fun b => TPois (obs_of data cn b)
                  (rate N interp_add interp_mul sp chs smps mods st md par cn b))) chs.
    Proof.
      intros Hlen. unfold main_terms, expected_actualdata_hot. rewrite nmaindata_total.
      pose proof (combine_blocks (nbins N sp) 0 (rate N interp_add interp_mul sp chs smps mods st md par) chs data O chs_nodup) as P.
      simpl in P. rewrite P by (rewrite <- nmaindata_total; exact Hlen). rewrite map_flat_map.
      apply flat_map_ext_in. intros cn Hcn. rewrite map_tab. apply tab_ext. intros b _. simpl.
      unfold obs_of. now rewrite (chan_start_off cn Hcn).
    Qed.

    Hypothesis Hring : ring_theory 0 1 (nadd N) (nmul N) (nsub N) (nopp N) eq.
    Hypothesis Hchan : NoDup (map c_name (channels sp)).
    Hypothesis Hsamp : forall c, In c (channels sp) -> NoDup (map s_name (c_samples c)).
    Hypothesis Hmods : forall c s, In c (channels sp) -> In s (c_samples c) -> NoDup (map mkey (s_mods s)).
    Hypothesis Hshape : forall c s m, In c (channels sp) -> In s (c_samples c) -> In m (s_mods s) ->
      match m_type m with
      | Histosys => exists lo hi, m_data m = MDHisto lo hi
      | Normsys => exists lo hi, m_data m = MDNorm lo hi
      | _ => True end.
    Hypothesis Hclip : match clip_sample N st with None => True | Some c => nltb N 0 c = false end.
    Hypothesis Hlayout : layout_ok N sp md.

    (* ... which is the template's main term list: one Poisson(observed count | template rate) per bin of every channel *)
    Theorem main_terms_refine data : (nmaindata N sp <= length data)%nat ->
      main_terms N interp_add interp_mul sp chs smps mods st md par (firstn (nmaindata N sp) data) =
      ref_main_terms N interp_add interp_mul (normsys_code N st) (histosys_code N st) (clip_sample N st) (clip_bin N st) sp
                     (theta N md par) (obs_of data).
    Proof.
      intros Hlen. rewrite (main_terms_blocks data Hlen). unfold ref_main_terms, sorted_channels.
      assert (G : forall f : string -> list (term N), flat_map f chs = flat_map (fun c => f (c_name c)) (ssort c_name (channels sp))).
      { intros f. rewrite (cfg_channels_sorted N sp Hchan). apply flat_map_map. }
      rewrite G. clear G.
      apply flat_map_ext_in. intros c Hcs.
      assert (Hc : In c (channels sp)) by (unfold ssort in Hcs; now apply isort_in in Hcs).
      rewrite (nbins_is N sp Hchan c Hc). fold (chan_nbins N c). unfold tab.
      apply map_ext_in. intros b Hb. apply in_seq in Hb. f_equal.
      apply (rate_refines N Hring interp_add interp_mul sp st md par Hchan Hsamp Hmods Hshape Hclip Hlayout c Hc b). lia.
    Qed.
  End Main.

  (* ================= 4. sums of log-densities ================= *)
  Section Sums.
    Hypothesis Hring : ring_theory 0 1 (nadd N) (nmul N) (nsub N) (nopp N) eq.
    Add Ring NRt : Hring.
    Variable logpois : V -> V -> V.              (* n lambda |-> log Poisson(n | lambda): what it is is property C04 *)
    Variable lognorm : V -> V -> V -> V.         (* x mu variance |-> log Normal(x | mu, sqrt variance) *)
    Definition logdens (t : term N) : V := match t with TPois n lam => logpois n lam | TNorm x mu var => lognorm x mu var end.
    Definition sumlog (l : list (term N)) : V := fold_right (nadd N) 0 (map logdens l).

    Lemma sumlog_app l1 l2 : sumlog (l1 ++ l2) = sumlog l1 + sumlog l2.
    Proof. unfold sumlog. induction l1 as [|a l1 IH]; simpl; [ring|]. rewrite IH. ring. Qed.
    Lemma sumlog_perm l l' : Permutation l l' -> sumlog l = sumlog l'.
    Proof.
      intros Hp. unfold sumlog.
      apply (foldm_perm V (nadd N) 0); [intros; ring|intros; ring|]. now apply Permutation_map.
    Qed.

    Variable interp_add interp_mul : string -> V -> V -> V -> V -> V.
    (* the full log-density is the main-only log-density plus the constraint-only log-density *)
    Theorem main_plus_constraint sp st md pars data l :
      logpdf_terms N interp_add interp_mul sp st md pars data = Ok l ->
      let mainl := main_terms N interp_add interp_mul sp (cfg_channels N sp) (cfg_samples N sp) (cfg_modifiers N sp) st md (parf N pars)
                              (firstn (nmaindata N sp) data) in
      let consl := cterms N (parf N pars) (md_psets N md) (skipn (nmaindata N sp) data) O in
      l = mainl ++ consl /\ sumlog l = sumlog mainl + sumlog consl /\
      length pars = md_npars N md /\ length data = (nmaindata N sp + length (md_auxdata N md))%nat.
    Proof.
      unfold logpdf_terms, logpdf_terms_hot. intros H.
      destruct (Nat.eqb (length pars) (md_npars N md)) eqn:E1; [|discriminate].
      destruct (Nat.eqb (length data) (nmaindata N sp + length (md_auxdata N md))) eqn:E2; [|discriminate].
      simpl in H. inversion H; subst. apply Nat.eqb_eq in E1, E2. repeat split; auto. apply sumlog_app.
    Qed.
  End Sums.
End Terms.
