(* Folds over a commutative monoid: a fold over a duplicate-free superset whose extra elements contribute the
   neutral element equals the fold over the subset; partition of a fold by a finite classification. *)
From Coq Require Import Bool Arith Lia Permutation List.
Import ListNotations.
Local Open Scope list_scope.

Section CM.
  Variable V : Type.
  Variable op : V -> V -> V.
  Variable e : V.
  Hypothesis op_comm : forall a b, op a b = op b a.
  Hypothesis op_assoc : forall a b c, op a (op b c) = op (op a b) c.
  Hypothesis op_e : forall a, op e a = a.
  Definition foldm (l : list V) : V := fold_right op e l.

  Lemma op_e_r a : op a e = a. Proof. rewrite op_comm. apply op_e. Qed.
  Lemma foldm_app l1 l2 : foldm (l1 ++ l2) = op (foldm l1) (foldm l2).
  Proof. induction l1; simpl; [now rewrite op_e|]. now rewrite IHl1, op_assoc. Qed.
  Lemma foldm_perm l l' : Permutation l l' -> foldm l = foldm l'.
  Proof.
    induction 1 as [|x l l' Hp IH|x y l|l l' l'' Hp1 IH1 Hp2 IH2]; simpl; auto.
    - now rewrite IH.
    - rewrite !op_assoc. f_equal. apply op_comm.
    - congruence.
  Qed.
  Lemma foldm_neutral {A} (g : A -> V) l : (forall x, In x l -> g x = e) -> foldm (map g l) = e.
  Proof. induction l; simpl; intros H; auto. rewrite H by auto. rewrite op_e. apply IHl. auto. Qed.

  (* big is duplicate free, contains small, and g is neutral outside small *)
  Lemma foldm_superset {A} (g : A -> V) : forall small big : list A,
    NoDup small -> NoDup big -> incl small big -> (forall x, In x big -> ~ In x small -> g x = e) ->
    foldm (map g big) = foldm (map g small).
  Proof.
    induction small as [|k t IH]; intros big Hs Hb Hi Hz.
    - simpl. apply foldm_neutral. intros x Hx. apply Hz; auto.
    - inversion Hs as [|? ? Hkt Ht]; subst.
      assert (Hk : In k big) by (apply Hi; now left).
      destruct (in_split _ _ Hk) as [l1 [l2 ->]].
      assert (Hb' : NoDup (l1 ++ l2)) by (eapply NoDup_remove_1; eauto).
      assert (Hk' : ~ In k (l1 ++ l2)) by (eapply NoDup_remove_2; eauto).
      assert (Hp : Permutation (l1 ++ k :: l2) (k :: l1 ++ l2)) by (symmetry; apply Permutation_middle).
      rewrite (foldm_perm _ _ (Permutation_map g Hp)). simpl. f_equal. apply IH; auto.
      + intros x Hx. assert (Hx' : In x (l1 ++ k :: l2)) by (apply Hi; now right).
        apply in_app_or in Hx'. apply in_or_app. destruct Hx' as [H|[H|H]]; auto. subst. contradiction.
      + intros x Hx Hn. apply Hz.
        * apply in_app_or in Hx. apply in_or_app. destruct Hx; auto. right. now right.
        * intros [H|H]; [subst; contradiction|contradiction].
  Qed.

  (* elements whose value is neutral can be filtered out *)
  Lemma foldm_filter {A} (g : A -> V) (p : A -> bool) l : (forall x, In x l -> p x = false -> g x = e) ->
    foldm (map g l) = foldm (map g (filter p l)).
  Proof.
    induction l as [|a l IH]; simpl; intros H; auto.
    destruct (p a) eqn:E; simpl.
    - f_equal. apply IH. auto.
    - rewrite (H a) by auto. rewrite op_e. apply IH. auto.
  Qed.

  (* split a fold according to a classification into finitely many classes, each element in exactly one *)
  Lemma foldm_insert_class {C} (ceqb : C -> C -> bool) (h : C -> V) (x : V) (c0 : C) :
    (forall a b, ceqb a b = true <-> a = b) ->
    forall classes, NoDup classes -> In c0 classes ->
    foldm (map (fun c => if ceqb c0 c then op x (h c) else h c) classes) = op x (foldm (map h classes)).
  Proof.
    intros Hc. induction classes as [|c cs IH]; intros Hnd Hin; [destruct Hin|].
    inversion Hnd as [|? ? Hni Hnd']; subst. simpl.
    destruct (ceqb c0 c) eqn:E.
    - apply Hc in E. subst c. rewrite <- op_assoc. f_equal. f_equal. unfold foldm. f_equal. apply map_ext_in. intros c' Hc'.
      destruct (ceqb c0 c') eqn:E'; auto. apply Hc in E'. subst. contradiction.
    - destruct Hin as [Hin|Hin]; [subst; assert (ceqb c0 c0 = true) by (apply Hc; reflexivity); congruence|].
      rewrite (IH Hnd' Hin). rewrite !op_assoc. f_equal. apply op_comm.
  Qed.
  Lemma foldm_partition {A C} (g : A -> V) (cls : A -> C) (ceqb : C -> C -> bool) (classes : list C) :
    (forall a b, ceqb a b = true <-> a = b) -> NoDup classes ->
    forall l, (forall x, In x l -> In (cls x) classes) ->
    foldm (map g l) = foldm (map (fun c => foldm (map g (filter (fun x => ceqb (cls x) c) l))) classes).
  Proof.
    intros Hc Hnd. induction l as [|a l IH]; intros Hin.
    - simpl. symmetry. apply foldm_neutral. auto.
    - simpl. rewrite IH by (intros; apply Hin; now right).
      rewrite <- (foldm_insert_class ceqb (fun c => foldm (map g (filter (fun x => ceqb (cls x) c) l))) (g a) (cls a) Hc classes Hnd)
        by (apply Hin; now left).
      f_equal. apply map_ext. intros c. destruct (ceqb (cls a) c); reflexivity.
  Qed.
End CM.
