(* C02, constraint terms as blocks keyed by parameter NAME.
   Both the implementation model's constraint terms and the template's constraint terms are flat_maps over "blocks"
   (name, kind, [(component, variance or factor)]) that do not depend on parameters or data.  A decidable comparison of
   the two block lists (per family: alpha, lumi, staterror, shapesys) yields the permutation of the term lists for
   EVERY parameter vector and EVERY auxiliary data vector.
   Exported: cblock, block_terms, ref_blocks (= alpha ++ lumi ++ stat ++ shapesys), ref_cterms_blocks, impl_block,
   impl_blocks, impl_cterms_blocks, fam_okb, names_okb, cblocks_okb, blocks_perm, cterms_perm. *)
From Coq Require Import Bool Arith Lia Permutation Ring String List.
Require Import PV.Num PV.Sort PV.Spec PV.Impl PV.Ref PV.Wf PV.Config PV.RefineLookup PV.RefineMonoid PV.RefineRates PV.RefineTerms.
Import ListNotations.
Local Open Scope list_scope.

Lemma list_eqb_eq {A} (eqb : A -> A -> bool) : (forall a b, eqb a b = true -> a = b) ->
  forall l l', list_eqb eqb l l' = true -> l = l'.
Proof.
  intros H. induction l as [|a l IH]; intros [|b l'] E; simpl in E; try discriminate; auto.
  apply andb_true_iff in E. destruct E as [E1 E2]. f_equal; auto.
Qed.
Lemma list_eqb_refl {A} (eqb : A -> A -> bool) : (forall a, eqb a a = true) -> forall l, list_eqb eqb l l = true.
Proof. intros H. induction l; simpl; auto. now rewrite H, IHl. Qed.

Lemma rt_find_pset_in N (ps : list (pset N)) p : NoDup (map (p_name N) ps) -> In p ps -> find_pset N ps (p_name N p) = Some p.
Proof.
  intros Hnd Hin. unfold find_pset. apply find_unique; auto; [apply String.eqb_refl|].
  intros y Hy He. apply String.eqb_eq in He. eapply NoDup_map_inj_in; eauto.
Qed.
Lemma rt_find_pset_some N (ps : list (pset N)) name p : find_pset N ps name = Some p -> In p ps /\ p_name N p = name.
Proof. unfold find_pset. intros H. apply find_some in H. destruct H as [H1 H2]. apply String.eqb_eq in H2. auto. Qed.

Section Blocks.
  Variable N : Num.
  Notation V := (V N).
  Notation "0" := (n0 N). Notation "1" := (n1 N).
  Infix "+" := (nadd N). Infix "*" := (nmul N).
  Variable sp : spec N.

  (* name, Poisson?, list of (component, variance | factor) *)
  Definition cblock : Type := string * (bool * list (nat * V)).
  Definition block_terms (theta aux : string -> nat -> V) (b : cblock) : list (term N) :=
    map (fun iv => if fst (snd b) then TPois (aux (fst b) (fst iv)) (theta (fst b) (fst iv) * snd iv)
                   else TNorm (aux (fst b) (fst iv)) (theta (fst b) (fst iv)) (snd iv)) (snd (snd b)).

  (* ---------- the template (Ref.ref_cterms) as blocks ---------- *)
  Definition sig2_or (n : string) (k : nat) (d : V) : V := match user_sigmas2 N sp n k with Some v => v | None => d end.
  Definition fac_or (n : string) (k : nat) (d : V) : V := match user_factor N sp n k with Some f => f | None => d end.
  Definition ref_alpha_blocks : list cblock := map (fun n => (n, (false, [(O, 1)]))) (alpha_names N sp).
  Definition ref_lumi_blocks : list cblock := map (fun n => (n, (false, [(O, sig2_or n O 1)]))) (names_with N sp Lumi).
  Definition ref_stat_block (n : string) : cblock :=
    (n, (false, flat_map (fun c => if chan_has N c n Staterror then
                                     map (fun b => ((stat_offset N sp n c + b)%nat,
                                                    sig2_or n (stat_offset N sp n c + b)%nat (stat_delta2 N n c b)))
                                         (seq O (chan_nbins N c))
                                   else []) (sorted_channels N sp))).
  Definition ref_stat_blocks : list cblock := map ref_stat_block (names_with N sp Staterror).
  Definition ref_shapesys_block (c : channel N) (s : sample N) (m : modifier N) : list cblock :=
    match m_type m, m_data m with
    | Shapesys, MDList unc => [(m_name m, (true, map (fun b => (b, fac_or (m_name m) b (shapesys_tau N s unc b))) (seq O (chan_nbins N c))))]
    | _, _ => [] end.
  Definition ref_shapesys_blocks : list cblock :=
    flat_map (fun c => flat_map (fun s => flat_map (ref_shapesys_block c s) (s_mods s)) (c_samples c)) (channels sp).
  Definition ref_blocks : list cblock := ref_alpha_blocks ++ ref_lumi_blocks ++ ref_stat_blocks ++ ref_shapesys_blocks.

  Lemma flat_map_app' {A B} (f : A -> list B) l1 l2 : flat_map f (l1 ++ l2) = flat_map f l1 ++ flat_map f l2.
  Proof. induction l1; simpl; auto. now rewrite IHl1, app_assoc. Qed.
  Lemma flat_map_singleton {A B} (f : A -> B) l : flat_map (fun a => [f a]) l = map f l.
  Proof. induction l; simpl; congruence. Qed.
  Lemma flat_map_flat_map {A B C} (f : B -> list C) (g : A -> list B) l : flat_map f (flat_map g l) = flat_map (fun a => flat_map f (g a)) l.
  Proof. induction l; simpl; auto. now rewrite flat_map_app', IHl. Qed.

  Theorem ref_cterms_blocks theta aux : ref_cterms N sp theta aux = flat_map (block_terms theta aux) ref_blocks.
  Proof.
    unfold ref_cterms, ref_blocks. rewrite !flat_map_app'. apply f_equal2; [|apply f_equal2; [|apply f_equal2]].
    - unfold ref_alpha_blocks. rewrite flat_map_map. unfold block_terms. simpl. now rewrite flat_map_singleton.
    - unfold ref_lumi_blocks. rewrite flat_map_map. unfold block_terms, sig2_or. simpl. now rewrite flat_map_singleton.
    - unfold ref_stat_blocks. rewrite flat_map_map. apply flat_map_ext_in. intros n _.
      unfold block_terms, ref_stat_block. cbn [fst snd]. rewrite map_flat_map. apply flat_map_ext_in. intros c _.
      destruct (chan_has N c n Staterror); [|reflexivity]. rewrite map_map. reflexivity.
    - unfold ref_shapesys_blocks. rewrite flat_map_flat_map. apply flat_map_ext_in. intros c _.
      rewrite flat_map_flat_map. apply flat_map_ext_in. intros s _.
      rewrite flat_map_flat_map. apply flat_map_ext_in. intros m _.
      unfold ref_shapesys_block. destruct (m_type m); try reflexivity. destruct (m_data m); try reflexivity.
      simpl. rewrite app_nil_r. unfold block_terms. cbn [fst snd]. rewrite map_map. reflexivity.
  Qed.

  (* ---------- the implementation model's constraint terms as blocks ---------- *)
  Definition impl_block (p : pset N) : cblock :=
    (p_name N p, match p_type N p with
                 | PPoisson => (true, tab (p_n N p) (fun i => (i, fac_of N p i)))
                 | _ => (false, tab (p_n N p) (fun i => (i, var_of N p i))) end).
  Definition impl_blocks (ps : list (pset N)) : list cblock := map impl_block (filter (constrained N) ps).
  (* auxiliary datum of component k of the parameter called name: position assigned by the configuration *)
  Definition aux_by_name (ps : list (pset N)) (auxd : list V) (name : string) (k : nat) : V :=
    nth (aux_offset N ps name + k) auxd 0.

  Theorem impl_cterms_blocks md par auxd : NoDup (map (p_name N) (md_psets N md)) ->
    cterms N par (md_psets N md) auxd O =
    flat_map (block_terms (theta N md par) (aux_by_name (md_psets N md) auxd)) (impl_blocks (md_psets N md)).
  Proof.
    intros Hnd. rewrite (cterms_structure N par auxd _ Hnd). unfold impl_blocks. rewrite flat_map_map.
    apply flat_map_ext_in. intros p Hp. apply filter_In in Hp. destruct Hp as [Hp _].
    assert (Hs : pstart N md (p_name N p) = p_start N p) by (unfold pstart; now rewrite (rt_find_pset_in N _ p Hnd Hp)).
    unfold block_terms, impl_block, term_of, theta, aux_by_name. cbn [fst snd]. rewrite Hs.
    destruct (p_type N p); cbn [fst snd]; rewrite map_tab; reflexivity.
  Qed.

  (* ---------- decidable comparison ---------- *)
  Definition iv_eqb (a b : nat * V) : bool := Nat.eqb (fst a) (fst b) && neqb N (snd a) (snd b).
  Definition block_eqb (a b : cblock) : bool :=
    String.eqb (fst a) (fst b) && Bool.eqb (fst (snd a)) (fst (snd b)) && list_eqb iv_eqb (snd (snd a)) (snd (snd b)).
  (* every block of the family is the block of the constrained parameter set of that name *)
  Definition fam_okb (ps : list (pset N)) (fam : list cblock) : bool :=
    forallb (fun rb => match find_pset N ps (fst rb) with
                       | Some p => constrained N p && block_eqb (impl_block p) rb
                       | None => false end) fam.
  (* the template's block names are pairwise distinct, and every constrained parameter set is named by one of them *)
  Definition names_okb (ps : list (pset N)) : bool :=
    negb (has_dup (map fst ref_blocks)) &&
    forallb (fun p => negb (constrained N p) || existsb (String.eqb (p_name N p)) (map fst ref_blocks)) ps.
  Definition alpha_okb ps := fam_okb ps ref_alpha_blocks.
  Definition lumi_okb ps := fam_okb ps ref_lumi_blocks.
  Definition stat_okb ps := fam_okb ps ref_stat_blocks.
  Definition shapesys_okb ps := fam_okb ps ref_shapesys_blocks.
  Definition cblocks_okb (ps : list (pset N)) : bool :=
    names_okb ps && alpha_okb ps && lumi_okb ps && stat_okb ps && shapesys_okb ps.

  Lemma fam_okb_app ps f1 f2 : fam_okb ps (f1 ++ f2) = fam_okb ps f1 && fam_okb ps f2.
  Proof. unfold fam_okb. apply forallb_app. Qed.

  (* boolean equality of numbers is sound (it is, for the rationals and for the reals) *)
  Hypothesis Heqb : forall a b : V, neqb N a b = true -> a = b.
  Lemma block_eqb_eq a b : block_eqb a b = true -> a = b.
  Proof.
    destruct a as [na [ka la]], b as [nb [kb lb]]. unfold block_eqb. cbn [fst snd]. intros H.
    apply andb_true_iff in H. destruct H as [H H3]. apply andb_true_iff in H. destruct H as [H1 H2].
    apply String.eqb_eq in H1. apply Bool.eqb_prop in H2. subst.
    f_equal. f_equal. apply (list_eqb_eq iv_eqb); auto.
    intros [i v] [j w] E. unfold iv_eqb in E. cbn [fst snd] in E. apply andb_true_iff in E. destruct E as [E1 E2].
    apply Nat.eqb_eq in E1. apply Heqb in E2. now subst.
  Qed.

  Lemma impl_block_name p : fst (impl_block p) = p_name N p.
  Proof. reflexivity. Qed.

  (* Prop forms *)
  Definition fam_ok (ps : list (pset N)) (fam : list cblock) : Prop :=
    forall rb, In rb fam -> exists p, In p ps /\ p_name N p = fst rb /\ constrained N p = true /\ impl_block p = rb.
  Definition names_covered (ps : list (pset N)) : Prop :=
    forall p, In p ps -> constrained N p = true -> In (p_name N p) (map fst ref_blocks).
  Lemma fam_ok_app ps f1 f2 : fam_ok ps f1 -> fam_ok ps f2 -> fam_ok ps (f1 ++ f2).
  Proof. intros H1 H2 rb Hin. apply in_app_or in Hin. destruct Hin; auto. Qed.
  Lemma fam_okb_ok ps fam : fam_okb ps fam = true -> fam_ok ps fam.
  Proof.
    unfold fam_okb. rewrite forallb_forall. intros Hf rb Hrb. specialize (Hf rb Hrb).
    destruct (find_pset N ps (fst rb)) as [p|] eqn:Ef; [|discriminate].
    apply andb_true_iff in Hf. destruct Hf as [Hc He]. apply block_eqb_eq in He.
    apply rt_find_pset_some in Ef. destruct Ef as [Hp Hname]. exists p. auto.
  Qed.
  Lemma names_okb_ok ps : names_okb ps = true -> NoDup (map fst ref_blocks) /\ names_covered ps.
  Proof.
    unfold names_okb. intros Hn. apply andb_true_iff in Hn. destruct Hn as [Hn1 Hn2].
    apply negb_true_iff in Hn1. apply has_dup_false_NoDup in Hn1. split; auto.
    rewrite forallb_forall in Hn2. intros p Hp Hc. specialize (Hn2 p Hp). rewrite Hc in Hn2. simpl in Hn2.
    apply existsb_exists in Hn2. destruct Hn2 as [nm [Hnm He]]. apply String.eqb_eq in He. now subst nm.
  Qed.

  Theorem blocks_perm_prop ps : NoDup (map (p_name N) ps) -> NoDup (map fst ref_blocks) -> names_covered ps ->
    fam_ok ps ref_blocks -> Permutation (impl_blocks ps) ref_blocks.
  Proof.
    intros Hnd Hn1 Hn2 Hfam.
    apply NoDup_Permutation.
    - (* impl blocks are distinct: their names are *)
      apply (NoDup_map_inv fst). unfold impl_blocks. rewrite map_map.
      assert (G : forall l : list (pset N), NoDup (map (p_name N) l) -> NoDup (map (fun x => fst (impl_block x)) (filter (constrained N) l))).
      { induction l as [|q l IH]; simpl; intros H; [constructor|]. inversion H as [|? ? Hni H']; subst.
        destruct (constrained N q); simpl; auto. constructor; auto.
        intros Hin. apply Hni. apply in_map_iff in Hin. destruct Hin as [x [Hx Hin]]. apply filter_In in Hin.
        apply in_map_iff. exists x. split; [exact Hx|tauto]. }
      now apply G.
    - now apply (NoDup_map_inv fst).
    - intros x. split.
      + intros Hx. unfold impl_blocks in Hx. apply in_map_iff in Hx. destruct Hx as [p [<- Hp]].
        apply filter_In in Hp. destruct Hp as [Hp Hc]. specialize (Hn2 p Hp Hc).
        apply in_map_iff in Hn2. destruct Hn2 as [rb [Hrbn Hrb]].
        destruct (Hfam rb Hrb) as [p' [Hp' [Hname [Hc' Hb]]]].
        assert (p' = p) by (eapply NoDup_map_inj_in; eauto; congruence). subst p'. now rewrite Hb.
      + intros Hx. destruct (Hfam x Hx) as [p [Hp [Hname [Hc Hb]]]]. rewrite <- Hb.
        unfold impl_blocks. apply in_map. apply filter_In. auto.
  Qed.

  Theorem cterms_perm_prop md par auxd : NoDup (map (p_name N) (md_psets N md)) ->
    NoDup (map fst ref_blocks) -> names_covered (md_psets N md) -> fam_ok (md_psets N md) ref_blocks ->
    Permutation (cterms N par (md_psets N md) auxd O)
                (ref_cterms N sp (theta N md par) (aux_by_name (md_psets N md) auxd)).
  Proof.
    intros Hnd H1 H2 H3. rewrite (impl_cterms_blocks md par auxd Hnd), ref_cterms_blocks.
    apply Permutation_flat_map. now apply blocks_perm_prop.
  Qed.

  Theorem blocks_perm ps : NoDup (map (p_name N) ps) -> names_okb ps = true -> fam_okb ps ref_blocks = true ->
    Permutation (impl_blocks ps) ref_blocks.
  Proof.
    intros Hnd Hn Hf. destruct (names_okb_ok ps Hn) as [H1 H2]. apply blocks_perm_prop; auto. now apply fam_okb_ok.
  Qed.

  Lemma cblocks_okb_split ps : cblocks_okb ps = true -> names_okb ps = true /\ fam_okb ps ref_blocks = true.
  Proof.
    unfold cblocks_okb, alpha_okb, lumi_okb, stat_okb, shapesys_okb, ref_blocks. rewrite !fam_okb_app.
    intros H. apply andb_true_iff in H. destruct H as [H H4]. apply andb_true_iff in H. destruct H as [H H3].
    apply andb_true_iff in H. destruct H as [H H2]. apply andb_true_iff in H. destruct H as [H0 H1].
    split; [exact H0|]. rewrite H1, H2, H3, H4. reflexivity.
  Qed.

  (* for every parameter vector and every auxiliary data vector: the model's constraint terms are a permutation of the template's *)
  Theorem cterms_perm md par auxd : NoDup (map (p_name N) (md_psets N md)) -> cblocks_okb (md_psets N md) = true ->
    Permutation (cterms N par (md_psets N md) auxd O)
                (ref_cterms N sp (theta N md par) (aux_by_name (md_psets N md) auxd)).
  Proof.
    intros Hnd Hok. apply cblocks_okb_split in Hok. destruct Hok as [Hn Hf].
    rewrite (impl_cterms_blocks md par auxd Hnd), ref_cterms_blocks.
    apply Permutation_flat_map. now apply blocks_perm.
  Qed.
End Blocks.
