(* C16 - tie to the source: the definitions translated on every run from pyhf/workspace.py
   (coq/gen/WorkspaceGen.v, written by harness/props/c16_tie.py) coincide with the hand model of Workspace.v - as functions on the
   workspace AST (no fingerprints).  The proofs succeed only while the translated text means what the model says. *)
From Coq Require Import Bool Arith Lia String QArith Qcanon List.
Require Import PV.Sort PV.Json PV.Workspace PV.gen.WorkspaceGen.
Import ListNotations.
Local Open Scope nat_scope.
Local Open Scope list_scope.

(* ---------- readings of python constructs ---------- *)
Lemma fold_left_ext {A B} (f g : A -> B -> A) : (forall a b, f a b = g a b) -> forall l a, fold_left f l a = fold_left g l a.
Proof. intros E l. induction l as [|x t IH]; intros a; simpl; [reflexivity|]. now rewrite E, IH. Qed.

(* l[i][key] = f(l[i][..]): the element read at i is the element written at i *)
Lemma update_at_nth {A} (f : A -> A) (d : A) : forall (l : list A) i, update_at i (fun _ => f (nth i l d)) l = update_at i f l.
Proof. induction l as [|x t IH]; intros [|i]; simpl; try reflexivity. now rewrite IH. Qed.

(* Counter(names).items() filtered by count > 1 = the names occurring twice *)
Lemma counter_dups (names : list string) :
  map (fun x : string * nat => fst x) (filter (fun x => Nat.ltb 1 (snd x)) (map (fun n => (n, count_str n names)) (dedup names))) = dups names.
Proof. unfold dups. induction (dedup names) as [|n t IH]; simpl; [reflexivity|].
  destruct (Nat.ltb 1 (count_str n names)); simpl; now rewrite IH. Qed.

Lemma nonempty_map {A B} (f : A -> B) l : nonempty (map f l) = nonempty l.
Proof. now destruct l. Qed.

(* `for x in l: if not p(x): raise` against the model's forallb *)
Lemma find_first_forallb {X R} (p : X -> bool) (l : list X) (a b : R) :
  match find_first (fun x => negb (p x)) l with Some _ => a | None => b end = if negb (forallb p l) then a else b.
Proof. induction l as [|x t IH]; simpl; [reflexivity|]. destruct (p x); simpl; [exact IH|reflexivity]. Qed.

Lemma forallb_ext' {X} (p q : X -> bool) l : (forall x, p x = q x) -> forallb p l = forallb q l.
Proof. intros E. induction l as [|x t IH]; simpl; [reflexivity|]. now rewrite E, IH. Qed.

Lemma mem_str_filter_neq s x l : mem_str s (filter (fun y => negb (String.eqb x y)) l) = negb (String.eqb x s) && mem_str s l.
Proof. unfold mem_str. induction l as [|y t IH]; simpl; [now rewrite andb_false_r|].
  destruct (String.eqb_spec x y) as [e|ne]; simpl.
  - rewrite IH. subst y. destruct (String.eqb_spec s x) as [e|ne]; [subst; now rewrite String.eqb_refl|].
    destruct (String.eqb_spec x s); [congruence|reflexivity].
  - rewrite IH. destruct (String.eqb_spec s y) as [e|ne2]; simpl; [|reflexivity].
    subst y. destruct (String.eqb_spec x s); [congruence|reflexivity]. Qed.
Lemma mem_str_dedup s l : mem_str s (dedup l) = mem_str s l.
Proof. induction l as [|x t IH]; [reflexivity|]. simpl dedup. unfold mem_str at 1. simpl existsb. fold (mem_str s (filter (fun y => negb (String.eqb x y)) (dedup t))).
  rewrite mem_str_filter_neq, IH. unfold mem_str at 2. simpl.
  destruct (String.eqb_spec s x) as [e|ne]; [reflexivity|]. destruct (String.eqb_spec x s); [congruence|reflexivity]. Qed.

Lemma result_eta {A} (x : result A) : match x with Ok a => Ok a | Err e => Err e end = x.
Proof. now destruct x. Qed.

(* ---------- _join_items ---------- *)
Ltac tie_flat := intros; cbv zeta; apply fold_left_ext; intros ? ?; unfold join_step;
  match goal with |- context [mem_str ?a ?b] => destruct (mem_str a b) | _ => idtac end; reflexivity.

Lemma tie_join_items_sample_left l r : gen_join_items_sample_left l r = join_items sample s_name sample_eqb None JLeft l r.
Proof. unfold gen_join_items_sample_left, join_items. tie_flat. Qed.
Lemma tie_join_items_pconfig_outer l r : gen_join_items_pconfig_outer l r = join_items pconfig p_name pconfig_eqb None JOuter l r.
Proof. unfold gen_join_items_pconfig_outer, join_items. tie_flat. Qed.

Theorem tie_join_items_channel j l r : gen_join_items_channel j l r = join_items channel c_name channel_eqb None j l r.
Proof. destruct j; unfold gen_join_items_channel, gen_join_items_channel_none, gen_join_items_channel_outer, gen_join_items_channel_left,
  gen_join_items_channel_right, join_items; tie_flat. Qed.
Theorem tie_join_items_observation j l r : gen_join_items_observation j l r = join_items observation o_name observation_eqb None j l r.
Proof. destruct j; unfold gen_join_items_observation, gen_join_items_observation_none, gen_join_items_observation_outer, gen_join_items_observation_left,
  gen_join_items_observation_right, join_items; tie_flat. Qed.
Theorem tie_join_items_measurement j l r : gen_join_items_measurement j l r = join_items measurement me_name measurement_eqb None j l r.
Proof. destruct j; unfold gen_join_items_measurement, gen_join_items_measurement_none, gen_join_items_measurement_outer, gen_join_items_measurement_left,
  gen_join_items_measurement_right, join_items; tie_flat. Qed.

(* deep_merge_key='samples': the recursive call is the 'left outer' join of the two sample lists, written back into the joined channel *)
Ltac tie_deep := intros; cbv zeta; apply fold_left_ext; intros s x; unfold join_step;
  match goal with |- context [mem_str ?a ?b] => destruct (mem_str a b) end;
  [ rewrite !tie_join_items_sample_left;
    match goal with |- update_at ?i _ _ = _ => exact (update_at_nth (fun x0 => merge_samples x0 x) dflt_channel s i) end
  | try reflexivity ].
Theorem tie_join_items_channel_deep j l r : gen_join_items_channel_deep j l r = join_items channel c_name channel_eqb (Some merge_samples) j l r.
Proof. destruct j; unfold gen_join_items_channel_deep, gen_join_items_channel_deep_none, gen_join_items_channel_deep_outer, gen_join_items_channel_deep_left,
  gen_join_items_channel_deep_right, join_items; tie_deep. Qed.

(* ---------- the per-section joins ---------- *)
Theorem tie_join_versions j lv rv : gen_join_versions lv rv = join_versions j lv rv.
Proof. reflexivity. Qed.

Theorem tie_join_channels j l r merge : gen_join_channels j l r merge = join_channels j l r merge.
Proof. unfold join_channels. destruct merge.
  - rewrite <- tie_join_items_channel_deep. destruct j; cbn [gen_join_channels gen_join_items_channel_deep];
      unfold gen_join_channels_none, gen_join_channels_outer, gen_join_channels_left, gen_join_channels_right; cbv iota;
      try rewrite counter_dups; reflexivity.
  - rewrite <- tie_join_items_channel. destruct j; cbn [gen_join_channels gen_join_items_channel];
      unfold gen_join_channels_none, gen_join_channels_outer, gen_join_channels_left, gen_join_channels_right; cbv iota;
      try rewrite counter_dups; reflexivity. Qed.

Theorem tie_join_observations j l r : gen_join_observations j l r = join_observations j l r.
Proof. unfold join_observations. rewrite <- tie_join_items_observation. destruct j; cbn [gen_join_observations gen_join_items_observation];
  unfold gen_join_observations_none, gen_join_observations_outer, gen_join_observations_left, gen_join_observations_right;
  try rewrite counter_dups; reflexivity. Qed.

Theorem tie_join_parameter_configs l r : gen_join_parameter_configs l r = join_parameter_configs l r.
Proof. unfold gen_join_parameter_configs, join_parameter_configs. rewrite tie_join_items_pconfig_outer. now rewrite counter_dups. Qed.

(* _join_measurements, 'outer': the grouping dict, the POI check, one merged measurement per group *)
Lemma tie_meas_mapping joined : fold_left (fun d x => dl_append d (me_name x) x) joined [] = meas_mapping joined.
Proof. unfold meas_mapping. apply fold_left_ext. reflexivity. Qed.

Lemma setdefault_append_nonempty mp m : Forall (fun kv => snd kv <> []) mp -> Forall (fun kv : string * list measurement => snd kv <> []) (setdefault_append mp m).
Proof. intros F. unfold setdefault_append. destruct (mem_str (me_name m) (map fst mp)).
  - induction F as [|kv t H1 H2 IH]; simpl; constructor; auto. destruct (String.eqb (fst kv) (me_name m)); simpl; auto. now destruct (snd kv).
  - apply Forall_app. split; auto. constructor; [discriminate|constructor]. Qed.
Lemma meas_mapping_nonempty joined : Forall (fun kv => snd kv <> []) (meas_mapping joined).
Proof. unfold meas_mapping. assert (G : forall l mp, Forall (fun kv : string * list measurement => snd kv <> []) mp -> Forall (fun kv => snd kv <> []) (fold_left setdefault_append l mp)).
  { induction l as [|m t IH]; intros mp F; simpl; auto. apply IH. now apply setdefault_append_nonempty. }
  apply G. constructor. Qed.

Definition merge_body (s : list measurement) (kv : string * list measurement) : result (list measurement) :=
  match merge_group kv with Ok m => Ok (s ++ [m]) | Err e => Err e end.
Lemma foldM_mapM (mp : list (string * list measurement)) : forall acc,
  foldM merge_body mp acc = match mapM merge_group mp with Ok ys => Ok (acc ++ ys) | Err e => Err e end.
Proof. induction mp as [|kv t IH]; intros acc; simpl; [now rewrite app_nil_r|].
  unfold merge_body at 1. destruct (merge_group kv) as [m|e]; simpl; [|reflexivity].
  rewrite IH. destruct (mapM merge_group t); simpl; [now rewrite <- app_assoc|reflexivity]. Qed.
Lemma foldM_ext {X S} (f g : S -> X -> result S) l : (forall s x, In x l -> f s x = g s x) -> forall s, foldM f l s = foldM g l s.
Proof. induction l as [|x t IH]; intros E s; simpl; [reflexivity|]. rewrite (E s x (or_introl eq_refl)).
  destruct (g s x); [|reflexivity]. apply IH. intros; apply E; now right. Qed.

Theorem tie_join_measurements j l r : gen_join_measurements j l r = join_measurements j l r.
Proof. unfold join_measurements. rewrite <- tie_join_items_measurement. destruct j; cbn [gen_join_measurements gen_join_items_measurement];
  unfold gen_join_measurements_none, gen_join_measurements_outer, gen_join_measurements_left, gen_join_measurements_right; try reflexivity.
  cbv zeta. rewrite tie_meas_mapping. rewrite nonempty_map.
  set (mp := meas_mapping (gen_join_items_measurement_outer l r)).
  destruct (nonempty _); [reflexivity|].
  match goal with |- match foldM ?F _ _ with _ => _ end = _ => rewrite (foldM_ext F merge_body mp) end.
  - rewrite foldM_mapM. simpl app. now destruct (mapM merge_group mp).
  - intros s [k ms] Hin. pose proof (meas_mapping_nonempty (gen_join_items_measurement_outer l r)) as NE.
    rewrite Forall_forall in NE. specialize (NE _ Hin). cbn [fst snd] in *. unfold merge_body, merge_group. cbn [fst snd].
    destruct ms as [|m0 [|m1 [|m2 rest]]]; [congruence|reflexivity| |reflexivity].
    cbn [length Nat.eqb negb map nth]. rewrite tie_join_parameter_configs. unfold bind.
    now destruct (join_parameter_configs (me_params m0) (me_params m1)). Qed.

(* ---------- Workspace.combine ---------- *)
Theorem tie_combine l r js merge validate : gen_combine l r js merge validate = combine l r js merge validate.
Proof. unfold gen_combine, combine, join_of_string.
  destruct (String.eqb js "none"); [|destruct (String.eqb js "outer"); [|destruct (String.eqb js "left outer"); [|destruct (String.eqb js "right outer"); [|reflexivity]]]].
  - rewrite andb_true_r. destruct merge; [reflexivity|].
    unfold gen_join_versions, join_versions. rewrite <- (tie_join_channels JNone), <- (tie_join_observations JNone), <- (tie_join_measurements JNone).
    unfold bind. cbn [gen_join_channels gen_join_observations gen_join_measurements].
    repeat match goal with |- match ?X with _ => _ end = _ => destruct X; [|reflexivity] end. first [apply result_eta | reflexivity].
  - rewrite andb_false_r.
    unfold gen_join_versions, join_versions. rewrite <- (tie_join_channels JOuter), <- (tie_join_observations JOuter), <- (tie_join_measurements JOuter).
    unfold bind. cbn [gen_join_channels gen_join_observations gen_join_measurements].
    repeat match goal with |- match ?X with _ => _ end = _ => destruct X; [|reflexivity] end. first [apply result_eta | reflexivity].
  - rewrite andb_false_r.
    unfold gen_join_versions, join_versions. rewrite <- (tie_join_channels JLeft), <- (tie_join_observations JLeft), <- (tie_join_measurements JLeft).
    unfold bind. cbn [gen_join_channels gen_join_observations gen_join_measurements].
    repeat match goal with |- match ?X with _ => _ end = _ => destruct X; [|reflexivity] end. first [apply result_eta | reflexivity].
  - rewrite andb_false_r.
    unfold gen_join_versions, join_versions. rewrite <- (tie_join_channels JRight), <- (tie_join_observations JRight), <- (tie_join_measurements JRight).
    unfold bind. cbn [gen_join_channels gen_join_observations gen_join_measurements].
    repeat match goal with |- match ?X with _ => _ end = _ => destruct X; [|reflexivity] end. first [apply result_eta | reflexivity].
Qed.

(* ---------- _prune_and_rename / prune / rename ---------- *)
Definition od {A} (o : option (list A)) : list A := match o with None => [] | Some x => x end.     (* `[] if x is None else x` *)

Theorem tie_prune_and_rename w pm pt ps pc pme rm rs rc rme :
  gen_prune_and_rename w pm pt ps pc pme rm rs rc rme = prune_and_rename false w (od pm) (od pt) (od ps) (od pc) (od pme) (od rm) (od rs) (od rc) (od rme).
Proof. unfold gen_prune_and_rename, prune_and_rename, all_known, known_types, od.
  rewrite !find_first_forallb.
  rewrite (forallb_ext' (fun x => mem_str x (dedup (map (fun p : string * string => snd p) (ws_modifiers w)))) (fun n => mem_str n (map snd (ws_modifiers w))))
    by (intros; apply mem_str_dedup).
  repeat match goal with |- (if ?c then _ else _) = _ => destruct c; [reflexivity|] end.
  apply result_eta. Qed.

Theorem tie_prune w mods types samples chans meas :
  gen_prune w mods types samples chans meas = prune false w (od mods) (od types) (od samples) (od chans) (od meas).
Proof. unfold gen_prune, prune. rewrite tie_prune_and_rename. apply result_eta. Qed.

Theorem tie_rename w mods samples chans meas :
  gen_rename w mods samples chans meas = rename w (od mods) (od samples) (od chans) (od meas).
Proof. unfold gen_rename, rename. rewrite tie_prune_and_rename. apply result_eta. Qed.

(* ---------- Workspace.sorted ---------- *)
Theorem tie_sorted w : gen_sorted w = sorted w.
Proof. unfold gen_sorted, sorted. apply result_eta. Qed.

(* ---------- non-vacuity: the translated functions on concrete documents ---------- *)
Local Open Scope string_scope.
Local Open Scope list_scope.
Definition ex_s (n : string) : sample := {| s_name := n; s_data := [Q2Qc 1]; s_mods := [{| m_name := "mu"; m_type := "normfactor"; m_data := MNull |}] |}.
Definition ex_c (n : string) (ss : list string) : channel := {| c_name := n; c_samples := map ex_s ss |}.
Example ex_deep_merge :
  gen_join_channels JOuter [ex_c "a" ["s1"]] [ex_c "a" ["s2"]; ex_c "b" ["s1"]] true = Ok [ex_c "a" ["s1"; "s2"]; ex_c "b" ["s1"]].
Proof. reflexivity. Qed.
Example ex_outer_conflict : gen_join_channels JOuter [ex_c "a" ["s1"]] [ex_c "a" ["s2"]] false = Err InvalidWorkspaceOperation.
Proof. reflexivity. Qed.
Example ex_none_common : gen_join_channels JNone [ex_c "a" ["s1"]] [ex_c "a" ["s1"]] false = Err InvalidWorkspaceOperation.
Proof. reflexivity. Qed.
Example ex_right_keeps_right : gen_join_channels JRight [ex_c "a" ["s1"]] [ex_c "a" ["s2"]] false = Ok [ex_c "a" ["s2"]].
Proof. reflexivity. Qed.
Definition ex_w : workspace :=
  {| w_channels := [ex_c "b" ["s2"; "s1"]; ex_c "a" ["s1"]]; w_observations := [{| o_name := "b"; o_data := [Q2Qc 1] |}; {| o_name := "a"; o_data := [Q2Qc 2] |}];
     w_measurements := [{| me_name := "m"; me_poi := "mu"; me_params := [] |}]; w_version := "1.0.0" |}.
Example ex_sorted : option_map (fun w => map c_name (w_channels w)) (match gen_sorted ex_w with Ok w => Some w | Err _ => None end) = Some ["a"; "b"]%string.
Proof. reflexivity. Qed.
Example ex_prune_unknown : gen_prune ex_w None None (Some ["nope"%string]) None None = Err InvalidWorkspaceOperation.
Proof. reflexivity. Qed.
Example ex_prune_sample : option_map (fun w => map (fun c => map s_name (c_samples c)) (w_channels w))
    (match gen_prune ex_w None None (Some ["s2"%string]) None None with Ok w => Some w | Err _ => None end) = Some [["s1"]; ["s1"]]%string.
Proof. reflexivity. Qed.
Example ex_combine_bad_join : gen_combine ex_w ex_w "inner" false true = Err PyValueError.
Proof. reflexivity. Qed.
