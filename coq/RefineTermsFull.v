(* C02, premise-free form: with the access-field layout derived from build = Ok (RefineLayout.v) the term-list refinement
   holds for every accepted specification under the JSON-schema shapes and the documented clip guard only. *)
From Coq Require Import Bool Arith Lia Permutation Ring String QArith Qcanon Reals List.
Require Import PV.Num PV.Sort PV.Spec PV.Impl PV.Ref PV.RefineRates PV.RefineTop PV.RefineLayout
               PV.RefineTerms PV.RefineTermsBlocks PV.RefineTermsTop PV.RefineTermsFinal.
Import ListNotations.
Local Open Scope list_scope.

Theorem logpdf_terms_refines : forall N,
  ring_theory (n0 N) (n1 N) (nadd N) (nmul N) (nsub N) (nopp N) eq ->
  (forall a b : Num.V N, neqb N a b = true -> a = b) -> (forall a b : Num.V N, ndiv N a b = nmul N a (ninv N b)) ->
  forall interp_add interp_mul (sp : spec N) st md pars data l,
  build N sp = Ok md -> list_shape_ok N sp -> shape_ok N sp -> clip_guard N st ->
  logpdf_terms N interp_add interp_mul sp st md pars data = Ok l ->
  Permutation l (ref_terms N interp_add interp_mul (normsys_code N st) (histosys_code N st) (clip_sample N st) (clip_bin N st) sp
                           (theta N md (parf N pars)) (obs_by_name N sp data) (aux_of_data N sp md data)).
Proof. intros N Hr He Hd ia im sp st md pars data l Hb Hls Hs Hc Hl. eapply logpdf_terms_refines_layout; eauto. now apply accepted_layout. Qed.

Theorem logpdf_refines : forall N,
  ring_theory (n0 N) (n1 N) (nadd N) (nmul N) (nsub N) (nopp N) eq ->
  (forall a b : Num.V N, neqb N a b = true -> a = b) -> (forall a b : Num.V N, ndiv N a b = nmul N a (ninv N b)) ->
  forall interp_add interp_mul (sp : spec N) st md logpois lognorm pars data l,
  build N sp = Ok md -> list_shape_ok N sp -> shape_ok N sp -> clip_guard N st ->
  logpdf_terms N interp_add interp_mul sp st md pars data = Ok l ->
  sumlog N logpois lognorm l =
  sumlog N logpois lognorm (ref_terms N interp_add interp_mul (normsys_code N st) (histosys_code N st) (clip_sample N st) (clip_bin N st) sp
                                      (theta N md (parf N pars)) (obs_by_name N sp data) (aux_of_data N sp md data)).
Proof. intros N Hr He Hd ia im sp st md lp ln pars data l Hb Hls Hs Hc Hl. eapply logpdf_refines_layout; eauto. now apply accepted_layout. Qed.

Theorem logpdf_terms_refines_Qc : forall ia im (sp : spec QcNum) st md pars data l,
  build QcNum sp = Ok md -> list_shape_ok QcNum sp -> shape_ok QcNum sp -> clip_guard QcNum st ->
  logpdf_terms QcNum ia im sp st md pars data = Ok l ->
  Permutation l (ref_terms QcNum ia im (normsys_code QcNum st) (histosys_code QcNum st) (clip_sample QcNum st) (clip_bin QcNum st) sp
                           (theta QcNum md (parf QcNum pars)) (obs_by_name QcNum sp data) (aux_of_data QcNum sp md data)).
Proof. intros. eapply (logpdf_terms_refines QcNum Qcrt QcNum_eqb_sound QcNum_div); eauto. Qed.
Theorem logpdf_terms_refines_R : forall ia im (sp : spec RNum) st md pars data l,
  build RNum sp = Ok md -> list_shape_ok RNum sp -> shape_ok RNum sp -> clip_guard RNum st ->
  logpdf_terms RNum ia im sp st md pars data = Ok l ->
  Permutation l (ref_terms RNum ia im (normsys_code RNum st) (histosys_code RNum st) (clip_sample RNum st) (clip_bin RNum st) sp
                           (theta RNum md (parf RNum pars)) (obs_by_name RNum sp data) (aux_of_data RNum sp md data)).
Proof. intros. eapply (logpdf_terms_refines RNum RTheory RNum_eqb_sound RNum_div); eauto. Qed.
