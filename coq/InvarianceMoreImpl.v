(* C15, implementation level: the specification-level invariances lifted through the C01 refinement
   (expected_refines_accepted_full, RefineLayout.v) and the C02 term-list refinement (logpdf_terms_refines,
   RefineTermsFull.v) to the implementation model: both specifications accepted by `build`, parameter vectors / data
   vectors that agree BY NAME on the components (parameter name, index) the original specification reads.
   Rewrites covered here: zero sample, null systematic, merge, signal rescaling, renaming of the parameters
   (listing order: InvarianceReorder.v). *)
From Coq Require Import Bool Arith Lia Permutation Ring Field String List.
Require Import PV.Num PV.Sort PV.Spec PV.Impl PV.Ref PV.RefineMonoid PV.RefineLookup PV.RefineRates PV.RefineTop PV.Wf PV.RefineLayout
               PV.RefineTermsFinal PV.RefineTermsTop PV.RefineTermsFull
               PV.Invariance PV.InvarianceSpec PV.InvarianceRewrite PV.InvarianceReorder PV.InvarianceRename PV.InvarianceMore.
Import ListNotations.
Local Open Scope list_scope.

(* ------------------------------------------------------------------ the template reads its parameter / data functions only at the names it uses *)
Section ExtIn.
  Variable N : Num.
  Notation V := (V N).
  Variable interp_add interp_mul : string -> V -> V -> V -> V -> V.
  Variables ncode hcode : string.
  Variables clip_s clip_b : option V.
  Notation spec := (spec N). Notation channel := (channel N). Notation sample := (sample N). Notation modifier := (modifier N).
  Notation mfac := (mod_factor N interp_mul ncode).
  Notation mdel := (mod_delta N interp_add hcode).
  Notation srate := (sample_rate N interp_add interp_mul ncode hcode clip_s).
  Notation rrate := (ref_rate N interp_add interp_mul ncode hcode clip_s clip_b).
  Notation rexp := (ref_expected N interp_add interp_mul ncode hcode clip_s clip_b).
  Notation rmain := (ref_main_terms N interp_add interp_mul ncode hcode clip_s clip_b).
  Notation rterms := (ref_terms N interp_add interp_mul ncode hcode clip_s clip_b).

  (* the components the template reads: (parameter name, component) for every listed modifier *)
  Definition scalar_type (t : mtype) : bool := match t with Shapefactor | Shapesys | Staterror => false | _ => true end.
  Definition comp (sp : spec) (c : channel) (m : modifier) (b : nat) : nat :=
    match m_type m with Shapefactor | Shapesys => b | Staterror => (stat_offset N sp (m_name m) c + b)%nat | _ => O end.
  Definition mod_reads (sp : spec) (c : channel) (m : modifier) : list (string * nat) :=
    if scalar_type (m_type m) then [(m_name m, O)] else map (fun b => (m_name m, comp sp c m b)) (seq 0 (chan_nbins N c)).
  Definition read_list (sp : spec) : list (string * nat) :=
    flat_map (fun c => flat_map (fun s => flat_map (mod_reads sp c) (s_mods s)) (c_samples c)) (channels sp).
  Lemma read_in sp c s m b : In c (channels sp) -> In s (c_samples c) -> In m (s_mods s) -> b < chan_nbins N c ->
    In (m_name m, comp sp c m b) (read_list sp).
  Proof. intros Hc Hs Hm Hb. unfold read_list. apply in_flat_map. exists c. split; auto. apply in_flat_map. exists s. split; auto.
    apply in_flat_map. exists m. split; auto. unfold mod_reads. destruct (scalar_type (m_type m)) eqn:E.
    - left. f_equal. unfold comp. destruct (m_type m); auto; discriminate.
    - apply in_map_iff. exists b. split; auto. apply in_seq. lia. Qed.
  Lemma read_in_scalar sp c s m : In c (channels sp) -> In s (c_samples c) -> In m (s_mods s) -> scalar_type (m_type m) = true ->
    In (m_name m, O) (read_list sp).
  Proof. intros Hc Hs Hm Ht. unfold read_list. apply in_flat_map. exists c. split; auto. apply in_flat_map. exists s. split; auto.
    apply in_flat_map. exists m. split; auto. unfold mod_reads. rewrite Ht. now left. Qed.
  (* two name-indexed functions agree on the components sp reads / on the channel names of sp *)
  Definition agree_on (sp : spec) (f g : string -> nat -> V) : Prop := forall n k, In (n, k) (read_list sp) -> f n k = g n k.
  Definition obs_agree (sp : spec) (f g : string -> nat -> V) : Prop :=
    forall c b, In c (channels sp) -> b < chan_nbins N c -> f (c_name c) b = g (c_name c) b.
  Lemma agree_on_all sp f g : (forall n k, f n k = g n k) -> agree_on sp f g. Proof. intros H n k _. apply H. Qed.
  Lemma obs_agree_all sp f g : (forall n k, f n k = g n k) -> obs_agree sp f g. Proof. intros H c b _ _. apply H. Qed.

  Lemma mod_factor_ext_in sp theta theta' c s m b : theta (m_name m) (comp sp c m b) = theta' (m_name m) (comp sp c m b) ->
    mfac sp theta c s m b = mfac sp theta' c s m b.
  Proof. unfold mod_factor, comp. destruct (m_type m); intros H; rewrite ?H; auto. Qed.
  Lemma mod_delta_ext_in sp theta theta' c s m b : theta (m_name m) (comp sp c m b) = theta' (m_name m) (comp sp c m b) ->
    mdel theta s m b = mdel theta' s m b.
  Proof. unfold mod_delta, comp. destruct (m_type m); auto. intros H. destruct (m_data m); auto. now rewrite H. Qed.
  Lemma sample_rate_ext_in sp theta theta' c s b :
    (forall m, In m (s_mods s) -> theta (m_name m) (comp sp c m b) = theta' (m_name m) (comp sp c m b)) ->
    srate sp theta c s b = srate sp theta' c s b.
  Proof. intros H. unfold sample_rate. f_equal. f_equal.
    - f_equal. apply map_ext_in. intros m Hm. apply mod_factor_ext_in. now apply H.
    - f_equal. f_equal. apply map_ext_in. intros m Hm. apply (mod_delta_ext_in sp theta theta' c). now apply H. Qed.
  Lemma ref_rate_ext_in sp theta theta' c b : In c (channels sp) -> b < chan_nbins N c -> agree_on sp theta theta' ->
    rrate sp theta c b = rrate sp theta' c b.
  Proof. intros Hc Hb H. unfold ref_rate. f_equal. f_equal. apply map_ext_in. intros s Hs. apply sample_rate_ext_in. intros m Hm. apply H.
    now apply (read_in sp c s m b). Qed.
  Lemma sorted_in3 (sp : spec) c : In c (sorted_channels N sp) -> In c (channels sp).
  Proof. unfold sorted_channels, ssort. apply isort_in. Qed.
  Lemma ref_expected_ext_in sp theta theta' : agree_on sp theta theta' -> rexp sp theta = rexp sp theta'.
  Proof. intros H. unfold ref_expected. apply flat_map_ext_in2. intros c Hc. apply map_ext_in. intros b Hb. apply in_seq in Hb.
    apply ref_rate_ext_in; auto; [now apply sorted_in3|lia]. Qed.
  Lemma ref_main_terms_ext_in sp theta theta' obs obs' : agree_on sp theta theta' -> obs_agree sp obs obs' -> rmain sp theta obs = rmain sp theta' obs'.
  Proof. intros H Ho. unfold ref_main_terms. apply flat_map_ext_in2. intros c Hc. apply sorted_in3 in Hc. apply map_ext_in. intros b Hb. apply in_seq in Hb.
    rewrite (Ho c b Hc) by lia. f_equal. apply ref_rate_ext_in; auto. lia. Qed.

  Lemma tnames_listed t c n : In n (chan_tnames N t c) -> exists s m, In s (c_samples c) /\ In m (s_mods s) /\ m_type m = t /\ m_name m = n.
  Proof. intros Hin. unfold chan_tnames in Hin. apply in_flat_map in Hin. destruct Hin as [s [Hs Hin]]. apply in_flat_map in Hin.
    destruct Hin as [m [Hm Hin]]. destruct (mtype_eqb (m_type m) t) eqn:E; [|destruct Hin]. destruct Hin as [<-|[]]. apply mtype_eqb_eq in E. eauto 6. Qed.
  Lemma names_with_read0 sp t n : scalar_type t = true -> In n (names_with N sp t) -> In (n, O) (read_list sp).
  Proof. intros Ht H. apply names_with_in in H. destruct H as [c [Hc H]]. destruct (tnames_listed t c n H) as [s [m [Hs [Hm [E1 E2]]]]].
    rewrite <- E2. apply (read_in_scalar sp c s m); auto. now rewrite E1. Qed.
  Lemma alpha_read0 sp n : In n (alpha_names N sp) -> In (n, O) (read_list sp).
  Proof. unfold alpha_names. rewrite nodup_In, in_app_iff. intros [H|H]; [apply (names_with_read0 sp Normsys)|apply (names_with_read0 sp Histosys)]; auto. Qed.
  Lemma chan_has_listed c n t : chan_has N c n t = true -> exists s m, In s (c_samples c) /\ In m (s_mods s) /\ m_type m = t /\ m_name m = n.
  Proof. unfold chan_has. intros H. apply existsb_exists in H. destruct H as [s [Hs H]]. unfold has_mod in H. apply existsb_exists in H.
    destruct H as [m [Hm H]]. apply andb_prop in H. destruct H as [H1 H2]. apply String.eqb_eq in H1. apply mtype_eqb_eq in H2. eauto 6. Qed.

  Lemma ref_cterms_ext_in sp theta theta' aux aux' : agree_on sp theta theta' -> agree_on sp aux aux' ->
    ref_cterms N sp theta aux = ref_cterms N sp theta' aux'.
  Proof. intros Ht Ha. rewrite !ref_cterms_is. f_equal; [|f_equal; [|f_equal]].
    - unfold ct_alpha. apply map_ext_in. intros n Hn. apply alpha_read0 in Hn. now rewrite (Ht n O Hn), (Ha n O Hn).
    - unfold ct_lumi. apply map_ext_in. intros n Hn. apply names_with_read0 in Hn; auto. now rewrite (Ht n O Hn), (Ha n O Hn).
    - unfold ct_stat. apply flat_map_ext_in2. intros n Hn. apply flat_map_ext_in2. intros c Hc. apply sorted_in3 in Hc.
      unfold stat_block. destruct (chan_has N c n Staterror) eqn:E; auto. apply map_ext_in. intros b Hb. apply in_seq in Hb. cbv zeta.
      destruct (chan_has_listed c n Staterror E) as [s [m [Hs [Hm [E1 E2]]]]].
      assert (Hr : In (n, (stat_offset N sp n c + b)%nat) (read_list sp)).
      { assert (H := read_in sp c s m b Hc Hs Hm). unfold comp in H. rewrite E1, E2 in H. apply H. lia. }
      now rewrite (Ht _ _ Hr), (Ha _ _ Hr).
    - unfold ct_shape. apply flat_map_ext_in2. intros c Hc. rewrite !(chan_shape_terms_is N). apply flat_map_ext_in2. intros s Hs.
      apply flat_map_ext_in2. intros m Hm. unfold mod_shape_terms. destruct (m_type m) eqn:E; auto. destruct (m_data m); auto. apply map_ext_in. intros b Hb.
      apply in_seq in Hb. assert (Hr := read_in sp c s m b Hc Hs Hm). unfold comp in Hr. rewrite E in Hr. now rewrite (Ht _ _ (Hr ltac:(lia))), (Ha _ _ (Hr ltac:(lia))). Qed.
  Lemma ref_terms_ext_in sp theta theta' obs obs' aux aux' : agree_on sp theta theta' -> obs_agree sp obs obs' -> agree_on sp aux aux' ->
    rterms sp theta obs aux = rterms sp theta' obs' aux'.
  Proof. intros Ht Ho Ha. unfold ref_terms. f_equal; [now apply ref_main_terms_ext_in|now apply ref_cterms_ext_in]. Qed.
End ExtIn.

(* ------------------------------------------------------------------ the generic lift *)
Section Lift.
  Variable N : Num.
  Notation V := (V N).
  Hypothesis Hring : ring_theory (n0 N) (n1 N) (nadd N) (nmul N) (nsub N) (nopp N) eq.
  Hypothesis Heqb : forall a b : V, neqb N a b = true -> a = b.
  Hypothesis Hdiv : forall a b : V, ndiv N a b = nmul N a (ninv N b).
  Variable ia im : string -> V -> V -> V -> V -> V.
  Variables sp sp' : spec N.
  Variable st : settings N.
  Variables md md' : model N.
  Hypothesis Hb : build N sp = Ok md.
  Hypothesis Hb' : build N sp' = Ok md'.
  Hypothesis Hs : shape_ok N sp.
  Hypothesis Hs' : shape_ok N sp'.
  Hypothesis Hc : clip_guard N st.
  Notation rexp := (ref_expected N ia im (normsys_code N st) (histosys_code N st) (clip_sample N st) (clip_bin N st)).
  Notation rterms := (ref_terms N ia im (normsys_code N st) (histosys_code N st) (clip_sample N st) (clip_bin N st)).
  Notation th m p := (theta N m (parf N p)).

  Theorem lift_expected pars pars' theta0 :
    rexp sp' (th md' pars') = rexp sp theta0 -> agree_on N sp theta0 (th md pars) ->
    expected_actualdata N ia im sp' st md' pars' = expected_actualdata N ia im sp st md pars.
  Proof. intros H Ha.
    rewrite (expected_refines_accepted_full N Hring ia im sp st md pars Hb Hs Hc).
    rewrite (expected_refines_accepted_full N Hring ia im sp' st md' pars' Hb' Hs' Hc).
    rewrite H. now apply ref_expected_ext_in. Qed.

  Theorem lift_terms (A : list (term N)) pars pars' data data' l l' theta0 obs0 aux0 :
    list_shape_ok N sp -> list_shape_ok N sp' ->
    logpdf_terms N ia im sp st md pars data = Ok l -> logpdf_terms N ia im sp' st md' pars' data' = Ok l' ->
    Permutation (rterms sp' (th md' pars') (obs_by_name N sp' data') (aux_of_data N sp' md' data')) (A ++ rterms sp theta0 obs0 aux0) ->
    agree_on N sp theta0 (th md pars) -> obs_agree N sp obs0 (obs_by_name N sp data) -> agree_on N sp aux0 (aux_of_data N sp md data) ->
    Permutation l' (A ++ l).
  Proof. intros Hl Hl' Hlog Hlog' HP Ht Ho Ha.
    rewrite (logpdf_terms_refines N Hring Heqb Hdiv ia im sp' st md' pars' data' l' Hb' Hl' Hs' Hc Hlog').
    rewrite (logpdf_terms_refines N Hring Heqb Hdiv ia im sp st md pars data l Hb Hl Hs Hc Hlog).
    rewrite HP. apply Permutation_app_head. apply Permutation_refl'.
    now apply ref_terms_ext_in. Qed.
End Lift.

(* ------------------------------------------------------------------ the corollaries, rewrite by rewrite *)
Section Corollaries.
  Variable N : Num.
  Notation V := (V N).
  Hypothesis Hring : ring_theory (n0 N) (n1 N) (nadd N) (nmul N) (nsub N) (nopp N) eq.
  Hypothesis Heqb : forall a b : V, neqb N a b = true -> a = b.
  Hypothesis Hdiv : forall a b : V, ndiv N a b = nmul N a (ninv N b).
  Variable ia im : string -> V -> V -> V -> V -> V.
  Variable st : settings N.
  Hypothesis Hc : clip_guard N st.
  Notation th m p := (theta N m (parf N p)).
  Notation nc := (normsys_code N st). Notation hc := (histosys_code N st). Notation cs := (clip_sample N st). Notation cb := (clip_bin N st).

  (* what "the two runs are fed the same parameters and data, by name" means; sp is the ORIGINAL specification *)
  Definition same_pars (sp : spec N) md md' pars pars' : Prop := agree_on N sp (th md' pars') (th md pars).
  Definition same_data (sp sp' : spec N) md md' data data' : Prop :=
    obs_agree N sp (obs_by_name N sp' data') (obs_by_name N sp data) /\ agree_on N sp (aux_of_data N sp' md' data') (aux_of_data N sp md data).

  (* 3. zero sample *)
  Theorem zero_sample_invariant_impl (sp : spec N) pre post c0 s0 md md' pars pars' :
    let sp' := with_channels sp (pre ++ add_sample N s0 c0 :: post) in
    channels sp = pre ++ c0 :: post -> s_mods s0 = [] -> length (s_data s0) = chan_nbins N c0 -> (forall b, nth b (s_data s0) (n0 N) = n0 N) ->
    build N sp = Ok md -> build N sp' = Ok md' -> shape_ok N sp -> shape_ok N sp' ->
    same_pars sp md md' pars pars' ->
    expected_actualdata N ia im sp' st md' pars' = expected_actualdata N ia im sp st md pars /\
    forall data data' l l', list_shape_ok N sp -> list_shape_ok N sp' ->
      logpdf_terms N ia im sp st md pars data = Ok l -> logpdf_terms N ia im sp' st md' pars' data' = Ok l' ->
      same_data sp sp' md md' data data' -> Permutation l' l.
  Proof. intros sp' Hch Hm Hlen Hz Hb Hb' Hs Hs' Hp.
    assert (Hnd := accepted_distinct_channels N sp md Hb).
    assert (Hclip : match cs with Some cv => nltb N (n0 N) cv = false | None => True end) by (unfold clip_guard in Hc; destruct cs; auto).
    split.
    - apply (lift_expected N Hring ia im sp sp' st md md' Hb Hb' Hs Hs' Hc pars pars' (th md' pars')); auto.
      now destruct (zero_sample_invariant_spec N Hring ia im nc hc cs cb sp pre post c0 s0 Hch Hnd Hm Hlen Hz Hclip (th md' pars') (fun _ _ => n0 N) (fun _ _ => n0 N)).
    - intros data data' l l' Hl Hl' Hlog Hlog' [Ho Ha].
      apply (lift_terms N Hring Heqb Hdiv ia im sp sp' st md md' Hb Hb' Hs Hs' Hc [] pars pars' data data' l l' (th md' pars') (obs_by_name N sp' data') (aux_of_data N sp' md' data') Hl Hl' Hlog Hlog'); auto.
      now destruct (zero_sample_invariant_spec N Hring ia im nc hc cs cb sp pre post c0 s0 Hch Hnd Hm Hlen Hz Hclip (th md' pars') (obs_by_name N sp' data') (aux_of_data N sp' md' data')).
  Qed.

  (* 4. null systematic: the rewritten model has exactly one more term, the constraint of the new nuisance parameter, when its name is new *)
  Theorem null_systematic_invariant_impl (sp : spec N) pre post c0 spre spost s1 m0 md md' pars pars' :
    let sp' := with_channels sp (pre ++ with_samples c0 (spre ++ add_mod N m0 s1 :: spost) :: post) in
    channels sp = pre ++ c0 :: post -> c_samples c0 = spre ++ s1 :: spost -> null_mod N ia im nc hc s1 m0 ->
    build N sp = Ok md -> build N sp' = Ok md' -> shape_ok N sp -> shape_ok N sp' ->
    same_pars sp md md' pars pars' ->
    expected_actualdata N ia im sp' st md' pars' = expected_actualdata N ia im sp st md pars /\
    forall data data' l l', list_shape_ok N sp -> list_shape_ok N sp' ->
      logpdf_terms N ia im sp st md pars data = Ok l -> logpdf_terms N ia im sp' st md' pars' data' = Ok l' ->
      same_data sp sp' md md' data data' ->
      (In (m_name m0) (alpha_names N sp) -> Permutation l' l) /\
      (~ In (m_name m0) (alpha_names N sp) ->
         Permutation l' (TNorm (aux_of_data N sp' md' data' (m_name m0) O) (th md' pars' (m_name m0) O) (n1 N) :: l)).
  Proof. intros sp' Hch Hsm Hnull Hb Hb' Hs Hs' Hp.
    assert (Hnd := accepted_distinct_channels N sp md Hb).
    split.
    - apply (lift_expected N Hring ia im sp sp' st md md' Hb Hb' Hs Hs' Hc pars pars' (th md' pars')); auto.
      now destruct (null_systematic_invariant_spec N Hring ia im nc hc cs cb sp pre post c0 spre spost s1 m0 Hch Hsm Hnd Hnull (th md' pars') (fun _ _ => n0 N) (fun _ _ => n0 N)).
    - intros data data' l l' Hl Hl' Hlog Hlog' [Ho Ha].
      destruct (null_systematic_invariant_spec N Hring ia im nc hc cs cb sp pre post c0 spre spost s1 m0 Hch Hsm Hnd Hnull (th md' pars') (obs_by_name N sp' data') (aux_of_data N sp' md' data')) as [_ [H2 H3]].
      split; intros Hin.
      + apply (lift_terms N Hring Heqb Hdiv ia im sp sp' st md md' Hb Hb' Hs Hs' Hc [] pars pars' data data' l l' (th md' pars') (obs_by_name N sp' data') (aux_of_data N sp' md' data') Hl Hl' Hlog Hlog'); auto; now apply H2.
      + apply (lift_terms N Hring Heqb Hdiv ia im sp sp' st md md' Hb Hb' Hs Hs' Hc [TNorm (aux_of_data N sp' md' data' (m_name m0) O) (th md' pars' (m_name m0) O) (n1 N)]
                 pars pars' data data' l l' (th md' pars') (obs_by_name N sp' data') (aux_of_data N sp' md' data') Hl Hl' Hlog Hlog'); auto; now apply H3.
  Qed.

  (* 6. merge of two samples carrying the same modifiers (staterror uncertainties added in quadrature); no per-sample clip *)
  Theorem merge_samples_invariant_impl (sp : spec N) pre post c0 spre spost s1 s2 sm md md' pars pars' :
    let sp' := with_channels sp (pre ++ with_samples c0 (spre ++ sm :: spost) :: post) in
    cs = None ->
    channels sp = pre ++ c0 :: post -> c_samples c0 = spre ++ s1 :: s2 :: spost ->
    Forall2 (mod_sim N) (s_mods s1) (s_mods s2) -> Forall2 (mod_sim N) (s_mods s1) (s_mods sm) ->
    s_data sm = vadd N (s_data s1) (s_data s2) ->
    (forall m, In m (s_mods s1) -> m_type m <> Histosys /\ m_type m <> Shapesys) ->
    (forall n b, has_mod N s1 n Staterror = true -> b < length (s_data s1) ->
       nmul N (stat_unc N sm n b) (stat_unc N sm n b) =
       nadd N (nmul N (stat_unc N s1 n b) (stat_unc N s1 n b)) (nmul N (stat_unc N s2 n b) (stat_unc N s2 n b))) ->
    build N sp = Ok md -> build N sp' = Ok md' -> shape_ok N sp -> shape_ok N sp' ->
    same_pars sp md md' pars pars' ->
    expected_actualdata N ia im sp' st md' pars' = expected_actualdata N ia im sp st md pars /\
    forall data data' l l', list_shape_ok N sp -> list_shape_ok N sp' ->
      logpdf_terms N ia im sp st md pars data = Ok l -> logpdf_terms N ia im sp' st md' pars' data' = Ok l' ->
      same_data sp sp' md md' data data' -> Permutation l' l.
  Proof. intros sp' Hcs Hch Hsm Hm2 Hmm Hmd Hno Hq Hb Hb' Hs Hs' Hp.
    assert (Hnd := accepted_distinct_channels N sp md Hb).
    assert (Hub := accepted_uniform_bins N sp md Hb).
    assert (Hc0 : In c0 (channels sp)) by (rewrite Hch; apply in_or_app; right; now left).
    assert (Hlen : length (s_data s1) = length (s_data s2)).
    { rewrite (Hub c0 s1), (Hub c0 s2); auto; rewrite Hsm; apply in_or_app; right; [right|]; now left. }
    assert (Hbins : forall s, In s (c_samples c0) -> length (s_data s) = chan_nbins N c0) by (intros s Hin; now apply Hub).
    split.
    - apply (lift_expected N Hring ia im sp sp' st md md' Hb Hb' Hs Hs' Hc pars pars' (th md' pars')); auto. rewrite Hcs.
      now destruct (merge_samples_invariant_full N Hring Hdiv ia im nc hc cb sp pre post c0 spre spost s1 s2 sm Hch Hsm Hnd Hm2 Hmm Hmd Hlen Hno Hq Hbins
                      (th md' pars') (fun _ _ => n0 N) (fun _ _ => n0 N)) as [_ [H _]].
    - intros data data' l l' Hl Hl' Hlog Hlog' [Ho Ha].
      apply (lift_terms N Hring Heqb Hdiv ia im sp sp' st md md' Hb Hb' Hs Hs' Hc [] pars pars' data data' l l' (th md' pars') (obs_by_name N sp' data') (aux_of_data N sp' md' data') Hl Hl' Hlog Hlog'); auto. rewrite Hcs.
      now destruct (merge_samples_invariant_full N Hring Hdiv ia im nc hc cb sp pre post c0 spre spost s1 s2 sm Hch Hsm Hnd Hm2 Hmm Hmd Hlen Hno Hq Hbins
                      (th md' pars') (obs_by_name N sp' data') (aux_of_data N sp' md' data')) as [_ [_ H]].
  Qed.

  (* 2a. parameters renamed by an injective f: the renamed model at the renamed parameters / auxiliary data *)
  Theorem rename_parameters_invariant_impl (f : string -> string) (sp : spec N) md md' pars pars' :
    let sp' := rename_parameters N f sp in
    (forall a b, f a = f b -> a = b) ->
    build N sp = Ok md -> build N sp' = Ok md' -> shape_ok N sp -> shape_ok N sp' ->
    (forall n k, In (n, k) (read_list N sp) -> th md' pars' (f n) k = th md pars n k) ->
    expected_actualdata N ia im sp' st md' pars' = expected_actualdata N ia im sp st md pars /\
    forall data data' l l', list_shape_ok N sp -> list_shape_ok N sp' ->
      logpdf_terms N ia im sp st md pars data = Ok l -> logpdf_terms N ia im sp' st md' pars' data' = Ok l' ->
      obs_agree N sp (obs_by_name N sp' data') (obs_by_name N sp data) ->
      (forall n k, In (n, k) (read_list N sp) -> aux_of_data N sp' md' data' (f n) k = aux_of_data N sp md data n k) ->
      Permutation l' l.
  Proof. intros sp' Hinj Hb Hb' Hs Hs' Hp.
    split.
    - apply (lift_expected N Hring ia im sp sp' st md md' Hb Hb' Hs Hs' Hc pars pars' (fun n k => th md' pars' (f n) k)); auto.
      now destruct (rename_parameters_invariant N ia im nc hc cs cb f Hinj sp (fun n k => th md' pars' (f n) k) (th md' pars') (fun _ _ => eq_refl)).
    - intros data data' l l' Hl Hl' Hlog Hlog' Ho Ha.
      apply (lift_terms N Hring Heqb Hdiv ia im sp sp' st md md' Hb Hb' Hs Hs' Hc [] pars pars' data data' l l'
               (fun n k => th md' pars' (f n) k) (obs_by_name N sp' data') (fun n k => aux_of_data N sp' md' data' (f n) k) Hl Hl' Hlog Hlog'); auto.
      destruct (rename_parameters_invariant N ia im nc hc cs cb f Hinj sp (fun n k => th md' pars' (f n) k) (th md' pars') (fun _ _ => eq_refl)) as [_ H].
      destruct (H (obs_by_name N sp' data') (fun n k => aux_of_data N sp' md' data' (f n) k) (aux_of_data N sp' md' data') (fun _ _ => eq_refl)) as [_ H2].
      exact H2.
  Qed.
End Corollaries.

(* 7. signal rescaling (field): yields of the samples carrying the normfactor mu times k, the parameter mu divided by k *)
Section RescaleImpl.
  Variable N : Num.
  Notation V := (V N).
  Hypothesis Hfield : field_theory (n0 N) (n1 N) (nadd N) (nmul N) (nsub N) (nopp N) (ndiv N) (ninv N) eq.
  Hypothesis Heqb : forall a b : V, neqb N a b = true -> a = b.
  Add Field NFi : Hfield.
  Variable ia im : string -> V -> V -> V -> V -> V.
  Variable st : settings N.
  Hypothesis Hc : clip_guard N st.
  Notation th m p := (theta N m (parf N p)).
  Notation nc := (normsys_code N st). Notation hc := (histosys_code N st). Notation cs := (clip_sample N st). Notation cb := (clip_bin N st).
  Variable mu : string.
  Variable k : V.
  Hypothesis Hk : k <> n0 N.

  Definition unscale_theta (theta : string -> nat -> V) (n : string) (j : nat) : V := if String.eqb n mu then nmul N (theta n j) k else theta n j.
  Lemma rescale_unscale theta n j : rescale_theta N mu k (unscale_theta theta) n j = theta n j.
  Proof. unfold rescale_theta, unscale_theta. destruct (String.eqb n mu); auto. field. exact Hk. Qed.
  Lemma unscale_rescale theta n j : unscale_theta (rescale_theta N mu k theta) n j = theta n j.
  Proof. unfold rescale_theta, unscale_theta. destruct (String.eqb n mu); auto. field. exact Hk. Qed.

  Theorem signal_rescale_covariant_impl (sp : spec N) md md' pars pars' :
    let sp' := rescale_signal N mu k sp in
    (forall c s m, In c (channels sp) -> In s (c_samples c) -> In m (s_mods s) -> m_name m = mu -> m_type m = Normfactor) ->
    (forall c s m, In c (channels sp) -> In s (c_samples c) -> has_mod N s mu Normfactor = true -> In m (s_mods s) ->
       m_type m <> Histosys /\ m_type m <> Staterror /\ m_type m <> Shapesys) ->
    build N sp = Ok md -> build N sp' = Ok md' -> shape_ok N sp -> shape_ok N sp' ->
    agree_on N sp (th md' pars') (rescale_theta N mu k (th md pars)) ->
    expected_actualdata N ia im sp' st md' pars' = expected_actualdata N ia im sp st md pars /\
    forall data data' l l', list_shape_ok N sp -> list_shape_ok N sp' ->
      logpdf_terms N ia im sp st md pars data = Ok l -> logpdf_terms N ia im sp' st md' pars' data' = Ok l' ->
      obs_agree N sp (obs_by_name N sp' data') (obs_by_name N sp data) -> agree_on N sp (aux_of_data N sp' md' data') (aux_of_data N sp md data) ->
      Permutation l' l.
  Proof. intros sp' Honly Hno Hb Hb' Hs Hs' Hp.
    assert (Hring : ring_theory (n0 N) (n1 N) (nadd N) (nmul N) (nsub N) (nopp N) eq) by (destruct Hfield; assumption).
    assert (Hdiv : forall a b : V, ndiv N a b = nmul N a (ninv N b)) by (destruct Hfield; assumption).
    assert (Hnd := accepted_distinct_channels N sp md Hb).
    assert (Honce : forall c s, In c (channels sp) -> In s (c_samples c) -> has_mod N s mu Normfactor = true -> NoDup (map mkey (s_mods s))).
    { intros c s Hc' Hs0 _. exact (accepted_distinct_modifiers N sp md c s Hb Hc' Hs0). }
    assert (Hag : agree_on N sp (unscale_theta (th md' pars')) (th md pars)).
    { intros n j Hn. unfold unscale_theta. rewrite (Hp n j Hn). unfold rescale_theta. destruct (String.eqb n mu); auto. field. exact Hk. }
    split.
    - apply (lift_expected N Hring ia im sp sp' st md md' Hb Hb' Hs Hs' Hc pars pars' (unscale_theta (th md' pars'))); auto.
      destruct (signal_rescale_covariant_terms N Hfield ia im nc hc cs cb mu k Hk sp (unscale_theta (th md' pars')) Hnd Honly Honce Hno (fun _ _ => n0 N) (fun _ _ => n0 N)) as [H _].
      rewrite <- H. apply ref_expected_ext. intros n j. now rewrite rescale_unscale.
    - intros data data' l l' Hl Hl' Hlog Hlog' Ho Ha.
      apply (lift_terms N Hring Heqb Hdiv ia im sp sp' st md md' Hb Hb' Hs Hs' Hc [] pars pars' data data' l l'
               (unscale_theta (th md' pars')) (obs_by_name N sp' data') (aux_of_data N sp' md' data') Hl Hl' Hlog Hlog'); auto.
      destruct (signal_rescale_covariant_terms N Hfield ia im nc hc cs cb mu k Hk sp (unscale_theta (th md' pars')) Hnd Honly Honce Hno
                  (obs_by_name N sp' data') (aux_of_data N sp' md' data')) as [_ [_ H]].
      cbn [app]. rewrite <- H. apply Permutation_refl'.
      apply ref_terms_ext_in; [apply agree_on_all; intros n j; now rewrite rescale_unscale|apply obs_agree_all; auto|apply agree_on_all; auto].
  Qed.
End RescaleImpl.
