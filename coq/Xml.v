(* pyhf.writexml / pyhf.readxml / pyhf.compat at value level:
   workspace AST  --write-->  HistFactory measurement/channel/sample AST + ROOT file (name -> bin contents)
                  <--read---
   Literal transcription of build_measurement / build_modifier / build_sample / build_data / build_channel / writexml and of
   import_root_histogram / process_sample / process_data / process_channel / process_measurements / dedupe_parameters / parse,
   compat.interpret_rootname.  XML text (str()/float(), ' '.join/split) and the ROOT serialisation are outside the model.
   The reference side (what the property promises) is `expected_*` further down; the theorems say read (write ws) is that. *)
From Coq Require Import Bool Arith Lia String Ascii ZArith QArith Qcanon Reals Ring Field List.
Require Import PV.Num PV.Sort PV.Json.
Import ListNotations.
Local Open Scope string_scope.
Local Open Scope list_scope.
Infix "+s+" := String.append (at level 60, right associativity).

(* ---------- errors ---------- *)
Inductive err :=
| EDupHist        (* KeyError: Duplicate key ... being written *)
| ENoObs          (* TypeError: observation is None *)
| EShape          (* numpy shape error: uncertainties and yields of different length *)
| EModType        (* KeyError: modifiertypes[pname] *)
| ELumiCfg        (* KeyError/IndexError: lumi parameter without auxdata / sigmas *)
| EIndex          (* IndexError: empty inits / bounds / no measurement *)
| EZeroDiv        (* ZeroDivisionError: sigmas[0] / 0.0 *)
| EMissingHist    (* KeyError: histogram not in file *)
| EMissingData    (* RuntimeError: channel without Data *)
| EStatEmpty      (* RuntimeError: cannot determine stat error *)
| EConfusing      (* ValueError: confusing rootname *)
| ENonScalar      (* ValueError: non-scalar parameters cannot be set constant *)
| EDedupe         (* RuntimeError: incompatible parameter configurations *)
| ENoFile.        (* FileNotFoundError *)
Definition res (A : Type) := (A + err)%type.
Definition ret {A} (a : A) : res A := inl a.
Definition bind {A B} (x : res A) (f : A -> res B) : res B := match x with inl a => f a | inr e => inr e end.
Notation "'do' x <- a ; b" := (bind a (fun x => b)) (at level 200, x name, a at level 100, b at level 200).

Fixpoint mapM {A B} (f : A -> res B) (l : list A) : res (list B) :=
  match l with [] => ret [] | a :: r => do b <- f a; do bs <- mapM f r; ret (b :: bs) end.

Fixpoint zipw {A B C} (f : A -> B -> C) (l : list A) (l' : list B) : list C :=
  match l, l' with a :: t, b :: t' => f a b :: zipw f t t' | _, _ => [] end.

(* ---------- strings ---------- *)
Fixpoint join (sep : string) (l : list string) : string :=
  match l with [] => "" | [a] => a | a :: r => a +s+ sep +s+ join sep r end.
Definition nonempty (s : string) : bool := match s with EmptyString => false | _ => true end.
(* writexml._make_hist_name(channel, sample, modifier, prefix='hist', suffix) *)
Definition hist_name (parts : list string) (suffix : string) : string :=
  "hist" +s+ join "_" (filter nonempty parts) +s+ suffix.

Fixpoint strip_prefix (p s : string) : option string :=
  match p with
  | EmptyString => Some s
  | String c p' => match s with String d s' => if Ascii.eqb c d then strip_prefix p' s' else None | EmptyString => None end
  end.
Lemma strip_prefix_app p s : strip_prefix p (p +s+ s) = Some s.
Proof. induction p as [|c p IH]; simpl; auto. now rewrite Ascii.eqb_refl. Qed.

(* compat.interpret_rootname, reduced to what process_measurements uses: Ok name (is_scalar) | error.
   gamma_* : either the regex fails (ValueError confusing rootname) or is_scalar = False (ValueError in
   process_measurements): both are ValueError; the model returns ENonScalar for every gamma_ name. *)
Definition interp (rootname : string) : res string :=
  match strip_prefix "gamma_" rootname with
  | Some _ => inr ENonScalar
  | None =>
      match strip_prefix "alpha_" rootname with
      | Some rest => if nonempty rest then ret rest else inr EConfusing      (* ^alpha_(.+)$ *)
      | None => if String.eqb rootname "Lumi" then ret "lumi" else ret rootname
      end
  end.

(* ======================================================================================= *)
Section Model.
Variable N : Num.
Notation V := (V N).
Let zero := n0 N.
Let one := n1 N.
Let mul := nmul N.
Let add := nadd N.
Let sub := nsub N.
Let div := ndiv N.
Let eqbV := neqb N.
Let ofZ := nofZ N.

(* ---------- the workspace AST (JSON side) ---------- *)
Inductive mdata :=
| DHisto (lo hi : list V)
| DNormsys (lo hi : V)
| DNormfactor
| DShapesys (d : list V)
| DStaterror (d : list V)
| DShapefactor
| DLumi.
Record modifier := mkMod { m_name : string; m_data : mdata }.
Record sample := mkSample { s_name : string; s_data : list V; s_mods : list modifier }.
Record channel := mkChannel { c_name : string; c_samples : list sample }.
Record param := mkParam { p_name : string; p_inits : option (list V); p_bounds : option (list (V * V));
                          p_auxdata : option (list V); p_sigmas : option (list V); p_fixed : option bool }.
Record measurement := mkMeas { me_name : string; me_poi : string; me_params : list param }.
Record workspace := mkWs { w_channels : list channel; w_obs : list (string * list V); w_meas : list measurement }.

Definition mtype (d : mdata) : string :=
  match d with DHisto _ _ => "histosys" | DNormsys _ _ => "normsys" | DNormfactor => "normfactor"
          | DShapesys _ => "shapesys" | DStaterror _ => "staterror" | DShapefactor => "shapefactor" | DLumi => "lumi" end.
Definition is_lumi_type (m : modifier) : bool := match m_data m with DLumi => true | _ => false end.

(* ---------- the HistFactory AST (XML side) ---------- *)
Inductive xmod :=
| XOverallSys (name : string) (high low : V)
| XNormFactor (name : string) (val low high : V)
| XHistoSys (name hlow hhigh : string)
| XStatError (hname : string)                 (* Activate="True" HistoName=... *)
| XShapeSys (name hname : string)
| XShapeFactor (name : string).
Record xsample := mkXs { xs_name : string; xs_hist : string; xs_nbt : bool; xs_mods : list xmod }.
Record xchannel := mkXc { xc_name : string; xc_data : option string; xc_samples : list xsample }.
Record xmeas := mkXm { xm_name : string; xm_lumi : V; xm_relerr : V; xm_poi : string; xm_const : list string }.
Record xdoc := mkXd { x_channels : list xchannel; x_meas : list xmeas }.
Definition rootfile := list (string * list V).

(* ---------- absolute <-> relative ---------- *)
(* np.divide(a, b, out=zeros, where=b != 0) *)
Definition safe_div (a b : V) : V := if eqbV b zero then zero else div a b.
Definition to_rel (d nom : list V) : list V := zipw safe_div d nom.
Definition stat_abs (rel nom : list V) : list V := zipw mul rel nom.          (* np.multiply(extstat, data) *)
Definition shape_abs (nom rel : list V) : list V := zipw mul nom rel.         (* [a * b for a, b in zip(data, shapesys_data)] *)

(* ======================= writexml ======================= *)
Definition hd_err {A} (l : list A) : res A := match l with a :: _ => ret a | [] => inr EIndex end.

(* build_modifier, normfactor branch: Val/Low/High from the FIRST measurement, defaults 1, 0, 10 *)
Definition nf_step (name : string) (acc : res (V * V * V)) (p : param) : res (V * V * V) :=
  do a <- acc;
  let '(val, low, high) := a in
  if String.eqb (p_name p) name then
    do v <- hd_err (match p_inits p with Some l => l | None => [val] end);
    do b <- hd_err (match p_bounds p with Some l => l | None => [(low, high)] end);
    ret (v, fst b, snd b)
  else ret a.
Definition nf_settings (ws : workspace) (name : string) : res (V * V * V) :=
  match w_meas ws with
  | [] => inr EIndex
  | m0 :: _ => fold_left (nf_step name) (me_params m0) (ret (one, zero, ofZ 10))
  end.

Definition build_modifier (ws : workspace) (cname sname : string) (sdata : list V) (m : modifier)
  : res (option xmod * rootfile) :=
  if String.eqb (m_name m) "lumi" then ret (None, []) else
  match m_data m with
  | DHisto lo hi =>
      let nl := hist_name [cname; sname; m_name m] "Low" in
      let nh := hist_name [cname; sname; m_name m] "High" in
      ret (Some (XHistoSys (m_name m) nl nh), [(nl, lo); (nh, hi)])
  | DNormsys lo hi => ret (Some (XOverallSys (m_name m) hi lo), [])
  | DNormfactor => do s <- nf_settings ws (m_name m);
                   let '(val, low, high) := s in ret (Some (XNormFactor (m_name m) val low high), [])
  | DStaterror d =>
      if Nat.eqb (length d) (length sdata) then
        let n := hist_name [cname; sname; m_name m] "" in ret (Some (XStatError n), [(n, to_rel d sdata)])
      else inr EShape
  | DShapesys d =>
      if Nat.eqb (length d) (length sdata) then
        let n := hist_name [cname; sname; m_name m] "" in ret (Some (XShapeSys (m_name m) n), [(n, to_rel d sdata)])
      else inr EShape
  | DShapefactor => ret (Some (XShapeFactor (m_name m)), [])
  | DLumi => ret (None, [])        (* a lumi-typed modifier not called lumi: "Skipping modifier" *)
  end.

Definition ocons {A} (o : option A) (l : list A) : list A := match o with Some a => a :: l | None => l end.

Fixpoint build_mods ws cname sname sdata (ms : list modifier) : res (list xmod * rootfile) :=
  match ms with
  | [] => ret ([], [])
  | m :: r => do a <- build_modifier ws cname sname sdata m;
              do b <- build_mods ws cname sname sdata r;
              ret (ocons (fst a) (fst b), snd a ++ snd b)
  end.

Definition build_sample ws cname (s : sample) : res (xsample * rootfile) :=
  do a <- build_mods ws cname (s_name s) (s_data s) (s_mods s);
  let h := hist_name [cname; s_name s] "" in
  ret (mkXs (s_name s) h (existsb is_lumi_type (s_mods s)) (fst a), snd a ++ [(h, s_data s)]).

Fixpoint build_samples ws cname (ss : list sample) : res (list xsample * rootfile) :=
  match ss with
  | [] => ret ([], [])
  | s :: r => do a <- build_sample ws cname s; do b <- build_samples ws cname r; ret (fst a :: fst b, snd a ++ snd b)
  end.

Definition find_obs (obs : list (string * list V)) (cname : string) : option (list V) :=
  match find (fun o => String.eqb (fst o) cname) obs with Some o => Some (snd o) | None => None end.

Definition build_data ws cname : res (option string * rootfile) :=
  match w_obs ws with
  | [] => ret (None, [])                                       (* if obsspec: *)
  | _ => match find_obs (w_obs ws) cname with
         | Some d => let h := hist_name [cname; "data"] "" in ret (Some h, [(h, d)])
         | None => inr ENoObs
         end
  end.

Definition build_channel ws (c : channel) : res (xchannel * rootfile) :=
  do d <- build_data ws (c_name c);
  do ss <- build_samples ws (c_name c) (c_samples c);
  ret (mkXc (c_name c) (fst d) (fst ss), snd d ++ snd ss).

Fixpoint build_channels ws (cs : list channel) : res (list xchannel * rootfile) :=
  match cs with
  | [] => ret ([], [])
  | c :: r => do a <- build_channel ws c; do b <- build_channels ws r; ret (fst a :: fst b, snd a ++ snd b)
  end.

(* _export_root_histogram, called in the order the build_* functions reach it, on a fresh file *)
Definition hmem (k : string) (f : rootfile) : bool := match assoc k f with Some _ => true | None => false end.
Definition export_one (f : res rootfile) (kv : string * list V) : res rootfile :=
  do file <- f; if hmem (fst kv) file then inr EDupHist else ret (file ++ [kv]).
Definition export_all (l : rootfile) : res rootfile := fold_left export_one l (ret []).

(* dict(mixin.modifiers) : sorted(set((name, type))) turned into a dict: the last pair of a name wins *)
Definition all_modpairs (ws : workspace) : list (string * string) :=
  flat_map (fun c => flat_map (fun s => map (fun m => (m_name m, mtype (m_data m))) (s_mods s)) (c_samples c)) (w_channels ws).
Definition pair_dec (p q : string * string) : {p = q} + {p <> q}.
Proof. decide equality; apply string_dec. Defined.
Definition modtypes (ws : workspace) : list (string * string) :=
  psort (fun x => x) (nodup pair_dec (all_modpairs ws)).
Fixpoint dict_get {A} (k : string) (l : list (string * A)) : option A :=
  match l with [] => None | (k', v) :: r => match dict_get k r with Some w => Some w | None => if String.eqb k k' then Some v else None end end.

Definition prefix_of (ty : string) : string :=
  if String.eqb ty "normsys" then "alpha_" else if String.eqb ty "histosys" then "alpha_"
  else if String.eqb ty "shapesys" then "gamma_" else if String.eqb ty "staterror" then "gamma_" else "".

Definition rootname (mt : list (string * string)) (pname : string) : res string :=
  if String.eqb pname "lumi" then ret "Lumi"
  else match dict_get pname mt with Some ty => ret (prefix_of ty +s+ pname) | None => inr EModType end.

Definition is_fixed (p : param) : bool := match p_fixed p with Some true => true | _ => false end.

(* the loop of build_measurement.  rel = true : LumiRelErr = sigmas[0] / lumi  (current code);
   rel = false : LumiRelErr = sigmas[0] (the formula of the pinned tree, kept for the refutation witness). *)
Definition bm_step (rel : bool) (mt : list (string * string)) (acc : res (list string * V * V)) (p : param)
  : res (list string * V * V) :=
  do a <- acc;
  let '(fixed, lumi, lumierr) := a in
  do fixed' <- (if is_fixed p then do rn <- rootname mt (p_name p); ret (fixed ++ [rn]) else ret fixed);
  if String.eqb (p_name p) "lumi" then
    match p_auxdata p, p_sigmas p with
    | Some (l :: _), Some (s :: _) =>
        if rel then (if eqbV l zero then inr EZeroDiv else ret (fixed', l, div s l)) else ret (fixed', l, s)
    | _, _ => inr ELumiCfg
    end
  else ret (fixed', lumi, lumierr).

Definition build_measurement_gen (rel : bool) (mt : list (string * string)) (m : measurement) : res xmeas :=
  do a <- fold_left (bm_step rel mt) (me_params m) (ret ([], one, zero));
  let '(fixed, lumi, lumierr) := a in
  ret (mkXm (me_name m) lumi lumierr (me_poi m) fixed).
Definition build_measurement := build_measurement_gen true.

Definition write_gen (rel : bool) (ws : workspace) : res (xdoc * rootfile) :=
  do chs <- build_channels ws (w_channels ws);
  do file <- export_all (snd chs);
  do ms <- mapM (build_measurement_gen rel (modtypes ws)) (w_meas ws);
  ret (mkXd (fst chs) ms, file).
Definition write := write_gen true.

(* ======================= readxml ======================= *)
Definition lookup_hist (file : rootfile) (name : string) : res (list V) :=
  match assoc name file with Some v => ret v | None => inr EMissingHist end.

Definition lumi_mod : modifier := mkMod "lumi" DLumi.
Definition nf_param (name : string) (val low high : V) : param :=
  mkParam name (Some [val]) (Some [(low, high)]) None None None.

Definition process_mod (file : rootfile) (cname : string) (data : list V) (xm : xmod) : res (modifier * list param) :=
  match xm with
  | XOverallSys name hi lo => ret (mkMod name (DNormsys lo hi), [])
  | XNormFactor name val low high => ret (mkMod name DNormfactor, [nf_param name val low high])
  | XHistoSys name hl hh => do lo <- lookup_hist file hl; do hi <- lookup_hist file hh; ret (mkMod name (DHisto lo hi), [])
  | XStatError hn =>
      do ext <- lookup_hist file hn;
      let staterr := stat_abs ext data in
      match staterr with [] => inr EStatEmpty | _ => ret (mkMod ("staterror_" +s+ cname) (DStaterror staterr), []) end
  | XShapeSys name hn => do rel <- lookup_hist file hn; ret (mkMod name (DShapesys (shape_abs data rel)), [])
  | XShapeFactor name => ret (mkMod name DShapefactor, [])
  end.

Fixpoint process_mods file cname data (xs : list xmod) : res (list modifier * list param) :=
  match xs with
  | [] => ret ([], [])
  | x :: r => do a <- process_mod file cname data x; do b <- process_mods file cname data r; ret (fst a :: fst b, snd a ++ snd b)
  end.

Definition process_sample file cname (xs : xsample) : res (sample * list param) :=
  do data <- lookup_hist file (xs_hist xs);
  do r <- process_mods file cname data (xs_mods xs);
  ret (mkSample (xs_name xs) data ((if xs_nbt xs then [lumi_mod] else []) ++ fst r), snd r).

Fixpoint process_samples file cname (l : list xsample) : res (list sample * list param) :=
  match l with
  | [] => ret ([], [])
  | x :: r => do a <- process_sample file cname x; do b <- process_samples file cname r; ret (fst a :: fst b, snd a ++ snd b)
  end.

Record chan_result := mkCr { cr_name : string; cr_data : list V; cr_samples : list sample; cr_cfgs : list param }.
Definition process_channel file (xc : xchannel) : res chan_result :=
  match xc_data xc with
  | None => inr EMissingData
  | Some h => do d <- lookup_hist file h;
              do r <- process_samples file (xc_name xc) (xc_samples xc);
              ret (mkCr (xc_name xc) d (fst r) (snd r))
  end.

(* python == on parameter dicts *)
Definition olist_eqb {A} (e : A -> A -> bool) (a b : option (list A)) : bool :=
  match a, b with
  | None, None => true
  | Some l, Some l' => Nat.eqb (length l) (length l') && forallb (fun x => x) (zipw e l l')
  | _, _ => false end.
Definition obool_eqb (a b : option bool) : bool :=
  match a, b with None, None => true | Some x, Some y => Bool.eqb x y | _, _ => false end.
Definition param_eqb (p q : param) : bool :=
  String.eqb (p_name p) (p_name q) && olist_eqb eqbV (p_inits p) (p_inits q)
  && olist_eqb (fun x y => eqbV (fst x) (fst y) && eqbV (snd x) (snd y)) (p_bounds p) (p_bounds q)
  && olist_eqb eqbV (p_auxdata p) (p_auxdata q) && olist_eqb eqbV (p_sigmas p) (p_sigmas q)
  && obool_eqb (p_fixed p) (p_fixed q).

(* {v['name']: v for v in parameters} : first position, last value *)
Fixpoint dict_set (m : list param) (p : param) : list param :=
  match m with [] => [p] | q :: r => if String.eqb (p_name q) (p_name p) then p :: r else q :: dict_set r p end.
Definition dict_of (l : list param) : list param := fold_left dict_set l [].
Definition dedupe (l : list param) : res (list param) :=
  if forallb (fun p => forallb (fun q => negb (String.eqb (p_name p) (p_name q)) || param_eqb p q) l) l
  then ret (dict_of l) else inr EDedupe.

Definition set_fixed (p : param) : param :=
  mkParam (p_name p) (p_inits p) (p_bounds p) (p_auxdata p) (p_sigmas p) (Some true).
Definition param_default (name : string) : param := mkParam name None None None None None.
Fixpoint dict_pop (name : string) (m : list param) : option param * list param :=
  match m with
  | [] => (None, [])
  | q :: r => if String.eqb (p_name q) name then (Some q, r) else let '(o, r') := dict_pop name r in (o, q :: r')
  end.

(* one name of a <ParamSetting Const="True"> element *)
Definition process_const (acc : res (param * list param)) (rn : string) : res (param * list param) :=
  do st <- acc;
  do nm <- interp rn;
  if String.eqb nm "lumi" then ret (set_fixed (fst st), snd st)
  else let '(po, rest) := dict_pop nm (snd st) in
       ret (fst st, rest ++ [set_fixed (match po with Some p => p | None => param_default nm end)]).

Definition lumi_param (lumi lumierr : V) : param :=
  mkParam "lumi" (Some [lumi])
          (Some [(sub lumi (mul (ofZ 5) lumierr), add lumi (mul (ofZ 5) lumierr))])
          (Some [lumi]) (Some [lumierr]) None.

Definition process_measurement (others : list param) (xm : xmeas) : res measurement :=
  let lumi := xm_lumi xm in
  let lumierr := mul lumi (xm_relerr xm) in
  do st <- fold_left process_const (xm_const xm) (ret (lumi_param lumi lumierr, dict_of others));
  ret (mkMeas (xm_name xm) (xm_poi xm) (fst st :: snd st)).

Definition read (x : xdoc) (file : rootfile) : res workspace :=
  do chs <- mapM (process_channel file) (x_channels x);
  do others <- dedupe (flat_map cr_cfgs chs);
  do ms <- mapM (process_measurement others) (x_meas x);
  ret (mkWs (map (fun c => mkChannel (cr_name c) (cr_samples c)) chs) (map (fun c => (cr_name c, cr_data c)) chs) ms).

(* ======================= reference: what the property promises ======================= *)
(* uncertainty survives where the yield is non-zero; elsewhere the relative form cannot carry it *)
Definition mask (d nom : list V) : list V := zipw (fun a b => if eqbV b zero then zero else a) d nom.

Definition expected_mod (cname : string) (sdata : list V) (m : modifier) : list modifier :=
  if String.eqb (m_name m) "lumi" then [] else
  match m_data m with
  | DStaterror d => [mkMod ("staterror_" +s+ cname) (DStaterror (mask d sdata))]    (* the XML format dictates the name *)
  | DShapesys d => [mkMod (m_name m) (DShapesys (mask d sdata))]
  | DLumi => []
  | _ => [m]
  end.
Definition expected_sample (cname : string) (s : sample) : sample :=
  mkSample (s_name s) (s_data s)
           ((if existsb is_lumi_type (s_mods s) then [lumi_mod] else []) ++ flat_map (expected_mod cname (s_data s)) (s_mods s)).
Definition expected_channel (c : channel) : channel := mkChannel (c_name c) (map (expected_sample (c_name c)) (c_samples c)).

(* names of the normfactors the writer emits, in document order *)
Definition nf_names_mod (m : modifier) : list string :=
  if String.eqb (m_name m) "lumi" then [] else match m_data m with DNormfactor => [m_name m] | _ => [] end.
Definition nf_names_chan (c : channel) : list string := flat_map (fun s => flat_map nf_names_mod (s_mods s)) (c_samples c).

(* guards of the code, as predicates *)
Definition stat_ok_mod (sdata : list V) (m : modifier) : Prop :=
  match m_data m with DStaterror d => d <> [] | _ => True end.
Definition stat_ok (ws : workspace) : Prop :=
  Forall (fun c => Forall (fun s => Forall (stat_ok_mod (s_data s)) (s_mods s)) (c_samples c)) (w_channels ws).

End Model.

Arguments mkMod {N}. Arguments mkSample {N}. Arguments mkChannel {N}. Arguments mkParam {N}. Arguments mkMeas {N}. Arguments mkWs {N}.
Arguments DHisto {N}. Arguments DNormsys {N}. Arguments DNormfactor {N}. Arguments DShapesys {N}. Arguments DStaterror {N}.
Arguments DShapefactor {N}. Arguments DLumi {N}.
