(* C15: non-vacuity of the split theorem for a channel WITH bin-wise parameters: the two-bin signal region of ex_spec (background with
   a two-component staterror) is cut into two one-bin channels; the staterror parameter stat_SR becomes lo_stat_SR and hi_stat_SR. *)
From Coq Require Import Bool Arith Lia Permutation Ring Field Ascii String QArith Qcanon List.
Require Import PV.Num PV.Sort PV.Spec PV.Impl PV.Ref PV.InterpQ PV.Run PV.EngineRun PV.Invariance PV.InvarianceSpec PV.InvarianceRewrite
               PV.InvarianceSplit PV.InvarianceExamples PV.InvarianceMore PV.InvarianceMoreImpl PV.InvarianceMoreSplit.
Import ListNotations.
Local Open Scope list_scope.
Local Open Scope string_scope.

Definition ex_r1 (n : string) : string := String "l"%char (String "o"%char (String "_"%char n)).
Definition ex_r2 (n : string) : string := String "h"%char (String "i"%char (String "_"%char n)).
Definition ex_SRlo : channel Q := cutren_channel Q (firstn 1) ex_r1 "SR_lo" ex_SR.
Definition ex_SRhi : channel Q := cutren_channel Q (skipn 1) ex_r2 "SR_hi" ex_SR.
Definition ex_sp5b : spec Q := with_channels ex_spec ([] ++ ex_SRlo :: ex_SRhi :: [ex_CR]).
(* component 0 of stat_SR goes to lo_stat_SR, component 1 to hi_stat_SR (as its component 0) *)
Definition ex_split_fn (f : string -> nat -> Qc) (n : string) (j : nat) : Qc :=
  if String.eqb n "lo_stat_SR" then f "stat_SR" j else if String.eqb n "hi_stat_SR" then f "stat_SR" (1 + j)%nat else f n j.

Lemma ex_split_corr f : split_corr Q 1 ex_r1 ex_r2 ex_spec [] [ex_CR] ex_SR "SR_lo" "SR_hi" (ex_split_fn f) f.
Proof. split; [|split; [|split]].
  - intros c s m Hc Hs Hm Hb. in_cases Hc; in_cases Hs; in_cases Hm; try (vm_compute in Hb; discriminate); reflexivity.
  - intros c s m b Hc Hs Hm Hb Hlt. in_cases Hc; in_cases Hs; in_cases Hm; try (vm_compute in Hb; discriminate).
    vm_compute in Hlt. assert (b = 0%nat) by lia. subst b. reflexivity.
  - intros s m b Hs Hm Hb Hlt. assert (b = 0%nat) by lia. subst b. in_cases Hs; in_cases Hm; try (vm_compute in Hb; discriminate). reflexivity.
  - intros s m b Hs Hm Hb Hlt. vm_compute in Hlt. assert (b = 0%nat) by lia. subst b. in_cases Hs; in_cases Hm; try (vm_compute in Hb; discriminate). reflexivity.
Qed.

Example split_binwise_terms_nonvacuous :
  map (fun c => (c_name c, chan_nbins Q c)) (channels ex_sp5b) = [("SR_lo", 1%nat); ("SR_hi", 1%nat); ("CR", 1%nat)] /\
  names_with Q ex_spec Staterror = ["stat_SR"] /\ names_with Q ex_sp5b Staterror = ["lo_stat_SR"; "hi_stat_SR"] /\
  qout (ex_split_fn ex_theta "hi_stat_SR" 0) = (9%Z, 10%positive) /\
  length (ref_cterms Q ex_sp5b (ex_split_fn ex_theta) (ex_split_fn ex_aux)) = 6%nat /\
  Permutation (rterms ex_sp5b (ex_split_fn ex_theta) ex_obs5 (ex_split_fn ex_aux)) (rterms ex_spec ex_theta ex_obs ex_aux).
Proof.
  split; [reflexivity|]. split; [vm_compute; reflexivity|]. split; [vm_compute; reflexivity|]. split; [vm_compute; reflexivity|].
  split; [vm_compute; reflexivity|].
  apply (split_binwise_terms Q ia im "code1" "code0" None None 1 ex_r1 ex_r2 ex_spec [] [ex_CR] ex_SR "SR_lo" "SR_hi").
  - reflexivity.
  - apply Nat.leb_le. reflexivity.
  - apply ex_split_corr.
  - reflexivity.
  - reflexivity.
  - intros c b Hc. in_cases Hc. reflexivity.
  - apply ex_split_corr.
  - intros a b E. unfold ex_r1 in E. now inversion E.
  - intros a b E. unfold ex_r2 in E. now inversion E.
  - intros c s m Hc Hs Hm Hb. in_cases Hc; in_cases Hs; in_cases Hm; try (vm_compute in Hb; discriminate); vm_compute; auto.
Qed.
