(* C19 - tie to the source: the bodies of the click commands translated on every run from pyhf/cli/*.py (coq/gen/CliGen.v, written by
   harness/props/c19_tie.py) coincide with the model of Cli.v: each command IS  emit o render o library o args_of_options  (Cli.run_cmd) for
   a library composition written here by hand - which library function, which arguments, in which order relative to patching and to the
   set_backend calls, what is dumped to the file and what is echoed.  Generic in every opaque function.
   Commands that do not have the emit shape (digest --plaintext, patchset verify / inspect, json2xml) are tied to an explicit outcome.
   Not translated: `pyhf inspect` (cli/spec.py:inspect). *)
From Coq Require Import Bool Arith String List.
Require Import PV.Sort PV.Json PV.Cli PV.gen.CliGen.
Import ListNotations.
Local Open Scope string_scope.
Local Open Scope list_scope.

Definition writes (fs : list fsop) : list (string * string) := flat_map (fun o => match o with Write p t => [(p, t)] | MkDir _ => [] end) fs.
Definition mkdirs (fs : list fsop) : list string := flat_map (fun o => match o with MkDir p => [p] | Write _ _ => [] end) fs.
(* what the process leaves behind: exit code, stdout, files written (an exception: non-zero exit, nothing written) *)
Definition outcome_of {E B : Type} (r : res E (B * list string * list fsop)) : outcome :=
  match r with Ok (_, out, fs) => mkOut 0 (String.concat "" out) (writes fs) | Err _ => mkOut 1 "" [] end.
Definition backend_left {E B : Type} (r : res E (B * list string * list fsop)) : option B :=
  match r with Ok (b, _, _) => Some b | Err _ => None end.
(* `if output_file:` on a None-able text *)
Definition truthy (o : option string) : option string := match o with Some f => if String.eqb f "" then None else Some f | None => None end.

Section Tie.
Variables E B TL Opt OptCls Conf Model Data Tensor FitR PSpec Slice P PS Patch Mount : Type.
Variable newline : string.
Variable dumps : json -> string.
Variable show_nat : nat -> string.
Variable type_error : E.
Variable read_json : string -> res E json.
Variable mkws : json -> res E json.
Variable ws_prune : json -> list string -> list string -> list string -> list string -> list string -> res E json.
Variable ws_rename : json -> list (string * string) -> list (string * string) -> list (string * string) -> list (string * string) -> res E json.
Variable ws_combine : json -> json -> string -> bool -> res E json.
Variable ws_sorted : json -> res E json.
Variable digest : json -> string -> res E string.
Variable set_backend_named : B -> string -> option string -> B.
Variable set_backend_obj : B -> TL -> Opt -> B.
Variable get_tensorlib : B -> TL.
Variable dict_union : list Conf -> Conf.
Variable get_optimizer : string -> option OptCls.
Variable make_optimizer : OptCls -> Conf -> res E Opt.
Variable ws_model : B -> json -> option string -> option (list json) -> option json -> res E Model.
Variable ws_data : B -> json -> Model -> res E Data.
Variable mle_fit : B -> Data -> Model -> bool -> res E FitR.
Variables fit_as_tensor fit_first fit_last : FitR -> Tensor.
Variable par_map : Model -> list (string * PSpec).
Variable ps_slice : PSpec -> Slice.
Variable tensor_slice : Tensor -> Slice -> Tensor.
Variable tolist : TL -> Tensor -> json.
Variable hypotest : B -> P -> Data -> Model -> string -> string -> res E (Tensor * list Tensor).
Variable mkps : json -> res E PS.
Variable ps_getitem : PS -> option string -> res E Patch.
Variables patch_metadata patch_ops : Patch -> json.
Variable ps_metadata : PS -> json.
Variable jupdate : json -> json -> json.
Variable ps_apply : PS -> json -> option string -> res E json.
Variable ps_verify : PS -> json -> res E unit.
Variable ps_patches : PS -> list Patch.
Variable patch_name : Patch -> string.
Variable xml_parse : string -> string -> list Mount -> bool -> bool -> res E json.
Variable path_join : string -> string -> string.
Variable jsonpatch_apply : json -> json -> res E json.
Variable writexml : json -> string -> string -> string -> res E string.

Local Notation "'do' x <- a ;; b" := (match a with Err e => inr e | Ok x => b end) (at level 200, x name, a at level 100, b at level 200, right associativity).
Local Notation G f := (f E B TL Opt OptCls Conf Model Data Tensor FitR PSpec Slice P PS Patch Mount newline dumps show_nat type_error read_json mkws ws_prune ws_rename ws_combine ws_sorted digest set_backend_named set_backend_obj get_tensorlib dict_union get_optimizer make_optimizer ws_model ws_data mle_fit fit_as_tensor fit_first fit_last par_map ps_slice tensor_slice tolist hypotest mkps ps_getitem patch_metadata patch_ops ps_metadata jupdate ps_apply ps_verify ps_patches patch_name xml_parse path_join jsonpatch_apply writexml).

Ltac step_out :=
  match goal with
  | |- outcome_of (match ?x with _ => _ end) = _ => destruct x; cbv beta iota zeta; cbn [fst snd]
  | |- backend_left (match ?x with _ => _ end) = _ => destruct x; cbv beta iota zeta; cbn [fst snd]
  end.
Ltac tie_cmd := cbv beta iota zeta; cbn [fst snd]; repeat step_out; try reflexivity.

(* ---------- cli/spec.py ---------- *)
Definition library_prune (i : string * list string * list string * list string * list string * list string) : json + E :=
  let '(workspace, channel, sample, modifier, modifier_type, measurement) := i in
  do j <- read_json workspace ;; do w <- mkws j ;; do r <- ws_prune w channel sample modifier modifier_type measurement ;; inl r.
Theorem tie_cli_prune workspace output_file channel sample modifier modifier_type measurement bk :
  outcome_of (G gen_cli_prune workspace output_file channel sample modifier modifier_type measurement bk)
  = run_cmd dumps newline _ E library_prune (workspace, channel, sample, modifier, modifier_type, measurement) output_file.
Proof. unfold gen_cli_prune, run_cmd, library_prune, emit, render. tie_cmd. Qed.

Definition library_rename (i : string * list (string * string) * list (string * string) * list (string * string) * list (string * string)) : json + E :=
  let '(workspace, channel, sample, modifier, measurement) := i in
  do j <- read_json workspace ;; do w <- mkws j ;;
  do r <- ws_rename w (dict_of_pairs channel) (dict_of_pairs sample) (dict_of_pairs modifier) (dict_of_pairs measurement) ;; inl r.
Theorem tie_cli_rename workspace output_file channel sample modifier measurement bk :
  outcome_of (G gen_cli_rename workspace output_file channel sample modifier measurement bk)
  = run_cmd dumps newline _ E library_rename (workspace, channel, sample, modifier, measurement) output_file.
Proof. unfold gen_cli_rename, run_cmd, library_rename, emit, render. tie_cmd. Qed.

(* both documents are read before either is validated *)
Definition library_combine (i : string * string * string * bool) : json + E :=
  let '(one, two, join, merge_channels) := i in
  do j1 <- read_json one ;; do j2 <- read_json two ;; do w1 <- mkws j1 ;; do w2 <- mkws j2 ;; do r <- ws_combine w1 w2 join merge_channels ;; inl r.
Theorem tie_cli_combine workspace_one workspace_two join output_file merge_channels bk :
  outcome_of (G gen_cli_combine workspace_one workspace_two join output_file merge_channels bk)
  = run_cmd dumps newline _ E library_combine (workspace_one, workspace_two, join, merge_channels) output_file.
Proof. unfold gen_cli_combine, run_cmd, library_combine, emit, render. tie_cmd. Qed.

Definition library_sort (workspace : string) : json + E := do j <- read_json workspace ;; do w <- mkws j ;; do r <- ws_sorted w ;; inl r.
Theorem tie_cli_sort workspace output_file bk :
  outcome_of (G gen_cli_sort workspace output_file bk) = run_cmd dumps newline _ E library_sort workspace output_file.
Proof. unfold gen_cli_sort, run_cmd, library_sort, emit, render. tie_cmd. Qed.

(* digest: one digest per requested algorithm (in order, the first failure ends the command), as a JSON object or as `algorithm:digest` lines *)
Definition library_digests (i : string * list string) : res E (list (string * string)) :=
  match read_json (fst i) with Err e => Err e | Ok j => match mkws j with Err e => Err e | Ok w =>
  match mapM (fun a => match digest w a with Err e => Err e | Ok d => Ok (a, d) end) (snd i) with Err e => Err e | Ok l => Ok (dict_of_pairs l) end end end.
Theorem tie_cli_digest workspace algorithm output_json bk :
  outcome_of (G gen_cli_digest workspace algorithm output_json bk)
  = match library_digests (workspace, algorithm) with
    | Err _ => mkOut 1 "" []
    | Ok ds => if output_json then emit dumps newline None (JObj (map (fun kv => (fst kv, JStr (snd kv))) ds))
               else mkOut 0 (String.concat newline (map (fun kv => (fst kv ++ ":" ++ snd kv)%string) ds) ++ newline)%string []
    end.
Proof. unfold gen_cli_digest, library_digests, emit, render. tie_cmd. destruct output_json; reflexivity. Qed.

(* ---------- cli/patchset.py ---------- *)
Definition library_extract (i : string * option string * bool) : json + E :=
  let '(patchset, name, with_metadata) := i in
  do j <- read_json patchset ;; do ps <- mkps j ;; do p <- ps_getitem ps name ;;
  inl (if with_metadata then JObj [("metadata", jupdate (patch_metadata p) (ps_metadata ps)); ("patch", patch_ops p)] else patch_ops p).
Theorem tie_cli_patchset_extract patchset name output_file with_metadata bk :
  outcome_of (G gen_cli_patchset_extract patchset name output_file with_metadata bk)
  = run_cmd dumps newline _ E library_extract (patchset, name, with_metadata) (truthy output_file).
Proof. unfold gen_cli_patchset_extract, run_cmd, library_extract, emit, render, truthy. tie_cmd; destruct (String.eqb _ ""); reflexivity. Qed.

(* the background-only workspace is read and validated first, then the patch set; PatchSet.apply (which verifies) does the rest *)
Definition library_apply (i : string * string * option string) : json + E :=
  let '(background_only, patchset, name) := i in
  do j <- read_json background_only ;; do w <- mkws j ;; do j2 <- read_json patchset ;; do ps <- mkps j2 ;; do r <- ps_apply ps w name ;; inl r.
Theorem tie_cli_patchset_apply background_only patchset name output_file bk :
  outcome_of (G gen_cli_patchset_apply background_only patchset name output_file bk)
  = run_cmd dumps newline _ E library_apply (background_only, patchset, name) (truthy output_file).
Proof. unfold gen_cli_patchset_apply, run_cmd, library_apply, emit, render, truthy. tie_cmd; destruct (String.eqb _ ""); reflexivity. Qed.

Definition library_verify (i : string * string) : res E unit :=
  match read_json (fst i) with Err e => Err e | Ok j => match mkws j with Err e => Err e | Ok w =>
  match read_json (snd i) with Err e => Err e | Ok j2 => match mkps j2 with Err e => Err e | Ok ps => ps_verify ps w end end end end.
Theorem tie_cli_patchset_verify background_only patchset bk :
  outcome_of (G gen_cli_patchset_verify background_only patchset bk)
  = match library_verify (background_only, patchset) with Ok _ => mkOut 0 ("All good." ++ newline)%string [] | Err _ => mkOut 1 "" [] end.
Proof. unfold gen_cli_patchset_verify, library_verify. tie_cmd. Qed.

Lemma fold_echo {X Bk F : Type} (f : X -> string) (l : list X) (b : Bk) (out : list string) (fs : F) :
  fold_left (fun s x => (fst (fst s), snd (fst s) ++ [f x], snd s)) l (b, out, fs) = (b, out ++ map f l, fs).
Proof. revert out. induction l as [|a r IH]; intro out; simpl; [now rewrite app_nil_r|]. rewrite IH, <- app_assoc. reflexivity. Qed.
Theorem tie_cli_patchset_inspect patchset bk :
  outcome_of (G gen_cli_patchset_inspect patchset bk)
  = match (match read_json patchset with Err e => Err e | Ok j => mkps j end) with
    | Err _ => mkOut 1 "" []
    | Ok ps => mkOut 0 (String.concat "" ([(((newline ++ "    ") ++ show_nat (length (ps_patches ps)) ++ " patches found in Patchset") ++ newline)%string;
                                            (("---------------------------------" ++ newline) ++ newline)%string]
                                           ++ map (fun p => (patch_name p ++ newline)%string) (ps_patches ps))) []
    end.
Proof. unfold gen_cli_patchset_inspect. tie_cmd. rewrite fold_echo. cbn [fst snd outcome_of writes flat_map]. reflexivity. Qed.

(* ---------- cli/rootio.py ---------- *)
Definition library_xml2json (i : string * string * list Mount * bool * bool) : json + E :=
  let '(entrypoint_xml, basedir, mount, track_progress, validation_as_error) := i in
  do r <- xml_parse entrypoint_xml basedir mount track_progress validation_as_error ;; inl r.
Theorem tie_cli_xml2json entrypoint_xml basedir mount output_file track_progress validation_as_error bk :
  outcome_of (G gen_cli_xml2json entrypoint_xml basedir mount output_file track_progress validation_as_error bk)
  = run_cmd dumps newline _ E library_xml2json (entrypoint_xml, basedir, mount, track_progress, validation_as_error) output_file.
Proof. unfold gen_cli_xml2json, run_cmd, library_xml2json, emit, render. tie_cmd. Qed.

(* json2xml: EVERY patch is applied, in the order given, each to the result of the previous one; the top-level XML goes to
   <output_dir>/<resultprefix>.xml, spec and data directories are created under output_dir *)
Fixpoint apply_patches (spec : json) (files : list string) : res E json :=
  match files with
  | [] => Ok spec
  | f :: r => match read_json f with Err e => Err e | Ok p => match jsonpatch_apply p spec with Err e => Err e | Ok s' => apply_patches s' r end end
  end.
Lemma fold_patches patch : forall spec (b : B) (out : list string) (fs : list fsop),
  foldM (fun s x => match read_json x with Err e => Err e | Ok p => match jsonpatch_apply p (fst (fst (fst s))) with Err e => Err e
                    | Ok s' => Ok (s', snd (fst (fst s)), snd (fst s), snd s) end end) patch (spec, b, out, fs)
  = match apply_patches spec patch with Err e => Err e | Ok s' => Ok (s', b, out, fs) end.
Proof. induction patch as [|f r IH]; intros; simpl; [reflexivity|]. destruct (read_json f); [|reflexivity]. cbn [fst snd].
  destruct (jsonpatch_apply a spec); [|reflexivity]. apply IH. Qed.
Theorem tie_cli_json2xml workspace output_dir specroot dataroot resultprefix patch bk :
  G gen_cli_json2xml workspace output_dir specroot dataroot resultprefix patch bk
  = match read_json workspace with Err e => Err e | Ok j =>
    match apply_patches j patch with Err e => Err e | Ok spec =>
    match writexml spec (path_join output_dir specroot) (path_join output_dir dataroot) resultprefix with Err e => Err e | Ok xml =>
    Ok (bk, [], [MkDir output_dir; MkDir (path_join output_dir specroot); MkDir (path_join output_dir dataroot);
                 Write (path_join output_dir (resultprefix ++ ".xml")%string) xml]) end end end.
Proof. unfold gen_cli_json2xml. destruct (read_json workspace); [|reflexivity]. rewrite fold_patches.
  destruct (apply_patches a patch); [|reflexivity]. cbn [fst snd]. destruct (writexml _ _ _ _); reflexivity. Qed.

(* ---------- cli/infer.py ---------- *)
(* --backend: a named set_backend for the non-default backends (64b for pytorch / tensorflow), nothing for numpy *)
Definition backend_of_option (bk : B) (backend : string) : B :=
  if mem_str backend ["pytorch"; "torch"] then set_backend_named bk "pytorch" (Some "64b")
  else if mem_str backend ["tensorflow"; "tf"] then set_backend_named bk "tensorflow" (Some "64b")
  else if mem_str backend ["jax"] then set_backend_named bk "jax" None else bk.
(* --optimizer / --optconf: set AFTER the backend (so that the backend's set_backend cannot reset it), on the tensorlib current then *)
Definition optimizer_of_option (bk : B) (optimizer : string) (optconf : list Conf) : res E B :=
  if negb (String.eqb optimizer "") then
    match (match get_optimizer optimizer with Some c => Some c | None => get_optimizer (optimizer ++ "_optimizer")%string end) with
    | None => Err type_error
    | Some c => match make_optimizer c (dict_union optconf) with Err e => Err e | Ok o => Ok (set_backend_obj bk (get_tensorlib bk) o) end
    end
  else Ok bk.

(* cls: the patched model is built first (under the backend the process starts in, code4 / code4p interpolation), then the backend and the
   optimizer are set, then the data of THAT model and the test at the given POI (as given: 0.0 stays 0.0) *)
Definition cls_settings : json := JObj [("normsys", JObj [("interpcode", JStr "code4")]); ("histosys", JObj [("interpcode", JStr "code4p")])].
Definition library_cls (bk : B) (i : string * option string * list string * P * string * string * string * string * list Conf) : json + E :=
  let '(workspace, measurement, patch, test_poi, test_stat, backend, optimizer, calctype, optconf) := i in
  do j <- read_json workspace ;; do w <- mkws j ;; do patches <- mapM read_json patch ;;
  do model <- ws_model bk w measurement (Some patches) (Some cls_settings) ;;
  let bk1 := backend_of_option bk backend in
  do bk2 <- optimizer_of_option bk1 optimizer optconf ;;
  do data <- ws_data bk2 w model ;;
  do r <- hypotest bk2 test_poi data model test_stat calctype ;;
  inl (JObj [("CLs_obs", tolist (get_tensorlib bk1) (fst r)); ("CLs_exp", JArr (map (tolist (get_tensorlib bk1)) (snd r)))]).
Theorem tie_cli_cls workspace output_file measurement patch test_poi test_stat backend optimizer calctype optconf bk :
  outcome_of (G gen_cli_cls workspace output_file measurement patch test_poi test_stat backend optimizer calctype optconf bk)
  = run_cmd dumps newline _ E (library_cls bk) (workspace, measurement, patch, test_poi, test_stat, backend, optimizer, calctype, optconf) output_file.
Proof. unfold gen_cli_cls, run_cmd, library_cls, optimizer_of_option, backend_of_option, cls_settings, emit, render. tie_cmd. Qed.

(* fit: backend and optimizer first, then the workspace, the PATCHED model, the data of that model, the fit; --value adds twice_nll *)
Definition library_fit (bk : B) (i : string * option string * list string * bool * string * string * list Conf) : json + E :=
  let '(workspace, measurement, patch, value, backend, optimizer, optconf) := i in
  let bk1 := backend_of_option bk backend in
  do bk2 <- optimizer_of_option bk1 optimizer optconf ;;
  do j <- read_json workspace ;; do w <- mkws j ;; do patches <- mapM read_json patch ;;
  do model <- ws_model bk2 w measurement (Some patches) None ;;
  do data <- ws_data bk2 w model ;;
  do fr <- mle_fit bk2 data model value ;;
  let pars := if negb value then fit_as_tensor fr else fit_first fr in
  let best := JObj (dict_of_pairs (map (fun ps => (fst ps, tolist (get_tensorlib bk1) (tensor_slice pars (ps_slice (snd ps))))) (par_map model))) in
  inl (if value then JObj [("mle_parameters", best); ("twice_nll", tolist (get_tensorlib bk1) (fit_last fr))] else JObj [("mle_parameters", best)]).
Theorem tie_cli_fit workspace output_file measurement patch value backend optimizer optconf bk :
  outcome_of (G gen_cli_fit workspace output_file measurement patch value backend optimizer optconf bk)
  = run_cmd dumps newline _ E (library_fit bk) (workspace, measurement, patch, value, backend, optimizer, optconf) output_file.
Proof. unfold gen_cli_fit, run_cmd, library_fit, optimizer_of_option, backend_of_option, emit, render. tie_cmd. Qed.
End Tie.
