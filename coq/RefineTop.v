(* Engine S refinement, packaged: hypotheses about names are discharged by Wf.v from build = Ok; the access-field
   layout premise has a boolean form that the checks evaluate for every generated model. *)
From Coq Require Import Bool Arith Lia Ring String QArith Qcanon Reals List.
Require Import PV.Num PV.Sort PV.Spec PV.Impl PV.Ref PV.Wf PV.RefineLookup PV.RefineRates.
Import ListNotations.
Local Open Scope list_scope.

Section Top.
  Variable N : Num.
  Hypothesis Hring : ring_theory (n0 N) (n1 N) (nadd N) (nmul N) (nsub N) (nopp N) eq.
  Variable interp_add interp_mul : string -> V N -> V N -> V N -> V N -> V N.
  Variable sp : spec N.
  Variable st : settings N.
  Variable md : model N.

  Definition shape_ok : Prop := forall c s m, In c (channels sp) -> In s (c_samples c) -> In m (s_mods s) ->
    match m_type m with
    | Histosys => exists lo hi, m_data m = MDHisto lo hi
    | Normsys => exists lo hi, m_data m = MDNorm lo hi
    | _ => True end.
  Definition clip_guard : Prop := match clip_sample N st with None => True | Some c => nltb N (n0 N) c = false end.

  Definition layout_cell (c : channel N) (m : modifier N) (b : nat) : bool :=
    match m_type m with
    | Shapefactor => Nat.eqb (access_shapefactor N md (mkey m) b) (pstart N md (m_name m) + b)
    | Shapesys => Nat.eqb (access_binwise N sp (cfg_channels N sp) (cfg_samples N sp) md (mkey m) (c_name c) b) (pstart N md (m_name m) + b)
    | Staterror => Nat.eqb (access_binwise N sp (cfg_channels N sp) (cfg_samples N sp) md (mkey m) (c_name c) b)
                           (pstart N md (m_name m) + (stat_offset N sp (m_name m) c + b))
    | _ => true end.
  Definition layout_okb : bool :=
    forallb (fun c => forallb (fun s => forallb (fun m => forallb (layout_cell c m) (seq 0 (chan_nbins N c))) (s_mods s)) (c_samples c)) (channels sp).

  Lemma layout_okb_ok : layout_okb = true -> layout_ok N sp md.
  Proof.
    intros H c s m b Hc Hs Hm Hb. unfold layout_okb in H. rewrite forallb_forall in H. specialize (H c Hc).
    rewrite forallb_forall in H. specialize (H s Hs). rewrite forallb_forall in H. specialize (H m Hm).
    rewrite forallb_forall in H. assert (Hin : In b (seq 0 (chan_nbins N c))) by (apply in_seq; lia). specialize (H b Hin).
    unfold layout_cell in H. destruct (m_type m); auto; now apply Nat.eqb_eq.
  Qed.

  (* C01: for every accepted specification, every parameter vector, every interpolation function pair *)
  Theorem expected_refines_accepted pars : build N sp = Ok md -> shape_ok -> clip_guard -> layout_okb = true ->
    expected_actualdata N interp_add interp_mul sp st md pars =
    ref_expected N interp_add interp_mul (normsys_code N st) (histosys_code N st) (clip_sample N st) (clip_bin N st) sp
                 (theta N md (parf N pars)).
  Proof.
    intros Hb Hs Hc Hl. unfold expected_actualdata.
    apply (expected_data_refines N Hring interp_add interp_mul sp st md (parf N pars)
             (accepted_distinct_channels N sp md Hb)
             (fun c => accepted_distinct_samples N sp md c Hb)
             (fun c s => accepted_distinct_modifiers N sp md c s Hb) Hs Hc).
    apply layout_okb_ok; assumption.
  Qed.
End Top.

(* the executed instance and the analytic instance both satisfy the ring laws *)
Theorem expected_refines_Qc : forall ia im (sp : spec QcNum) st md pars,
  build QcNum sp = Ok md -> shape_ok QcNum sp -> clip_guard QcNum st -> layout_okb QcNum sp md = true ->
  expected_actualdata QcNum ia im sp st md pars =
  ref_expected QcNum ia im (normsys_code QcNum st) (histosys_code QcNum st) (clip_sample QcNum st) (clip_bin QcNum st) sp (theta QcNum md (parf QcNum pars)).
Proof. intros. apply expected_refines_accepted; auto. exact Qcrt. Qed.
Theorem expected_refines_R : forall ia im (sp : spec RNum) st md pars,
  build RNum sp = Ok md -> shape_ok RNum sp -> clip_guard RNum st -> layout_okb RNum sp md = true ->
  expected_actualdata RNum ia im sp st md pars =
  ref_expected RNum ia im (normsys_code RNum st) (histosys_code RNum st) (clip_sample RNum st) (clip_bin RNum st) sp (theta RNum md (parf RNum pars)).
Proof. intros. apply expected_refines_accepted; auto. exact RTheory. Qed.
