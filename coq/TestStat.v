(* C06 - pyhf.infer.test_statistics: _tmu_like, _qmu_like, qmu, qmu_tilde, tmu, tmu_tilde, q0.
   The two fits (pyhf.infer.mle.fit / fixed_poi_fit with return_fitted_val=True) are Section variables:
   whatever they return, the case definitions hold.  Part 2: real instance, the case rules.  Part 3: exact
   fits need no clip.  Part 4: the one-bin counting model in closed form. *)
From Coq Require Import ZArith QArith Qcanon Reals Lra Lia Bool List.
Require Import PV.Num.
Import ListNotations.
Local Open Scope list_scope.

Inductive tswarn :=
  | WQmuBoundedAtZero | WQmuTildeNotBoundedAtZero | WTmuBoundedAtZero | WTmuTildeNotBoundedAtZero | WQ0MuNonzero.
Inductive tserr := EUnspecifiedPOI.

Section Model.
Variable N : Num.
Notation T := (V N).
Notation "a - b" := (nsub N a b).
Variable Env : Type.                              (* data, pdf, init_pars, par_bounds, fixed_params *)
Variable fit : Env -> list T * T.                 (* (muhatbhat, twice_nll there) *)
Variable fixed_poi_fit : T -> Env -> list T * T.  (* (mubhathat, twice_nll there) *)
Variable poi_index : Env -> option nat.           (* pdf.config.poi_index *)
Variable poi_lower : Env -> T.                    (* par_bounds[pdf.config.poi_index][0] *)

(* tensorlib.clip(x, 0.0, max_value=None) *)
Definition clip0 (x : T) : T := if nltb N x (n0 N) then n0 N else x.

(* value, (mubhathat, muhatbhat) *)
Definition stat := (T * (list T * list T))%type.

Definition tmu_like (mu : T) (e : Env) : stat :=
  let '(mubhathat, fixed_poi_fit_lhood_val) := fixed_poi_fit mu e in
  let '(muhatbhat, unconstrained_fit_lhood_val) := fit e in
  let log_likelihood_ratio := fixed_poi_fit_lhood_val - unconstrained_fit_lhood_val in
  let tmu_like_stat := clip0 log_likelihood_ratio in
  (tmu_like_stat, (mubhathat, muhatbhat)).

Definition poi_of (e : Env) (pars : list T) : T :=
  match poi_index e with Some i => nth i pars (n0 N) | None => n0 N end.

(* where(muhatbhat[poi_index] > mu, 0.0, tmu_like_stat) *)
Definition qmu_like (mu : T) (e : Env) : stat :=
  let '(tmu_like_stat, (mubhathat, muhatbhat)) := tmu_like mu e in
  let qmu_like_stat := if nltb N mu (poi_of e muhatbhat) then n0 N else tmu_like_stat in
  (qmu_like_stat, (mubhathat, muhatbhat)).

Definition result := (tserr + (list tswarn * stat))%type.

Definition warn_if (b : bool) (w : tswarn) : list tswarn := if b then [w] else [].

Definition qmu (mu : T) (e : Env) : result :=
  match poi_index e with
  | None => inl EUnspecifiedPOI
  | Some _ => inr (warn_if (neqb N (poi_lower e) (n0 N)) WQmuBoundedAtZero, qmu_like mu e)
  end.
Definition qmu_tilde (mu : T) (e : Env) : result :=
  match poi_index e with
  | None => inl EUnspecifiedPOI
  | Some _ => inr (warn_if (negb (neqb N (poi_lower e) (n0 N))) WQmuTildeNotBoundedAtZero, qmu_like mu e)
  end.
Definition tmu (mu : T) (e : Env) : result :=
  match poi_index e with
  | None => inl EUnspecifiedPOI
  | Some _ => inr (warn_if (neqb N (poi_lower e) (n0 N)) WTmuBoundedAtZero, tmu_like mu e)
  end.
Definition tmu_tilde (mu : T) (e : Env) : result :=
  match poi_index e with
  | None => inl EUnspecifiedPOI
  | Some _ => inr (warn_if (negb (neqb N (poi_lower e) (n0 N))) WTmuTildeNotBoundedAtZero, tmu_like mu e)
  end.
(* if mu != 0.0: warn; mu = 0.0 ... where(muhatbhat[poi_index] < 0, 0.0, tmu_like_stat) *)
Definition q0 (mu : T) (e : Env) : result :=
  match poi_index e with
  | None => inl EUnspecifiedPOI
  | Some _ =>
    let w := warn_if (negb (neqb N mu (n0 N))) WQ0MuNonzero in
    let mu := n0 N in
    let '(tmu_like_stat, (mubhathat, muhatbhat)) := tmu_like mu e in
    let q0_stat := if nltb N (poi_of e muhatbhat) (n0 N) then n0 N else tmu_like_stat in
    inr (w, (q0_stat, (mubhathat, muhatbhat)))
  end.

Inductive tsname := SQ | SQtilde | SQ0 | ST | STtilde.
Definition teststat (s : tsname) : T -> Env -> result :=
  match s with SQ => qmu | SQtilde => qmu_tilde | SQ0 => q0 | ST => tmu | STtilde => tmu_tilde end.
(* infer/utils.py:get_test_stat *)
Definition get_test_stat (name : nat) : option tsname :=   (* 0 = 'q0', 1 = 'q', 2 = 'qtilde', else InvalidTestStatistic *)
  match name with 0%nat => Some SQ0 | 1%nat => Some SQ | 2%nat => Some SQtilde | _ => None end.

Definition value_of (r : result) : option T := match r with inr (_, (v, _)) => Some v | inl _ => None end.
Definition pars_of (r : result) : option (list T * list T) := match r with inr (_, (_, p)) => Some p | inl _ => None end.

(* ---------- instance-independent facts ---------- *)
Lemma no_poi_refused : forall s mu e, poi_index e = None -> teststat s mu e = inl EUnspecifiedPOI.
Proof. intros s mu e H. destruct s; simpl; unfold qmu, qmu_tilde, q0, tmu, tmu_tilde; rewrite H; reflexivity. Qed.

(* the fitted parameters returned are exactly those of the two fits, the fixed one taken at the tested value
   (at 0 for q0) *)
Lemma pars_are_the_fits : forall s mu e i, poi_index e = Some i ->
  pars_of (teststat s mu e) = Some (fst (fixed_poi_fit (match s with SQ0 => n0 N | _ => mu end) e), fst (fit e)).
Proof. intros s mu e i H. destruct s; simpl; unfold qmu, qmu_tilde, q0, tmu, tmu_tilde, qmu_like, tmu_like; rewrite H;
  try destruct (fixed_poi_fit mu e); try destruct (fixed_poi_fit (n0 N) e); destruct (fit e); reflexivity. Qed.

(* q0 always tests mu = 0: the tested value only influences the warning *)
Lemma q0_tests_zero_gen : forall mu e, value_of (q0 mu e) = value_of (q0 (n0 N) e) /\ pars_of (q0 mu e) = pars_of (q0 (n0 N) e).
Proof. intros mu e. unfold q0. destruct (poi_index e); [|split; reflexivity].
  destruct (tmu_like (n0 N) e) as [t [a b]]. split; reflexivity. Qed.

(* tilde and plain variants differ by the warning only *)
Lemma tilde_same_value : forall mu e,
  value_of (qmu_tilde mu e) = value_of (qmu mu e) /\ value_of (tmu_tilde mu e) = value_of (tmu mu e).
Proof. intros. unfold qmu, qmu_tilde, tmu, tmu_tilde. destruct (poi_index e); split; reflexivity. Qed.
End Model.

(* ====================================================================================== *)
Section Reals.
Local Open Scope R_scope.
Variable Env : Type.
Variable fit : Env -> list R * R.
Variable fixed_poi_fit : R -> Env -> list R * R.
Variable poi_index : Env -> option nat.
Variable poi_lower : Env -> R.

Notation TS := (teststat RNum Env fit fixed_poi_fit poi_index poi_lower).
Notation value s mu e := (value_of RNum (TS s mu e)).
Notation muhat e := (poi_of RNum Env poi_index e (fst (fit e))).
(* the raw likelihood ratio of the two fits *)
Definition ratio (mu : R) (e : Env) : R := snd (fixed_poi_fit mu e) - snd (fit e).

Lemma clip0_max : forall x, clip0 RNum x = Rmax 0 x.
Proof. intro x. unfold clip0; simpl. unfold rltb. destruct (Rlt_dec x 0).
  - rewrite Rmax_left; lra.
  - rewrite Rmax_right; lra. Qed.

Lemma tmu_like_value : forall mu e, fst (tmu_like RNum Env fit fixed_poi_fit mu e) = Rmax 0 (ratio mu e).
Proof. intros. unfold tmu_like, ratio. destruct (fixed_poi_fit mu e), (fit e). simpl. apply clip0_max. Qed.
Lemma tmu_like_pars : forall mu e, snd (tmu_like RNum Env fit fixed_poi_fit mu e) = (fst (fixed_poi_fit mu e), fst (fit e)).
Proof. intros. unfold tmu_like. destruct (fixed_poi_fit mu e), (fit e). reflexivity. Qed.

Section WithPoi.
Variable e : Env.
Variable i : nat.
Hypothesis Hpoi : poi_index e = Some i.

(* closed description of all five statistics *)
Theorem value_cases : forall s mu,
  value s mu e = Some (match s with
    | ST | STtilde => Rmax 0 (ratio mu e)
    | SQ | SQtilde => if Rlt_dec mu (muhat e) then 0 else Rmax 0 (ratio mu e)
    | SQ0 => if Rlt_dec (muhat e) 0 then 0 else Rmax 0 (ratio 0 e)
    end).
Proof. intros s mu.
  pose proof (tmu_like_value mu e) as Hv. pose proof (tmu_like_pars mu e) as Hp.
  pose proof (tmu_like_value 0 e) as Hv0. pose proof (tmu_like_pars 0 e) as Hp0.
  destruct s; simpl; unfold qmu, qmu_tilde, q0, tmu, tmu_tilde, qmu_like; rewrite Hpoi; simpl.
  - destruct (tmu_like RNum Env fit fixed_poi_fit mu e) as [t [a b]]; simpl in *. inversion Hp; subst.
    unfold rltb. destruct (Rlt_dec mu _); reflexivity.
  - destruct (tmu_like RNum Env fit fixed_poi_fit mu e) as [t [a b]]; simpl in *. inversion Hp; subst.
    unfold rltb. destruct (Rlt_dec mu _); reflexivity.
  - destruct (tmu_like RNum Env fit fixed_poi_fit 0 e) as [t [a b]]; simpl in *. inversion Hp0; subst.
    unfold rltb. destruct (Rlt_dec _ 0); reflexivity.
  - destruct (tmu_like RNum Env fit fixed_poi_fit mu e) as [t [a b]]; simpl in *. subst. reflexivity.
  - destruct (tmu_like RNum Env fit fixed_poi_fit mu e) as [t [a b]]; simpl in *. subst. reflexivity. Qed.

Theorem teststat_nonneg : forall s mu, exists v, value s mu e = Some v /\ 0 <= v.
Proof. intros s mu. rewrite value_cases. eexists; split; [reflexivity|].
  destruct s; try destruct (Rlt_dec _ _); try apply Rmax_l; lra. Qed.

(* each statistic is max(0, 2[NLL(mu, conditional fit) - NLL(free fit)]) or zero by its one-sided rule *)
Theorem qmu_zero_above : forall s mu, s = SQ \/ s = SQtilde ->
  (mu < muhat e -> value s mu e = Some 0) /\ (muhat e <= mu -> value s mu e = Some (Rmax 0 (ratio mu e))).
Proof. intros s mu [-> | ->]; rewrite value_cases; split; intro H; destruct (Rlt_dec mu _); try reflexivity; lra. Qed.

Theorem q0_zero_below : forall mu,
  (muhat e < 0 -> value SQ0 mu e = Some 0) /\ (0 <= muhat e -> value SQ0 mu e = Some (Rmax 0 (ratio 0 e))).
Proof. intros mu; rewrite value_cases; split; intro H; destruct (Rlt_dec _ 0); try reflexivity; lra. Qed.

Theorem q0_tests_zero : forall mu, value SQ0 mu e = value SQ0 0 e /\
  pars_of RNum (TS SQ0 mu e) = Some (fst (fixed_poi_fit 0 e), fst (fit e)).
Proof. intros mu. split.
  - rewrite !value_cases. reflexivity.
  - apply (pars_are_the_fits RNum Env fit fixed_poi_fit poi_index poi_lower SQ0 mu e i Hpoi). Qed.

Theorem tmu_no_zeroing : forall s mu, s = ST \/ s = STtilde -> value s mu e = Some (Rmax 0 (ratio mu e)).
Proof. intros s mu [-> | ->]; rewrite value_cases; reflexivity. Qed.

(* ---- Part 3: if both fits return true minima of one objective, the raw ratio is already >= 0 ---- *)
Section ExactFits.
Variable obj : list R -> R.                     (* twice_nll(pars, data, pdf) *)
Variable feasible : list R -> Prop.             (* within bounds, fixed parameters at their values *)
Hypothesis fit_is_min : forall p, feasible p -> snd (fit e) <= obj p.
Hypothesis fixed_feasible : forall mu, feasible (fst (fixed_poi_fit mu e)).
Hypothesis fixed_honest : forall mu, snd (fixed_poi_fit mu e) = obj (fst (fixed_poi_fit mu e)).

Theorem exact_fits_need_no_clip : forall mu, 0 <= ratio mu e /\ Rmax 0 (ratio mu e) = ratio mu e.
Proof. intro mu. assert (0 <= ratio mu e).
  { unfold ratio. rewrite fixed_honest. pose proof (fit_is_min _ (fixed_feasible mu)). lra. }
  split; [assumption|]. apply Rmax_right; assumption. Qed.

(* ... and the statistic vanishes when the tested value is the best-fit value, provided the conditional
   fit at the best-fit POI is as good as the free fit *)
Theorem zero_at_best_fit : forall s mu, s <> SQ0 -> snd (fixed_poi_fit mu e) = snd (fit e) -> value s mu e = Some 0.
Proof. intros s mu Hs H. rewrite value_cases. assert (R0 : ratio mu e = 0) by (unfold ratio; lra).
  rewrite R0. rewrite Rmax_left by lra. destruct s; try congruence; try destruct (Rlt_dec _ _); reflexivity. Qed.
End ExactFits.
End WithPoi.
End Reals.

(* ====================================================================================== *)
(* Part 4: one bin, n ~ Pois(mu s + b), POI bounds [lo, hi], no nuisance parameter.
   twice_nll(mu) = 2 (lam - n ln lam) + C with lam = mu s + b *)
Section Counting.
Local Open Scope R_scope.
Variables n s b lo hi C : R.
Hypothesis Hn : 0 <= n.
Hypothesis Hs : 0 < s.
Hypothesis Hlohi : lo <= hi.
Hypothesis Hlam_lo : 0 < lo * s + b.           (* the rate is positive on the whole POI range *)

Definition lam (mu : R) : R := mu * s + b.
Definition tnll (mu : R) : R := 2 * (lam mu - n * ln (lam mu)) + C.
(* the unconstrained optimum (n - b)/s pulled into [lo, hi] *)
Definition muhat_c : R := Rmax lo (Rmin hi ((n - b) / s)).
(* the profile likelihood ratio in closed form *)
Definition t_closed (mu : R) : R := 2 * ((lam mu - lam muhat_c) - n * ln (lam mu / lam muhat_c)).

Lemma lam_pos : forall mu, lo <= mu -> 0 < lam mu.
Proof. intros mu H. unfold lam. assert (lo * s <= mu * s) by (apply Rmult_le_compat_r; lra). lra. Qed.

Lemma muhat_c_range : lo <= muhat_c <= hi.
Proof. unfold muhat_c. split; [apply Rmax_l|]. apply Rmax_lub; [assumption|apply Rmin_l]. Qed.

Lemma ln_div' : forall x y, 0 < x -> 0 < y -> ln (x / y) = ln x - ln y.
Proof. intros x y Hx Hy. unfold Rdiv. rewrite ln_mult; [|assumption|apply Rinv_0_lt_compat; assumption].
  rewrite ln_Rinv by assumption. ring. Qed.

Lemma ln_le_sub1 : forall x, 0 < x -> ln x <= x - 1.
Proof. intros x Hx. pose proof (exp_ineq1_le (ln x)) as H. rewrite exp_ln in H by assumption. lra. Qed.

(* tangent inequality: f(l) - f(l0) >= (l - l0)(1 - n/l0) for f(l) = l - n ln l *)
Lemma tangent : forall l l0, 0 < l -> 0 < l0 -> (l - l0) * (1 - n / l0) <= (l - n * ln l) - (l0 - n * ln l0).
Proof. intros l l0 Hl Hl0.
  assert (Hln : ln l - ln l0 <= l / l0 - 1).
  { rewrite <- ln_div' by assumption. apply ln_le_sub1. apply Rdiv_lt_0_compat; assumption. }
  assert (n * (ln l - ln l0) <= n * (l / l0 - 1)) by (apply Rmult_le_compat_l; assumption).
  replace ((l - l0) * (1 - n / l0)) with ((l - l0) - n * (l / l0 - 1)) by (field; lra). lra. Qed.

(* the clamped optimum minimises twice_nll over [lo, hi] *)
Theorem muhat_c_is_argmin : forall mu, lo <= mu <= hi -> tnll muhat_c <= tnll mu.
Proof. intros mu [Hl Hh]. destruct muhat_c_range as [Ml Mh].
  pose proof (lam_pos mu Hl) as Lp. pose proof (lam_pos muhat_c Ml) as L0p.
  pose proof (tangent (lam mu) (lam muhat_c) Lp L0p) as Tg.
  assert (Hsign : 0 <= (lam mu - lam muhat_c) * (1 - n / lam muhat_c)).
  { replace (lam mu - lam muhat_c) with ((mu - muhat_c) * s) by (unfold lam; ring).
    assert (E : 1 - n / lam muhat_c = (muhat_c - (n - b) / s) * s / lam muhat_c) by (unfold lam in L0p |- *; field; split; lra).
    rewrite E.
    assert (Hinv : 0 < / lam muhat_c) by (apply Rinv_0_lt_compat; assumption).
    (* three positions of the unconstrained optimum u = (n-b)/s *)
    set (u := (n - b) / s) in *.
    destruct (Rle_dec u lo) as [Hu | Hu].
    - (* clamped at lo: muhat_c = lo, mu >= lo, lo >= u *)
      assert (muhat_c = lo) as Em. { unfold muhat_c. fold u. rewrite Rmax_left; [reflexivity|]. apply Rle_trans with u; [apply Rmin_r|assumption]. }
      rewrite Em in *. unfold Rdiv. repeat apply Rmult_le_pos; lra.
    - destruct (Rle_dec u hi) as [Hu2 | Hu2].
      + (* interior: muhat_c = u *)
        assert (muhat_c = u) as Em. { unfold muhat_c. fold u. rewrite Rmin_right by assumption. rewrite Rmax_right; lra. }
        rewrite Em in *. unfold Rdiv. replace (u - u) with 0 by ring. rewrite !Rmult_0_l, Rmult_0_r. lra.
      + (* clamped at hi *)
        assert (muhat_c = hi) as Em. { unfold muhat_c. fold u. rewrite Rmin_left by lra. rewrite Rmax_right; lra. }
        rewrite Em in *. unfold Rdiv.
        replace ((mu - hi) * s * ((hi - u) * s * / lam hi)) with ((hi - mu) * s * ((u - hi) * s * / lam hi)) by ring.
        repeat apply Rmult_le_pos; lra. }
  unfold tnll. lra. Qed.

(* with fits that return this optimum (and the conditional value at the tested mu), the likelihood ratio is
   the closed form, it is >= 0 without the clip, and it is 0 when the tested value is the best-fit value *)
Theorem t_closed_is_ratio : forall mu, lo <= mu -> tnll mu - tnll muhat_c = t_closed mu.
Proof. intros mu Hl. destruct muhat_c_range as [Ml Mh].
  pose proof (lam_pos mu Hl). pose proof (lam_pos muhat_c Ml).
  unfold tnll, t_closed. rewrite ln_div' by lra. ring. Qed.
Theorem t_closed_nonneg : forall mu, lo <= mu <= hi -> 0 <= t_closed mu.
Proof. intros mu H. rewrite <- t_closed_is_ratio by lra. pose proof (muhat_c_is_argmin mu H). lra. Qed.
Theorem t_closed_zero_at_best_fit : t_closed muhat_c = 0.
Proof. destruct muhat_c_range as [Ml Mh]. pose proof (lam_pos muhat_c Ml).
  unfold t_closed. replace (lam muhat_c / lam muhat_c) with 1 by (field; lra). rewrite ln_1. ring. Qed.

(* the five statistics for this model, through the transcribed functions, with exact fits *)
Definition cfit (_ : unit) : list R * R := ([muhat_c], tnll muhat_c).
Definition cfixed (mu : R) (_ : unit) : list R * R := ([mu], tnll mu).
Notation CTS := (teststat RNum unit cfit cfixed (fun _ => Some 0%nat) (fun _ => lo)).

Theorem q_closed_form_counting : forall st mu, lo <= mu <= hi -> (st = SQ0 -> lo <= 0 <= hi) ->
  value_of RNum (CTS st mu tt) = Some (match st with
    | ST | STtilde => t_closed mu
    | SQ | SQtilde => if Rlt_dec mu muhat_c then 0 else t_closed mu
    | SQ0 => if Rlt_dec muhat_c 0 then 0 else t_closed 0
    end).
Proof. intros st mu Hmu H0.
  rewrite (value_cases unit cfit cfixed (fun _ => Some 0%nat) (fun _ => lo) tt 0%nat eq_refl).
  unfold ratio, cfit, cfixed, poi_of; simpl.
  destruct st.
  - rewrite t_closed_is_ratio by lra. rewrite (Rmax_right 0 (t_closed mu)) by (apply t_closed_nonneg; assumption). reflexivity.
  - rewrite t_closed_is_ratio by lra. rewrite (Rmax_right 0 (t_closed mu)) by (apply t_closed_nonneg; assumption). reflexivity.
  - specialize (H0 eq_refl). rewrite t_closed_is_ratio by lra.
    rewrite (Rmax_right 0 (t_closed 0)) by (apply t_closed_nonneg; assumption). reflexivity.
  - rewrite t_closed_is_ratio by lra. rewrite (Rmax_right 0 (t_closed mu)) by (apply t_closed_nonneg; assumption). reflexivity.
  - rewrite t_closed_is_ratio by lra. rewrite (Rmax_right 0 (t_closed mu)) by (apply t_closed_nonneg; assumption). reflexivity. Qed.

Theorem q_zero_at_best_fit_counting : forall st, st <> SQ0 ->
  value_of RNum (CTS st muhat_c tt) = Some 0.
Proof. intros st Hst. rewrite q_closed_form_counting by (try apply muhat_c_range; congruence).
  rewrite t_closed_zero_at_best_fit. destruct st; try congruence; try destruct (Rlt_dec _ _); reflexivity. Qed.
End Counting.

(* helpers for the certified reference values written by the harness: the clamp resolved, the case
   definition as one function *)
Lemma muhat_c_eq : forall n s b lo hi m : R, (lo <= hi)%R ->
  (m = lo /\ (n - b) / s <= lo)%R \/ (m = (n - b) / s /\ lo <= (n - b) / s <= hi)%R \/ (m = hi /\ hi <= (n - b) / s)%R ->
  muhat_c n s b lo hi = m.
Proof. intros n s b lo hi m Hlh H. unfold muhat_c. destruct H as [[-> H] | [[-> H] | [-> H]]].
  - apply Rmax_left. apply Rle_trans with ((n - b) / s)%R; [apply Rmin_r|assumption].
  - rewrite Rmin_right by lra. apply Rmax_right; lra.
  - rewrite Rmin_left by lra. apply Rmax_right; lra. Qed.

Definition stat_closed (st : tsname) (n s b lo hi mu : R) : R :=
  match st with
  | ST | STtilde => t_closed n s b lo hi mu
  | SQ | SQtilde => if Rlt_dec mu (muhat_c n s b lo hi) then 0%R else t_closed n s b lo hi mu
  | SQ0 => if Rlt_dec (muhat_c n s b lo hi) 0 then 0%R else t_closed n s b lo hi 0%R
  end.

(* the hypotheses of the counting section are satisfiable, and the closed form is what one expects there *)
Example counting_nonvacuous : (muhat_c 5 2 3 0 10 = 1 /\ t_closed 5 2 3 0 10 1 = 0)%R.
Proof. assert (E : (muhat_c 5 2 3 0 10 = 1)%R).
  { unfold muhat_c. replace ((5 - 3) / 2)%R with 1%R by (field). rewrite Rmin_right by lra. rewrite Rmax_right by lra. reflexivity. }
  split; [exact E|]. rewrite <- E. apply t_closed_zero_at_best_fit; lra. Qed.

(* ---------- appended: which optimisation problem the two fits are run on ----------
   The statistic for the caller's environment e = (data, pdf, init_pars, par_bounds, fixed_params) consults the two
   fits AT e only: fits that agree with (fit, fixed_poi_fit) on e, whatever they return for any other data, model,
   starting values, bounds or fixed flags, give the same warnings, value and fitted parameters.  An implementation
   that hands one of the fits anything but the caller's e is therefore not this model (harness/props/c06.py checks
   the arguments received by both fits against the caller's on every scripted case). *)
Theorem fits_consulted_at_callers_env :
  forall (N : Num) (Env : Type) (fit fit' : Env -> list (V N) * V N) (fixed fixed' : V N -> Env -> list (V N) * V N)
         (poi_index : Env -> option nat) (poi_lower : Env -> V N) (s : tsname) (mu : V N) (e : Env),
  fit e = fit' e -> (forall m, fixed m e = fixed' m e) ->
  teststat N Env fit fixed poi_index poi_lower s mu e = teststat N Env fit' fixed' poi_index poi_lower s mu e.
Proof.
  intros N Env fit fit' fixed fixed' poi_index poi_lower s mu e Hfit Hfixed.
  destruct s; simpl; unfold qmu, qmu_tilde, q0, tmu, tmu_tilde, qmu_like, tmu_like;
    rewrite Hfit, ?Hfixed; reflexivity.
Qed.

(* non-vacuity, and the hypothesis is needed: two pairs of fits over Env = bool that agree at the caller's
   environment `true` and differ at `false` give the same statistic at `true` and different values at `false` *)
Example fits_consulted_nonvacuous :
  let q := fun z : Z => Q2Qc (inject_Z z) in
  let fitA := fun e : bool => ([q 1%Z; q 2%Z], q 10%Z) in
  let fitB := fun e : bool => ([q 1%Z; q 2%Z], if e then q 10%Z else q 7%Z) in
  let fx := fun (m : Qc) (e : bool) => ([m; q 3%Z], (q 12%Z + m)%Qc) in
  let ts := fun fit e => teststat QcNum bool fit fx (fun _ => Some 0%nat) (fun _ => q 0%Z) ST (q 1%Z) e in
  ts fitA true = ts fitB true /\
  value_of QcNum (ts fitA false) = Some (q 3%Z) /\ value_of QcNum (ts fitB false) = Some (q 6%Z).
Proof. repeat split; vm_compute; reflexivity. Qed.
