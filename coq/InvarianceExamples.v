(* C15: non-vacuity of the specification-level invariance theorems -- every theorem instantiated on a concrete
   two-channel specification over exact rationals (all seven modifier types but shapefactor, shared names), the
   hypotheses discharged, the rewritten specification really different, the values computed. *)
From Coq Require Import Bool Arith Lia Permutation Ring Field Ascii String QArith Qcanon List.
Require Import PV.Num PV.Sort PV.Spec PV.Impl PV.Ref PV.InterpQ PV.Run PV.EngineRun PV.RefineTop PV.Wf PV.Invariance
               PV.InvarianceSpec PV.InvarianceRewrite PV.InvarianceReorder PV.InvarianceRename PV.InvarianceSplit.
Import ListNotations.
Local Open Scope list_scope.
Local Open Scope string_scope.

Notation Q := QcNum.
Definition q (n : Z) : Qc := mkq n 1.
Definition dnone : moddata Q := @MDNone Q.
Definition dnorm (lo hi : Qc) : moddata Q := @MDNorm Q lo hi.
Definition dhisto (lo hi : list Qc) : moddata Q := @MDHisto Q lo hi.
Definition dlist (l : list Qc) : moddata Q := @MDList Q l.
Definition mk_mod (n : string) (t : mtype) (d : moddata Q) : modifier Q := Build_modifier (N:=Q) n t d.
Definition mk_sample (n : string) (d : list Qc) (m : list (modifier Q)) : sample Q := Build_sample (N:=Q) n d m.
Definition mk_chan (n : string) (s : list (sample Q)) : channel Q := Build_channel (N:=Q) n s.

Definition ex_signal : sample Q :=
  mk_sample "signal" [q 5; q 6] [mk_mod "mu" Normfactor dnone; mk_mod "sys" Normsys (dnorm (mkq 9 10) (mkq 11 10)); mk_mod "lumi" Lumi dnone].
Definition ex_bkg : sample Q :=
  mk_sample "bkg" [q 50; q 60] [mk_mod "h" Histosys (dhisto [q 45; q 55] [q 55; q 66]); mk_mod "stat_SR" Staterror (dlist [q 5; q 6]);
                                mk_mod "lumi" Lumi dnone].
Definition ex_SR : channel Q := mk_chan "SR" [ex_signal; ex_bkg].
Definition ex_CR : channel Q :=
  mk_chan "CR" [mk_sample "bkg" [q 100] [mk_mod "sys" Normsys (dnorm (mkq 8 10) (mkq 12 10)); mk_mod "shp" Shapesys (dlist [q 10])]].
Definition ex_lumi_cfg : parcfg Q :=
  Build_parcfg (N:=Q) "lumi" (Some [q 1]) (Some [(mkq 1 2, mkq 3 2)]) (Some [q 1]) None (Some [mkq 1 50]) None.
Definition ex_mu_cfg : parcfg Q := Build_parcfg (N:=Q) "mu" (Some [q 1]) (Some [(q 0, q 10)]) None None None None.
Definition ex_spec : spec Q := Build_spec (N:=Q) [ex_SR; ex_CR] [ex_lumi_cfg; ex_mu_cfg] (Some "mu").

Definition ia := q_interp_add.
Definition im := interp_mul_q [].
Definition ex_theta (n : string) (k : nat) : Qc :=
  if String.eqb n "mu" then q 2 else if String.eqb n "sys" then q 1 else if String.eqb n "h" then mkq 1 2
  else if String.eqb n "stat_SR" then nth k [mkq 11 10; mkq 9 10] (q 1) else if String.eqb n "shp" then mkq 21 20 else q 1.
Definition ex_obs (n : string) (b : nat) : Qc := if String.eqb n "SR" then nth b [q 70; q 80] (q 0) else q 95.
Definition ex_aux (n : string) (k : nat) : Qc := if String.eqb n "shp" then q 100 else if String.eqb n "sys" then q 0 else q 1.
Notation rexp sp th := (ref_expected Q ia im "code1" "code0" None None sp th).
Notation rterms sp th ob ax := (ref_terms Q ia im "code1" "code0" None None sp th ob ax).
Notation rmain sp th ob := (ref_main_terms Q ia im "code1" "code0" None None sp th ob).


(* small decision helpers *)
Lemma nodup_names l : has_dup l = false -> NoDup l. Proof. apply has_dup_false_NoDup. Qed.
Lemma nodup_keys l : has_dup_pair l = false -> NoDup l. Proof. apply has_dup_pair_false_NoDup. Qed.
Ltac in_cases H := simpl in H; repeat (destruct H as [H|H]; [try subst|]); try contradiction.

Lemma ex_nodup_channels : NoDup (map c_name (channels ex_spec)). Proof. apply nodup_names. reflexivity. Qed.
Lemma ex_uniform_bins : forall c s, In c (channels ex_spec) -> In s (c_samples c) -> length (s_data s) = chan_nbins Q c.
Proof. intros c s Hc Hs. in_cases Hc; in_cases Hs; reflexivity. Qed.
Lemma ex_nodup_mods : forall c s, In c (channels ex_spec) -> In s (c_samples c) -> NoDup (map mkey (s_mods s)).
Proof. intros c s Hc Hs. in_cases Hc; in_cases Hs; apply nodup_keys; reflexivity. Qed.
Lemma ex_nodup_pars : NoDup (map pc_name (parameters ex_spec)). Proof. apply nodup_names. reflexivity. Qed.
Lemma ex_values : qouts (rexp ex_spec ex_theta) = [(126%Z, 1%positive); (275%Z, 4%positive); (699%Z, 10%positive)].
Proof. vm_compute. reflexivity. Qed.

(* 1. listing order *)
Example reorder_invariant_nonvacuous :
  rev_spec Q ex_spec <> ex_spec /\
  rexp (rev_spec Q ex_spec) ex_theta = rexp ex_spec ex_theta /\
  Permutation (rterms (rev_spec Q ex_spec) ex_theta ex_obs ex_aux) (rterms ex_spec ex_theta ex_obs ex_aux).
Proof.
  destruct (reorder_invariant Q Qcrt ia im "code1" "code0" None None ex_spec (rev_spec Q ex_spec) (rev_spec_reorder Q ex_spec)
              ex_nodup_channels ex_uniform_bins) as [H1 H2].
  split; [intros E; apply (f_equal (fun s => map c_name (channels s))) in E; vm_compute in E; discriminate|].
  split; [apply H1|]. apply H2; [apply ex_nodup_mods|apply ex_nodup_pars].
Qed.
Definition ex_st : settings Q := Build_settings Q "code1" "code0" None None.
Lemma ex_shape_ok (sp : spec Q) : forallb (fun c => forallb (fun s => forallb (fun m =>
    match m_type m, m_data m with Histosys, MDHisto _ _ => true | Histosys, _ => false | Normsys, MDNorm _ _ => true | Normsys, _ => false | _, _ => true end)
    (s_mods s)) (c_samples c)) (channels sp) = true -> shape_ok Q sp.
Proof. intros H c s m Hc Hs Hm. rewrite forallb_forall in H. specialize (H c Hc). rewrite forallb_forall in H. specialize (H s Hs).
  rewrite forallb_forall in H. specialize (H m Hm). destruct (m_type m); auto; destruct (m_data m); try discriminate; eauto. Qed.
Lemma layout_from_build (sp : spec Q) md : build Q sp = Ok md ->
  (match build Q sp with Ok m => layout_okb Q sp m | Err _ => false end) = true -> layout_okb Q sp md = true.
Proof. intros E H. rewrite E in H. exact H. Qed.
Definition is_ok {A} (r : result A) : bool := match r with Ok _ => true | Err _ => false end.
Definition slices (md : model Q) : list (string * nat) := map (fun p => (p_name Q p, p_start Q p)) (md_psets Q md).
Lemma pstart_slices md md' : slices md = slices md' -> forall n, pstart Q md n = pstart Q md' n.
Proof. unfold slices, pstart, find_pset. generalize (md_psets Q md) (md_psets Q md'). induction l as [|p l IH]; intros [|p' l'] H n; simpl in *; try discriminate; auto.
  inversion H as [[H1 H2 H3]]. rewrite H1. destruct (String.eqb (p_name Q p') n); auto. Qed.
Example reorder_invariant_impl_nonvacuous :
  is_ok (build Q ex_spec) = true /\ is_ok (build Q (rev_spec Q ex_spec)) = true /\
  forall md md', build Q ex_spec = Ok md -> build Q (rev_spec Q ex_spec) = Ok md' ->
    forall pars, expected_actualdata Q ia im ex_spec ex_st md pars = expected_actualdata Q ia im (rev_spec Q ex_spec) ex_st md' pars.
Proof.
  split; [vm_compute; reflexivity|]. split; [vm_compute; reflexivity|]. intros md md' E E' pars.
  apply (reorder_invariant_impl Q Qcrt ia im ex_spec (rev_spec Q ex_spec) ex_st md md' pars pars (rev_spec_reorder Q ex_spec) E E').
  - apply ex_shape_ok. reflexivity.
  - apply ex_shape_ok. reflexivity.
  - exact I.
  - apply (layout_from_build _ _ E). vm_compute. reflexivity.
  - apply (layout_from_build _ _ E'). vm_compute. reflexivity.
  - assert (H : match build Q ex_spec with Ok m => slices m | Err _ => [] end =
                match build Q (rev_spec Q ex_spec) with Ok m => slices m | Err _ => [] end) by (vm_compute; reflexivity).
    rewrite E, E' in H. intros n k. unfold RefineRates.theta. now rewrite (pstart_slices md md' H).
Qed.

(* 3. zero sample added to the signal region *)
Definition ex_empty : sample Q := mk_sample "empty" [q 0; q 0] [].
Example zero_sample_invariant_spec_nonvacuous :
  let sp' := with_channels ex_spec ([] ++ add_sample Q ex_empty ex_SR :: [ex_CR]) in
  length (c_samples (add_sample Q ex_empty ex_SR)) = 3%nat /\
  rexp sp' ex_theta = rexp ex_spec ex_theta /\ Permutation (rterms sp' ex_theta ex_obs ex_aux) (rterms ex_spec ex_theta ex_obs ex_aux).
Proof.
  cbv zeta. split; [reflexivity|].
  apply (zero_sample_invariant_spec Q Qcrt ia im "code1" "code0" None None ex_spec [] [ex_CR] ex_SR ex_empty); auto.
  - apply ex_nodup_channels.
  - intros [|[|[|b]]]; reflexivity.
Qed.

(* 4. a histosys whose variations equal the nominal, added to the background of the signal region *)
Lemma ex_null_histo name : null_mod Q ia im "code1" "code0" ex_bkg (mk_mod name Histosys (dhisto [q 50; q 60] [q 50; q 60])).
Proof. unfold null_mod. simpl. intros [|[|[|b]]] a; unfold ia, q_interp_add, interp_add_gen; simpl; unfold code0;
  destruct (nltb Q (c Q 0) a); simpl; ring. Qed.
Example null_systematic_invariant_spec_nonvacuous :
  let m_new := mk_mod "newh" Histosys (dhisto [q 50; q 60] [q 50; q 60]) in
  let m_old := mk_mod "sys" Histosys (dhisto [q 50; q 60] [q 50; q 60]) in
  let sp_new := with_channels ex_spec ([] ++ with_samples ex_SR ([ex_signal] ++ add_mod Q m_new ex_bkg :: []) :: [ex_CR]) in
  let sp_old := with_channels ex_spec ([] ++ with_samples ex_SR ([ex_signal] ++ add_mod Q m_old ex_bkg :: []) :: [ex_CR]) in
  rexp sp_new ex_theta = rexp ex_spec ex_theta /\
  Permutation (rterms sp_new ex_theta ex_obs ex_aux) (@TNorm Q (ex_aux "newh" O) (ex_theta "newh" O) 1%Qc :: rterms ex_spec ex_theta ex_obs ex_aux) /\
  rexp sp_old ex_theta = rexp ex_spec ex_theta /\
  Permutation (rterms sp_old ex_theta ex_obs ex_aux) (rterms ex_spec ex_theta ex_obs ex_aux).
Proof.
  cbv zeta.
  destruct (null_systematic_invariant_spec Q Qcrt ia im "code1" "code0" None None ex_spec [] [ex_CR] ex_SR [ex_signal] [] ex_bkg
              (mk_mod "newh" Histosys (dhisto [q 50; q 60] [q 50; q 60])) eq_refl eq_refl ex_nodup_channels (ex_null_histo "newh") ex_theta ex_obs ex_aux) as [H1 [_ H3]].
  destruct (null_systematic_invariant_spec Q Qcrt ia im "code1" "code0" None None ex_spec [] [ex_CR] ex_SR [ex_signal] [] ex_bkg
              (mk_mod "sys" Histosys (dhisto [q 50; q 60] [q 50; q 60])) eq_refl eq_refl ex_nodup_channels (ex_null_histo "sys") ex_theta ex_obs ex_aux) as [H4 [H5 _]].
  split; [exact H1|]. split; [apply H3; vm_compute; intuition discriminate|]. split; [exact H4|]. apply H5. vm_compute. auto.
Qed.

(* 7. signal yields doubled, signal strength halved *)
Example signal_rescale_covariant_spec_nonvacuous :
  rescale_signal Q "mu" (q 2) ex_spec <> ex_spec /\ qout (rescale_theta Q "mu" (q 2) ex_theta "mu" O) = (1%Z, 1%positive) /\
  rexp (rescale_signal Q "mu" (q 2) ex_spec) (rescale_theta Q "mu" (q 2) ex_theta) = rexp ex_spec ex_theta /\
  rmain (rescale_signal Q "mu" (q 2) ex_spec) (rescale_theta Q "mu" (q 2) ex_theta) ex_obs = rmain ex_spec ex_theta ex_obs.
Proof.
  split; [intros E; apply (f_equal (fun s : spec Q => map (fun c : channel Q => map (fun s0 : sample Q => qouts (s_data s0)) (c_samples c)) (channels s))) in E; vm_compute in E; discriminate|].
  split; [vm_compute; reflexivity|].
  apply (signal_rescale_covariant_spec Q Qcft ia im "code1" "code0" None None "mu" (q 2)).
  - intros E. vm_compute in E. discriminate.
  - apply ex_nodup_channels.
  - intros c s m Hc Hs Hm E. in_cases Hc; in_cases Hs; in_cases Hm; try reflexivity; vm_compute in E; discriminate.
  - intros c s Hc Hs _. now apply (ex_nodup_mods c s).
  - intros c s m Hc Hs Hh Hm. in_cases Hc; in_cases Hs; try (vm_compute in Hh; discriminate); in_cases Hm; discriminate.
Qed.

(* 2a. parameters renamed by prefixing "p_" *)
Definition ex_f (n : string) : string := String "p"%char (String "_"%char n).
Definition ex_unprefix (fn : string -> nat -> Qc) (n : string) (k : nat) : Qc :=
  match n with String _ (String _ r) => fn r k | _ => 0%Qc end.
Example rename_parameters_invariant_nonvacuous :
  rename_parameters Q ex_f ex_spec <> ex_spec /\
  rexp (rename_parameters Q ex_f ex_spec) (ex_unprefix ex_theta) = rexp ex_spec ex_theta /\
  rterms (rename_parameters Q ex_f ex_spec) (ex_unprefix ex_theta) ex_obs (ex_unprefix ex_aux) = rterms ex_spec ex_theta ex_obs ex_aux.
Proof.
  split; [intros E; apply (f_equal (fun s => map pc_name (parameters s))) in E; vm_compute in E; discriminate|].
  destruct (rename_parameters_invariant Q ia im "code1" "code0" None None ex_f) with (sp := ex_spec) (theta := ex_theta) (theta' := ex_unprefix ex_theta) as [H1 H2].
  - intros a b E. unfold ex_f in E. now inversion E.
  - reflexivity.
  - split; [exact H1|]. apply (H2 ex_obs ex_aux (ex_unprefix ex_aux)). reflexivity.
Qed.

(* 2b. channels renamed so that their sorted order flips: SR -> A_SR, CR -> B_CR *)
Definition ex_g (n : string) : string := if String.eqb n "SR" then "A_SR" else if String.eqb n "CR" then "B_CR" else n.
Definition ex_obs' (n : string) (b : nat) : Qc :=
  if String.eqb n "A_SR" then ex_obs "SR" b else if String.eqb n "B_CR" then ex_obs "CR" b else ex_obs n b.
Lemma ex_stat_local : stat_local Q ex_spec.
Proof. intros c c' n Hc Hc' H H'. in_cases Hc; in_cases Hc'; auto; unfold chan_has, has_mod in *; simpl in *;
  rewrite ?andb_false_r in *; simpl in *; discriminate. Qed.
Example rename_channels_invariant_nonvacuous :
  qouts (rexp (rename_channels Q ex_g ex_spec) ex_theta) = [(275%Z, 4%positive); (699%Z, 10%positive); (126%Z, 1%positive)] /\
  Permutation (rexp (rename_channels Q ex_g ex_spec) ex_theta) (rexp ex_spec ex_theta) /\
  Permutation (rterms (rename_channels Q ex_g ex_spec) ex_theta ex_obs' ex_aux) (rterms ex_spec ex_theta ex_obs ex_aux).
Proof.
  split; [vm_compute; reflexivity|].
  destruct (rename_channels_invariant Q ia im "code1" "code0" None None ex_g ex_spec ex_stat_local ex_theta) as [_ [H2 H3]].
  split; auto. apply H3. intros c b Hc. in_cases Hc; reflexivity.
Qed.
(* without the locality premise the statement is false: a staterror shared by two channels has its components laid out in
   sorted channel order, so a renaming that flips the order re-pairs them *)
Definition ex_shared : spec Q := Build_spec (N:=Q)
  [mk_chan "a" [mk_sample "s" [q 10] [mk_mod "st" Staterror (dlist [q 1])]]; mk_chan "b" [mk_sample "s" [q 20] [mk_mod "st" Staterror (dlist [q 2])]]] [] None.
Definition ex_flip (n : string) : string := if String.eqb n "a" then "z" else n.
Theorem rename_channels_shared_staterror_refuted :
  exists c b theta, In c (channels ex_shared) /\
    ref_rate Q ia im "code1" "code0" None None (rename_channels Q ex_flip ex_shared) theta (renc Q ex_flip c) b
    <> ref_rate Q ia im "code1" "code0" None None ex_shared theta c b.
Proof. exists (mk_chan "a" [mk_sample "s" [q 10] [mk_mod "st" Staterror (dlist [q 1])]]), O, (fun _ k => nth k [q 2; q 3] (q 1)).
  split; [now left|]. vm_compute. discriminate. Qed.

(* 6. two backgrounds with the same modifiers merged *)
Definition ex_b1 : sample Q := mk_sample "b1" [q 30; q 40] [mk_mod "lumi" Lumi dnone; mk_mod "sys" Normsys (dnorm (mkq 9 10) (mkq 11 10))].
Definition ex_b2 : sample Q := mk_sample "b2" [q 20; q 25] [mk_mod "lumi" Lumi dnone; mk_mod "sys" Normsys (dnorm (mkq 9 10) (mkq 11 10))].
Definition ex_SR6 : channel Q := mk_chan "SR" [ex_signal; ex_b1; ex_b2].
Definition ex_spec6 : spec Q := Build_spec (N:=Q) [ex_SR6; ex_CR] [ex_lumi_cfg] (Some "mu").
Example merge_identical_samples_invariant_nonvacuous :
  let sp' := with_channels ex_spec6 ([] ++ with_samples ex_SR6 ([ex_signal] ++ merged Q ex_b1 ex_b2 :: []) :: [ex_CR]) in
  qouts (s_data (merged Q ex_b1 ex_b2)) = [(50%Z, 1%positive); (65%Z, 1%positive)] /\
  rexp sp' ex_theta = rexp ex_spec6 ex_theta /\ rmain sp' ex_theta ex_obs = rmain ex_spec6 ex_theta ex_obs.
Proof.
  cbv zeta. split; [vm_compute; reflexivity|].
  apply (merge_identical_samples_invariant Q Qcrt ia im "code1" "code0" None ex_spec6 [] [ex_CR] ex_SR6 [ex_signal] [] ex_b1 ex_b2); auto.
  - apply nodup_names. reflexivity.
  - intros m Hm. in_cases Hm; discriminate.
Qed.

(* 5. the two bins of a signal region without per-bin parameters become two one-bin channels *)
Definition ex_bkg5 : sample Q := mk_sample "bkg" [q 50; q 60] [mk_mod "h" Histosys (dhisto [q 45; q 55] [q 55; q 66]); mk_mod "lumi" Lumi dnone].
Definition ex_SR5 : channel Q := mk_chan "SR" [ex_signal; ex_bkg5].
Definition ex_spec5 : spec Q := Build_spec (N:=Q) [ex_SR5; ex_CR] [ex_lumi_cfg] (Some "mu").
Definition ex_obs5 (n : string) (b : nat) : Qc :=
  if String.eqb n "SR_lo" then ex_obs "SR" b else if String.eqb n "SR_hi" then ex_obs "SR" (1 + b) else ex_obs n b.
Example split_channel_invariant_nonvacuous :
  let sp' := with_channels ex_spec5 ([] ++ cut_channel Q (firstn 1) "SR_lo" ex_SR5 :: cut_channel Q (skipn 1) "SR_hi" ex_SR5 :: [ex_CR]) in
  map (fun c => (c_name c, chan_nbins Q c)) (channels sp') = [("SR_lo", 1%nat); ("SR_hi", 1%nat); ("CR", 1%nat)] /\
  Permutation (rmain sp' ex_theta ex_obs5) (rmain ex_spec5 ex_theta ex_obs).
Proof.
  cbv zeta. split; [reflexivity|].
  apply (split_channel_invariant Q ia im "code1" "code0" None None 1 ex_spec5 [] [ex_CR] ex_SR5 "SR_lo" "SR_hi" ex_theta).
  - reflexivity.
  - apply Nat.leb_le. reflexivity.
  - intros s m Hs Hm. in_cases Hs; in_cases Hm; exact I.
  - reflexivity.
  - reflexivity.
  - intros c b Hc. in_cases Hc. reflexivity.
Qed.
