(* Engine S refinement: what an accepted specification (build N sp = Ok md) implies about the parameter sets md_psets md.

   Exported (all for an arbitrary number record N, no ring law needed), sp : spec N, md : model N, H : build N sp = Ok md:

   requirement bookkeeping (Section MergeReq / Reduce, no acceptance needed)
     req_in acc name r                 := exists rs, In (name, rs) acc /\ In r rs
     merge_list acc l                  := the inner fold of required_all
     required_all_flat                 : required_all = merge_list [] (flat_map required all_types)
     required_all_nodup                : NoDup (map fst required_all)
     required_all_in                   : req_in required_all name r <-> exists t rs, In (name, rs) (required t) /\ In r rs
     required_all_names                : In name (map fst required_all) <-> exists t, In name (map fst (required t))
     required_names                    : map fst (required t) = names_of Staterror | map fst (first_decls t)
     first_decls_in / first_decls_names: first_decls is a sublist of walk_decls with the same set of names
     walk_decls_in                     : In (name,(cn,sn,m)) (walk_decls t) <-> cn, sn, (name, tyname t) listed in the
                                         sorted configuration lists and cellmod cn sn (name, tyname t) = Some m
     reduce_one_fields                 : reduce_one name rs start = Ok p -> p_name p = name, p_start p = start, and for EVERY
                                         r in rs: p_n p = r_n r, p_type p = r_type r, p_scalar p = r_scalar r
     reduce_all_find                   : with distinct names, every (name, rs) of the requirement list has its pset, found by
                                         find_pset, at the same position
     tiles_bound                       : tiles start ps -> In p ps -> start <= p_start p /\ p_start p + p_n p <= start + total ps
   accepted specifications (Section Accepted)
     build_ok_parts                    : every intermediate result of build (reduce_all, collect inits, auxdata, reindex checks, poi)
     accepted_tiles                    : tiles 0 (md_psets md)
     accepted_pset_start               : nth_error (md_psets md) i = Some p -> p_start p = total (firstn i (md_psets md))
     accepted_npars_ge                 : total (md_psets md) <= md_npars md
     accepted_npars_total              : (no paramset of size 0) -> md_npars md = total (md_psets md)
     npars_total_refuted               : without that premise md_npars md = total (md_psets md) is FALSE of the model (a
                                         sample with empty data, which pyhf's JSON schema refuses: minItems 1)
     accepted_requirement              : In (name, rs) (required t) -> In r rs -> exists p i, find_pset (md_psets md) name = Some p /\
                                         nth_error (md_psets md) i = Some p /\ p_name p = name /\ p_n p = r_n r /\ p_type p = r_type r /\
                                         p_scalar p = r_scalar r /\ p_start p = total (firstn i (md_psets md)) /\
                                         p_start p + p_n p <= md_npars md
     accepted_pset_requirement         : conversely every pset of the model comes from a requirement list of required_all
     listed c s m                      := In c (channels sp) /\ In s (c_samples c) /\ In m (s_mods s)
     listed_cellmod / cellmod_listed   : listed modifiers are exactly the cells of the helper dictionary
     listed_walk                       : a listed modifier is in walk_decls of its type
     mods_of_listed                    : every key of mods_of t is the key of some listed modifier of type t
     shapesys_cell_unique              : two listed shapesys modifiers with one name are the same cell
     stat_length / count_true_maskrow  : length (stat_vars k) = count_true (maskrow k s0) = sum over sorted channels declaring
                                         k on the first carrier s0 of their bin counts
     accepted_pset_of_listed           : per modifier type: the paramset named after a listed modifier exists, lies inside
                                         [0, md_npars), and has the type and size the template expects (1 for scalar types;
                                         chan_nbins c for shapefactor -- hence for every channel declaring it -- and for shapesys;
                                         count_true (maskrow k s0) for staterror)
     accepted_pset_of_key              : the same for a key of mods_of t (existence, name, range) *)
From Coq Require Import Bool Arith Lia Permutation String List.
Require Import PV.Num PV.Sort PV.Spec PV.Impl PV.Ref PV.Wf PV.Config PV.RefineLookup.
Import ListNotations.
Local Open Scope list_scope.

(* ---------------------------------------------------------------- generic list facts *)
Lemma existsb_eqb_in (x : string) l : existsb (String.eqb x) l = true <-> In x l.
Proof.
  rewrite existsb_exists. split.
  - intros [y [Hy He]]. apply String.eqb_eq in He. now subst.
  - intros H. exists x. split; auto. apply String.eqb_refl.
Qed.

Lemma dedup_first_in {A} (key : A -> string) (l : list A) : forall seen x, In x (dedup_first key l seen) -> In x l.
Proof.
  induction l as [|a l IH]; simpl; intros seen x H; auto.
  destruct (existsb (String.eqb (key a)) seen).
  - right. eapply IH; eauto.
  - destruct H as [->|H]; auto. right. eapply IH; eauto.
Qed.
Lemma dedup_first_keys {A} (key : A -> string) (l : list A) : forall seen k,
  In k (map key (dedup_first key l seen)) <-> In k (map key l) /\ ~ In k seen.
Proof.
  induction l as [|a l IH]; simpl; intros seen k; [tauto|].
  destruct (existsb (String.eqb (key a)) seen) eqn:E.
  - apply existsb_eqb_in in E. rewrite IH. split.
    + intros [H1 H2]. auto.
    + intros [[H1|H1] H2]; [subst; contradiction|auto].
  - assert (Hn : ~ In (key a) seen) by (rewrite <- existsb_eqb_in; congruence).
    simpl. rewrite IH. simpl. split.
    + intros [H|[H1 H2]]; [subst; auto|]. split; auto.
    + intros [[H1|H1] H2]; auto. destruct (string_dec (key a) k) as [e|ne]; auto.
      right. split; auto. intros [H|H]; auto.
Qed.

Lemma NoDup_app_disjoint {A} (l1 l2 : list A) x : NoDup (l1 ++ l2) -> In x l1 -> In x l2 -> False.
Proof.
  induction l1 as [|a l1 IH]; simpl; intros Hnd H1 H2; [auto|].
  inversion Hnd as [|? ? Hni Hnd']; subst. destruct H1 as [->|H1].
  - apply Hni. apply in_or_app. auto.
  - eauto.
Qed.
Lemma NoDup_app_l {A} (l1 l2 : list A) : NoDup (l1 ++ l2) -> NoDup l1.
Proof.
  induction l1 as [|a l1 IH]; simpl; intros H; [constructor|].
  inversion H as [|? ? Hni Hnd]; subst. constructor; auto. intros Hin. apply Hni. apply in_or_app. auto.
Qed.
Lemma NoDup_app_r {A} (l1 l2 : list A) : NoDup (l1 ++ l2) -> NoDup l2.
Proof. induction l1 as [|a l1 IH]; simpl; intros H; auto. inversion H; subst. auto. Qed.
(* a duplicate-free flat_map: the blocks are duplicate-free and an element determines its block *)
Lemma NoDup_flat_map_block {A B} (f : A -> list B) l a : NoDup (flat_map f l) -> In a l -> NoDup (f a).
Proof.
  induction l as [|h t IH]; simpl; intros Hnd Hin; [destruct Hin|].
  destruct Hin as [->|Hin]; [eapply NoDup_app_l; eauto|]. apply IH; auto. eapply NoDup_app_r; eauto.
Qed.
Lemma NoDup_flat_map_inj {A B} (f : A -> list B) l a b x :
  NoDup (flat_map f l) -> In a l -> In b l -> In x (f a) -> In x (f b) -> a = b.
Proof.
  induction l as [|h t IH]; simpl; intros Hnd Ha Hb Hxa Hxb; [destruct Ha|].
  destruct Ha as [->|Ha], Hb as [->|Hb]; auto.
  - exfalso. eapply NoDup_app_disjoint; eauto. apply in_flat_map. eauto.
  - exfalso. eapply NoDup_app_disjoint; eauto. apply in_flat_map. eauto.
  - apply IH; auto. eapply NoDup_app_r; eauto.
Qed.
Lemma flat_map_flat_map {A B C} (f : B -> list C) (g : A -> list B) l :
  flat_map f (flat_map g l) = flat_map (fun a => flat_map f (g a)) l.
Proof. induction l as [|a l IH]; simpl; auto. rewrite flat_map_app. now rewrite IH. Qed.

Lemma result_witness {A} (r : result A) (P : A -> bool) :
  match r with Ok a => P a | Err _ => false end = true -> exists a, r = Ok a /\ P a = true.
Proof. destruct r; [eauto|discriminate]. Qed.

Lemma last_find_some {A} (p : A -> bool) l x : last_find p l = Some x -> In x l /\ p x = true.
Proof. unfold last_find. intros H. apply find_some in H. destruct H as [H1 H2]. split; auto. now apply in_rev. Qed.

Lemma list_eqb_bool_eq : forall l l' : list bool, list_eqb Bool.eqb l l' = true -> l = l'.
Proof.
  induction l as [|a l IH]; destruct l' as [|b l']; simpl; intros H; try discriminate; auto.
  apply andb_true_iff in H. destruct H as [H1 H2]. apply Bool.eqb_prop in H1. subst. f_equal. auto.
Qed.

Lemma fold_left_flat_map {A B C} (step : A -> B -> A) (g : C -> list B) ts : forall a,
  fold_left (fun acc t => fold_left step (g t) acc) ts a = fold_left step (flat_map g ts) a.
Proof. induction ts as [|t ts IH]; simpl; intros a; auto. rewrite fold_left_app. apply IH. Qed.

(* ---------------------------------------------------------------- merging of requirement lists *)
Section MergeReq.
  Variable N : Num.
  Notation reqs := (list (string * list (req N))).
  Definition req_in (acc : reqs) (name : string) (r : req N) : Prop := exists rs, In (name, rs) acc /\ In r rs.
  Definition merge_list (acc l : reqs) : reqs := fold_left (fun acc nr => merge_req N acc (fst nr) (snd nr)) l acc.

  Lemma merge_req_names acc name rs n : In n (map fst (merge_req N acc name rs)) <-> In n (map fst acc) \/ n = name.
  Proof.
    induction acc as [|[n0 l0] t IH]; simpl.
    - split; intros H; [destruct H as [H|[]]; right; congruence|destruct H as [[]|H]; left; congruence].
    - destruct (String.eqb_spec n0 name) as [e|ne]; simpl.
      + subst. split; [intros [H|H]; auto|intros [[H|H]|H]; auto].
      + rewrite IH. tauto.
  Qed.
  Lemma merge_req_nodup acc name rs : NoDup (map fst acc) -> NoDup (map fst (merge_req N acc name rs)).
  Proof.
    induction acc as [|[n0 l0] t IH]; simpl; intros H.
    - repeat constructor; auto.
    - inversion H as [|? ? Hni Hnd]; subst. destruct (String.eqb_spec n0 name) as [e|ne]; simpl.
      + constructor; auto.
      + constructor; auto. rewrite merge_req_names. intros [Hin|He]; [contradiction|congruence].
  Qed.
  Lemma merge_req_in acc name rs n r : req_in (merge_req N acc name rs) n r <-> req_in acc n r \/ (n = name /\ In r rs).
  Proof.
    unfold req_in. induction acc as [|[n0 l0] t IH]; simpl.
    - split.
      + intros [rs' [[E|[]] Hr]]. inversion E; subst. auto.
      + intros [[rs' [[] _]]|[-> Hr]]. exists rs. auto.
    - destruct (String.eqb_spec n0 name) as [e|ne].
      + subst n0. split.
        * intros [rs' [[E|Hin] Hr]].
          -- inversion E; subst. apply in_app_or in Hr. destruct Hr as [Hr|Hr]; [left; exists l0; auto|right; auto].
          -- left. exists rs'; simpl; auto.
        * intros [[rs' [[E|Hin] Hr]]|[-> Hr]].
          -- inversion E; subst. exists (rs' ++ rs). split; [left; auto|apply in_or_app; auto].
          -- exists rs'; simpl; auto.
          -- exists (l0 ++ rs). split; [left; auto|apply in_or_app; auto].
      + split.
        * intros [rs' [[E|Hin] Hr]].
          -- left. exists rs'; simpl; auto.
          -- destruct (proj1 IH (ex_intro _ rs' (conj Hin Hr))) as [[rs'' [H1 H2]]|H]; [left; exists rs''; auto|right; auto].
        * intros [[rs' [[E|Hin] Hr]]|H].
          -- exists rs'; simpl; auto.
          -- destruct (proj2 IH (or_introl (ex_intro _ rs' (conj Hin Hr)))) as [rs'' [H1 H2]]. exists rs''; simpl; auto.
          -- destruct (proj2 IH (or_intror H)) as [rs'' [H1 H2]]. exists rs''; simpl; auto.
  Qed.

  Lemma merge_list_nodup l : forall acc, NoDup (map fst acc) -> NoDup (map fst (merge_list acc l)).
  Proof. unfold merge_list. induction l as [|[n rs] l IH]; simpl; intros acc H; auto. apply IH. now apply merge_req_nodup. Qed.
  Lemma merge_list_names l : forall acc n, In n (map fst (merge_list acc l)) <-> In n (map fst acc) \/ In n (map fst l).
  Proof.
    unfold merge_list. induction l as [|[n0 rs] l IH]; simpl; intros acc n; [tauto|].
    rewrite IH, merge_req_names. intuition.
  Qed.
  Lemma merge_list_in l : forall acc n r, req_in (merge_list acc l) n r <-> req_in acc n r \/ req_in l n r.
  Proof.
    unfold merge_list. induction l as [|[n0 rs] l IH]; simpl; intros acc n r.
    - split; auto. intros [H|[rs' [[] _]]]; auto.
    - rewrite IH, merge_req_in. unfold req_in at 4. simpl. split.
      + intros [[H|[-> Hr]]|[rs' [Hin Hr]]]; auto.
        * right. exists rs. auto.
        * right. exists rs'. auto.
      + intros [H|[rs' [[E|Hin] Hr]]]; auto.
        * inversion E; subst. auto.
        * right. exists rs'. auto.
  Qed.
End MergeReq.
Arguments req_in {N}. Arguments merge_list {N}.

(* ---------------------------------------------------------------- reduce_one / reduce_all *)
Section Reduce.
  Variable N : Num.
  Variable sp : spec N.

  Lemma find_pset_some ps name p : find_pset N ps name = Some p -> In p ps /\ p_name N p = name.
  Proof. unfold find_pset. intros H. apply find_some in H. rewrite String.eqb_eq in H. exact H. Qed.

  Lemma ptype_eqb_eq a b : ptype_eqb a b = true -> a = b.
  Proof. destruct a, b; simpl; intros H; try discriminate; reflexivity. Qed.

  Lemma agree_all {A} (eqb : A -> A -> bool) (Heq : forall a b, eqb a b = true -> a = b) x0 l :
    agree eqb (x0 :: l) = true -> forall x, In x (x0 :: l) -> x0 = x.
  Proof.
    simpl. intros H x [->|Hx]; auto. rewrite forallb_forall in H. apply Heq. auto.
  Qed.

  Ltac agree_step H E :=
    match type of H with
    | context [if negb ?b then _ else _] => destruct b eqn:E; simpl negb in H; cbv iota in H; [|discriminate H]
    end.

  (* the reduced paramset has the size / constraint type / scalar flag of EVERY requirement contributed under its name *)
  Theorem reduce_one_fields name rs start p : reduce_one N sp name rs start = Ok p ->
    p_name N p = name /\ p_start N p = start /\
    forall r, In r rs -> p_n N p = r_n N r /\ p_type N p = r_type N r /\ p_scalar N p = r_scalar N r.
  Proof.
    unfold reduce_one. intros H. destruct rs as [|r0 rs']; [discriminate|]. unfold bind in H.
    agree_step H Et. agree_step H En. agree_step H Es. agree_step H Ei.
    destruct (user_merge (r_n N r0) (r_inits N r0) _) as [xi|]; [|discriminate]. agree_step H Eb.
    destruct (user_merge (r_n N r0) (r_bounds N r0) _) as [xb|]; [|discriminate]. agree_step H Ea.
    destruct (user_merge (r_n N r0) (r_aux N r0) _) as [xa|]; [|discriminate]. agree_step H Ef.
    destruct (user_merge (r_n N r0) (r_factors N r0) _) as [xf|]; [|discriminate]. agree_step H Ev.
    destruct (user_merge (r_n N r0) (r_var N r0) _) as [xv|]; [|discriminate]. agree_step H Ex.
    inversion H; subst; simpl. split; auto. split; auto. intros r Hr.
    change (map (r_type N) (r0 :: rs')) with (r_type N r0 :: map (r_type N) rs') in Et.
    change (map (r_n N) (r0 :: rs')) with (r_n N r0 :: map (r_n N) rs') in En.
    change (map (r_scalar N) (r0 :: rs')) with (r_scalar N r0 :: map (r_scalar N) rs') in Es.
    repeat split.
    - apply (agree_all Nat.eqb (fun a b => proj1 (Nat.eqb_eq a b)) _ _ En). change (In (r_n N r) (map (r_n N) (r0 :: rs'))). now apply in_map.
    - apply (agree_all ptype_eqb ptype_eqb_eq _ _ Et). change (In (r_type N r) (map (r_type N) (r0 :: rs'))). now apply in_map.
    - apply (agree_all Bool.eqb Bool.eqb_prop _ _ Es). change (In (r_scalar N r) (map (r_scalar N) (r0 :: rs'))). now apply in_map.
  Qed.

  (* the inits list of a reduced paramset, given that the head requirement's default inits have the declared size *)
  Definition req_inits_wf (r : req N) : Prop := match r_inits N r with Val l => length l = r_n N r | _ => True end.
  Lemma reduce_one_inits name r0 rs start p l : reduce_one N sp name (r0 :: rs) start = Ok p -> req_inits_wf r0 ->
    p_inits N p = Val l -> p_n N p <= length l /\ (p_n N p <> 0 -> length l = p_n N p).
  Proof.
    unfold reduce_one. intros H Hwf. unfold bind in H.
    agree_step H Et. agree_step H En. agree_step H Es. agree_step H Ei.
    destruct (user_merge (r_n N r0) (r_inits N r0) _) as [xi|] eqn:Exi; [|discriminate]. agree_step H Eb.
    destruct (user_merge (r_n N r0) (r_bounds N r0) _) as [xb|]; [|discriminate]. agree_step H Ea.
    destruct (user_merge (r_n N r0) (r_aux N r0) _) as [xa|]; [|discriminate]. agree_step H Ef.
    destruct (user_merge (r_n N r0) (r_factors N r0) _) as [xf|]; [|discriminate]. agree_step H Ev.
    destruct (user_merge (r_n N r0) (r_var N r0) _) as [xv|]; [|discriminate]. agree_step H Ex.
    inversion H; subst; simpl. intros Hl. subst xi.
    apply user_merge_ok in Exi. destruct Exi as (_ & Hsome & Hnone). unfold req_inits_wf in Hwf.
    destruct (usr N (find_user N sp name) pc_inits) as [l'|].
    - destruct (Hsome l' eq_refl) as (E & Hu & Hpn & Hval). inversion E; subst l'.
      destruct (r_inits N r0) as [| |dl] eqn:Ed.
      + contradiction.
      + rewrite (Hpn eq_refl). split; auto.
      + destruct dl as [|x dl].
        * simpl in Hwf. rewrite <- Hwf. split; [lia|intros Hne; contradiction].
        * rewrite (Hval _ eq_refl) by discriminate. rewrite Hwf. split; auto.
    - rewrite <- (Hnone eq_refl) in Hwf. rewrite Hwf. split; auto.
  Qed.

  (* with distinct names every entry of the requirement list has its paramset, at the same position *)
  Theorem reduce_all_find : forall l start ps, NoDup (map fst l) -> reduce_all N sp l start = Ok ps ->
    forall name rs, In (name, rs) l ->
    exists p i st, find_pset N ps name = Some p /\ nth_error ps i = Some p /\ nth_error l i = Some (name, rs) /\
                   reduce_one N sp name rs st = Ok p.
  Proof.
    induction l as [|[n0 rs0] t IH]; intros start ps Hnd H name rs Hin; [destruct Hin|]. simpl in H.
    destruct (reduce_one N sp n0 rs0 start) as [p0|e] eqn:E1; simpl in H; [|discriminate].
    destruct (reduce_all N sp t (start + p_n N p0)) as [ps'|e] eqn:E2; simpl in H; [|discriminate].
    inversion H; subst ps. inversion Hnd as [|? ? Hni Hnd']; subst.
    destruct (reduce_one_fields _ _ _ _ E1) as (Hname & _ & _).
    destruct Hin as [E|Hin].
    - inversion E; subst. exists p0, 0, start. repeat split; auto. unfold find_pset. simpl. now rewrite String.eqb_refl.
    - destruct (IH _ _ Hnd' E2 name rs Hin) as (p & i & st & Hf & Hn & Hl & Hr).
      exists p, (S i), st. repeat split; auto. unfold find_pset. simpl.
      destruct (String.eqb_spec (p_name N p0) name) as [e|ne]; auto.
      exfalso. apply Hni. rewrite <- Hname, e. change name with (fst (name, rs)). now apply in_map.
  Qed.
  (* conversely every paramset comes from the entry of the requirement list at its position *)
  Theorem reduce_all_origin : forall l start ps, reduce_all N sp l start = Ok ps ->
    forall i p, nth_error ps i = Some p -> exists name rs st, nth_error l i = Some (name, rs) /\ reduce_one N sp name rs st = Ok p.
  Proof.
    induction l as [|[n0 rs0] t IH]; intros start ps H i p Hn; simpl in H.
    - inversion H; subst. destruct i; discriminate.
    - destruct (reduce_one N sp n0 rs0 start) as [p0|e] eqn:E1; simpl in H; [|discriminate].
      destruct (reduce_all N sp t (start + p_n N p0)) as [ps'|e] eqn:E2; simpl in H; [|discriminate].
      inversion H; subst ps. destruct i; simpl in Hn.
      + inversion Hn; subst. exists n0, rs0, start. auto.
      + destruct (IH _ _ E2 i p Hn) as (name & rs & st & H1 & H2). exists name, rs, st. auto.
  Qed.

  Lemma total_cons (q : pset N) t : total N (q :: t) = p_n N q + total N t.
  Proof. reflexivity. Qed.
  Lemma tiles_bound : forall ps start, tiles N start ps -> forall p, In p ps ->
    start <= p_start N p /\ p_start N p + p_n N p <= start + total N ps.
  Proof.
    induction ps as [|q t IH]; intros start Ht p Hin; [destruct Hin|]. destruct Ht as [Hs Ht]. rewrite total_cons.
    destruct Hin as [->|Hin]; [lia|]. destruct (IH _ Ht p Hin). lia.
  Qed.

  Lemma collect_inits_ge : forall ps inits, collect (inits_of N) ps = Ok inits ->
    (forall p l, In p ps -> p_inits N p = Val l -> p_n N p <= length l) -> total N ps <= length inits.
  Proof.
    induction ps as [|q t IH]; simpl; intros inits H Hle; [inversion H; simpl; auto|].
    unfold inits_of in H at 1. destruct (p_inits N q) as [| |l] eqn:El; try discriminate. simpl in H.
    destruct (collect (inits_of N) t) as [r|] eqn:Ec; [|discriminate]. simpl in H. inversion H; subst.
    rewrite total_cons, app_length. specialize (IH r eq_refl (fun p l' Hp => Hle p l' (or_intror Hp))).
    specialize (Hle q l (or_introl eq_refl) El). lia.
  Qed.
  Lemma collect_inits_eq : forall ps inits, collect (inits_of N) ps = Ok inits ->
    (forall p l, In p ps -> p_inits N p = Val l -> length l = p_n N p) -> length inits = total N ps.
  Proof.
    induction ps as [|q t IH]; simpl; intros inits H Hle; [inversion H; simpl; auto|].
    unfold inits_of in H at 1. destruct (p_inits N q) as [| |l] eqn:El; try discriminate. simpl in H.
    destruct (collect (inits_of N) t) as [r|] eqn:Ec; [|discriminate]. simpl in H. inversion H; subst.
    rewrite total_cons, app_length. specialize (IH r eq_refl (fun p l' Hp => Hle p l' (or_intror Hp))).
    specialize (Hle q l (or_introl eq_refl) El). lia.
  Qed.
End Reduce.

(* ---------------------------------------------------------------- the requirement list of a specification *)
Lemma length_filter_const {A} (v : bool) (l : list A) : length (filter (fun b : bool => b) (map (fun _ => v) l)) = if v then length l else 0.
Proof. induction l as [|a l IH]; simpl; [destruct v; auto|]. destruct v; simpl; auto. Qed.
Lemma length_flat_map_if {A B} (f : A -> bool) (g : A -> B) l :
  length (flat_map (fun p => if f p then [g p] else []) l) = length (filter (fun b : bool => b) (map f l)).
Proof. induction l as [|a l IH]; simpl; auto. destruct (f a); simpl; auto. Qed.
Lemma find_exists {A} (p : A -> bool) l x : In x l -> p x = true -> exists y, find p l = Some y.
Proof. intros Hin Hp. destruct (find p l) as [y|] eqn:E; [eauto|]. rewrite (find_none _ _ E x Hin) in Hp. discriminate. Qed.
Lemma in_all_types t : In t all_types.
Proof. destruct t; simpl; auto 10. Qed.

Section Accepted.
  Variable N : Num.
  Variable sp : spec N.
  Notation chs := (cfg_channels N sp).
  Notation smps := (cfg_samples N sp).
  Notation mods := (cfg_modifiers N sp).
  Notation reqall := (required_all N sp chs smps mods).
  Notation requ := (required N sp chs smps mods).
  Notation walk := (walk_decls N sp chs smps mods).
  Notation firsts := (first_decls N sp chs smps mods).

  Lemma required_all_flat : reqall = merge_list [] (flat_map requ all_types).
  Proof. unfold required_all, merge_list. apply fold_left_flat_map. Qed.
  Lemma required_all_nodup : NoDup (map fst reqall).
  Proof. rewrite required_all_flat. apply merge_list_nodup. constructor. Qed.
  Lemma required_all_in name r : req_in reqall name r <-> exists t rs, In (name, rs) (requ t) /\ In r rs.
  Proof.
    rewrite required_all_flat, merge_list_in. split.
    - intros [[rs [[] _]]|[rs [Hin Hr]]]. apply in_flat_map in Hin. destruct Hin as [t [_ Hin]]. eauto.
    - intros [t [rs [Hin Hr]]]. right. exists rs. split; auto. apply in_flat_map. exists t. split; auto. apply in_all_types.
  Qed.
  Lemma required_all_names name : In name (map fst reqall) <-> exists t, In name (map fst (requ t)).
  Proof.
    rewrite required_all_flat, merge_list_names. split.
    - intros [[]|H]. apply in_map_iff in H. destruct H as [[n rs] [E H]]. apply in_flat_map in H. destruct H as [t [_ H]].
      exists t. apply in_map_iff. exists (n, rs). auto.
    - intros [t H]. right. apply in_map_iff in H. destruct H as [[n rs] [E H]]. apply in_map_iff. exists (n, rs). split; auto.
      apply in_flat_map. exists t. split; auto. apply in_all_types.
  Qed.
  Lemma required_names t : map fst (requ t) = match t with Staterror => names_of mods Staterror | _ => map fst (firsts t) end.
  Proof.
    destruct t; unfold required, names_of; rewrite map_map; try reflexivity; apply map_ext; intros [name [[cn sn] m]]; reflexivity.
  Qed.

  Lemma first_decls_in t d : In d (firsts t) -> In d (walk t).
  Proof. unfold first_decls. apply dedup_first_in. Qed.
  Lemma first_decls_names t name : In name (map fst (firsts t)) <-> In name (map fst (walk t)).
  Proof. unfold first_decls. rewrite dedup_first_keys. simpl. tauto. Qed.
  Lemma first_decl_exists t name : In name (map fst (walk t)) -> exists cn sn m, In (name, (cn, sn, m)) (firsts t).
  Proof.
    intros H. apply first_decls_names in H. apply in_map_iff in H. destruct H as [[n [[cn sn] m]] [E H]]. simpl in E. subst. eauto.
  Qed.

  Lemma in_mods_list k : In k mods <-> In k (flat_map (fun s => map mkey (s_mods s)) (all_samples N sp)).
  Proof. unfold cfg_modifiers, psort. rewrite isort_in. apply nodup_In. Qed.
  Lemma in_mods_of_iff t k : In k (mods_of mods t) <-> In k mods /\ snd k = tyname t.
  Proof. unfold mods_of. rewrite filter_In. rewrite String.eqb_eq. tauto. Qed.

  Lemma walk_decls_in t name cn sn m : In (name, (cn, sn, m)) (walk t) <->
    In cn chs /\ In sn smps /\ In (name, tyname t) mods /\ cellmod N sp cn sn (name, tyname t) = Some m.
  Proof.
    unfold walk_decls. rewrite in_flat_map. split.
    - intros [cn' [Hc H]]. apply in_flat_map in H. destruct H as [sn' [Hs H]]. apply in_flat_map in H. destruct H as [k [Hk H]].
      destruct (cellmod N sp cn' sn' k) as [m'|] eqn:E; [|destruct H]. destruct H as [H|[]]. inversion H; subst.
      apply in_mods_of_iff in Hk. destruct Hk as [Hk Ht]. destruct k as [kn kt]; simpl in *. subst kt. auto.
    - intros (Hc & Hs & Hk & Hm). exists cn. split; auto. apply in_flat_map. exists sn. split; auto. apply in_flat_map.
      exists (name, tyname t). split; [apply in_mods_of_iff; auto|]. rewrite Hm. simpl. auto.
  Qed.

  (* ---- listed modifiers and the helper dictionary ---- *)
  Definition listed (c : channel N) (s : sample N) (m : modifier N) : Prop :=
    In c (channels sp) /\ In s (c_samples c) /\ In m (s_mods s).

  Lemma cellmod_listed cn sn k m : cellmod N sp cn sn k = Some m ->
    exists c s, listed c s m /\ c_name c = cn /\ s_name s = sn /\ mkey m = k.
  Proof.
    unfold cellmod, cell, smod. destruct (last_find _ (flat_map _ _)) as [s|] eqn:Ec; [|discriminate]. intros Hm.
    apply last_find_some in Ec. destruct Ec as [Hin Hsn]. apply String.eqb_eq in Hsn.
    apply in_flat_map in Hin. destruct Hin as [c [Hc Hs]]. apply filter_In in Hc. destruct Hc as [Hc Hcn]. apply String.eqb_eq in Hcn.
    apply last_find_some in Hm. destruct Hm as [Hm Hk]. apply pair_eqb_eq in Hk.
    exists c, s. unfold listed. auto.
  Qed.
  Lemma listed_names c s m : listed c s m ->
    In (c_name c) chs /\ In (s_name s) smps /\ In (mkey m) mods /\ In (mkey m) (mods_of mods (m_type m)).
  Proof.
    intros (Hc & Hs & Hm).
    assert (Hk : In (mkey m) mods).
    { apply in_mods_list. apply in_flat_map. exists s. split; [unfold all_samples; apply in_flat_map; eauto|now apply in_map]. }
    repeat split; auto.
    - apply sort_uniq_in. now apply in_map.
    - apply sort_uniq_in. apply in_map. unfold all_samples. apply in_flat_map. eauto.
    - apply in_mods_of_iff. split; auto.
  Qed.
  Lemma mods_of_listed t k : In k (mods_of mods t) -> exists c s m, listed c s m /\ mkey m = k /\ m_type m = t.
  Proof.
    intros H. apply in_mods_of_iff in H. destruct H as [H Ht]. apply in_mods_list in H.
    apply in_flat_map in H. destruct H as [s [Hs Hk]]. apply in_map_iff in Hk. destruct Hk as [m [E Hm]].
    unfold all_samples in Hs. apply in_flat_map in Hs. destruct Hs as [c [Hc Hs]].
    exists c, s, m. unfold listed. repeat split; auto. subst k. unfold mkey in Ht. simpl in Ht. now apply tyname_inj.
  Qed.

  Section WithModel.
  Variable md : model N.
  Hypothesis Hb : build N sp = Ok md.

  Let Hchan := accepted_distinct_channels N sp md Hb.
  Let Hsamp := fun c => accepted_distinct_samples N sp md c Hb.
  Let Hmods := fun c s => accepted_distinct_modifiers N sp md c s Hb.

  (* every intermediate result of build *)
  Lemma build_ok_parts : exists inits,
    reduce_all N sp reqall 0 = Ok (md_psets N md) /\
    check_all (pset_create_ok N) (md_psets N md) = Ok tt /\
    collect (inits_of N) (md_psets N md) = Ok inits /\ md_npars N md = length inits /\
    md_auxdata N md = flat_map (aux_of N) (filter (constrained N) (md_psets N md)) /\
    check_all (reindex_ok N sp chs smps (md_psets N md)) (mods_of mods Shapesys) = Ok tt /\
    check_all (reindex_ok N sp chs smps (md_psets N md)) (mods_of mods Staterror) = Ok tt /\
    set_poi N sp (md_psets N md) = Ok (md_poi N md).
  Proof.
    clear Hchan Hsamp Hmods. revert Hb. unfold build, build_hot. intros H.
    repeat match type of H with
           | context [if ?b then _ else _] => destruct b; try discriminate H
           end.
    destruct (reduce_all N sp reqall 0) as [ps|]; [|discriminate]. simpl in H.
    destruct (check_all (pset_create_ok N) ps) as [[]|] eqn:E1; [|discriminate]. simpl in H.
    destruct ps as [|p0 ps']; [discriminate|].
    destruct (collect (inits_of N) (p0 :: ps')) as [inits|] eqn:E2; [|discriminate]. simpl in H.
    destruct (check_all (reindex_ok N sp chs smps (p0 :: ps')) (mods_of mods Shapesys)) as [[]|] eqn:E3; [|discriminate]. simpl in H.
    destruct (check_all (reindex_ok N sp chs smps (p0 :: ps')) (mods_of mods Staterror)) as [[]|] eqn:E4; [|discriminate]. simpl in H.
    destruct (set_poi N sp (p0 :: ps')) as [poi|] eqn:E5; [|discriminate]. simpl in H.
    inversion H; subst; simpl. exists inits. repeat split; auto.
  Qed.

  Lemma accepted_reduce : reduce_all N sp reqall 0 = Ok (md_psets N md).
  Proof. destruct build_ok_parts as (inits & H & _). exact H. Qed.
  Theorem accepted_tiles : tiles N 0 (md_psets N md).
  Proof. exact (par_slices_tile N sp _ _ _ accepted_reduce). Qed.
  Theorem accepted_pset_start i p : nth_error (md_psets N md) i = Some p -> p_start N p = total N (firstn i (md_psets N md)).
  Proof. intros H. exact (tiles_spec N _ 0 accepted_tiles i p H). Qed.

  (* default inits of every requirement have the declared size *)
  Lemma zip3_length : forall a b : list (V N), length (zip3 N a b) = Nat.min (length a) (length b).
  Proof. induction a as [|x a IH]; destruct b as [|y b]; simpl; auto. Qed.
  Lemma required_inits_wf t name rs r : In (name, rs) (requ t) -> In r rs -> req_inits_wf N r.
  Proof.
    clear. unfold req_inits_wf. intros H Hr.
    destruct t; unfold required in H; apply in_map_iff in H; destruct H as [d [E H]].
    - destruct d as [n' [[cn sn] m]]. inversion E; subst. destruct Hr as [<-|[]]. reflexivity.
    - destruct d as [n' [[cn sn] m]]. inversion E; subst. destruct Hr as [<-|[]]. simpl. exact I.
    - destruct d as [n' [[cn sn] m]]. inversion E; subst. destruct Hr as [<-|[]]. reflexivity.
    - destruct d as [n' [[cn sn] m]]. inversion E; subst. destruct Hr as [<-|[]]. reflexivity.
    - inversion E; subst. apply in_map_iff in Hr. destruct Hr as [n [<- _]]. simpl. apply repeat_length.
    - destruct d as [n' [[cn sn] m]]. inversion E; subst. destruct Hr as [<-|[]]. simpl. apply repeat_length.
    - inversion E; subst. destruct Hr as [<-|[]]. simpl. apply repeat_length.
  Qed.

  (* every paramset of the model comes from one entry of required_all *)
  Theorem accepted_pset_requirement p : In p (md_psets N md) ->
    exists i rs st, nth_error (md_psets N md) i = Some p /\ nth_error reqall i = Some (p_name N p, rs) /\
                    reduce_one N sp (p_name N p) rs st = Ok p.
  Proof.
    intros Hin. apply In_nth_error in Hin. destruct Hin as [i Hi].
    destruct (reduce_all_origin N sp _ _ _ accepted_reduce i p Hi) as (name & rs & st & Hl & Hr).
    destruct (reduce_one_fields N sp _ _ _ _ Hr) as (Hn & _). subst name. exists i, rs, st. auto.
  Qed.
  Lemma accepted_pset_inits p l : In p (md_psets N md) -> p_inits N p = Val l ->
    p_n N p <= length l /\ (p_n N p <> 0 -> length l = p_n N p).
  Proof.
    intros Hin Hl. destruct (accepted_pset_requirement p Hin) as (i & rs & st & _ & Hrs & Hr).
    destruct rs as [|r0 rs']; [discriminate Hr|]. apply (reduce_one_inits N sp _ _ _ _ _ _ Hr); auto.
    apply nth_error_In in Hrs.
    assert (Hq : req_in reqall (p_name N p) r0) by (exists (r0 :: rs'); split; auto; now left).
    apply required_all_in in Hq. destruct Hq as (t & rs2 & H1 & H2). eapply required_inits_wf; eauto.
  Qed.
  Theorem accepted_npars_ge : total N (md_psets N md) <= md_npars N md.
  Proof.
    destruct build_ok_parts as (inits & _ & _ & Hc & Hn & _). rewrite Hn. apply (collect_inits_ge N _ _ Hc).
    intros p l Hp Hl. apply (accepted_pset_inits p l Hp Hl).
  Qed.
  Theorem accepted_npars_total : (forall p, In p (md_psets N md) -> p_n N p <> 0) -> md_npars N md = total N (md_psets N md).
  Proof.
    intros Hpos. destruct build_ok_parts as (inits & _ & _ & Hc & Hn & _). rewrite Hn. apply (collect_inits_eq N _ _ Hc).
    intros p l Hp Hl. apply (accepted_pset_inits p l Hp Hl). auto.
  Qed.

  (* the paramset of a requirement *)
  Theorem accepted_requirement t name rs r : In (name, rs) (requ t) -> In r rs ->
    exists p i, find_pset N (md_psets N md) name = Some p /\ nth_error (md_psets N md) i = Some p /\
      p_name N p = name /\ p_n N p = r_n N r /\ p_type N p = r_type N r /\ p_scalar N p = r_scalar N r /\
      p_start N p = total N (firstn i (md_psets N md)) /\ p_start N p + p_n N p <= md_npars N md.
  Proof.
    intros Hin Hr.
    assert (Hq : req_in reqall name r) by (apply required_all_in; eauto).
    destruct Hq as (rs' & Hin' & Hr').
    destruct (reduce_all_find N sp _ _ _ required_all_nodup accepted_reduce name rs' Hin') as (p & i & st & Hf & Hn & _ & Hone).
    destruct (reduce_one_fields N sp _ _ _ _ Hone) as (Hname & _ & Hall). destruct (Hall r Hr') as (H1 & H2 & H3).
    exists p, i. repeat split; auto.
    - now apply accepted_pset_start.
    - pose proof (tiles_bound N _ 0 accepted_tiles p (nth_error_In _ _ Hn)) as [_ Hle]. pose proof accepted_npars_ge. lia.
  Qed.

  (* ---- listed modifiers ---- *)
  Lemma listed_cell c s m : listed c s m -> cell N sp (c_name c) (s_name s) = Some s.
  Proof. intros (Hc & Hs & _). exact (cell_present N sp Hchan Hsamp c s Hc Hs). Qed.
  Lemma listed_cellmod c s m : listed c s m -> cellmod N sp (c_name c) (s_name s) (mkey m) = Some m.
  Proof.
    intros Hl. unfold cellmod. rewrite (listed_cell c s m Hl). destruct Hl as (Hc & Hs & Hm).
    exact (smod_present N sp Hmods c s m Hc Hs Hm).
  Qed.
  Lemma listed_declared c s m : listed c s m -> declared N sp (c_name c) (s_name s) (mkey m) = true.
  Proof. intros Hl. unfold declared. now rewrite (listed_cellmod c s m Hl). Qed.
  Lemma listed_walk c s m : listed c s m -> In (m_name m, (c_name c, s_name s, m)) (walk (m_type m)).
  Proof.
    intros Hl. apply walk_decls_in. destruct (listed_names c s m Hl) as (H1 & H2 & H3 & _).
    repeat split; auto. exact (listed_cellmod c s m Hl).
  Qed.
  Lemma listed_nbins c s m : listed c s m -> nbins N sp (c_name c) = chan_nbins N c /\ length (s_data s) = chan_nbins N c.
  Proof.
    intros Hl. destruct (listed_names c s m Hl) as (H1 & H2 & _). pose proof Hl as (Hc & Hs & Hm).
    assert (E : nbins N sp (c_name c) = chan_nbins N c) by (rewrite (nbins_is N sp Hchan c Hc); reflexivity).
    split; auto. rewrite <- E. exact (accepted_cell_lengths N sp md (c_name c) (s_name s) s Hb H1 H2 (listed_cell c s m Hl)).
  Qed.
  Lemma listed_carries c s m : listed c s m -> carries N sp chs (mkey m) (s_name s) = true.
  Proof.
    intros Hl. unfold carries. apply existsb_exists. exists (c_name c). split; [apply (listed_names c s m Hl)|apply (listed_declared c s m Hl)].
  Qed.

  (* ---- a shapesys name occurs on one sample of one channel ---- *)
  Definition ssn_mod (m : modifier N) : list string := match m_type m with Shapesys => [m_name m] | _ => [] end.
  Definition ssn_sample (s : sample N) : list string := flat_map ssn_mod (s_mods s).
  Definition ssn_chan (c : channel N) : list string := flat_map ssn_sample (c_samples c).
  Lemma shapesys_names_by_channel : shapesys_names_listed N sp = flat_map ssn_chan (channels sp).
  Proof. unfold shapesys_names_listed, all_samples. rewrite flat_map_flat_map. reflexivity. Qed.
  Theorem shapesys_cell_unique c s m c' s' m' : listed c s m -> listed c' s' m' ->
    m_type m = Shapesys -> m_type m' = Shapesys -> m_name m = m_name m' -> c = c' /\ s = s' /\ m = m'.
  Proof.
    intros (Hc & Hs & Hm) (Hc' & Hs' & Hm') Ht Ht' Hn.
    pose proof (accepted_shapesys_unique N sp md Hb) as Hnd. rewrite shapesys_names_by_channel in Hnd.
    assert (I1 : In (m_name m) (ssn_mod m)) by (unfold ssn_mod; rewrite Ht; now left).
    assert (I1' : In (m_name m) (ssn_mod m')) by (unfold ssn_mod; rewrite Ht', Hn; now left).
    assert (I2 : In (m_name m) (ssn_sample s)) by (apply in_flat_map; eauto).
    assert (I2' : In (m_name m) (ssn_sample s')) by (apply in_flat_map; eauto).
    assert (I3 : In (m_name m) (ssn_chan c)) by (apply in_flat_map; eauto).
    assert (I3' : In (m_name m) (ssn_chan c')) by (apply in_flat_map; eauto).
    assert (Ec : c = c') by (eapply (NoDup_flat_map_inj ssn_chan); eauto). subst c'.
    pose proof (NoDup_flat_map_block _ _ c Hnd Hc) as Hnd2.
    assert (Es : s = s') by (eapply (NoDup_flat_map_inj ssn_sample); eauto). subst s'.
    pose proof (NoDup_flat_map_block _ _ s Hnd2 Hs) as Hnd3.
    assert (Em : m = m') by (eapply (NoDup_flat_map_inj ssn_mod); eauto). auto.
  Qed.

  (* ---- size of a staterror paramset: the true entries of the first carrier's mask row ---- *)
  Definition wbins (k : string * string) (sn cn : string) : nat := if declared N sp cn sn k then nbins N sp cn else 0.
  Lemma count_true_maskrow k sn : forall cs, count_true (maskrow N sp cs k sn) = fold_right Nat.add 0 (map (wbins k sn) cs).
  Proof.
    unfold count_true, maskrow, gpos. induction cs as [|c cs IH]; simpl; auto.
    rewrite map_app, filter_app, app_length, IH. f_equal. unfold tab. rewrite map_map. simpl.
    rewrite length_filter_const, seq_length. reflexivity.
  Qed.
  Lemma stat_vars_length k s0 : first_carrier N sp chs smps k = Some s0 ->
    length (stat_vars N sp chs smps k) = count_true (maskrow N sp chs k s0).
  Proof.
    intros H. unfold stat_vars. rewrite H. unfold count_true, maskrow.
    exact (length_flat_map_if (fun p => declared N sp (fst p) s0 k) _ _).
  Qed.

  (* ---- the paramset named after a listed modifier ---- *)
  Definition expected_pset (c : channel N) (m : modifier N) (p : pset N) : Prop :=
    match m_type m with
    | Histosys | Normsys | Lumi => p_type N p = PNormal /\ p_n N p = 1
    | Normfactor => p_type N p = PUnconstrained /\ p_n N p = 1
    | Shapefactor => p_type N p = PUnconstrained /\ p_n N p = chan_nbins N c
    | Shapesys => p_type N p = PPoisson /\ p_n N p = chan_nbins N c
    | Staterror => p_type N p = PNormal /\
                   exists s0, first_carrier N sp chs smps (mkey m) = Some s0 /\ p_n N p = count_true (maskrow N sp chs (mkey m) s0)
    end.

  Theorem accepted_pset_of_listed c s m : listed c s m ->
    exists p i, find_pset N (md_psets N md) (m_name m) = Some p /\ nth_error (md_psets N md) i = Some p /\ p_name N p = m_name m /\
      p_start N p = total N (firstn i (md_psets N md)) /\ p_start N p + p_n N p <= md_npars N md /\ expected_pset c m p.
  Proof.
    intros Hl. pose proof (listed_walk c s m Hl) as Hw.
    assert (Hname : In (m_name m) (map fst (walk (m_type m)))) by (apply in_map_iff; eexists; split; [|exact Hw]; reflexivity).
    destruct (first_decl_exists _ _ Hname) as (cn' & sn' & m' & Hd).
    destruct (listed_names c s m Hl) as (Hcn & Hsn & Hk & Hkt). destruct (listed_nbins c s m Hl) as (Hnb & Hlen).
    unfold expected_pset. destruct (m_type m) eqn:Et.
    - assert (Hreq : In (m_name m, [req_alpha N]) (requ Histosys)).
      { unfold required. apply in_map_iff. exists (m_name m, (cn', sn', m')). split; auto. }
      destruct (accepted_requirement Histosys _ _ (req_alpha N) Hreq (or_introl eq_refl)) as (p & i & H1 & H2 & H3 & H4 & H5 & _ & H7 & H8).
      exists p, i. repeat split; auto.
    - assert (Hreq : In (m_name m, [req_lumi N]) (requ Lumi)).
      { unfold required. apply in_map_iff. exists (m_name m, (cn', sn', m')). split; auto. }
      destruct (accepted_requirement Lumi _ _ (req_lumi N) Hreq (or_introl eq_refl)) as (p & i & H1 & H2 & H3 & H4 & H5 & _ & H7 & H8).
      exists p, i. repeat split; auto.
    - assert (Hreq : In (m_name m, [req_normfactor N]) (requ Normfactor)).
      { unfold required. apply in_map_iff. exists (m_name m, (cn', sn', m')). split; auto. }
      destruct (accepted_requirement Normfactor _ _ (req_normfactor N) Hreq (or_introl eq_refl)) as (p & i & H1 & H2 & H3 & H4 & H5 & _ & H7 & H8).
      exists p, i. repeat split; auto.
    - assert (Hreq : In (m_name m, [req_alpha N]) (requ Normsys)).
      { unfold required. apply in_map_iff. exists (m_name m, (cn', sn', m')). split; auto. }
      destruct (accepted_requirement Normsys _ _ (req_alpha N) Hreq (or_introl eq_refl)) as (p & i & H1 & H2 & H3 & H4 & H5 & _ & H7 & H8).
      exists p, i. repeat split; auto.
    - assert (Hreq : In (m_name m, map (req_shapefactor N) (sf_sizes N sp chs smps mods (m_name m))) (requ Shapefactor)).
      { unfold required. apply in_map_iff. exists (m_name m, (cn', sn', m')). split; auto. }
      assert (Hsz : In (chan_nbins N c) (sf_sizes N sp chs smps mods (m_name m))).
      { unfold sf_sizes. apply nodup_In. apply in_flat_map. exists (m_name m, (c_name c, s_name s, m)). split; [exact Hw|].
        simpl. rewrite String.eqb_refl, (listed_cell c s m Hl), Hlen. now left. }
      destruct (accepted_requirement Shapefactor _ _ (req_shapefactor N (chan_nbins N c)) Hreq (in_map _ _ _ Hsz))
        as (p & i & H1 & H2 & H3 & H4 & H5 & _ & H7 & H8).
      exists p, i. repeat split; auto.
    - pose proof (first_decls_in _ _ Hd) as Hd'. apply walk_decls_in in Hd'. destruct Hd' as (_ & _ & _ & Hcm).
      apply cellmod_listed in Hcm. destruct Hcm as (c2 & s2 & Hl2 & Ec2 & Es2 & Ek2).
      assert (Hn2 : m_name m = m_name m') by (apply (f_equal fst) in Ek2; simpl in Ek2; auto).
      assert (Ht2 : m_type m' = Shapesys) by (apply (f_equal snd) in Ek2; simpl in Ek2; now apply tyname_inj).
      destruct (shapesys_cell_unique c s m c2 s2 m' Hl Hl2 Et Ht2 Hn2) as (-> & -> & <-). subst cn' sn'.
      assert (Hreq : In (m_name m, [req_shapesys N (s_data s2) (mdlist N m)]) (requ Shapesys)).
      { unfold required. apply in_map_iff. exists (m_name m, (c_name c2, s_name s2, m)). split; auto.
        now rewrite (listed_cell c2 s2 m Hl). }
      destruct (accepted_requirement Shapesys _ _ _ Hreq (or_introl eq_refl)) as (p & i & H1 & H2 & H3 & H4 & H5 & _ & H7 & H8).
      exists p, i. repeat split; auto. rewrite H4. simpl. rewrite zip3_length, Hlen.
      destruct (accepted_modifier_lengths N sp md _ _ _ _ Hb Hcn Hsn (listed_cellmod c2 s2 m Hl)) as (_ & Hy & _).
      rewrite (Hy Hkt), Hnb. apply Nat.min_id.
    - assert (Hreq : In (m_name m, [req_staterror N (stat_vars N sp chs smps (mkey m))]) (requ Staterror)).
      { unfold required. apply in_map_iff. exists (mkey m). split; auto. }
      destruct (accepted_requirement Staterror _ _ _ Hreq (or_introl eq_refl)) as (p & i & H1 & H2 & H3 & H4 & H5 & _ & H7 & H8).
      exists p, i. repeat split; auto.
      destruct (find_exists (carries N sp chs (mkey m)) smps (s_name s) Hsn (listed_carries c s m Hl)) as [s0 Hs0].
      exists s0. split; auto. rewrite H4. simpl. now apply stat_vars_length.
  Qed.

  (* every key of the sorted modifier list of type t has its paramset, inside the parameter vector *)
  Theorem accepted_pset_of_key t k : In k (mods_of mods t) ->
    exists p, find_pset N (md_psets N md) (fst k) = Some p /\ p_name N p = fst k /\ p_start N p + p_n N p <= md_npars N md /\
      (match t with Shapefactor | Shapesys | Staterror => True | _ => p_n N p = 1 end).
  Proof.
    intros Hk. destruct (mods_of_listed t k Hk) as (c & s & m & Hl & <- & Ht).
    destruct (accepted_pset_of_listed c s m Hl) as (p & i & H1 & _ & H3 & _ & H5 & H6).
    exists p. repeat split; auto. unfold expected_pset in H6. rewrite Ht in H6. destruct t; auto; apply H6.
  Qed.
End WithModel.
End Accepted.

(* ---------------------------------------------------------------- md_npars = total needs "no paramset of size 0" *)
From Coq Require Import QArith Qcanon.
Definition zero_bin_spec : spec QcNum :=
  Build_spec (N:=QcNum)
    [ Build_channel (N:=QcNum) "A" [ Build_sample (N:=QcNum) "s" [] [Build_modifier (N:=QcNum) "sf" Shapefactor (@MDNone QcNum)] ] ]
    [ Build_parcfg (N:=QcNum) "sf" (Some [mkq 1 1; mkq 2 1]) None None None None None ] None.
(* a sample with EMPTY data (refused by pyhf's JSON schema: minItems 1, not by the model code transcribed in Impl.build) gives a
   shapefactor paramset of size 0 whose default inits () are falsy, so the length check of user-configured inits is skipped *)
Theorem npars_total_refuted : exists md, build QcNum zero_bin_spec = Ok md /\ md_npars QcNum md <> total QcNum (md_psets QcNum md).
Proof.
  destruct (result_witness (build QcNum zero_bin_spec) (fun md => negb (Nat.eqb (md_npars QcNum md) (total QcNum (md_psets QcNum md)))))
    as (md & Hb & HP).
  - vm_compute. reflexivity.
  - exists md. split; auto. apply negb_true_iff in HP. now apply Nat.eqb_neq.
Qed.
