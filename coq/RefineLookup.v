(* Engine S refinement, part 1: under the distinct-name guarantees of an accepted specification the
   last-writer-wins dictionary lookups of Impl are plain finds, and the sorted name lists are the names of the sorted records. *)
From Coq Require Import Bool Arith Lia Permutation Sorting.Sorted String List.
Require Import PV.Num PV.Sort PV.Spec PV.Impl PV.Wf.
Import ListNotations.
Local Open Scope list_scope.

Lemma find_unique {A} (p : A -> bool) (l : list A) x :
  In x l -> p x = true -> (forall y, In y l -> p y = true -> y = x) -> find p l = Some x.
Proof.
  induction l as [|a l IH]; intros Hin Hp Hu; [destruct Hin|]. simpl.
  destruct (p a) eqn:E.
  - f_equal. apply Hu; auto. now left.
  - destruct Hin as [->|Hin]; [congruence|]. apply IH; auto. intros y Hy. apply Hu. now right.
Qed.
Lemma find_none_iff {A} (p : A -> bool) (l : list A) : find p l = None <-> forall y, In y l -> p y = false.
Proof.
  induction l as [|a l IH]; simpl; [split; auto; intros _ y []|].
  destruct (p a) eqn:E; split; intros H.
  - discriminate.
  - rewrite (H a (or_introl eq_refl)) in E. discriminate.
  - intros y [<-|Hy]; auto. now apply IH.
  - apply IH. intros y Hy. apply H. now right.
Qed.
Lemma last_find_unique {A} (p : A -> bool) (l : list A) x :
  In x l -> p x = true -> (forall y, In y l -> p y = true -> y = x) -> last_find p l = Some x.
Proof. intros Hin Hp Hu. unfold last_find. apply find_unique.
  - apply in_rev in Hin. exact Hin.
  - exact Hp.
  - intros y Hy. apply Hu. apply in_rev. exact Hy.
Qed.
Lemma last_find_none {A} (p : A -> bool) (l : list A) : (forall y, In y l -> p y = false) -> last_find p l = None.
Proof. intros H. unfold last_find. apply find_none_iff. intros y Hy. apply H. apply in_rev. exact Hy. Qed.

Lemma NoDup_map_inj_in {A B} (f : A -> B) l x y : NoDup (map f l) -> In x l -> In y l -> f x = f y -> x = y.
Proof.
  induction l as [|a l IH]; intros Hnd Hx Hy Hf; [destruct Hx|].
  inversion Hnd as [|? ? Hni Hnd']; subst. destruct Hx as [->|Hx], Hy as [->|Hy]; auto.
  - exfalso. apply Hni. rewrite Hf. now apply in_map.
  - exfalso. apply Hni. rewrite <- Hf. now apply in_map.
Qed.

Section Lookup.
  Variable N : Num.
  Variable sp : spec N.
  Hypothesis Hchan : NoDup (map c_name (channels sp)).
  Hypothesis Hsamp : forall c, In c (channels sp) -> NoDup (map s_name (c_samples c)).
  Hypothesis Hmods : forall c s, In c (channels sp) -> In s (c_samples c) -> NoDup (map mkey (s_mods s)).

  Lemma channel_unique c c' : In c (channels sp) -> In c' (channels sp) -> c_name c = c_name c' -> c = c'.
  Proof. intros. eapply NoDup_map_inj_in; eauto. Qed.

  Lemma filter_none (cn : string) (l : list (channel N)) : ~ In cn (map c_name l) ->
    filter (fun c' : channel N => String.eqb (c_name c') cn) l = [].
  Proof.
    induction l as [|b l IH]; simpl; auto. intros Hn.
    destruct (String.eqb_spec (c_name b) cn) as [e|ne]; [exfalso; apply Hn; left; auto|].
    apply IH. intro; apply Hn; now right.
  Qed.
  Lemma filter_single (l : list (channel N)) c : NoDup (map c_name l) -> In c l ->
    filter (fun c' : channel N => String.eqb (c_name c') (c_name c)) l = [c].
  Proof.
    induction l as [|a l IH]; intros Hnd Hin; [destruct Hin|].
    inversion Hnd as [|? ? Hni Hnd']; subst. simpl. destruct Hin as [->|Hin].
    - rewrite String.eqb_refl. f_equal. now apply filter_none.
    - destruct (String.eqb_spec (c_name a) (c_name c)) as [e|ne].
      + exfalso. apply Hni. rewrite e. now apply in_map.
      + now apply IH.
  Qed.
  Lemma filter_channel c : In c (channels sp) ->
    flat_map c_samples (filter (fun c' : channel N => String.eqb (c_name c') (c_name c)) (channels sp)) = c_samples c.
  Proof. intros Hc. rewrite (filter_single _ c Hchan Hc). simpl. now rewrite app_nil_r. Qed.

  (* the helper dictionary lookup is a find in the channel's own sample list *)
  Lemma cell_is_find c sn : In c (channels sp) ->
    cell N sp (c_name c) sn = find (fun s => String.eqb (s_name s) sn) (c_samples c).
  Proof.
    intros Hc. unfold cell. rewrite (filter_channel c Hc).
    destruct (find (fun s => String.eqb (s_name s) sn) (c_samples c)) as [s|] eqn:E.
    - apply find_some in E. destruct E as [Hin Hn]. apply last_find_unique; auto.
      intros y Hy Hyn. apply String.eqb_eq in Hn, Hyn. eapply NoDup_map_inj_in; [apply (Hsamp c Hc)| | |]; auto. congruence.
    - apply last_find_none. now apply find_none_iff.
  Qed.
  Lemma cell_present c s : In c (channels sp) -> In s (c_samples c) -> cell N sp (c_name c) (s_name s) = Some s.
  Proof.
    intros Hc Hs. rewrite (cell_is_find c _ Hc). apply find_unique; auto; [apply String.eqb_refl|].
    intros y Hy Hn. apply String.eqb_eq in Hn. eapply NoDup_map_inj_in; [apply (Hsamp c Hc)| | |]; auto.
  Qed.
  Lemma cell_absent c sn : In c (channels sp) -> ~ In sn (map s_name (c_samples c)) -> cell N sp (c_name c) sn = None.
  Proof.
    intros Hc Hn. rewrite (cell_is_find c _ Hc). apply find_none_iff. intros y Hy.
    destruct (String.eqb_spec (s_name y) sn) as [e|ne]; auto. exfalso. apply Hn. rewrite <- e. now apply in_map.
  Qed.

  Lemma smod_present c s m : In c (channels sp) -> In s (c_samples c) -> In m (s_mods s) -> smod N s (mkey m) = Some m.
  Proof.
    intros Hc Hs Hm. unfold smod. apply last_find_unique; auto; [apply pair_eqb_eq; reflexivity|].
    intros y Hy Hk. apply pair_eqb_eq in Hk. eapply NoDup_map_inj_in; [apply (Hmods c s Hc Hs)| | |]; auto.
  Qed.
  Lemma smod_absent s k : ~ In k (map mkey (s_mods s)) -> smod N s k = None.
  Proof.
    intros Hn. unfold smod. apply last_find_none. intros y Hy.
    destruct (pair_eqb (mkey y) k) eqn:E; auto. apply pair_eqb_eq in E. exfalso. apply Hn. rewrite <- E. now apply in_map.
  Qed.

  (* nbins of a listed channel is the length of its first sample *)
  Lemma nbins_is c : In c (channels sp) ->
    nbins N sp (c_name c) = match c_samples c with s :: _ => length (s_data s) | [] => O end.
  Proof.
    intros Hc. unfold nbins. rewrite (last_find_unique _ _ c Hc); auto; [apply String.eqb_refl|].
    intros y Hy Hn. apply String.eqb_eq in Hn. now apply channel_unique.
  Qed.

  (* sorted(set(channel names)) are the names of the channels sorted by name *)
  Lemma cfg_channels_sorted : cfg_channels N sp = map c_name (ssort c_name (channels sp)).
  Proof.
    unfold cfg_channels, sort_uniq. rewrite (nodup_fixed_point string_dec Hchan).
    unfold ssort.
    apply (sorted_perm_eq string String.leb String.leb_antisym string (fun x => x)).
    - rewrite map_id. eapply Permutation_NoDup; [symmetry; apply isort_perm|]. exact Hchan.
    - apply isort_sorted; [exact String.leb_total|exact str_leb_trans].
    - assert (S := isort_sorted string String.leb String.leb_total str_leb_trans (channel N) c_name (channels sp)).
      induction S as [|a l Hs IH Hf]; simpl; constructor; auto.
      rewrite Forall_forall in *. intros x Hx. apply in_map_iff in Hx. destruct Hx as [y [<- Hy]]. unfold le. simpl. apply (Hf y Hy).
    - rewrite isort_perm. apply Permutation_map. symmetry. apply isort_perm.
  Qed.
End Lookup.
