(* C12 - tie to the source: the definition translated on every run from pyhf/mixins.py (_ChannelSummaryMixin.__init__;
   coq/gen/ConfigGen.v, written by harness/props/c12_tie.py) computes cfg_channels / cfg_samples / cfg_modifiers / nbins / channel_slices
   of Impl.v.  The proof succeeds only while the translated text means what the model says. *)
From Coq Require Import Bool Arith Lia String List.
Require Import PV.Num PV.Sort PV.Spec PV.Impl PV.gen.ConfigGen.
Import ListNotations.
Local Open Scope nat_scope.
Local Open Scope list_scope.

Lemma fold_left_ext_in {A B} (f g : A -> B -> A) l : (forall a b, In b l -> f a b = g a b) -> forall a, fold_left f l a = fold_left g l a.
Proof. induction l as [|x t IH]; intros E a; simpl; [reflexivity|]. rewrite (E a x (or_introl eq_refl)). apply IH. intros; apply E; now right. Qed.

(* ---------- the python dict ---------- *)
Lemma dict_get_set (d : list (string * nat)) k v cn : dict_get (dict_set k v d) cn = if String.eqb cn k then v else dict_get d cn.
Proof. induction d as [|[k' v'] t IH]; simpl.
  - reflexivity.
  - destruct (String.eqb_spec k k') as [e|ne]; simpl.
    + subst k'. destruct (String.eqb cn k); reflexivity.
    + rewrite IH. destruct (String.eqb_spec cn k') as [e2|ne2]; [|reflexivity].
      subst k'. destruct (String.eqb_spec cn k); [congruence|reflexivity]. Qed.
Lemma dict_set_absent {B} k (v : B) d : ~ In k (map fst d) -> dict_set k v d = d ++ [(k, v)].
Proof. induction d as [|[k' v'] t IH]; simpl; intros H; [reflexivity|].
  destruct (String.eqb_spec k k') as [e|ne]; [exfalso; apply H; now left|]. rewrite IH; [reflexivity|]. intros Hin. apply H. now right. Qed.
Lemma dict_of_pairs_nodup {B} (l : list (string * B)) : NoDup (map fst l) -> dict_of_pairs l = l.
Proof. unfold dict_of_pairs.
  assert (G : forall l acc, NoDup (map fst l) -> (forall k, In k (map fst l) -> ~ In k (map fst acc)) ->
              fold_left (fun d (kv : string * B) => dict_set (fst kv) (snd kv) d) l acc = acc ++ l).
  { clear l. induction l as [|[k v] t IH]; intros acc ND DJ; simpl; [now rewrite app_nil_r|].
    inversion ND; subst. rewrite dict_set_absent by (apply DJ; now left). rewrite IH; auto.
    - now rewrite <- app_assoc.
    - intros k' Hin. rewrite map_app, in_app_iff. simpl. intros [H|[H|[]]]; [apply (DJ k'); [now right|exact H]|subst; auto]. }
  intros ND. rewrite G; auto. Qed.
Lemma dict_get_tab (g : string -> nat) l k : In k l -> dict_get (map (fun c => (c, g c)) l) k = g k.
Proof. induction l as [|x t IH]; simpl; [tauto|]. destruct (String.eqb_spec k x) as [e|ne]; [now subst|]. intros [H|H]; [congruence|auto]. Qed.

Lemma find_app' {A} (p : A -> bool) l l' : find p (l ++ l') = match find p l with Some x => Some x | None => find p l' end.
Proof. induction l as [|x t IH]; simpl; [reflexivity|]. now destruct (p x). Qed.
(* channel_nbins[name] = .. for every listed channel: the last one listed with that name stays *)
Lemma dict_get_fold {C} (key : C -> string) (f : C -> nat) (l : list C) : forall d0 cn,
  dict_get (fold_left (fun d c => dict_set (key c) (f c) d) l d0) cn =
  match find (fun c => String.eqb (key c) cn) (rev l) with Some c => f c | None => dict_get d0 cn end.
Proof. induction l as [|c t IH]; intros d0 cn; simpl; [reflexivity|].
  rewrite IH. rewrite find_app'. destruct (find (fun c0 => String.eqb (key c0) cn) (rev t)); [reflexivity|].
  simpl. rewrite dict_get_set. rewrite (String.eqb_sym cn (key c)). now destruct (String.eqb (key c) cn). Qed.

(* the running sum over the sorted channels *)
Lemma slices_fold (g : string -> nat) l : forall acc b, NoDup l -> (forall k, In k l -> ~ In k (map fst acc)) ->
  fst (fold_left (fun (s : list (string * (nat * nat)) * nat) c => (dict_set c (snd s, snd s + g c) (fst s), snd s + g c)) l (acc, b))
  = acc ++ combine l (running (map g l) b).
Proof. induction l as [|x t IH]; intros acc b ND DJ; simpl; [now rewrite app_nil_r|].
  inversion ND; subst. rewrite dict_set_absent by (apply DJ; now left). rewrite IH; auto.
  - now rewrite <- app_assoc.
  - intros k Hin. rewrite map_app, in_app_iff. simpl. intros [H|[H|[]]]; [apply (DJ k); [now right|exact H]|subst; auto]. Qed.

Section Tie.
  Variable N : Num.

  Lemma mods_fold (ms : list (modifier N)) (d : list (string * string)) :
    fold_left (fun s m => s ++ [(m_name m, mtyname N m)]) ms d = d ++ map mkey ms.
  Proof. revert d. induction ms as [|m t IH]; intros d; simpl; [now rewrite app_nil_r|]. rewrite IH, <- app_assoc. reflexivity. Qed.

  Definition smods (s : sample N) : list (string * string) := map mkey (s_mods s).

  Theorem tie_channel_summary (sp : spec N) :
    gen_channel_summary N (channels sp) =
    (cfg_channels N sp, cfg_samples N sp, cfg_modifiers N sp,
     map (fun c => (c, nbins N sp c)) (cfg_channels N sp), channel_slices N sp).
  Proof.
    unfold gen_channel_summary. cbv zeta.
    match goal with |- context [fold_left ?F (channels sp) ?I] => set (F1 := F); set (R := fold_left F1 (channels sp) I) end.
    assert (G : forall chans a b c d, fold_left F1 chans (a, b, c, d) =
              (a ++ map c_name chans,
               fold_left (fun dd ch => dict_set (c_name ch) (length (s_data (nth 0 (c_samples ch) (dflt_sample N)))) dd) chans b,
               c ++ map s_name (flat_map c_samples chans),
               d ++ flat_map smods (flat_map c_samples chans))).
    { induction chans as [|ch t IH]; intros a b c d; simpl; [now rewrite !app_nil_r|].
      unfold F1 at 2. cbn [fst snd].
      assert (S : forall smps c0 d0,
        fold_left (fun (s4 : list string * list (string * string)) (x3 : sample N) =>
                     (fst s4 ++ [s_name x3], fold_left (fun s6 x5 => s6 ++ [(m_name x5, mtyname N x5)]) (s_mods x3) (snd s4))) smps (c0, d0)
        = (c0 ++ map s_name smps, d0 ++ flat_map smods smps)).
      { induction smps as [|s ss IHs]; intros c0 d0; simpl; [now rewrite !app_nil_r|].
        rewrite mods_fold, IHs. unfold smods at 2. now rewrite <- !app_assoc. }
      rewrite S. cbn [fst snd]. rewrite IH. rewrite !map_app, !flat_map_app, <- !app_assoc. reflexivity. }
    assert (ER : R = (map c_name (channels sp),
                      fold_left (fun dd ch => dict_set (c_name ch) (length (s_data (nth 0 (c_samples ch) (dflt_sample N)))) dd) (channels sp) [],
                      map s_name (flat_map c_samples (channels sp)), flat_map smods (flat_map c_samples (channels sp)))) by (unfold R; apply G).
    clearbody R. subst R. cbn [fst snd].
    fold (sort_uniq (map c_name (channels sp))). fold (cfg_channels N sp).
    (* channel_nbins restricted to the sorted channels *)
    assert (NB : forall cn, dict_get (fold_left (fun dd ch => dict_set (c_name ch) (length (s_data (nth 0 (c_samples ch) (dflt_sample N)))) dd) (channels sp) []) cn
                            = nbins N sp cn).
    { intros cn. rewrite (dict_get_fold c_name). unfold nbins, last_find.
      destruct (find (fun c => String.eqb (c_name c) cn) (rev (channels sp))) as [c|]; [|reflexivity]. now destruct (c_samples c). }
    assert (ND : NoDup (cfg_channels N sp)) by apply sort_uniq_nodup.
    assert (EN : dict_of_pairs (map (fun x_channel => (x_channel, dict_get
                  (fold_left (fun dd ch => dict_set (c_name ch) (length (s_data (nth 0 (c_samples ch) (dflt_sample N)))) dd) (channels sp) []) x_channel)) (cfg_channels N sp))
                 = map (fun c => (c, nbins N sp c)) (cfg_channels N sp)).
    { rewrite dict_of_pairs_nodup by (rewrite map_map; simpl; now rewrite map_id). apply map_ext. intros c. now rewrite NB. }
    rewrite EN.
    f_equal.
    unfold channel_slices.
    match goal with |- fst (fold_left ?F _ _) = _ =>
      rewrite (fold_left_ext_in F (fun (s : list (string * (nat * nat)) * nat) c => (dict_set c (snd s, snd s + nbins N sp c) (fst s), snd s + nbins N sp c))) end.
    - rewrite (slices_fold (nbins N sp)); auto.
    - intros s c Hin. now rewrite (dict_get_tab (nbins N sp)).
  Qed.
End Tie.

(* ---------- non-vacuity: two channels listed out of order, one name listed twice ---------- *)
Local Open Scope string_scope.
Local Open Scope list_scope.
Definition ex_sample (n : string) (k : nat) : sample QcNum :=
  {| s_name := n; s_data := repeat (n0 QcNum) k; s_mods := [{| m_name := "mu"; m_type := Normfactor; m_data := MDNone |}] |}.
Definition ex_channels : list (channel QcNum) :=
  [ {| c_name := "b"; c_samples := [ex_sample "s2" 3; ex_sample "s1" 3] |}; {| c_name := "a"; c_samples := [ex_sample "s1" 2] |};
    {| c_name := "b"; c_samples := [ex_sample "s1" 1] |} ].
Example ex_summary : gen_channel_summary QcNum ex_channels =
  (["a"; "b"], ["s1"; "s2"], [("mu", "normfactor")], [("a", 2); ("b", 1)], [("a", (0, 2)); ("b", (2, 3))]).
Proof. vm_compute. reflexivity. Qed.
