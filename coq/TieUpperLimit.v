(* C09 - tie to the source: the definitions translated on every run from pyhf/infer/intervals/upper_limits.py
   (coq/gen/UpperLimitGen.v, written by harness/props/c09_tie.py) coincide with the hand model of UpperLimit.v.
   The proofs succeed only while the translated text means what the model says. *)
From Coq Require Import Bool Arith Lia ZArith QArith Qcanon Reals FunctionalExtensionality List.
Require Import PV.Num PV.UpperLimit PV.gen.UpperLimitGen.
Import ListNotations.
Local Open Scope list_scope.

(* `==` of the number instance is reflexive (a python dict finds the key it has just stored; false only of nan) *)
Definition neqb_refl (N : Num) : Prop := forall a : V N, neqb N a a = true.
Lemma neqb_refl_Qc : neqb_refl QcNum.
Proof. intros a. simpl. unfold Qc_eq_bool. destruct (Qc_eq_dec a a); congruence. Qed.
Lemma neqb_refl_R : neqb_refl RNum.
Proof. intros a. simpl. unfold reqb. destruct (Req_EM_T a a); congruence. Qed.

(* what the callers see of the model's record *)
Definition scan_view {N : Num} (o : scan_out N) : (V N * list (V N)) * (list (V N) * list (hres N)) :=
  ((so_obs o, so_exp o), (so_points o, so_results o)).
Definition scan_limits {N : Num} (o : scan_out N) : V N * list (V N) := (so_obs o, so_exp o).

Section Tie.
  Variable N : Num.
  Variable H : V N -> hres N.
  Variable toms : nat -> (V N -> V N) -> V N -> V N -> list (V N) * V N.

  Lemma tie_interp x xp fp : gen_interp N x xp fp = np_interp x xp fp.
  Proof. reflexivity. Qed.

  Lemma tie_linear_grid_scan_results scan level :
    gen_linear_grid_scan_results N H scan level
    = let '(limits, sr) := linear_grid_scan H scan level in ((nth 0 limits None, tl limits), sr).
  Proof. reflexivity. Qed.
  Lemma tie_linear_grid_scan scan level :
    gen_linear_grid_scan N H scan level
    = let limits := fst (linear_grid_scan H scan level) in (nth 0 limits None, tl limits).
  Proof. reflexivity. Qed.

  (* ---- the dict ---- *)
  Section Dict.
    Hypothesis Hrefl : neqb_refl N.

    Lemma cfind_app_none (c : cache N) p r : cfind c p = None -> cfind (c ++ [(p, r)]) p = Some r.
    Proof. induction c as [|[k r'] t IH]; simpl; intros E.
      - now rewrite Hrefl.
      - destruct (neqb N k p); [discriminate|]. now apply IH. Qed.
    Lemma dset_none (c : cache N) p v : cfind c p = None -> dset c p v = c ++ [(p, v)].
    Proof. induction c as [|[k r'] t IH]; simpl; intros E; [reflexivity|].
      destruct (neqb N k p); [discriminate|]. now rewrite IH. Qed.

    Lemma tie_f_cached c p : gen_f_cached N H c p = f_cached H c p.
    Proof. unfold gen_f_cached, f_cached, dmem. destruct (cfind c p) as [r|] eqn:E; cbn [negb].
      - unfold dget. now rewrite E.
      - rewrite (dset_none c p (H p) E). unfold dget. now rewrite (cfind_app_none c p (H p) E). Qed.

    Lemma tie_f c poi level k : gen_f N H c poi level k = f_obj N H c poi level k.
    Proof. unfold gen_f, f_obj. rewrite tie_f_cached. destruct (f_cached H c poi) as [c' r]. cbn [fst snd].
      destruct k as [|k]; cbn [Nat.eqb comp]; [reflexivity|]. now rewrite Nat.sub_succ, Nat.sub_0_r. Qed.

    Lemma tie_run_toms c level k a b :
      run_toms_with N (fun c poi => gen_f N H c poi level k) toms c k a b = run_toms H toms c level k a b.
    Proof. unfold run_toms_with, run_toms. cbv beta.
      assert (E1 : (fun poi => snd (gen_f N H [] poi level k)) = (fun poi => nsub N (comp k (H poi)) level)).
      { apply functional_extensionality. intros poi. rewrite tie_f. reflexivity. }
      assert (E2 : (fun c0 p => fst (gen_f N H c0 p level k)) = (fun c0 p => fst (f_cached H c0 p))).
      { apply functional_extensionality. intros c0. apply functional_extensionality. intros p. rewrite tie_f. unfold f_obj.
        destruct (f_cached H c0 p); reflexivity. }
      rewrite E1, E2. reflexivity. Qed.

    (* ---- the two extension loops ---- *)
    Lemma tie_while_low : forall fuel level c lo r,
      option_map (fun w : cache N * V N * hres N => (fst (fst w), snd (fst w))) (gen_while_1 N H fuel level c lo r) = extend_low H fuel level c lo r.
    Proof. induction fuel as [|k IH]; intros level c lo r; [reflexivity|].
      cbn [gen_while_1 extend_low]. unfold any_lt. change ([fst r] ++ snd r) with (fst r :: snd r).
      destruct (existsb _ _); [|reflexivity]. rewrite tie_f_cached. unfold two.
      destruct (f_cached H c (ndiv N lo (nofZ N 2))) as [c' r']. cbn [fst snd]. apply IH. Qed.

    Lemma tie_while_up : forall fuel level c up r,
      option_map (fun w : cache N * V N * hres N => (fst (fst w), snd (fst w))) (gen_while_2 N H fuel level c up r) = extend_up H true fuel level c up r.
    Proof. induction fuel as [|k IH]; intros level c up r; [reflexivity|].
      cbn [gen_while_2 extend_up]. unfold any_gt. change ([fst r] ++ snd r) with (fst r :: snd r).
      destruct (existsb _ _); [|reflexivity]. rewrite tie_f_cached. unfold two.
      destruct (f_cached H c (nmul N up (nofZ N 2))) as [c' r']. cbn [fst snd]. apply IH. Qed.
  End Dict.

  (* ---- best_bracket ---- *)
  Lemma vals_eq (c : cache N) level k :
    map (fun x : hres N => if Nat.eqb k 0 then nsub N (fst x) level else nsub N (nth (k - 1) (snd x) (n0 N)) level) (map snd c)
    = map (fun e : V N * hres N => nsub N (comp k (snd e)) level) c.
  Proof. rewrite map_map. apply map_ext. intros e. destruct k as [|k]; cbn [Nat.eqb comp]; [reflexivity|].
    now rewrite Nat.sub_succ, Nat.sub_0_r. Qed.

  Lemma tie_best_bracket c level k : gen_best_bracket N c level k = best_bracket c level k.
  Proof. unfold gen_best_bracket, best_bracket. rewrite vals_eq. cbv zeta.
    destruct (argmin _); [|reflexivity]. destruct (argmax _); reflexivity. Qed.

  (* ---- toms748_scan ---- *)
  Ltac bracket_step Hrefl :=
    rewrite tie_best_bracket; match goal with |- context [best_bracket ?c ?l ?k] => destruct (best_bracket c l k) as [[? ?]|] end;
    cbn [fst snd]; [|reflexivity];
    rewrite (tie_run_toms Hrefl); match goal with |- context [run_toms H toms ?c ?l ?k ?a ?b] => destruct (run_toms H toms c l k a b) as [? ?] end;
    cbn [fst snd].

  Lemma tie_toms748_scan_gen (Hrefl : neqb_refl N) {X} (view : scan_out N -> X) fuel lo up level
    (g : option X)
    (Hg : g = (let x_p1 := (gen_f_cached N H [] lo) in (match (gen_while_1 N H fuel level (fst x_p1) lo (snd x_p1)) with None => None | Some x_w2 =>
               (let x_p3 := (gen_f_cached N H (fst (fst x_w2)) up) in (match (gen_while_2 N H fuel level (fst x_p3) up (snd x_p3)) with None => None | Some x_w4 =>
               (let x_t5 := (run_toms_with N (fun c poi => gen_f N H c poi level 0) toms (fst (fst x_w4)) 0 (snd (fst x_w2)) (snd (fst x_w4))) in
               (match (gen_best_bracket N (fst x_t5) level 1) with None => None | Some x_b6 =>
               (let x_t7 := (run_toms_with N (fun c poi => gen_f N H c poi level 1) toms (fst x_t5) 1 (fst x_b6) (snd x_b6)) in
               (match (gen_best_bracket N (fst x_t7) level 2) with None => None | Some x_b8 =>
               (let x_t9 := (run_toms_with N (fun c poi => gen_f N H c poi level 2) toms (fst x_t7) 2 (fst x_b8) (snd x_b8)) in
               (match (gen_best_bracket N (fst x_t9) level 3) with None => None | Some x_b10 =>
               (let x_t11 := (run_toms_with N (fun c poi => gen_f N H c poi level 3) toms (fst x_t9) 3 (fst x_b10) (snd x_b10)) in
               (match (gen_best_bracket N (fst x_t11) level 4) with None => None | Some x_b12 =>
               (let x_t13 := (run_toms_with N (fun c poi => gen_f N H c poi level 4) toms (fst x_t11) 4 (fst x_b12) (snd x_b12)) in
               (match (gen_best_bracket N (fst x_t13) level 5) with None => None | Some x_b14 =>
               (let x_t15 := (run_toms_with N (fun c poi => gen_f N H c poi level 5) toms (fst x_t13) 5 (fst x_b14) (snd x_b14)) in
               (Some (view {| so_obs := snd x_t5; so_exp := [(snd x_t7); (snd x_t9); (snd x_t11); (snd x_t13); (snd x_t15)];
                              so_points := map fst (fst x_t15); so_results := map snd (fst x_t15); so_brackets := [] |})))
               end)) end)) end)) end)) end)) end)) end))) :
    (forall o o', so_obs o = so_obs o' -> so_exp o = so_exp o' -> so_points o = so_points o' -> so_results o = so_results o' -> view o = view o') ->
    g = option_map view (toms748_scan H toms true fuel lo up level).
  Proof. intros Hview. subst g. unfold toms748_scan. cbv zeta.
    rewrite (tie_f_cached Hrefl). destruct (f_cached H [] lo) as [c0 rlo]. cbn [fst snd].
    rewrite <- (tie_while_low Hrefl). destruct (gen_while_1 N H fuel level c0 lo rlo) as [[[c1 lo'] r1]|]; cbn [option_map fst snd]; [|reflexivity].
    rewrite (tie_f_cached Hrefl). destruct (f_cached H c1 up) as [c2 rup]. cbn [fst snd].
    rewrite <- (tie_while_up Hrefl). destruct (gen_while_2 N H fuel level c2 up rup) as [[[c3 up'] r3]|]; cbn [option_map fst snd]; [|reflexivity].
    rewrite (tie_run_toms Hrefl). destruct (run_toms H toms c3 level 0 lo' up') as [c4 obs]. cbn [fst snd exp_loop].
    do 5 bracket_step Hrefl.
    cbn [option_map]. f_equal. apply Hview; reflexivity. Qed.

  Lemma tie_toms748_scan_results (Hrefl : neqb_refl N) fuel lo up level :
    gen_toms748_scan_results N H toms fuel lo up level = option_map scan_view (toms748_scan H toms true fuel lo up level).
  Proof. apply (tie_toms748_scan_gen Hrefl scan_view); [reflexivity|].
    intros o o' E1 E2 E3 E4. unfold scan_view. now rewrite E1, E2, E3, E4. Qed.
  Lemma tie_toms748_scan (Hrefl : neqb_refl N) fuel lo up level :
    gen_toms748_scan N H toms fuel lo up level = option_map scan_limits (toms748_scan H toms true fuel lo up level).
  Proof. apply (tie_toms748_scan_gen Hrefl scan_limits); [reflexivity|].
    intros o o' E1 E2 E3 E4. unfold scan_limits. now rewrite E1, E2. Qed.

  (* ---- upper_limit: the dispatch on `scan is None`, the level and the bounds handed on ---- *)
  Definition grid_view (o : option (V N)) (e : list (option (V N))) (pr : list (V N) * list (hres N)) :=
    match all_some (o :: e) with Some (o' :: e') => Some ((o', e'), pr) | _ => None end.

  Lemma tie_upper_limit_results (Hrefl : neqb_refl N) fuel bounds scan level :
    match gen_upper_limit_results N H toms fuel bounds scan level with
    | inl (o, e, pr) => grid_view o e pr
    | inr r => r
    end = option_map scan_view (upper_limit_spec N H toms true fuel bounds scan level).
  Proof. unfold gen_upper_limit_results, upper_limit_spec. destruct scan as [s|].
    - rewrite tie_linear_grid_scan_results. unfold linear_grid_scan, grid_view. cbv zeta. cbn [map seq nth tl fst snd].
      destruct (all_some _) as [[|o' e']|]; reflexivity.
    - rewrite (tie_toms748_scan_results Hrefl). destruct (toms748_scan H toms true fuel (fst bounds) (snd bounds) level); reflexivity. Qed.

  Lemma tie_upper_limit (Hrefl : neqb_refl N) fuel bounds scan level :
    match gen_upper_limit N H toms fuel bounds scan level with
    | inl (o, e) => option_map fst (grid_view o e ([], []))
    | inr r => r
    end = option_map scan_limits (upper_limit_spec N H toms true fuel bounds scan level).
  Proof. unfold gen_upper_limit, upper_limit_spec. destruct scan as [s|].
    - rewrite tie_linear_grid_scan. unfold linear_grid_scan, grid_view. cbv zeta. cbn [map seq nth tl fst snd].
      destruct (all_some _) as [[|o' e']|]; reflexivity.
    - rewrite (tie_toms748_scan_results Hrefl). destruct (toms748_scan H toms true fuel (fst bounds) (snd bounds) level); reflexivity. Qed.
End Tie.

(* non-vacuity of neqb_refl: the executed instance *)
Example neqb_refl_nonvacuous : neqb_refl QcNum /\ neqb QcNum (mkq 1 2) (mkq 2 4) = true.
Proof. split; [exact neqb_refl_Qc|reflexivity]. Qed.

(* ---- the statements used by props/C09.v ---- *)
Lemma tie_linear_grid_scan_both : forall (N : Num) (H : V N -> hres N) scan level,
  gen_linear_grid_scan_results N H scan level = (let '(limits, sr) := linear_grid_scan H scan level in ((nth 0 limits None, tl limits), sr)) /\
  gen_linear_grid_scan N H scan level = (let limits := fst (linear_grid_scan H scan level) in (nth 0 limits None, tl limits)).
Proof. intros. split; [apply tie_linear_grid_scan_results|apply tie_linear_grid_scan]. Qed.
Lemma tie_extension_loops : forall (N : Num) (H : V N -> hres N), neqb_refl N -> forall fuel level c b r,
  option_map (fun w : cache N * V N * hres N => (fst (fst w), snd (fst w))) (gen_while_1 N H fuel level c b r) = extend_low H fuel level c b r /\
  option_map (fun w : cache N * V N * hres N => (fst (fst w), snd (fst w))) (gen_while_2 N H fuel level c b r) = extend_up H true fuel level c b r.
Proof. intros N H Hr fuel level c b r. split; [apply tie_while_low|apply tie_while_up]; exact Hr. Qed.
Lemma tie_toms748_scan_both : forall (N : Num) (H : V N -> hres N) toms, neqb_refl N -> forall fuel lo up level,
  gen_toms748_scan_results N H toms fuel lo up level = option_map scan_view (toms748_scan H toms true fuel lo up level) /\
  gen_toms748_scan N H toms fuel lo up level = option_map scan_limits (toms748_scan H toms true fuel lo up level).
Proof. intros N H toms Hr fuel lo up level. split; [apply tie_toms748_scan_results|apply tie_toms748_scan]; exact Hr. Qed.
Lemma tie_upper_limit_both : forall (N : Num) (H : V N -> hres N) toms, neqb_refl N -> forall fuel bounds scan level,
  match gen_upper_limit_results N H toms fuel bounds scan level with inl (o, e, pr) => grid_view N o e pr | inr r => r end
    = option_map scan_view (upper_limit_spec N H toms true fuel bounds scan level) /\
  match gen_upper_limit N H toms fuel bounds scan level with inl (o, e) => option_map fst (grid_view N o e ([], [])) | inr r => r end
    = option_map scan_limits (upper_limit_spec N H toms true fuel bounds scan level).
Proof. intros N H toms Hr fuel bounds scan level. split; [apply tie_upper_limit_results|apply tie_upper_limit]; exact Hr. Qed.
