(* C02, assembled: the likelihood term list of the implementation model is a permutation of the HistFactory template's
   term list (Ref.ref_terms), for every accepted specification, every parameter vector and every data vector.
   The per-family facts about the parameter sets enter through the decidable premise cblocks_okb (RefineTermsBlocks.v),
   which RefineTermsFam.v discharges family by family from build = Ok. *)
From Coq Require Import Bool Arith Lia Permutation Ring String QArith Qcanon Reals List.
Require Import PV.Num PV.Sort PV.Spec PV.Impl PV.Ref PV.Wf PV.Config PV.RefineLookup PV.RefineMonoid PV.RefineRates PV.RefineTop
               PV.RefineTerms PV.RefineTermsBlocks.
Import ListNotations.
Local Open Scope list_scope.

Section Names.
  Variable N : Num.
  Notation reqs := (list (string * list (req N))).
  Lemma rt_merge_req_keys (acc : reqs) name rs :
    map fst (merge_req N acc name rs) = if existsb (String.eqb name) (map fst acc) then map fst acc else map fst acc ++ [name].
  Proof.
    induction acc as [|[n l] t IH]; simpl; [reflexivity|].
    rewrite (String.eqb_sym name n). destruct (String.eqb n name); simpl; [reflexivity|].
    rewrite IH. destruct (existsb (String.eqb name) (map fst t)); reflexivity.
  Qed.
  Lemma rt_merge_req_nodup (acc : reqs) name rs : NoDup (map fst acc) -> NoDup (map fst (merge_req N acc name rs)).
  Proof.
    intros H. rewrite rt_merge_req_keys. destruct (existsb (String.eqb name) (map fst acc)) eqn:E; auto.
    assert (Hni : ~ In name (map fst acc)).
    { intros Hin. assert (existsb (String.eqb name) (map fst acc) = true) by (apply existsb_exists; exists name; split; auto; apply String.eqb_refl).
      congruence. }
    clear E. induction (map fst acc) as [|a l IH]; simpl; [repeat constructor; auto|].
    inversion H as [|? ? Ha Hl]; subst. constructor.
    - intros Hin. apply in_app_or in Hin. destruct Hin as [Hin|[Hin|[]]]; [contradiction|]. apply Hni. now left.
    - apply IH; auto. intros Hin. apply Hni. now right.
  Qed.
  Lemma rt_merge_list_nodup (l : reqs) : forall acc : reqs, NoDup (map fst acc) ->
    NoDup (map fst (fold_left (fun acc nr => merge_req N acc (fst nr) (snd nr)) l acc)).
  Proof. induction l as [|x l IH]; simpl; intros acc H; auto. apply IH. now apply rt_merge_req_nodup. Qed.

  Variable sp : spec N.
  Notation chs := (cfg_channels N sp).
  Notation smps := (cfg_samples N sp).
  Notation mods := (cfg_modifiers N sp).
  Lemma rt_required_all_nodup : NoDup (map fst (required_all N sp chs smps mods)).
  Proof.
    unfold required_all. generalize all_types. intros ts.
    assert (G : forall acc : reqs, NoDup (map fst acc) ->
              NoDup (map fst (fold_left (fun acc t => fold_left (fun acc nr => merge_req N acc (fst nr) (snd nr)) (required N sp chs smps mods t) acc) ts acc))).
    { induction ts as [|t ts IH]; simpl; intros acc H; auto. apply IH. now apply rt_merge_list_nodup. }
    apply G. constructor.
  Qed.

  (* what build = Ok says about the parameter sets and the auxiliary data of the model *)
  Lemma rt_build_parts md : build N sp = Ok md ->
    reduce_all N sp (required_all N sp chs smps mods) O = Ok (md_psets N md) /\ md_auxdata N md = flat_map (aux_of N) (filter (constrained N) (md_psets N md)).
  Proof.
    unfold build, build_hot. intros H.
    repeat match type of H with
           | context [if ?b then _ else _] => destruct b; try discriminate H
           end.
    destruct (reduce_all N sp (required_all N sp chs smps mods) O) as [ps|]; [|discriminate]. simpl in H.
    destruct (check_all (pset_create_ok N) ps); [|discriminate]. simpl in H.
    destruct ps as [|p0 ps']; [discriminate|].
    repeat match type of H with
           | context [bind ?r _] => destruct r; simpl in H; try discriminate H
           end.
    inversion H; subst; simpl. auto.
  Qed.
  Theorem accepted_names_nodup md : build N sp = Ok md -> NoDup (map (p_name N) (md_psets N md)).
  Proof.
    intros H. destruct (rt_build_parts md H) as [Hr _].
    rewrite (par_order_is_requirement_order N sp _ _ _ Hr). apply rt_required_all_nodup.
  Qed.
  Theorem accepted_tiles0 md : build N sp = Ok md -> tiles N O (md_psets N md).
  Proof. intros H. destruct (rt_build_parts md H) as [Hr _]. exact (par_slices_tile N sp _ _ _ Hr). Qed.
End Names.

Section Top.
  Variable N : Num.
  Notation V := (V N).
  Hypothesis Hring : ring_theory (n0 N) (n1 N) (nadd N) (nmul N) (nsub N) (nopp N) eq.
  Hypothesis Heqb : forall a b : V, neqb N a b = true -> a = b.
  Variable interp_add interp_mul : string -> V -> V -> V -> V -> V.
  Variable sp : spec N.
  Variable st : settings N.
  Variable md : model N.

  (* the data vector addressed by names: main data through config.channel_slices, auxiliary data through the position of
     the parameter set among the constrained ones (config.auxdata_order) *)
  Definition obs_by_name (data : list V) : string -> nat -> V := obs_of N sp data.
  Definition aux_of_data (data : list V) : string -> nat -> V :=
    aux_by_name N (md_psets N md) (skipn (nmaindata N sp) data).

  Theorem logpdf_terms_refines_blocks pars data l :
    build N sp = Ok md -> shape_ok N sp -> clip_guard N st -> layout_okb N sp md = true ->
    cblocks_okb N sp (md_psets N md) = true ->
    logpdf_terms N interp_add interp_mul sp st md pars data = Ok l ->
    Permutation l (ref_terms N interp_add interp_mul (normsys_code N st) (histosys_code N st) (clip_sample N st) (clip_bin N st) sp
                             (theta N md (parf N pars)) (obs_by_name data) (aux_of_data data)).
  Proof.
    intros Hb Hs Hc Hl Hok Hlog.
    destruct (main_plus_constraint N Hring (fun _ _ => n0 N) (fun _ _ _ => n0 N) interp_add interp_mul sp st md pars data l Hlog)
      as (El & _ & Hnp & Hlen).
    subst l. unfold ref_terms. apply Permutation_app.
    - rewrite (main_terms_refine N interp_add interp_mul sp st md (parf N pars) Hring
                 (accepted_distinct_channels N sp md Hb)
                 (fun c => accepted_distinct_samples N sp md c Hb)
                 (fun c s => accepted_distinct_modifiers N sp md c s Hb) Hs Hc (layout_okb_ok N sp md Hl) data) by lia.
      apply Permutation_refl.
    - apply (cterms_perm N sp Heqb md (parf N pars) (skipn (nmaindata N sp) data) (accepted_names_nodup N sp md Hb) Hok).
  Qed.
End Top.
