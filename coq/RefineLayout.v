(* Engine S refinement: the access-field layout premise of RefineRates.layout_ok and the read-range premise of Batch.v are
   CONSEQUENCES of acceptance (build N sp = Ok md), for every number record N.

     accepted_layout               : build N sp = Ok md -> layout_ok N sp md          (layout_okb_accepted: boolean form)
       shapefactor  b < size of the paramset (= bin count of every channel declaring it)
       shapesys     the name occurs on one sample of one channel: that sample is the last carrier, nothing is declared before
                    the channel, rank_before = b
       staterror    all carriers have the mask row of the first carrier, a sorted channel declares the key on the last carrier
                    iff some sample of the channel has the modifier, and the bins of the declaring channels sorting before the
                    channel add up to Ref.stat_offset
     layout_shapefactor_cell / layout_shapesys_cell / layout_staterror_cell :
                                     the same per type, together with  index < md_npars md
     declared_read_lt              : every parameter index read through a DECLARED cell lies inside the parameter vector
     expected_refines_accepted_full (+ _Qc, _R instances): C01 without any per-model premise
     batched_expected_data_full, batched_logpdf_terms_full, batched_logpdf_terms_rows : C10 without any per-model premise
     accepted_reads_in_range       : build N sp = Ok md -> 0 < md_npars md -> Batch.reads_in_range ... = true
     reads_in_range_refuted        : without 0 < md_npars md it is FALSE of the model: a specification with an EMPTY sample is
                                     accepted by the model code with an empty parameter vector, and the masked-out reads address
                                     its entry 0.  pyhf's JSON schema refuses such a specification (sample.data: minItems 1); the full
                                     batched theorems do not need the premise because masked-out reads never reach the result.
     Section NonEmpty (premise data_nonempty sp := no listed sample has empty data, i.e. that schema rule):
       accepted_pset_size_pos      : every paramset has at least one component
       accepted_npars_total_schema : md_npars md = total (md_psets md)
       accepted_npars_pos, accepted_reads_in_range_schema
     Examples layout_example_* : a 3-channel specification (2/3/2 bins; staterror shared by two samples over two channels of
                                     different bin counts, shapefactor shared by two channels, a shapesys, normsys, histosys, lumi,
                                     normfactor) is accepted with the expected parameter layout, and the full theorems apply to it. *)
From Coq Require Import Bool Arith Lia Permutation Sorting.Sorted Ring String List.
Require Import PV.Num PV.Sort PV.Spec PV.Impl PV.Ref PV.Wf PV.Config PV.RefineLookup PV.RefineRates PV.RefineTop PV.RefineParams PV.Batch.
Import ListNotations.
Local Open Scope list_scope.

(* ---------------------------------------------------------------- strict string order *)
Lemma ltb_irrefl s : String.ltb s s = false.
Proof. unfold String.ltb. now rewrite str_compare_refl. Qed.
Lemma leb_ne_ltb a b : String.leb a b = true -> a <> b -> String.ltb a b = true.
Proof.
  unfold String.leb, String.ltb. destruct (String.compare a b) eqn:E; auto; try discriminate.
  apply String.compare_eq_iff in E. contradiction.
Qed.
Lemma leb_ne_not_ltb a b : String.leb a b = true -> a <> b -> String.ltb b a = false.
Proof.
  intros H Hne. pose proof (leb_ne_ltb a b H Hne) as L. unfold String.ltb in *. rewrite String.compare_antisym.
  destruct (String.compare a b); try discriminate; reflexivity.
Qed.

(* ---------------------------------------------------------------- sums over the channels before a given one *)
Definition sumn (l : list nat) : nat := fold_right Nat.add 0 l.
Fixpoint before (cn : string) (l : list string) : list string :=
  match l with [] => [] | c :: t => if String.eqb c cn then [] else c :: before cn t end.

Lemma before_in cn : forall l x, In x (before cn l) -> In x l /\ x <> cn.
Proof.
  induction l as [|a l IH]; simpl; intros x H; [destruct H|].
  destruct (String.eqb_spec a cn) as [e|ne]; [destruct H|]. destruct H as [->|H]; auto. destruct (IH x H). auto.
Qed.
Lemma sumn_zero {A} (f : A -> nat) l : (forall x, In x l -> f x = 0) -> sumn (map f l) = 0.
Proof. induction l as [|a l IH]; simpl; intros H; auto. rewrite (H a) by auto. rewrite IH; auto. Qed.
Lemma sumn_ext {A} (f g : A -> nat) l : (forall x, In x l -> f x = g x) -> sumn (map f l) = sumn (map g l).
Proof. intros H. f_equal. now apply map_ext_in. Qed.
Lemma sumn_perm l l' : Permutation l l' -> sumn l = sumn l'.
Proof. induction 1; simpl; lia. Qed.
Lemma sumn_filter {A} (g : A -> nat) (p : A -> bool) l : sumn (map g (filter p l)) = sumn (map (fun x => if p x then g x else 0) l).
Proof. induction l as [|a l IH]; simpl; auto. destruct (p a); simpl; lia. Qed.
Lemma sum_before_le (w : string -> nat) cn : forall l, In cn l -> sumn (map w (before cn l)) + w cn <= sumn (map w l).
Proof.
  induction l as [|a l IH]; simpl; intros H; [destruct H|].
  destruct (String.eqb_spec a cn) as [e|ne]; [subst; simpl; lia|]. destruct H as [H|H]; [contradiction|]. simpl. specialize (IH H). lia.
Qed.
Lemma sum_before_sorted (w : string -> nat) cn : forall l,
  StronglySorted (Sort.le string String.leb string (fun x => x)) l -> NoDup l -> In cn l ->
  sumn (map w (before cn l)) = sumn (map (fun x => if String.ltb x cn then w x else 0) l).
Proof.
  induction l as [|a l IH]; simpl; intros Hs Hnd Hin; [destruct Hin|].
  inversion Hs as [|? ? Hs' Hfa]; subst. inversion Hnd as [|? ? Hni Hnd']; subst. unfold Sort.le in Hfa. rewrite Forall_forall in Hfa.
  destruct (String.eqb_spec a cn) as [e|ne].
  - subst a. rewrite ltb_irrefl. simpl. symmetry. apply sumn_zero. intros x Hx.
    rewrite (leb_ne_not_ltb cn x (Hfa x Hx)); auto. intros E; subst; contradiction.
  - destruct Hin as [Hin|Hin]; [contradiction|]. rewrite (leb_ne_ltb a cn (Hfa cn Hin) ne). simpl. f_equal. now apply IH.
Qed.

Lemma check_all_in {A} (f : A -> result unit) l x : check_all f l = Ok tt -> In x l -> f x = Ok tt.
Proof.
  induction l as [|a l IH]; simpl; intros H Hin; [destruct Hin|].
  destruct (f a) as [[]|] eqn:E; simpl in H; [|discriminate]. destruct Hin as [->|Hin]; auto.
Qed.

Section Layout.
  Variable N : Num.
  Variable sp : spec N.
  Variable md : model N.
  Hypothesis Hb : build N sp = Ok md.
  Notation chs := (cfg_channels N sp).
  Notation smps := (cfg_samples N sp).
  Notation mods := (cfg_modifiers N sp).

  Let Hchan := accepted_distinct_channels N sp md Hb.
  Let Hsamp := fun c => accepted_distinct_samples N sp md c Hb.
  Let Hmods := fun c s => accepted_distinct_modifiers N sp md c s Hb.

  Lemma rank_before_eq k sn cn b : forall cs, In cn cs ->
    rank_before N sp cs k sn cn b = sumn (map (wbins N sp k sn) (before cn cs)) + (if declared N sp cn sn k then b else 0).
  Proof.
    clear. unfold rank_before. induction cs as [|c cs IH]; intros Hin; [destruct Hin|]. simpl.
    destruct (String.eqb_spec c cn) as [e|ne]; [subst; reflexivity|].
    destruct Hin as [Hin|Hin]; [contradiction|]. rewrite (IH Hin). simpl. unfold wbins at 2. lia.
  Qed.

  Lemma chs_sorted : StronglySorted (Sort.le string String.leb string (fun x => x)) chs.
  Proof. clear. unfold cfg_channels, sort_uniq, ssort. apply isort_sorted; [exact String.leb_total|exact str_leb_trans]. Qed.
  Lemma chs_nodup : NoDup chs.
  Proof. apply sort_uniq_nodup. Qed.
  Lemma sum_over_chs (f : string -> nat) : sumn (map f chs) = sumn (map (fun c => f (c_name c)) (channels sp)).
  Proof.
    rewrite (cfg_channels_sorted N sp Hchan), map_map. apply sumn_perm. apply Permutation_map. unfold ssort. apply isort_perm.
  Qed.

  (* pstart / psize of the paramset named after a listed modifier *)
  Lemma listed_pset c s m : listed N sp c s m ->
    pstart N md (m_name m) + psize N md (m_name m) <= md_npars N md /\
    exists p, find_pset N (md_psets N md) (m_name m) = Some p /\ psize N md (m_name m) = p_n N p /\ expected_pset N sp c m p.
  Proof.
    intros Hl. destruct (accepted_pset_of_listed N sp md Hb c s m Hl) as (p & i & H1 & _ & _ & _ & H5 & H6).
    unfold pstart, psize. rewrite H1. split; auto. exists p. auto.
  Qed.

  (* ---- shapefactor ---- *)
  Theorem layout_shapefactor_cell c s m b : listed N sp c s m -> m_type m = Shapefactor -> b < chan_nbins N c ->
    access_shapefactor N md (mkey m) b = pstart N md (m_name m) + b /\ pstart N md (m_name m) + b < md_npars N md.
  Proof.
    intros Hl Ht Hlt. destruct (listed_pset c s m Hl) as (Hle & p & Hf & Hsz & He). unfold expected_pset in He. rewrite Ht in He.
    destruct He as [_ He]. unfold access_shapefactor. simpl fst. rewrite Hsz, He in *.
    destruct (Nat.ltb_spec b (chan_nbins N c)); [|lia]. split; auto. lia.
  Qed.

  (* ---- shapesys ---- *)
  Section Shapesys.
    Variables (c : channel N) (s : sample N) (m : modifier N).
    Hypothesis Hl : listed N sp c s m.
    Hypothesis Ht : m_type m = Shapesys.
    Notation k := (mkey m).
    Notation cn := (c_name c).
    Notation sn := (s_name s).

    Lemma shapesys_declared_only cn' sn' : declared N sp cn' sn' k = true -> cn' = cn /\ sn' = sn.
    Proof.
      unfold declared. destruct (cellmod N sp cn' sn' k) as [m'|] eqn:E; [|discriminate]. intros _.
      apply cellmod_listed in E. destruct E as (c2 & s2 & Hl2 & <- & <- & Ek).
      assert (Hn2 : m_name m = m_name m') by (apply (f_equal fst) in Ek; simpl in Ek; auto).
      assert (Ht2 : m_type m' = Shapesys).
      { apply (f_equal snd) in Ek. simpl in Ek. rewrite Ht in Ek. now apply tyname_inj. }
      destruct (shapesys_cell_unique N sp md Hb c s m c2 s2 m' Hl Hl2 Ht Ht2 Hn2) as (-> & -> & _). auto.
    Qed.
    Lemma shapesys_last_carrier : last_carrier N sp chs smps k = Some sn.
    Proof.
      unfold last_carrier. apply last_find_unique.
      - apply (listed_names N sp c s m Hl).
      - exact (listed_carries N sp md Hb c s m Hl).
      - intros y _ Hy. unfold carries in Hy. apply existsb_exists in Hy. destruct Hy as [cn' [_ Hd]].
        now destruct (shapesys_declared_only cn' y Hd).
    Qed.
    Theorem layout_shapesys_cell b : b < chan_nbins N c ->
      access_binwise N sp chs smps md k cn b = pstart N md (m_name m) + b /\ pstart N md (m_name m) + b < md_npars N md.
    Proof.
      intros Hlt. destruct (listed_pset c s m Hl) as (Hle & p & Hf & Hsz & He). unfold expected_pset in He. rewrite Ht in He.
      destruct He as [_ He]. rewrite He in Hsz.
      unfold access_binwise. rewrite shapesys_last_carrier, (listed_declared N sp md Hb c s m Hl). simpl fst.
      assert (Hcn : In cn chs) by apply (listed_names N sp c s m Hl).
      assert (Hr : rank_before N sp chs k sn cn b = b).
      { rewrite (rank_before_eq k sn cn b chs Hcn), (listed_declared N sp md Hb c s m Hl).
        rewrite sumn_zero; auto. intros x Hx. apply before_in in Hx. destruct Hx as [_ Hne]. unfold wbins.
        destruct (declared N sp x sn k) eqn:Ed; auto. destruct (shapesys_declared_only x sn Ed). contradiction. }
      rewrite Hr. split; [|lia]. destruct (Nat.eqb_spec (psize N md (m_name m)) 1) as [e|ne]; auto. lia.
    Qed.
  End Shapesys.

  (* ---- staterror ---- *)
  Lemma in_gpos cn b : In cn chs -> b < nbins N sp cn -> In (cn, b) (gpos N sp chs).
  Proof.
    intros Hc Hlt. unfold gpos. apply in_flat_map. exists cn. split; auto. unfold tab. apply in_map_iff. exists b. split; auto.
    apply in_seq. lia.
  Qed.
  (* every carrier has the mask row of the first carrier *)
  Lemma stat_mask_eq k s0 sn cn : In k (mods_of mods Staterror) -> first_carrier N sp chs smps k = Some s0 ->
    In sn smps -> carries N sp chs k sn = true -> In cn chs -> 0 < nbins N sp cn ->
    declared N sp cn sn k = declared N sp cn s0 k.
  Proof.
    intros Hk Hf Hsn Hcar Hcn Hpos. destruct (build_ok_facts N sp md Hb) as [_ _ _ _ _ _ Hm _ _].
    rewrite forallb_forall in Hm. specialize (Hm k Hk). unfold stat_masks_consistent in Hm. rewrite Hf in Hm.
    rewrite forallb_forall in Hm. specialize (Hm sn Hsn). rewrite Hcar in Hm. simpl in Hm.
    apply list_eqb_bool_eq in Hm. unfold maskrow in Hm.
    pose proof (proj1 map_ext_in_iff Hm (cn, 0) (in_gpos cn 0 Hcn Hpos)) as E. exact E.
  Qed.
  Lemma stat_wbins_eq k s0 sn cn : In k (mods_of mods Staterror) -> first_carrier N sp chs smps k = Some s0 ->
    In sn smps -> carries N sp chs k sn = true -> In cn chs -> wbins N sp k sn cn = wbins N sp k s0 cn.
  Proof.
    intros Hk Hf Hsn Hcar Hcn. unfold wbins. destruct (nbins N sp cn) as [|n] eqn:En.
    - destruct (declared N sp cn sn k), (declared N sp cn s0 k); reflexivity.
    - rewrite (stat_mask_eq k s0 sn cn Hk Hf Hsn Hcar Hcn) by lia. reflexivity.
  Qed.

  Section Staterror.
    Variables (c : channel N) (s : sample N) (m : modifier N).
    Hypothesis Hl : listed N sp c s m.
    Hypothesis Ht : m_type m = Staterror.
    Notation k := (mkey m).
    Notation cn := (c_name c).
    Notation sn := (s_name s).

    Lemma stat_key_in : In k (mods_of mods Staterror).
    Proof. rewrite <- Ht. apply (listed_names N sp c s m Hl). Qed.

    (* a channel declares the key on the first carrier iff one of its samples has the modifier *)
    Lemma stat_weight_is s0 c' : first_carrier N sp chs smps k = Some s0 -> In c' (channels sp) ->
      wbins N sp k s0 (c_name c') = if chan_has N c' (m_name m) Staterror then chan_nbins N c' else 0.
    Proof.
      intros Hf Hc'. unfold wbins.
      assert (Enb : nbins N sp (c_name c') = chan_nbins N c') by (rewrite (nbins_is N sp Hchan c' Hc'); reflexivity).
      rewrite Enb. destruct (chan_nbins N c') as [|n] eqn:En.
      { destruct (declared N sp (c_name c') s0 k), (chan_has N c' (m_name m) Staterror); reflexivity. }
      assert (Hcn' : In (c_name c') chs) by (apply sort_uniq_in; now apply in_map).
      destruct (chan_has N c' (m_name m) Staterror) eqn:Eh.
      - unfold chan_has in Eh. apply existsb_exists in Eh. destruct Eh as [s' [Hs' Hh]].
        unfold has_mod in Hh. apply existsb_exists in Hh. destruct Hh as [m' [Hm' Hh]].
        apply andb_true_iff in Hh. destruct Hh as [Hn' Ht']. apply String.eqb_eq in Hn'. apply mtype_eqb_eq in Ht'.
        assert (Hl' : listed N sp c' s' m') by (unfold listed; auto).
        assert (Ek : mkey m' = k) by (unfold mkey; rewrite Hn', Ht', Ht; reflexivity).
        pose proof (listed_declared N sp md Hb c' s' m' Hl') as Hd. rewrite Ek in Hd.
        pose proof (listed_carries N sp md Hb c' s' m' Hl') as Hcar. rewrite Ek in Hcar.
        assert (Hs'n : In (s_name s') smps) by apply (listed_names N sp c' s' m' Hl').
        rewrite <- (stat_mask_eq k s0 (s_name s') (c_name c') stat_key_in Hf Hs'n Hcar Hcn') by lia. now rewrite Hd.
      - destruct (declared N sp (c_name c') s0 k) eqn:Ed; auto. exfalso.
        unfold declared in Ed. destruct (cellmod N sp (c_name c') s0 k) as [m'|] eqn:E; [|discriminate].
        apply cellmod_listed in E. destruct E as (c2 & s2 & (Hc2 & Hs2 & Hm2) & Ec2 & _ & Ek).
        assert (c2 = c') by (apply (channel_unique N sp Hchan); auto). subst c2.
        assert (Hh : chan_has N c' (m_name m) Staterror = true).
        { unfold chan_has. apply existsb_exists. exists s2. split; auto. unfold has_mod. apply existsb_exists. exists m'. split; auto.
          apply andb_true_iff. split.
          - apply String.eqb_eq. apply (f_equal fst) in Ek. simpl in Ek. auto.
          - apply mtype_eqb_eq. apply (f_equal snd) in Ek. simpl in Ek. rewrite Ht in Ek. now apply tyname_inj. }
        congruence.
    Qed.

    (* bins of the declaring channels sorting before c = the template's offset *)
    Lemma stat_offset_is s0 : first_carrier N sp chs smps k = Some s0 ->
      sumn (map (wbins N sp k s0) (before cn chs)) = stat_offset N sp (m_name m) c.
    Proof.
      intros Hf. assert (Hcn : In cn chs) by apply (listed_names N sp c s m Hl).
      rewrite (sum_before_sorted _ cn chs chs_sorted chs_nodup Hcn).
      rewrite (sum_over_chs (fun x => if String.ltb x cn then wbins N sp k s0 x else 0)).
      unfold stat_offset. fold (sumn (map (chan_nbins N) (filter (fun c' => chan_has N c' (m_name m) Staterror && String.ltb (c_name c') cn) (channels sp)))).
      rewrite sumn_filter. apply sumn_ext. intros c' Hc'. rewrite (stat_weight_is s0 c' Hf Hc').
      destruct (chan_has N c' (m_name m) Staterror), (String.ltb (c_name c') cn); reflexivity.
    Qed.

    Theorem layout_staterror_cell b : b < chan_nbins N c ->
      access_binwise N sp chs smps md k cn b = pstart N md (m_name m) + (stat_offset N sp (m_name m) c + b) /\
      pstart N md (m_name m) + (stat_offset N sp (m_name m) c + b) < md_npars N md.
    Proof.
      intros Hlt. destruct (listed_pset c s m Hl) as (Hle & p & Hfp & Hsz & He). unfold expected_pset in He. rewrite Ht in He.
      destruct He as (_ & s0 & Hf & Hpn). rewrite Hpn in Hsz.
      destruct (listed_names N sp c s m Hl) as (Hcn & Hsn & _ & _). destruct (listed_nbins N sp md Hb c s m Hl) as (Hnb & _).
      pose proof (listed_carries N sp md Hb c s m Hl) as Hcar. pose proof (listed_declared N sp md Hb c s m Hl) as Hd.
      (* the last carrier *)
      assert (Hlast : exists sl, last_carrier N sp chs smps k = Some sl).
      { unfold last_carrier, last_find. apply (find_exists _ _ sn); auto. now apply in_rev in Hsn. }
      destruct Hlast as [sl Hsl]. pose proof Hsl as Hsl'. unfold last_carrier in Hsl'. apply last_find_some in Hsl'. destruct Hsl' as [Hslin Hslc].
      assert (Hpos : 0 < nbins N sp cn) by lia.
      assert (Hdl : declared N sp cn sl k = true).
      { rewrite (stat_mask_eq k s0 sl cn stat_key_in Hf Hslin Hslc Hcn Hpos).
        rewrite <- (stat_mask_eq k s0 sn cn stat_key_in Hf Hsn Hcar Hcn Hpos). exact Hd. }
      assert (Hd0 : declared N sp cn s0 k = true).
      { rewrite <- (stat_mask_eq k s0 sn cn stat_key_in Hf Hsn Hcar Hcn Hpos). exact Hd. }
      assert (Hr : rank_before N sp chs k sl cn b = stat_offset N sp (m_name m) c + b).
      { rewrite (rank_before_eq k sl cn b chs Hcn), Hdl. f_equal. rewrite <- (stat_offset_is s0 Hf).
        apply sumn_ext. intros x Hx. apply before_in in Hx. destruct Hx as [Hx _].
        apply (stat_wbins_eq k s0 sl x stat_key_in Hf Hslin Hslc Hx). }
      assert (Hlt2 : stat_offset N sp (m_name m) c + b < psize N md (m_name m)).
      { rewrite Hsz, (count_true_maskrow N sp k s0 chs). fold (sumn (map (wbins N sp k s0) chs)).
        pose proof (sum_before_le (wbins N sp k s0) cn chs Hcn) as Hle2. rewrite (stat_offset_is s0 Hf) in Hle2.
        unfold wbins in Hle2 at 1. rewrite Hd0 in Hle2. lia. }
      unfold access_binwise. rewrite Hsl, Hdl. simpl fst. rewrite Hr. split; [|lia].
      destruct (Nat.eqb_spec (psize N md (m_name m)) 1) as [e|ne]; auto. lia.
    Qed.
  End Staterror.

  (* ================================================================ the layout premise holds for every accepted specification *)
  Theorem accepted_layout : layout_ok N sp md.
  Proof.
    intros c s m b Hc Hs Hm Hlt. assert (Hl : listed N sp c s m) by (unfold listed; auto).
    destruct (m_type m) eqn:Et; auto.
    - apply (layout_shapefactor_cell c s m b Hl Et Hlt).
    - apply (layout_shapesys_cell c s m Hl Et b Hlt).
    - apply (layout_staterror_cell c s m Hl Et b Hlt).
  Qed.
End Layout.

(* ---------------------------------------------------------------- parameter indices read through declared cells *)
Section Reads.
  Variable N : Num.
  Variable sp : spec N.
  Variable md : model N.
  Hypothesis Hb : build N sp = Ok md.
  Notation chs := (cfg_channels N sp).
  Notation smps := (cfg_samples N sp).
  Notation mods := (cfg_modifiers N sp).

  Theorem declared_read_lt t k cn sn b : In cn chs -> b < nbins N sp cn -> In k (mods_of mods t) -> declared N sp cn sn k = true ->
    read_idx N sp chs smps md t k cn b < md_npars N md.
  Proof.
    intros Hcn Hlt Hk Hd. unfold declared in Hd. destruct (cellmod N sp cn sn k) as [m|] eqn:E; [|discriminate].
    apply cellmod_listed in E. destruct E as (c & s & Hl & Ec & Es & Ek).
    assert (Ht : m_type m = t).
    { apply in_mods_of_iff in Hk. destruct Hk as [_ Hk]. rewrite <- Ek in Hk. simpl in Hk. now apply tyname_inj. }
    destruct (listed_nbins N sp md Hb c s m Hl) as (Hnb & _). rewrite Ec in Hnb.
    assert (Hlt' : b < chan_nbins N c) by lia.
    assert (Hfst : fst k = m_name m) by (rewrite <- Ek; reflexivity).
    destruct (listed_pset N sp md Hb c s m Hl) as (Hle & p & Hf & Hsz & He). unfold expected_pset in He. rewrite Ht in He.
    unfold read_idx. subst cn k. destruct t.
    - destruct He as [_ He]. simpl fst. lia.
    - destruct He as [_ He]. simpl fst. lia.
    - destruct He as [_ He]. simpl fst. lia.
    - destruct He as [_ He]. simpl fst. lia.
    - destruct (layout_shapefactor_cell N sp md Hb c s m b Hl Ht Hlt') as [E1 E2]. now rewrite E1.
    - destruct (layout_shapesys_cell N sp md Hb c s m Hl Ht b Hlt') as [E1 E2]. now rewrite E1.
    - destruct (layout_staterror_cell N sp md Hb c s m Hl Ht b Hlt') as [E1 E2]. now rewrite E1.
  Qed.

  (* the decidable all-reads premise of Batch.v holds as soon as the parameter vector is not empty *)
  Theorem accepted_reads_in_range : 0 < md_npars N md -> reads_in_range N sp chs smps mods md = true.
  Proof.
    intros Hpos. unfold reads_in_range. apply forallb_forall. intros i Hi. apply Nat.ltb_lt.
    unfold main_reads in Hi. apply in_flat_map in Hi. destruct Hi as [cn [Hcn Hi]]. apply in_flat_map in Hi. destruct Hi as [b [Hbn Hi]].
    apply in_seq in Hbn. apply in_flat_map in Hi. destruct Hi as [t [_ Hi]]. apply in_map_iff in Hi. destruct Hi as [k [<- Hk]].
    destruct (accepted_pset_of_key N sp md Hb t k Hk) as (p & Hf & _ & Hle & H1).
    assert (Hps : pstart N md (fst k) = p_start N p) by (unfold pstart; now rewrite Hf).
    assert (Hpz : psize N md (fst k) = p_n N p) by (unfold psize; now rewrite Hf).
    assert (Hbin : (t = Shapesys \/ t = Staterror) -> access_binwise N sp chs smps md k cn b < md_npars N md).
    { intros Hty. unfold access_binwise. destruct (last_carrier N sp chs smps k) as [sl|] eqn:Esl; auto.
      destruct (declared N sp cn sl k) eqn:Ed; auto. rewrite Hps, Hpz.
      destruct (Nat.eqb_spec (p_n N p) 1) as [e|ne]; [lia|].
      destruct (build_ok_parts N sp md Hb) as (inits & _ & _ & _ & _ & _ & Hy & Hs & _).
      assert (Hre : reindex_ok N sp chs smps (md_psets N md) k = Ok tt) by (destruct Hty; subst t; [exact (check_all_in _ _ k Hy Hk)|exact (check_all_in _ _ k Hs Hk)]).
      unfold reindex_ok in Hre. rewrite Esl, Hf in Hre.
      destruct (Nat.eqb_spec (count_true (maskrow N sp chs k sl)) (p_n N p)) as [ec|nc]; simpl in Hre.
      2:{ destruct (Nat.eqb_spec (p_n N p) 1); [contradiction|discriminate]. }
      rewrite (rank_before_eq N sp k sl cn b chs Hcn), Ed.
      pose proof (sum_before_le (wbins N sp k sl) cn chs Hcn) as Hle2. rewrite count_true_maskrow in ec. fold (sumn (map (wbins N sp k sl) chs)) in ec.
      assert (Hw : wbins N sp k sl cn = nbins N sp cn) by (unfold wbins; now rewrite Ed). rewrite Hw in Hle2. lia. }
    unfold read_idx. destruct t; try (rewrite Hps; lia); auto.
    unfold access_shapefactor. rewrite Hps, Hpz. destruct (Nat.ltb_spec b (p_n N p)); lia.
  Qed.
End Reads.

(* ---------------------------------------------------------------- under the schema's "data is not empty": no paramset of size 0 *)
Section NonEmpty.
  Variable N : Num.
  Variable sp : spec N.
  Variable md : model N.
  Hypothesis Hb : build N sp = Ok md.
  Notation chs := (cfg_channels N sp).
  Notation smps := (cfg_samples N sp).
  Notation mods := (cfg_modifiers N sp).
  (* JSON schema, sample.data: minItems 1 *)
  Definition data_nonempty : Prop := forall c s, In c (channels sp) -> In s (c_samples c) -> s_data s <> [].
  Hypothesis Hne : data_nonempty.

  Lemma cell_listed cn sn s : cell N sp cn sn = Some s -> exists c, In c (channels sp) /\ In s (c_samples c).
  Proof.
    clear. unfold cell. intros H. apply last_find_some in H. destruct H as [H _]. apply in_flat_map in H.
    destruct H as [c [Hc Hs]]. apply filter_In in Hc. exists c. tauto.
  Qed.
  Lemma cell_data_pos cn sn s : cell N sp cn sn = Some s -> 0 < length (s_data s).
  Proof.
    intros H. destruct (cell_listed cn sn s H) as (c & Hc & Hs). specialize (Hne c s Hc Hs).
    destruct (s_data s); [contradiction|simpl; lia].
  Qed.
  Lemma declared_nbins_pos cn sn k : In cn chs -> In sn smps -> declared N sp cn sn k = true -> 0 < nbins N sp cn.
  Proof.
    intros Hcn Hsn Hd. unfold declared, cellmod in Hd. destruct (cell N sp cn sn) as [s|] eqn:E; [|discriminate].
    rewrite <- (accepted_cell_lengths N sp md cn sn s Hb Hcn Hsn E). exact (cell_data_pos cn sn s E).
  Qed.

  Lemma required_size_pos t name rs r : In (name, rs) (required N sp chs smps mods t) -> In r rs -> 0 < r_n N r.
  Proof.
    intros H Hr. destruct t; unfold required in H; apply in_map_iff in H; destruct H as [d [E H]].
    - destruct d as [n' [[cn sn] m]]. inversion E; subst. destruct Hr as [<-|[]]. simpl. lia.
    - destruct d as [n' [[cn sn] m]]. inversion E; subst. destruct Hr as [<-|[]]. simpl. lia.
    - destruct d as [n' [[cn sn] m]]. inversion E; subst. destruct Hr as [<-|[]]. simpl. lia.
    - destruct d as [n' [[cn sn] m]]. inversion E; subst. destruct Hr as [<-|[]]. simpl. lia.
    - inversion E; subst. apply in_map_iff in Hr. destruct Hr as [n [<- Hn]]. simpl.
      unfold sf_sizes in Hn. apply nodup_In in Hn. apply in_flat_map in Hn. destruct Hn as [[n2 [[cn sn] m]] [Hw Hn]]. simpl in Hn.
      destruct (String.eqb n2 (fst d)); [|destruct Hn]. destruct Hn as [<-|[]].
      apply walk_decls_in in Hw. destruct Hw as (_ & _ & _ & Hcm). unfold cellmod in Hcm.
      destruct (cell N sp cn sn) as [s|] eqn:Ec; [|discriminate]. exact (cell_data_pos cn sn s Ec).
    - destruct d as [n' [[cn sn] m]]. inversion E; subst. destruct Hr as [<-|[]]. simpl. rewrite zip3_length.
      apply first_decls_in in H. apply walk_decls_in in H. destruct H as (Hcn & Hsn & Hk & Hcm).
      assert (Hkt : In (name, tyname Shapesys) (mods_of mods Shapesys)) by (apply in_mods_of_iff; auto).
      destruct (accepted_modifier_lengths N sp md cn sn _ m Hb Hcn Hsn Hcm) as (_ & Hy & _). rewrite (Hy Hkt).
      unfold cellmod in Hcm. destruct (cell N sp cn sn) as [s|] eqn:Ec; [|discriminate].
      pose proof (cell_data_pos cn sn s Ec) as Hp. rewrite (accepted_cell_lengths N sp md cn sn s Hb Hcn Hsn Ec) in *. rewrite Nat.min_id. exact Hp.
    - inversion E; subst. destruct Hr as [<-|[]]. simpl.
      destruct (mods_of_listed N sp Staterror d H) as (c & s & m & Hl & Ek & Ht).
      destruct (listed_names N sp c s m Hl) as (_ & Hsn & _ & _). pose proof (listed_carries N sp md Hb c s m Hl) as Hcar. rewrite Ek in Hcar.
      destruct (find_exists (carries N sp chs d) smps (s_name s) Hsn Hcar) as [s0 Hs0].
      rewrite (stat_vars_length N sp d s0 Hs0), (count_true_maskrow N sp d s0 chs). fold (sumn (map (wbins N sp d s0) chs)).
      apply find_some in Hs0. destruct Hs0 as [Hs0in Hs0c]. unfold carries in Hs0c. apply existsb_exists in Hs0c. destruct Hs0c as [cn [Hcn Hd]].
      pose proof (sum_before_le (wbins N sp d s0) cn chs Hcn) as Hle. unfold wbins in Hle at 2. rewrite Hd in Hle.
      pose proof (declared_nbins_pos cn s0 d Hcn Hs0in Hd). lia.
  Qed.

  Theorem accepted_pset_size_pos p : In p (md_psets N md) -> 0 < p_n N p.
  Proof.
    intros Hp. destruct (accepted_pset_requirement N sp md Hb p Hp) as (i & rs & st & _ & Hrs & Hone).
    destruct rs as [|r0 rs']; [discriminate Hone|].
    destruct (reduce_one_fields N sp _ _ _ _ Hone) as (_ & _ & Hall). destruct (Hall r0 (or_introl eq_refl)) as (Hn & _). rewrite Hn.
    apply nth_error_In in Hrs.
    assert (Hq : req_in (required_all N sp chs smps mods) (p_name N p) r0) by (exists (r0 :: rs'); split; auto; now left).
    apply required_all_in in Hq. destruct Hq as (t & rs2 & H1 & H2). eapply required_size_pos; eauto.
  Qed.
  Theorem accepted_npars_total_schema : md_npars N md = total N (md_psets N md).
  Proof. apply (accepted_npars_total N sp md Hb). intros p Hp. pose proof (accepted_pset_size_pos p Hp). lia. Qed.
  Theorem accepted_npars_pos : 0 < md_npars N md.
  Proof.
    pose proof (accepted_has_parameters N sp md Hb) as Hne'. destruct (md_psets N md) as [|p ps] eqn:E; [contradiction|].
    pose proof (accepted_pset_size_pos p) as Hp. rewrite E in Hp. specialize (Hp (or_introl eq_refl)).
    pose proof (accepted_npars_ge N sp md Hb) as Hge. rewrite E in Hge. rewrite total_cons in Hge. lia.
  Qed.
  Theorem accepted_reads_in_range_schema : reads_in_range N sp chs smps mods md = true.
  Proof. apply (accepted_reads_in_range N sp md Hb). exact accepted_npars_pos. Qed.
End NonEmpty.

(* ---------------------------------------------------------------- locality of the evaluation: only declared cells are read *)
Section LocalDeclared.
  Variable N : Num.
  Notation V := (V N).
  Variable interp_add interp_mul : string -> V -> V -> V -> V -> V.
  Variable sp : spec N.
  Variables (chs smps : list string) (mods : list (string * string)).
  Variable st : settings N.
  Variable md : model N.
  Variables par par' : nat -> V.
  Hypothesis Hagree : forall t k cn sn b, In cn chs -> b < nbins N sp cn -> In t all_types -> In k (mods_of mods t) ->
    declared N sp cn sn k = true -> par (read_idx N sp chs smps md t k cn b) = par' (read_idx N sp chs smps md t k cn b).

  Lemma factor_local_d t k cn sn b : In cn chs -> b < nbins N sp cn -> In t all_types -> In k (mods_of mods t) ->
    factor N interp_mul sp chs smps st md par t k cn sn b = factor N interp_mul sp chs smps st md par' t k cn sn b.
  Proof.
    intros Hc Hlt Ht Hk. unfold factor. destruct (declared N sp cn sn k) eqn:Ed; auto.
    pose proof (Hagree t k cn sn b Hc Hlt Ht Hk Ed) as H. unfold read_idx in H.
    destruct t; try (rewrite H; reflexivity); try reflexivity.
  Qed.
  Lemma delta_local_d k cn sn b : In cn chs -> b < nbins N sp cn -> In k (mods_of mods Histosys) ->
    delta N interp_add sp st md par k cn sn b = delta N interp_add sp st md par' k cn sn b.
  Proof.
    intros Hc Hlt Hk. unfold delta. destruct (cellmod N sp cn sn k) eqn:E; auto.
    assert (Hd : declared N sp cn sn k = true) by (unfold declared; now rewrite E).
    pose proof (Hagree Histosys k cn sn b Hc Hlt (in_all_types _) Hk Hd) as H. unfold read_idx in H. now rewrite H.
  Qed.
  Lemma by_sample_local_d cn sn b : In cn chs -> b < nbins N sp cn ->
    by_sample N interp_add interp_mul sp chs smps mods st md par cn sn b = by_sample N interp_add interp_mul sp chs smps mods st md par' cn sn b.
  Proof.
    intros Hc Hlt. unfold by_sample. f_equal. f_equal.
    - f_equal. apply flat_map_ext_in. intros t Ht. apply map_ext_in. intros k Hk. apply factor_local_d; auto. apply in_all_types.
    - f_equal. f_equal. apply map_ext_in. intros k Hk. apply delta_local_d; auto.
  Qed.
  Lemma expected_local_d :
    expected_actualdata_hot N interp_add interp_mul sp chs smps mods st md par =
    expected_actualdata_hot N interp_add interp_mul sp chs smps mods st md par'.
  Proof.
    unfold expected_actualdata_hot. apply flat_map_ext_in. intros cn Hc. unfold tab. apply map_ext_in. intros b Hbn.
    apply in_seq in Hbn. unfold rate. f_equal. f_equal. apply map_ext_in. intros sn _. apply by_sample_local_d; auto. lia.
  Qed.
End LocalDeclared.

Lemma cterms_local N (par par' : nat -> V N) : forall ps aux k,
  (forall p i, In p ps -> i < p_n N p -> par (p_start N p + i) = par' (p_start N p + i)) ->
  cterms N par ps aux k = cterms N par' ps aux k.
Proof.
  induction ps as [|q t IH]; simpl; intros aux k H; auto.
  assert (Ht : forall aux k, cterms N par t aux k = cterms N par' t aux k) by (intros; apply IH; intros; apply H; auto).
  destruct (p_type N q); auto; rewrite Ht; f_equal; unfold tab; apply map_ext_in; intros i Hi; apply in_seq in Hi;
    rewrite (H q i (or_introl eq_refl)) by lia; reflexivity.
Qed.

Lemma map_seq_combine {A B C} (f : A -> B -> C) (da : A) (db : B) : forall (la : list A) (lb : list B), length lb = length la ->
  map (fun r => f (nth r la da) (nth r lb db)) (seq 0 (length la)) = map (fun ab => f (fst ab) (snd ab)) (combine la lb).
Proof.
  induction la as [|a la IH]; destruct lb as [|b lb]; simpl; intros H; try discriminate; auto.
  f_equal. rewrite <- seq_shift, map_map. apply IH. lia.
Qed.

(* ================================================================ C10 without per-model premise *)
Section BatchedFull.
  Variable N : Num.
  Variable interp_add interp_mul : string -> V N -> V N -> V N -> V N -> V N.
  Variable sp : spec N.
  Variable st : settings N.
  Variable md : model N.
  Hypothesis Hb : build N sp = Ok md.
  Variable rows : list (list (V N)).
  Hypothesis Hrows : forall row, In row rows -> length row = md_npars N md.

  Lemma batched_row_agrees r i : r < length rows -> i < md_npars N md ->
    parf_batched N (md_npars N md) rows r i = parf N (nth r rows []) i.
  Proof. intros Hr Hi. unfold parf_batched, parf. apply nth_concat_rows; auto. Qed.

  Lemma batched_row_expected r : r < length rows ->
    expected_actualdata_hot N interp_add interp_mul sp (cfg_channels N sp) (cfg_samples N sp) (cfg_modifiers N sp) st md
                            (parf_batched N (md_npars N md) rows r) =
    expected_actualdata N interp_add interp_mul sp st md (nth r rows []).
  Proof.
    intros Hr. unfold expected_actualdata. apply expected_local_d. intros t k cn sn b Hcn Hlt Ht Hk Hd.
    apply batched_row_agrees; auto. eapply declared_read_lt; eauto.
  Qed.

  Theorem batched_expected_data_full :
    expected_actualdata_batched N interp_add interp_mul sp st md rows = map (expected_actualdata N interp_add interp_mul sp st md) rows.
  Proof.
    unfold expected_actualdata_batched. rewrite (map_seq_nth (expected_actualdata N interp_add interp_mul sp st md) [] rows).
    apply map_ext_in. intros r Hrin. apply in_seq in Hrin. apply batched_row_expected. lia.
  Qed.

  (* the likelihood term lists (Poisson main terms, then the constraint terms): row r of the batched model is the unbatched
     model on row r of the parameters and row r of the data *)
  Theorem batched_logpdf_terms_full datas :
    logpdf_terms_batched N interp_add interp_mul sp st md rows datas =
    map (fun r => logpdf_terms N interp_add interp_mul sp st md (nth r rows []) (nth r datas [])) (seq 0 (length rows)).
  Proof.
    unfold logpdf_terms_batched. apply map_ext_in. intros r Hrin. apply in_seq in Hrin. assert (Hr : r < length rows) by lia.
    unfold logpdf_terms, logpdf_terms_hot.
    destruct (negb (Nat.eqb (length (nth r rows [])) (md_npars N md))); auto.
    destruct (negb (Nat.eqb (length (nth r datas [])) (nmaindata N sp + length (md_auxdata N md)))); auto.
    f_equal. f_equal.
    - unfold main_terms. f_equal. f_equal. rewrite (batched_row_expected r Hr). reflexivity.
    - apply cterms_local. intros p i Hp Hi. apply batched_row_agrees; auto.
      pose proof (tiles_bound N _ 0 (accepted_tiles N sp md Hb) p Hp) as [_ Hle]. pose proof (accepted_npars_ge N sp md Hb). lia.
  Qed.
  Corollary batched_logpdf_terms_rows datas : length datas = length rows ->
    logpdf_terms_batched N interp_add interp_mul sp st md rows datas =
    map (fun rd => logpdf_terms N interp_add interp_mul sp st md (fst rd) (snd rd)) (combine rows datas).
  Proof. intros Hlen. rewrite batched_logpdf_terms_full. now apply map_seq_combine. Qed.
End BatchedFull.

(* ================================================================ C01 without per-model premise *)
Theorem expected_refines_accepted_full (N : Num) (Hring : ring_theory (n0 N) (n1 N) (nadd N) (nmul N) (nsub N) (nopp N) eq)
  interp_add interp_mul (sp : spec N) (st : settings N) (md : model N) pars :
  build N sp = Ok md -> shape_ok N sp -> clip_guard N st ->
  expected_actualdata N interp_add interp_mul sp st md pars =
  ref_expected N interp_add interp_mul (normsys_code N st) (histosys_code N st) (clip_sample N st) (clip_bin N st) sp
               (theta N md (parf N pars)).
Proof.
  intros Hb Hs Hc. unfold expected_actualdata.
  apply (expected_data_refines N Hring interp_add interp_mul sp st md (parf N pars)
           (accepted_distinct_channels N sp md Hb)
           (fun c => accepted_distinct_samples N sp md c Hb)
           (fun c s => accepted_distinct_modifiers N sp md c s Hb) Hs Hc).
  now apply accepted_layout.
Qed.
Theorem layout_okb_accepted (N : Num) (sp : spec N) (md : model N) : build N sp = Ok md -> layout_okb N sp md = true.
Proof.
  intros Hb. pose proof (accepted_layout N sp md Hb) as H. unfold layout_okb.
  apply forallb_forall. intros c Hc. apply forallb_forall. intros s Hs. apply forallb_forall. intros m Hm.
  apply forallb_forall. intros b Hbn. apply in_seq in Hbn. assert (Hlt : b < chan_nbins N c) by lia.
  specialize (H c s m b Hc Hs Hm Hlt). unfold layout_cell. destruct (m_type m); auto; now apply Nat.eqb_eq.
Qed.

From Coq Require Import QArith Qcanon Reals.
Local Open Scope nat_scope.
Theorem expected_refines_full_Qc : forall ia im (sp : spec QcNum) st md pars,
  build QcNum sp = Ok md -> shape_ok QcNum sp -> clip_guard QcNum st ->
  expected_actualdata QcNum ia im sp st md pars =
  ref_expected QcNum ia im (normsys_code QcNum st) (histosys_code QcNum st) (clip_sample QcNum st) (clip_bin QcNum st) sp (theta QcNum md (parf QcNum pars)).
Proof. intros. apply expected_refines_accepted_full; auto. exact Qcrt. Qed.
Theorem expected_refines_full_R : forall ia im (sp : spec RNum) st md pars,
  build RNum sp = Ok md -> shape_ok RNum sp -> clip_guard RNum st ->
  expected_actualdata RNum ia im sp st md pars =
  ref_expected RNum ia im (normsys_code RNum st) (histosys_code RNum st) (clip_sample RNum st) (clip_bin RNum st) sp (theta RNum md (parf RNum pars)).
Proof. intros. apply expected_refines_accepted_full; auto. exact RTheory. Qed.

(* ---------------------------------------------------------------- reads_in_range without md_npars > 0: false of the model *)
Definition empty_sample_spec : spec QcNum :=
  Build_spec (N:=QcNum)
    [ Build_channel (N:=QcNum) "A" [ Build_sample (N:=QcNum) "s" [] [Build_modifier (N:=QcNum) "sf" Shapefactor (@MDNone QcNum)] ];
      Build_channel (N:=QcNum) "B" [ Build_sample (N:=QcNum) "t" [mkq 5 1] [] ] ] [] None.
Theorem reads_in_range_refuted :
  exists md, build QcNum empty_sample_spec = Ok md /\ md_npars QcNum md = 0 /\
    reads_in_range QcNum empty_sample_spec (cfg_channels QcNum empty_sample_spec) (cfg_samples QcNum empty_sample_spec)
                   (cfg_modifiers QcNum empty_sample_spec) md = false.
Proof.
  destruct (result_witness (build QcNum empty_sample_spec)
              (fun md => Nat.eqb (md_npars QcNum md) 0 &&
                         negb (reads_in_range QcNum empty_sample_spec (cfg_channels QcNum empty_sample_spec) (cfg_samples QcNum empty_sample_spec)
                                              (cfg_modifiers QcNum empty_sample_spec) md))) as (md & Hb & HP).
  - vm_compute. reflexivity.
  - exists md. apply andb_true_iff in HP. destruct HP as [H1 H2]. apply Nat.eqb_eq in H1. apply negb_true_iff in H2. auto.
Qed.

(* ---------------------------------------------------------------- non-vacuity *)
Local Open Scope string_scope.
Definition qm (name : string) (t : mtype) (d : moddata QcNum) : modifier QcNum := Build_modifier (N:=QcNum) name t d.
Definition ql (l : list Z) : list Qc := map (fun z => mkq z 1) l.
(* three channels with 2, 3 and 2 bins; staterror "mcstat" shared by two samples in the channels CR (3 bins) and SR (2 bins);
   shapefactor "sf" shared by SR and VR; shapesys "uncorr" on one sample of SR; normsys, histosys, normfactor, lumi as well *)
Definition layout_example_spec : spec QcNum :=
  Build_spec (N:=QcNum)
    [ Build_channel (N:=QcNum) "SR"
        [ Build_sample (N:=QcNum) "sig" (ql [5; 6]%Z) [qm "mu" Normfactor (@MDNone QcNum); qm "sf" Shapefactor (@MDNone QcNum); qm "lumi" Lumi (@MDNone QcNum)];
          Build_sample (N:=QcNum) "bkg" (ql [50; 60]%Z)
            [qm "mcstat" Staterror (@MDList QcNum (ql [5; 6]%Z)); qm "uncorr" Shapesys (@MDList QcNum (ql [3; 4]%Z)); qm "ns" Normsys (@MDNorm QcNum (mkq 9 10) (mkq 11 10))];
          Build_sample (N:=QcNum) "bkg2" (ql [20; 10]%Z) [qm "mcstat" Staterror (@MDList QcNum (ql [2; 1]%Z))] ];
      Build_channel (N:=QcNum) "CR"
        [ Build_sample (N:=QcNum) "bkg" (ql [70; 80; 90]%Z)
            [qm "mcstat" Staterror (@MDList QcNum (ql [7; 8; 9]%Z)); qm "hs" Histosys (@MDHisto QcNum (ql [60; 70; 80]%Z) (ql [80; 90; 100]%Z)); qm "ns" Normsys (@MDNorm QcNum (mkq 8 10) (mkq 12 10))];
          Build_sample (N:=QcNum) "bkg2" (ql [7; 8; 9]%Z) [qm "mcstat" Staterror (@MDList QcNum (ql [1; 1; 1]%Z))] ];
      Build_channel (N:=QcNum) "VR"
        [ Build_sample (N:=QcNum) "sig" (ql [1; 2]%Z) [qm "sf" Shapefactor (@MDNone QcNum); qm "mu" Normfactor (@MDNone QcNum)] ] ]
    [ Build_parcfg (N:=QcNum) "lumi" (Some [mkq 1 1]) (Some [(mkq 0 1, mkq 10 1)]) (Some [mkq 1 1]) None (Some [mkq 1 10]) None ]
    (Some "mu").
Definition layout_example_st : settings QcNum := Build_settings QcNum "code4" "code4p" None None.

Definition layout_triples_dec (x y : list (string * nat * nat)) : {x = y} + {x <> y}.
Proof. repeat decide equality. Defined.
Example layout_example_accepted :
  exists md, build QcNum layout_example_spec = Ok md /\ md_npars QcNum md = 13 /\
    map (fun p => (p_name QcNum p, p_start QcNum p, p_n QcNum p)) (md_psets QcNum md) =
    [("hs", 0, 1); ("lumi", 1, 1); ("mu", 2, 1); ("ns", 3, 1); ("sf", 4, 2); ("uncorr", 6, 2); ("mcstat", 8, 5)].
Proof.
  destruct (result_witness (build QcNum layout_example_spec)
              (fun md => Nat.eqb (md_npars QcNum md) 13 &&
                         (if layout_triples_dec (map (fun p => (p_name QcNum p, p_start QcNum p, p_n QcNum p)) (md_psets QcNum md))
                               [("hs", 0, 1); ("lumi", 1, 1); ("mu", 2, 1); ("ns", 3, 1); ("sf", 4, 2); ("uncorr", 6, 2); ("mcstat", 8, 5)]
                          then true else false))) as (md & Hb & HP).
  - vm_compute. reflexivity.
  - exists md. apply andb_true_iff in HP. destruct HP as [H1 H2]. apply Nat.eqb_eq in H1.
    destruct (layout_triples_dec _ _) as [e|ne] in H2; [|discriminate]. auto.
Qed.
Example layout_example_shape : shape_ok QcNum layout_example_spec.
Proof.
  intros c s m Hc Hs Hm. simpl in Hc.
  repeat (destruct Hc as [<-|Hc]; [simpl in Hs; repeat (destruct Hs as [<-|Hs]; [simpl in Hm; repeat (destruct Hm as [<-|Hm]; [simpl; eauto|]); destruct Hm|]); destruct Hs|]).
  destruct Hc.
Qed.
Example layout_example_clip : clip_guard QcNum layout_example_st.
Proof. exact I. Qed.
(* the full theorems apply to it: nothing but build = Ok is asked of the model *)
Example layout_example_refines : forall ia im md pars, build QcNum layout_example_spec = Ok md ->
  expected_actualdata QcNum ia im layout_example_spec layout_example_st md pars =
  ref_expected QcNum ia im "code4" "code4p" None None layout_example_spec (theta QcNum md (parf QcNum pars)).
Proof. intros ia im md pars Hb. exact (expected_refines_full_Qc ia im _ layout_example_st md pars Hb layout_example_shape layout_example_clip). Qed.
Example layout_example_batched : forall ia im md rows, build QcNum layout_example_spec = Ok md ->
  (forall row, In row rows -> length row = 13) ->
  expected_actualdata_batched QcNum ia im layout_example_spec layout_example_st md rows =
  map (expected_actualdata QcNum ia im layout_example_spec layout_example_st md) rows.
Proof.
  intros ia im md rows Hb Hrows. apply batched_expected_data_full; auto.
  destruct layout_example_accepted as (md' & Hb' & Hn & _). rewrite Hb in Hb'. inversion Hb'; subst. now rewrite Hn.
Qed.
