(* pyhf.patchset.PatchSet: lookup table, duplicate detection, verify, apply (RFC 6902 on Json.json). *)
From Coq Require Import Bool Arith Lia Permutation String Ascii QArith Qcanon List.
Require Import PV.Sort PV.Json.
Import ListNotations.
Local Open Scope list_scope.

(* ---------- keys ---------- *)
Inductive pval := PNum (v : Qc) | PStr (s : string).
Definition pval_eqb (a b : pval) : bool :=
  match a, b with
  | PNum x, PNum y => Qc_eq_bool x y      (* python: 1 == 1.0, same hash *)
  | PStr s, PStr t => String.eqb s t
  | _, _ => false end.
Fixpoint pvals_eqb (l l' : list pval) : bool :=
  match l, l' with
  | [], [] => true
  | a :: t, b :: t' => pval_eqb a b && pvals_eqb t t'
  | _, _ => false end.
Inductive key := KName (s : string) | KVals (l : list pval) | KOther (n : nat).
Definition key_eqb (a b : key) : bool :=
  match a, b with
  | KName s, KName t => String.eqb s t
  | KVals l, KVals l' => pvals_eqb l l'
  | KOther n, KOther m => Nat.eqb n m
  | _, _ => false end.

Lemma pval_eqb_eq a b : pval_eqb a b = true <-> a = b.
Proof. destruct a, b; simpl; split; intros H; try discriminate; try congruence.
  - apply Qc_eq_bool_correct in H. now subst.
  - inversion H. unfold Qc_eq_bool. destruct (Qc_eq_dec v0 v0); auto.
  - apply String.eqb_eq in H. now subst.
  - inversion H. apply String.eqb_refl. Qed.
Lemma pvals_eqb_eq l l' : pvals_eqb l l' = true <-> l = l'.
Proof. revert l'. induction l as [|a t IH]; intros [|b t']; simpl; split; intros H; try discriminate; auto.
  - apply andb_true_iff in H. destruct H as [H1 H2]. apply pval_eqb_eq in H1. apply IH in H2. now subst.
  - inversion H; subst. apply andb_true_iff. split; [now apply pval_eqb_eq|now apply IH]. Qed.
Lemma key_eqb_eq a b : key_eqb a b = true <-> a = b.
Proof. destruct a, b; simpl; split; intros H; try discriminate; try congruence.
  - apply String.eqb_eq in H. now subst.
  - inversion H. apply String.eqb_refl.
  - apply pvals_eqb_eq in H. now subst.
  - inversion H. now apply pvals_eqb_eq.
  - apply Nat.eqb_eq in H. now subst.
  - inversion H. apply Nat.eqb_refl. Qed.

(* ---------- table ---------- *)
Record pspec := { ps_name : string; ps_values : list pval; ps_ops : list json }.
Inductive entry := EBook | EPatch (i : nat).
Definition table := list (key * entry).
Fixpoint tlookup (k : key) (t : table) : option entry :=
  match t with [] => None | (k', e) :: r => if key_eqb k k' then Some e else tlookup k r end.
Definition tmem k t := match tlookup k t with Some _ => true | None => false end.

Inductive perr := DupName (i : nat) | DupValues (i : nat) | BadLength (i : nat).   (* all are InvalidPatchSet *)

(* the literal dict `_patches_by_key` starts from: its keys are extracted from the source *)
Definition init_table (init_keys : list string) : table := map (fun s => (KName s, EBook)) init_keys.

Fixpoint load (nlabels : nat) (t : table) (i : nat) (ps : list pspec) : table + perr :=
  match ps with
  | [] => inl t
  | p :: rest =>
      if tmem (KName (ps_name p)) t then inr (DupName i)
      else if tmem (KVals (ps_values p)) t then inr (DupValues i)
      else if negb (Nat.eqb (length (ps_values p)) nlabels) then inr (BadLength i)
      else load nlabels (t ++ [(KName (ps_name p), EPatch i); (KVals (ps_values p), EPatch i)]) (S i) rest
  end.

Definition construct (init_keys : list string) (nlabels : nat) (ps : list pspec) := load nlabels (init_table init_keys) 0 ps.

(* __getitem__ : list keys are turned into tuples by the harness (KVals) *)
Inductive got := GPatch (i : nat) | GBook | GLookupError.
Definition getitem (t : table) (k : key) : got :=
  match tlookup k t with Some (EPatch i) => GPatch i | Some EBook => GBook | None => GLookupError end.

(* ---------- specification ---------- *)
Definition distinct_names (ps : list pspec) := NoDup (map ps_name ps).
Definition distinct_values (ps : list pspec) := NoDup (map ps_values ps).
Definition lengths_ok n (ps : list pspec) := Forall (fun p => length (ps_values p) = n) ps.

Definition table_of (i0 : nat) (ps : list pspec) : table :=
  flat_map (fun ip => [(KName (ps_name (snd ip)), EPatch (fst ip)); (KVals (ps_values (snd ip)), EPatch (fst ip))])
           (combine (seq i0 (length ps)) ps).

Lemma tlookup_app k t1 t2 : tlookup k (t1 ++ t2) = match tlookup k t1 with Some e => Some e | None => tlookup k t2 end.
Proof. induction t1 as [|[k' e] r IH]; simpl; auto. destruct (key_eqb k k'); auto. Qed.

Definition names_of (t : table) : list string := flat_map (fun ke => match fst ke with KName s => [s] | _ => [] end) t.
Definition vals_of (t : table) : list (list pval) := flat_map (fun ke => match fst ke with KVals l => [l] | _ => [] end) t.

Lemma tmem_name s t : tmem (KName s) t = true <-> In s (names_of t).
Proof. unfold tmem. induction t as [|[k e] r IH]; simpl; [split; [discriminate|tauto]|].
  destruct k; simpl.
  - destruct (String.eqb_spec s s0); [subst; split; auto|]. rewrite IH. split; [auto|intros [H|H]; [congruence|auto]].
  - exact IH.
  - exact IH. Qed.
Lemma tmem_vals l t : tmem (KVals l) t = true <-> In l (vals_of t).
Proof. unfold tmem. induction t as [|[k e] r IH]; simpl; [split; [discriminate|tauto]|].
  destruct k; simpl.
  - exact IH.
  - destruct (pvals_eqb l l0) eqn:E; [apply pvals_eqb_eq in E; subst; split; auto|].
    rewrite IH. split; [auto|intros [H|H]; auto]. subst. assert (pvals_eqb l l = true) by now apply pvals_eqb_eq. congruence.
  - exact IH. Qed.
Lemma names_of_app t1 t2 : names_of (t1 ++ t2) = names_of t1 ++ names_of t2.
Proof. unfold names_of. apply flat_map_app. Qed.
Lemma vals_of_app t1 t2 : vals_of (t1 ++ t2) = vals_of t1 ++ vals_of t2.
Proof. unfold vals_of. apply flat_map_app. Qed.

(* generalised characterisation of load *)
Lemma load_ok_iff n ps : forall t i,
  (exists t', load n t i ps = inl t') <->
  (NoDup (map ps_name ps) /\ NoDup (map ps_values ps) /\ lengths_ok n ps /\
   (forall p, In p ps -> ~ In (ps_name p) (names_of t) /\ ~ In (ps_values p) (vals_of t))).
Proof.
  induction ps as [|p rest IH]; intros t i; simpl.
  - split; [intros _|eauto]. split; [constructor|]. split; [constructor|]. split; [constructor|]. intros p [].
  - destruct (tmem (KName (ps_name p)) t) eqn:E1.
    { split; [intros [t' H]; discriminate|]. intros (_ & _ & _ & H). apply tmem_name in E1. destruct (H p (or_introl eq_refl)). tauto. }
    destruct (tmem (KVals (ps_values p)) t) eqn:E2.
    { split; [intros [t' H]; discriminate|]. intros (_ & _ & _ & H). apply tmem_vals in E2. destruct (H p (or_introl eq_refl)). tauto. }
    destruct (Nat.eqb (length (ps_values p)) n) eqn:E3; simpl.
    2:{ split; [intros [t' H]; discriminate|]. intros (_ & _ & H & _). inversion H; subst. rewrite Nat.eqb_refl in E3. discriminate. }
    apply Nat.eqb_eq in E3. rewrite IH. clear IH.
    assert (N1 : ~ In (ps_name p) (names_of t)) by (rewrite <- tmem_name; congruence).
    assert (N2 : ~ In (ps_values p) (vals_of t)) by (rewrite <- tmem_vals; congruence).
    split.
    + intros (H1 & H2 & H3 & H4). repeat split.
      * constructor; auto. intros Hin. apply in_map_iff in Hin. destruct Hin as [p' [Heq Hin]].
        destruct (H4 p' Hin) as [H5 _]. apply H5. rewrite names_of_app. apply in_or_app. right. simpl. left. congruence.
      * constructor; auto. intros Hin. apply in_map_iff in Hin. destruct Hin as [p' [Heq Hin]].
        destruct (H4 p' Hin) as [_ H5]. apply H5. rewrite vals_of_app. apply in_or_app. right. simpl. left. congruence.
      * constructor; auto.
      * destruct H as [<-|Hin]; auto. destruct (H4 _ Hin) as [H5 _]. intros Hc. apply H5. rewrite names_of_app. apply in_or_app. now left.
      * destruct H as [<-|Hin]; auto. destruct (H4 _ Hin) as [_ H5]. intros Hc. apply H5. rewrite vals_of_app. apply in_or_app. now left.
    + intros (H1 & H2 & H3 & H4). inversion H1; inversion H2; inversion H3; subst. repeat split; auto.
      * rewrite names_of_app. intros Hc. apply in_app_or in Hc. destruct Hc as [Hc|Hc].
        -- destruct (H4 p0 (or_intror H)). tauto.
        -- simpl in Hc. destruct Hc as [Hc|[]]. match goal with Hn : ~ In (ps_name p) (map ps_name rest) |- _ => apply Hn end.
           rewrite Hc. now apply in_map.
      * rewrite vals_of_app. intros Hc. apply in_app_or in Hc. destruct Hc as [Hc|Hc].
        -- destruct (H4 p0 (or_intror H)). tauto.
        -- simpl in Hc. destruct Hc as [Hc|[]]. match goal with Hn : ~ In (ps_values p) (map ps_values rest) |- _ => apply Hn end.
           rewrite Hc. now apply in_map.
Qed.

Lemma load_table n ps : forall t i t', load n t i ps = inl t' -> t' = t ++ table_of i ps.
Proof.
  induction ps as [|p rest IH]; intros t i t'; simpl.
  - intros H. inversion H. unfold table_of. simpl. now rewrite app_nil_r.
  - destruct (tmem (KName (ps_name p)) t); [discriminate|]. destruct (tmem (KVals (ps_values p)) t); [discriminate|].
    destruct (negb (Nat.eqb (length (ps_values p)) n)); [discriminate|].
    intros H. apply IH in H. subst. unfold table_of. simpl. now rewrite <- app_assoc. Qed.

(* with nothing pre-registered: accepted exactly when names and value tuples are pairwise distinct *)
Theorem accepts_iff_distinct n ps :
  (exists t, construct [] n ps = inl t) <-> (distinct_names ps /\ distinct_values ps /\ lengths_ok n ps).
Proof. unfold construct, init_table. simpl. rewrite load_ok_iff. simpl. split; [tauto|]. intros (H1&H2&H3). repeat split; auto. Qed.

Lemma tlookup_table_of_name ps : forall i0 j p, NoDup (map ps_name ps) -> nth_error ps j = Some p ->
  tlookup (KName (ps_name p)) (table_of i0 ps) = Some (EPatch (i0 + j)).
Proof.
  induction ps as [|q rest IH]; intros i0 j p Hnd Hn; [destruct j; discriminate|].
  unfold table_of. simpl. inversion Hnd; subst. destruct j; simpl in Hn.
  - inversion Hn; subst. rewrite String.eqb_refl. f_equal. f_equal. lia.
  - destruct (String.eqb_spec (ps_name p) (ps_name q)) as [e|ne].
    + exfalso. apply H1. rewrite <- e. apply in_map. eapply nth_error_In; eauto.
    + fold (table_of (S i0) rest). rewrite (IH (S i0) j p); auto. f_equal. f_equal. lia. Qed.

Lemma tlookup_table_of_vals ps : forall i0 j p, NoDup (map ps_values ps) -> nth_error ps j = Some p ->
  tlookup (KVals (ps_values p)) (table_of i0 ps) = Some (EPatch (i0 + j)).
Proof.
  induction ps as [|q rest IH]; intros i0 j p Hnd Hn; [destruct j; discriminate|].
  unfold table_of. simpl. inversion Hnd; subst. destruct j; simpl in Hn.
  - inversion Hn; subst. assert (E : pvals_eqb (ps_values p) (ps_values p) = true) by now apply pvals_eqb_eq. rewrite E. f_equal. f_equal. lia.
  - destruct (pvals_eqb (ps_values p) (ps_values q)) eqn:E.
    + apply pvals_eqb_eq in E. exfalso. apply H1. rewrite <- E. apply in_map. eapply nth_error_In; eauto.
    + fold (table_of (S i0) rest). rewrite (IH (S i0) j p); auto. f_equal. f_equal. lia. Qed.

Lemma tlookup_table_of_none ps : forall i0 k,
  (forall p, In p ps -> k <> KName (ps_name p) /\ k <> KVals (ps_values p)) -> tlookup k (table_of i0 ps) = None.
Proof.
  induction ps as [|q rest IH]; intros i0 k H; [reflexivity|]. unfold table_of. simpl.
  destruct (H q (or_introl eq_refl)) as [H1 H2].
  destruct (key_eqb k (KName (ps_name q))) eqn:E1; [apply key_eqb_eq in E1; congruence|].
  destruct (key_eqb k (KVals (ps_values q))) eqn:E2; [apply key_eqb_eq in E2; congruence|].
  apply IH. intros p Hp. apply H. now right. Qed.

(* every patch is found by exactly its name and exactly its value tuple *)
Theorem lookup_exact n ps t j p : construct [] n ps = inl t -> nth_error ps j = Some p ->
  getitem t (KName (ps_name p)) = GPatch j /\ getitem t (KVals (ps_values p)) = GPatch j.
Proof.
  intros Hc Hn. assert (Hd : distinct_names ps /\ distinct_values ps /\ lengths_ok n ps) by (apply accepts_iff_distinct; eauto).
  destruct Hd as (H1 & H2 & _). unfold construct in Hc. apply load_table in Hc. simpl in Hc. subst t.
  unfold getitem. rewrite (tlookup_table_of_name ps 0 j p H1 Hn), (tlookup_table_of_vals ps 0 j p H2 Hn). auto. Qed.

(* and any other key raises the lookup error *)
Theorem other_key_raises n ps t k : construct [] n ps = inl t ->
  (forall p, In p ps -> k <> KName (ps_name p) /\ k <> KVals (ps_values p)) -> getitem t k = GLookupError.
Proof. intros Hc H. unfold construct in Hc. apply load_table in Hc. simpl in Hc. subst t.
  unfold getitem. now rewrite tlookup_table_of_none. Qed.

(* the pinned tree's initial content {'name': {}, 'values': {}} makes both statements false *)
Definition p_named (s : string) := {| ps_name := s; ps_values := [PNum 1%Qc]; ps_ops := [] |}.
Theorem accepts_iff_distinct_refuted_with_bookkeeping_keys :
  exists ps, distinct_names ps /\ distinct_values ps /\ lengths_ok 1 ps /\ construct ["name"; "values"]%string 1 ps = inr (DupName 0).
Proof. exists [p_named "name"]. repeat split; try (repeat constructor; simpl; tauto). Qed.
Theorem other_key_raises_refuted_with_bookkeeping_keys :
  exists ps t, construct ["name"; "values"]%string 1 ps = inl t /\ getitem t (KName "values") = GBook.
Proof. exists [p_named "a"]. eexists. split; reflexivity. Qed.

(* ---------- verify ---------- *)
Section Verify.
  Variable H : string -> json -> string.      (* hashlib.<alg>(json.dumps(canonical tree)).hexdigest() *)
  Definition digest (alg : string) (ws : json) : string := H alg (canon ws).
  (* first failing algorithm raises PatchSetVerificationError; None = verified *)
  Fixpoint verify (ds : list (string * string)) (ws : json) : option string :=
    match ds with [] => None | (alg, d) :: r => if String.eqb (digest alg ws) d then verify r ws else Some alg end.

  Theorem verify_iff ds ws : verify ds ws = None <-> forall alg d, In (alg, d) ds -> digest alg ws = d.
  Proof. induction ds as [|[a d] r IH]; simpl; [split; auto; intros _ ? ? []|].
    destruct (String.eqb_spec (digest a ws) d) as [e|ne].
    - rewrite IH. split; intros Hx; [intros alg d' [E|Hin]; [inversion E; now subst|auto]|intros; apply Hx; auto].
    - split; [discriminate|]. intros Hx. exfalso. apply ne. apply Hx. now left. Qed.

  Theorem digest_key_order_insensitive alg a b : wfj a -> wfj b -> jsame a b = true -> digest alg a = digest alg b.
  Proof. intros Ha Hb Hs. unfold digest. now rewrite (canon_same a b Ha Hb Hs). Qed.

  (* hash assumed collision free on canonical documents *)
  Hypothesis H_inj : forall alg a b, H alg a = H alg b -> a = b.
  Theorem digest_value_sensitive alg a b : wfj a -> wfj b -> digest alg a = digest alg b -> jsame a b = true.
  Proof. intros Ha Hb Hd. apply canon_inj; auto. eapply H_inj; eauto. Qed.

  Definition record (algs : list string) (ws0 : json) := map (fun a => (a, digest a ws0)) algs.
  Theorem verify_recorded_iff_same algs ws0 ws : algs <> [] -> wfj ws0 -> wfj ws ->
    (verify (record algs ws0) ws = None <-> jsame ws0 ws = true).
  Proof.
    intros Hne H0 H1. rewrite verify_iff. split.
    - intros Hall. destruct algs as [|a r]; [congruence|]. apply (digest_value_sensitive a); auto.
      symmetry. apply Hall. simpl. now left.
    - intros Hs alg d Hin. unfold record in Hin. apply in_map_iff in Hin. destruct Hin as [a [E _]]. inversion E; subst.
      symmetry. now apply digest_key_order_insensitive. Qed.
End Verify.
