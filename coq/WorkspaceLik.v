(* Likelihood-level statements for combine / sorted against a small name-indexed reference semantics:
   rate(c, b) = sum over samples of (nominal + sum of additive terms) x product of factors, the terms of a modifier
   being abstract functions of the modifier (its name identifies the parameter) and the bin;
   main log-likelihood = sum over channels and bins of an abstract log-density of (observed, rate);
   constraint log-likelihood = one abstract term per constrained parameter name. *)
From Coq Require Import Bool Arith Lia Permutation Sorting.Sorted String Ascii QArith Qcanon List.
Require Import PV.Sort PV.Json PV.Workspace PV.WorkspaceThms PV.WorkspaceSort.
Import ListNotations.
Local Open Scope string_scope.
Local Open Scope nat_scope.
Local Open Scope list_scope.

Section Big.
  Variable V : Type.
  Variable e : V.
  Variable op : V -> V -> V.
  Hypothesis op_comm : forall a b, op a b = op b a.
  Hypothesis op_assoc : forall a b c, op a (op b c) = op (op a b) c.
  Hypothesis op_e_l : forall a, op e a = a.

  Definition big {A} (f : A -> V) (l : list A) : V := fold_right (fun x acc => op (f x) acc) e l.
  Lemma big_app {A} (f : A -> V) l l' : big f (l ++ l') = op (big f l) (big f l').
  Proof. induction l as [|x t IH]; simpl; [now rewrite op_e_l|]. now rewrite IH, op_assoc. Qed.
  Lemma big_perm {A} (f : A -> V) l l' : Permutation l l' -> big f l = big f l'.
  Proof. induction 1; simpl; auto; [congruence| |congruence].
    rewrite !op_assoc. f_equal. apply op_comm. Qed.
  Lemma big_map {A B} (f : B -> V) (g : A -> B) l : big f (map g l) = big (fun x => f (g x)) l.
  Proof. induction l; simpl; congruence. Qed.
  Lemma big_ext {A} (f g : A -> V) l : (forall x, In x l -> f x = g x) -> big f l = big g l.
  Proof. induction l as [|x t IH]; simpl; auto. intros H. rewrite (H x (or_introl eq_refl)), IH; auto. Qed.
  Lemma big_filter_split {A} (f : A -> V) (p : A -> bool) l : big f l = op (big f (filter p l)) (big f (filter (fun x => negb (p x)) l)).
  Proof. induction l as [|x t IH]; simpl; [now rewrite op_e_l|]. rewrite IH. destruct (p x); simpl.
    - now rewrite op_assoc.
    - rewrite !op_assoc. f_equal. apply op_comm. Qed.
End Big.

Section Lik.
  Variable V : Type.
  Variables (zero one : V) (add mul : V -> V -> V).
  Hypothesis add_comm : forall a b, add a b = add b a.
  Hypothesis add_assoc : forall a b c, add a (add b c) = add (add a b) c.
  Hypothesis add_0_l : forall a, add zero a = a.
  Hypothesis mul_comm : forall a b, mul a b = mul b a.
  Hypothesis mul_assoc : forall a b c, mul a (mul b c) = mul (mul a b) c.
  Hypothesis mul_1_l : forall a, mul one a = a.
  Variable ofQ : Qc -> V.
  Variable factor : modifier -> nat -> V.        (* multiplicative effect of a modifier in a bin at the (by-name) parameter point *)
  Variable delta : modifier -> nat -> V.         (* additive effect *)
  Variable logdens : Qc -> V -> V.               (* log Pois(observed | rate), abstract *)
  Variable cterm : string -> V.                  (* constraint term of a constrained parameter, by name *)

  Definition sum {A} := @big V zero add A.
  Definition prod {A} := @big V one mul A.

  Definition srate (s : sample) (b : nat) : V :=
    mul (add (ofQ (nth b (s_data s) 0%Qc)) (sum (fun m => delta m b) (s_mods s))) (prod (fun m => factor m b) (s_mods s)).
  Definition rate (c : channel) (b : nat) : V := sum (fun s => srate s b) (c_samples c).
  Definition obs_of (w : workspace) (n : string) : list Qc :=
    match find (fun o => String.eqb (o_name o) n) (w_observations w) with Some o => o_data o | None => [] end.
  Definition chan_ll (w : workspace) (c : channel) : V :=
    sum (fun b => logdens (nth b (obs_of w (c_name c)) 0%Qc) (rate c b)) (seq 0 (length (obs_of w (c_name c)))).
  Definition main_ll (w : workspace) : V := sum (chan_ll w) (w_channels w).

  Definition constrained_types : list string := ["normsys"; "histosys"; "lumi"; "staterror"; "shapesys"].
  Definition constrained_names (w : workspace) : list string :=
    sort_uniq (map m_name (filter (fun m => mem_str (m_type m) constrained_types) (all_mods w))).
  Definition constraint_ll (w : workspace) : V := sum cterm (constrained_names w).

  (* ----- observations looked up by name ----- *)
  Definition obs_complete (w : workspace) : Prop := forall c, In c (w_channels w) -> In (c_name c) (map o_name (w_observations w)).

  Lemma find_app_l {A} (p : A -> bool) l l' : (exists x, In x l /\ p x = true) -> find p (l ++ l') = find p l.
  Proof. induction l as [|a t IH]; simpl; [intros [x [[] _]]|]. destruct (p a) eqn:E; auto. intros [x [[<-|Hx] Hp]]; [congruence|]. apply IH. eauto. Qed.
  Lemma find_app_r {A} (p : A -> bool) l l' : (forall x, In x l -> p x = false) -> find p (l ++ l') = find p l'.
  Proof. induction l as [|a t IH]; simpl; auto. intros H. rewrite (H a (or_introl eq_refl)). apply IH. intros x Hx. apply H. now right. Qed.

  Lemma obs_of_app_l l r n : In n (map o_name (w_observations l)) -> obs_of (ws_app l r) n = obs_of l n.
  Proof. intros H. unfold obs_of. simpl. rewrite find_app_l; auto. apply in_map_iff in H. destruct H as [o [E Ho]]. exists o. split; auto. subst. apply String.eqb_refl. Qed.
  Lemma obs_of_app_r l r n : ~ In n (map o_name (w_observations l)) -> obs_of (ws_app l r) n = obs_of r n.
  Proof. intros H. unfold obs_of. simpl. rewrite find_app_r; auto. intros o Ho. destruct (String.eqb_spec (o_name o) n); auto.
    exfalso. apply H. subst. now apply in_map. Qed.

  (* what a successful join='none' combine returns *)
  Lemma combine_none_inv l r v w : combine l r "none" false v = Ok w ->
    w = ws_app l r /\ names_disjoint (map o_name (w_observations l)) (map o_name (w_observations r)).
  Proof. rewrite combine_eq. simpl. unfold combine_pre. simpl. unfold join_versions.
    destruct (String.eqb (w_version l) (w_version r)); simpl; [|discriminate].
    unfold join_channels. destruct (nonempty (common _ _)); simpl; [discriminate|].
    unfold join_observations. destruct (nonempty (common (map o_name _) _)) eqn:Eo; simpl; [discriminate|].
    unfold join_measurements. destruct (nonempty (common (map me_name _) _)); simpl; [discriminate|].
    rewrite (join_items_flat channel c_name channel_eqb), (join_items_flat observation o_name observation_eqb),
            (join_items_flat measurement me_name measurement_eqb).
    unfold construct. repeat match goal with |- (if ?c then _ else _) = _ -> _ => destruct c; [discriminate|] end.
    intros H. inversion H. split; [reflexivity|]. intros n Hn1 Hn2.
    assert (nonempty (common (map o_name (w_observations l)) (map o_name (w_observations r))) = true) by (apply common_nonempty_iff; eauto). congruence. Qed.

  (* main likelihood of the combination = product of the main likelihoods (sum of the logs), parameters identified by name *)
  Theorem combine_main_likelihood_adds l r v w :
    combine l r "none" false v = Ok w -> obs_complete l -> obs_complete r ->
    main_ll w = add (main_ll l) (main_ll r).
  Proof. intros H Cl Cr. apply combine_none_inv in H. destruct H as [-> Hd]. unfold main_ll. simpl w_channels.
    unfold sum. rewrite big_app; auto. f_equal; apply big_ext; intros c Hc; unfold chan_ll.
    - now rewrite (obs_of_app_l l r (c_name c) (Cl c Hc)).
    - assert (Hn : ~ In (c_name c) (map o_name (w_observations l))) by (intros Hn; exact (Hd _ Hn (Cr c Hc))).
      now rewrite (obs_of_app_r l r (c_name c) Hn). Qed.

  (* ----- each constrained parameter contributes once ----- *)
  Lemma all_mods_app l r : all_mods (ws_app l r) = all_mods l ++ all_mods r.
  Proof. unfold all_mods, all_samples. simpl. now rewrite !flat_map_app. Qed.
  Lemma constrained_in w n : In n (constrained_names w) <->
    exists m, In m (all_mods w) /\ m_name m = n /\ mem_str (m_type m) constrained_types = true.
  Proof. unfold constrained_names. rewrite sort_uniq_in, in_map_iff. split.
    - intros [m [E Hm]]. apply filter_In in Hm. exists m. tauto.
    - intros [m [Hm [E Ht]]]. exists m. split; auto. apply filter_In. auto. Qed.

  Definition shared_constrained (l r : workspace) : list string := filter (fun n => mem_str n (constrained_names l)) (constrained_names r).

  Theorem combine_constraints_once l r v w :
    combine l r "none" false v = Ok w ->
    NoDup (constrained_names w) /\
    (forall n, In n (constrained_names w) <-> In n (constrained_names l) \/ In n (constrained_names r)) /\
    add (constraint_ll w) (sum cterm (shared_constrained l r)) = add (constraint_ll l) (constraint_ll r).
  Proof. intros H. apply combine_none_inv in H. destruct H as [-> _].
    assert (Hin : forall n, In n (constrained_names (ws_app l r)) <-> In n (constrained_names l) \/ In n (constrained_names r)).
    { intros n. rewrite !constrained_in. split.
      - intros [m [Hm H]]. rewrite all_mods_app in Hm. apply in_app_or in Hm. destruct Hm; [left|right]; exists m; auto.
      - intros [[m [Hm H]]|[m [Hm H]]]; exists m; rewrite all_mods_app; split; auto; apply in_or_app; auto. }
    split; [apply sort_uniq_nodup|]. split; [exact Hin|].
    set (A := constrained_names l). set (B := constrained_names r).
    set (Bnew := filter (fun n => negb (mem_str n A)) B).
    assert (Hp : Permutation (constrained_names (ws_app l r)) (A ++ Bnew)).
    { apply NoDup_Permutation; [apply sort_uniq_nodup| |].
      - apply NoDup_app_iff_local; apply sort_uniq_nodup.
      - intros n. rewrite Hin, in_app_iff. unfold Bnew. rewrite filter_In, negb_true_iff, mem_str_false. fold A B.
        destruct (in_dec string_dec n A); tauto. }
    unfold constraint_ll, sum. rewrite (big_perm V zero add add_comm add_assoc cterm _ _ Hp), big_app; auto.
    fold A B. unfold shared_constrained. fold A B.
    rewrite (big_filter_split V zero add add_comm add_assoc add_0_l cterm (fun n => mem_str n A) B). fold Bnew.
    set (x := big V zero add cterm A). set (y := big V zero add cterm Bnew). set (z := big V zero add cterm (filter (fun n => mem_str n A) B)).
    rewrite <- !add_assoc. f_equal. apply add_comm. Qed.

  (* ----- sorted keeps the likelihood ----- *)
  Lemma srate_sort s b : srate (sort_sample s) b = srate s b.
  Proof. unfold srate, sort_sample. simpl. f_equal; [f_equal|]; apply big_perm; auto; apply psort_perm. Qed.
  Lemma rate_sort c b : rate (sort_channel c) b = rate c b.
  Proof. unfold rate, sort_channel. simpl. unfold sum. rewrite big_map.
    rewrite (big_perm V zero add add_comm add_assoc _ _ _ (ssort_perm s_name (c_samples c))). apply big_ext. intros s _. apply srate_sort. Qed.

  Lemma find_perm_names (l l' : list observation) n : NoDup (map o_name l) -> Permutation l l' ->
    find (fun o => String.eqb (o_name o) n) l = find (fun o => String.eqb (o_name o) n) l'.
  Proof. intros Hnd Hp. induction Hp as [|x l l' Hp IH|x y l|l l' l'' Hp1 IH1 Hp2 IH2]; simpl; auto.
    - inversion Hnd; subst. rewrite IH; auto.
    - destruct (String.eqb_spec (o_name y) n), (String.eqb_spec (o_name x) n); auto.
      exfalso. inversion Hnd as [|? ? Hni _]; subst. apply Hni. simpl. left. congruence.
    - rewrite IH1; auto. apply IH2. eapply Permutation_NoDup; [apply Permutation_map; exact Hp1|exact Hnd]. Qed.
  Lemma obs_of_sorted w n : NoDup (map o_name (w_observations w)) -> obs_of (sorted_spec w) n = obs_of w n.
  Proof. intros H. unfold obs_of. simpl. rewrite (find_perm_names (w_observations w) (ssort o_name (w_observations w)) n H); auto.
    symmetry. apply ssort_perm. Qed.

  Lemma all_mods_perm_in w m : In m (all_mods (sorted_spec w)) <-> In m (all_mods w).
  Proof. unfold all_mods, all_samples. simpl. rewrite !in_flat_map. split.
    - intros [s [Hs Hm]]. apply in_flat_map in Hs. destruct Hs as [c [Hc Hs]]. apply in_map_iff in Hc. destruct Hc as [c0 [<- Hc]].
      simpl in Hs. apply in_map_iff in Hs. destruct Hs as [s0 [<- Hs]]. simpl in Hm.
      exists s0. split.
      + apply in_flat_map. exists c0. split; [eapply Permutation_in; [apply ssort_perm|exact Hc]|eapply Permutation_in; [apply ssort_perm|exact Hs]].
      + eapply Permutation_in; [apply psort_perm|exact Hm].
    - intros [s [Hs Hm]]. apply in_flat_map in Hs. destruct Hs as [c [Hc Hs]]. exists (sort_sample s). split.
      + apply in_flat_map. exists (sort_channel c). split.
        * apply in_map. eapply Permutation_in; [symmetry; apply ssort_perm|exact Hc].
        * simpl. apply in_map. eapply Permutation_in; [symmetry; apply ssort_perm|exact Hs].
      + simpl. eapply Permutation_in; [symmetry; apply psort_perm|exact Hm]. Qed.

  Theorem sorted_preserves_likelihood w w' :
    sorted w = Ok w' -> NoDup (map o_name (w_observations w)) ->
    main_ll w' = main_ll w /\ constraint_ll w' = constraint_ll w.
  Proof. unfold sorted. intros H Hnd. apply construct_true_ok in H. destruct H as [-> _]. split.
    - unfold main_ll, sum. simpl w_channels. rewrite big_map.
      rewrite (big_perm V zero add add_comm add_assoc _ _ _ (ssort_perm c_name (w_channels w))).
      apply big_ext. intros c _. unfold chan_ll. change (c_name (sort_channel c)) with (c_name c). rewrite (obs_of_sorted w (c_name c) Hnd).
      apply big_ext. intros b _. now rewrite rate_sort.
    - unfold constraint_ll, sum. apply big_perm; auto. apply NoDup_Permutation; try apply sort_uniq_nodup.
      intros n. rewrite !constrained_in. split; intros [m [Hm H]]; exists m; split; auto; now apply all_mods_perm_in. Qed.
End Lik.

(* ---------- pruning and renaming at the likelihood level ---------- *)
Require Import PV.WorkspacePrune.

Section LikPrune.
  Variable V : Type.
  Variables (zero one : V) (add mul : V -> V -> V).
  Variable ofQ : Qc -> V.
  Variables (factor delta : modifier -> nat -> V).
  Variable logdens : Qc -> V -> V.
  Let chan_ll := chan_ll V zero one add mul ofQ factor delta logdens.
  Let main_ll := main_ll V zero one add mul ofQ factor delta logdens.

  Lemma find_filter {A} (p q : A -> bool) l : (forall x, p x = true -> q x = true) -> find p (filter q l) = find p l.
  Proof. intros H. induction l as [|a t IH]; simpl; auto. destruct (q a) eqn:Eq; simpl.
    - destruct (p a); auto.
    - destruct (p a) eqn:Ep; auto. rewrite (H a Ep) in Eq. discriminate. Qed.

  Lemma obs_of_prune w mods types samples chans meas n : ~ In n chans ->
    obs_of (prune_ref w mods types samples chans meas) n = obs_of w n.
  Proof. intros Hn. unfold obs_of. simpl. rewrite find_filter; auto. intros o Ho. apply String.eqb_eq in Ho. rewrite Ho.
    apply mem_str_false in Hn. now rewrite Hn. Qed.

  (* after pruning, the main likelihood is that of the remaining channels / samples / modifiers, each channel still paired
     with its own observation *)
  Theorem prune_likelihood_of_remainder w mods types samples chans meas :
    main_ll (prune_ref w mods types samples chans meas) =
    sum V zero add (fun c => chan_ll w (prune_channel_ref mods types samples c))
        (filter (fun c => negb (mem_str (c_name c) chans)) (w_channels w)).
  Proof. unfold main_ll, WorkspaceLik.main_ll, sum. simpl w_channels. rewrite big_map. apply big_ext. intros c Hc.
    apply filter_In in Hc. destruct Hc as [_ Hc]. apply negb_true_iff, mem_str_false in Hc.
    unfold chan_ll, WorkspaceLik.chan_ll. change (c_name (prune_channel_ref mods types samples c)) with (c_name c).
    now rewrite (obs_of_prune w mods types samples chans meas (c_name c) Hc). Qed.

  (* in particular pruning whole channels leaves every other channel's term untouched *)
  Corollary prune_channels_likelihood w chans meas :
    main_ll (prune_ref w [] [] [] chans meas) = sum V zero add (chan_ll w) (filter (fun c => negb (mem_str (c_name c) chans)) (w_channels w)).
  Proof. rewrite prune_likelihood_of_remainder. apply big_ext. intros c _. f_equal.
    apply (prune_channel_untouched [] [] [] []). split; auto. intros s _. split; auto. Qed.
End LikPrune.

Section LikRename.
  Variable V : Type.
  Variables (zero one : V) (add mul : V -> V -> V).
  Variable ofQ : Qc -> V.
  Variables (factor delta factor' delta' : modifier -> nat -> V).   (* the point before / after relabelling the parameters *)
  Variable logdens : Qc -> V -> V.
  Variables (rm rs rc rme : list (string * string)).
  Hypothesis factor_renamed : forall m b, factor' (pr_modifier rm m) b = factor m b.
  Hypothesis delta_renamed : forall m b, delta' (pr_modifier rm m) b = delta m b.

  Definition inj_on (names : list string) : Prop := forall a b, In a names -> In b names -> rget rc a = rget rc b -> a = b.

  Lemma find_map_inj (l : list observation) n : inj_on (n :: map o_name l) ->
    find (fun o => String.eqb (o_name o) (rget rc n)) (map (pr_observation rc) l) =
    option_map (pr_observation rc) (find (fun o => String.eqb (o_name o) n) l).
  Proof. intros Hinj. induction l as [|o t IH]; simpl; auto.
    assert (Ht : inj_on (n :: map o_name t)).
    { intros a b Ha Hb. apply Hinj; simpl in *; tauto. }
    destruct (String.eqb_spec (o_name o) n) as [e|ne].
    - rewrite e, String.eqb_refl. reflexivity.
    - destruct (String.eqb_spec (rget rc (o_name o)) (rget rc n)) as [e2|ne2]; [|now apply IH].
      exfalso. apply ne. apply Hinj; simpl; auto. Qed.

  Theorem rename_preserves_main_likelihood w :
    (forall c, In c (w_channels w) -> inj_on (c_name c :: map o_name (w_observations w))) ->
    main_ll V zero one add mul ofQ factor' delta' logdens (rn_spec w rm rs rc rme) =
    main_ll V zero one add mul ofQ factor delta logdens w.
  Proof. intros Hinj. unfold main_ll, sum. rewrite rn_channels, big_map. apply big_ext. intros c Hc.
    unfold chan_ll.
    assert (Eo : obs_of (rn_spec w rm rs rc rme) (c_name (pr_channel [] [] [] rm rs rc c)) = obs_of w (c_name c)).
    { unfold obs_of, rn_spec, pr_spec. simpl. rewrite filter_true by (intros; apply keep_nil).
      rewrite (find_map_inj (w_observations w) (c_name c) (Hinj c Hc)).
      destruct (find _ (w_observations w)); reflexivity. }
    rewrite Eo. apply big_ext. intros b _. f_equal.
    unfold rate, sum. simpl. rewrite filter_true by (intros; apply keep_nil). rewrite big_map. apply big_ext. intros s _.
    unfold srate, sum, prod. simpl. rewrite filter_true by (intros; reflexivity). rewrite !big_map.
    f_equal; [f_equal|]; apply big_ext; intros m _; auto. Qed.
End LikRename.

(* non-vacuity of the combine statements: two valid workspaces with nothing in common do combine, and every channel has its observation *)
Definition other_ws : workspace :=
  {| w_channels := [{| c_name := "d"; c_samples := [{| s_name := "s"; s_data := [1%Qc];
        s_mods := [{| m_name := "x"; m_type := "normsys"; m_data := MNormsys 1%Qc 1%Qc |}] |}] |}];
     w_observations := [{| o_name := "d"; o_data := [1%Qc] |}];
     w_measurements := [{| me_name := "m2"; me_poi := "x"; me_params := [] |}];
     w_version := "1.0.0" |}.
Example combine_none_applies :
  combine two_type_ws other_ws "none" false true = Ok (ws_app two_type_ws other_ws) /\
  obs_complete two_type_ws /\ obs_complete other_ws /\
  constrained_names (ws_app two_type_ws other_ws) = ["x"] /\ shared_constrained two_type_ws other_ws = ["x"].
Proof. split; [reflexivity|]. split; [|split; [|split; reflexivity]]; intros c [<-|[]]; simpl; auto. Qed.
