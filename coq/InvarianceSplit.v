(* C15, specification level, part 5: splitting a channel's bins into two channels.  Restricted to channels whose
   modifiers carry no per-bin parameters (no staterror, shapesys, shapefactor): for those the parameter would have to be
   split as well and the staterror component layout of every other channel sharing it would move.  Under that
   restriction the multiset of Poisson terms of the main measurement is unchanged. *)
From Coq Require Import Bool Arith Lia Permutation Ring Field String List.
Require Import PV.Num PV.Sort PV.Spec PV.Impl PV.Ref PV.RefineMonoid PV.Invariance PV.InvarianceSpec PV.InvarianceRewrite.
Import ListNotations.
Local Open Scope list_scope.

Lemma nth_firstn2 {A} (l : list A) k b d : b < k -> nth b (firstn k l) d = nth b l d.
Proof. revert k b. induction l as [|a l IH]; intros [|k] [|b] H; simpl; auto; try lia. apply IH. lia. Qed.
Lemma nth_skipn2 {A} (l : list A) k b d : nth b (skipn k l) d = nth (k + b) l d.
Proof. revert k. induction l as [|a l IH]; intros [|k]; simpl; auto. destruct b; reflexivity. Qed.
Lemma seq_shift2 k n : seq k n = map (fun b => k + b) (seq 0 n).
Proof. revert k. induction n as [|n IH]; intros k; simpl; auto. f_equal; [lia|]. rewrite (IH (S k)), <- (seq_shift n 0), map_map.
  apply map_ext. intros; lia. Qed.

Section Split.
  Variable N : Num.
  Notation V := (V N).
  Notation "0" := (n0 N). Notation "1" := (n1 N).
  Infix "+" := (nadd N). Infix "*" := (nmul N).
  Variable interp_add interp_mul : string -> V -> V -> V -> V -> V.
  Variables ncode hcode : string.
  Variables clip_s clip_b : option V.
  Notation spec := (spec N). Notation channel := (channel N). Notation sample := (sample N). Notation modifier := (modifier N).
  Notation mfac := (mod_factor N interp_mul ncode).
  Notation mdel := (mod_delta N interp_add hcode).
  Notation srate := (sample_rate N interp_add interp_mul ncode hcode clip_s).
  Notation rrate := (ref_rate N interp_add interp_mul ncode hcode clip_s clip_b).
  Notation rmain := (ref_main_terms N interp_add interp_mul ncode hcode clip_s clip_b).

  Variable k : nat.
  Definition cut_mod (cut : list V -> list V) (m : modifier) : modifier :=
    {| m_name := m_name m; m_type := m_type m;
       m_data := match m_data m with MDHisto lo hi => MDHisto (cut lo) (cut hi) | MDList l => MDList (cut l) | d => d end |}.
  Definition cut_sample (cut : list V -> list V) (s : sample) : sample :=
    {| s_name := s_name s; s_data := cut (s_data s); s_mods := map (cut_mod cut) (s_mods s) |}.
  Definition cut_channel (cut : list V -> list V) (name : string) (c : channel) : channel :=
    {| c_name := name; c_samples := map (cut_sample cut) (c_samples c) |}.
  (* no modifier with one parameter per bin *)
  Definition bin_free (m : modifier) : Prop := match m_type m with Staterror | Shapesys | Shapefactor => False | _ => True end.

  Variable sp : spec.
  Variables pre post : list channel.
  Variable c0 : channel.
  Variables n1 n2 : string.
  Variable theta : string -> nat -> V.
  Hypothesis Hch : channels sp = pre ++ c0 :: post.
  Hypothesis Hk : k <= chan_nbins N c0.
  Hypothesis Hfree : forall s m, In s (c_samples c0) -> In m (s_mods s) -> bin_free m.
  Let c1 := cut_channel (firstn k) n1 c0.
  Let c2 := cut_channel (skipn k) n2 c0.
  Let sp' := with_channels sp (pre ++ c1 :: c2 :: post).

  Lemma free_no_stat cut name n : chan_has N (cut_channel cut name c0) n Staterror = false.
  Proof. unfold chan_has, cut_channel. cbn [c_samples]. destruct (existsb _ _) eqn:E; auto. apply existsb_exists in E.
    destruct E as [s' [Hs' Hh]]. apply in_map_iff in Hs'. destruct Hs' as [s [<- Hs]]. unfold has_mod in Hh. apply existsb_exists in Hh.
    destruct Hh as [m' [Hm' Hm2]]. cbn [cut_sample s_mods] in Hm'. apply in_map_iff in Hm'. destruct Hm' as [m [<- Hm]].
    apply andb_prop in Hm2. destruct Hm2 as [_ Ht]. apply mtype_eqb_eq in Ht. cbn [cut_mod m_type] in Ht.
    assert (Hf := Hfree s m Hs Hm). unfold bin_free in Hf. rewrite Ht in Hf. contradiction. Qed.
  Lemma free_no_stat0 n : chan_has N c0 n Staterror = false.
  Proof. unfold chan_has. destruct (existsb _ _) eqn:E; auto. apply existsb_exists in E. destruct E as [s [Hs Hh]]. unfold has_mod in Hh.
    apply existsb_exists in Hh. destruct Hh as [m [Hm Hm2]]. apply andb_prop in Hm2. destruct Hm2 as [_ Ht]. apply mtype_eqb_eq in Ht.
    assert (Hf := Hfree s m Hs Hm). unfold bin_free in Hf. rewrite Ht in Hf. contradiction. Qed.
  Lemma split_offsets n c : stat_offset N sp' n c = stat_offset N sp n c.
  Proof. unfold stat_offset. unfold sp', with_channels. cbn [channels]. rewrite Hch, !filter_app. cbn [filter].
    unfold c1, c2. rewrite !free_no_stat, free_no_stat0. reflexivity. Qed.

  Lemma cut_factor (sp1 sp2 : spec) cut ca cb' s m b b' : bin_free m -> mfac sp1 theta ca (cut_sample cut s) (cut_mod cut m) b = mfac sp2 theta cb' s m b'.
  Proof. intros Hf. unfold bin_free in Hf. unfold mod_factor. cbn [cut_mod m_type m_name m_data]. destruct (m_type m); try contradiction; auto.
    destruct (m_data m); auto. Qed.
  Lemma cut_rate cut name b b' :
    (forall l, nth b (cut l) 0 = nth b' l 0) -> rrate sp' theta (cut_channel cut name c0) b = rrate sp theta c0 b'.
  Proof. intros Hcut. unfold ref_rate. f_equal. f_equal. cbn [cut_channel c_samples]. rewrite map_map. apply map_ext_in. intros s Hs.
    unfold sample_rate. f_equal. cbn [cut_sample s_mods s_data]. rewrite !map_map. f_equal; [f_equal|f_equal; [apply Hcut|f_equal]].
    - apply map_ext_in. intros m Hm. apply cut_factor. now apply (Hfree s).
    - apply map_ext_in. intros m Hm. unfold mod_delta. cbn [cut_mod m_type m_name m_data s_data]. destruct (m_type m); auto.
      destruct (m_data m); auto. change (s_data (cut_sample cut s)) with (cut (s_data s)). now rewrite !Hcut. Qed.
  Lemma nbins_left : chan_nbins N c1 = k.
  Proof. unfold chan_nbins, c1, cut_channel. cbn [c_samples]. unfold chan_nbins in Hk. destruct (c_samples c0) as [|s t] eqn:E; cbn [map].
    - lia. - cbn [cut_sample s_data]. rewrite firstn_length. lia. Qed.
  Lemma nbins_right : chan_nbins N c2 = chan_nbins N c0 - k.
  Proof. unfold chan_nbins, c2, cut_channel. cbn [c_samples]. destruct (c_samples c0) as [|s t] eqn:E; cbn [map]; auto.
    cbn [cut_sample s_data]. now rewrite skipn_length. Qed.

  Variables obs obs' : string -> nat -> V.
  Hypothesis Hobs1 : forall b, obs' n1 b = obs (c_name c0) b.
  Hypothesis Hobs2 : forall b, obs' n2 b = obs (c_name c0) (k + b)%nat.
  Hypothesis Hobs : forall c b, In c (pre ++ post) -> obs' (c_name c) b = obs (c_name c) b.

  Notation blk sp0 ob := (fun c => map (fun b => TPois (ob (c_name c) b) (rrate sp0 theta c b)) (seq 0 (chan_nbins N c))).
  Lemma other_block c : In c (pre ++ post) -> blk sp' obs' c = blk sp obs c.
  Proof. intros Hc. apply map_ext. intros b. rewrite Hobs by auto. f_equal. apply (ref_rate_change N); auto. intros n. apply split_offsets. Qed.
  Lemma split_block : blk sp' obs' c1 ++ blk sp' obs' c2 = blk sp obs c0.
  Proof. cbv beta. rewrite nbins_left, nbins_right.
    assert (E : seq 0 (chan_nbins N c0) = seq 0 k ++ seq (0 + k) (chan_nbins N c0 - k)) by (rewrite <- seq_app; f_equal; lia).
    rewrite E, map_app. f_equal.
    - apply map_ext_in. intros b Hb. apply in_seq in Hb. cbn [c1 cut_channel c_name]. rewrite Hobs1. f_equal.
      apply cut_rate. intros l. apply nth_firstn2. lia.
    - rewrite (seq_shift2 (0 + k)), map_map. apply map_ext. intros b. cbn [c2 cut_channel c_name]. rewrite Hobs2. simpl Nat.add. f_equal.
      apply cut_rate. intros l. apply nth_skipn2. Qed.

  Theorem split_channel_invariant : Permutation (rmain sp' theta obs') (rmain sp theta obs).
  Proof. unfold ref_main_terms, sorted_channels, ssort.
    rewrite (Permutation_flat_map _ (isort_perm string String.leb _ c_name (channels sp'))).
    rewrite (Permutation_flat_map _ (isort_perm string String.leb _ c_name (channels sp))).
    assert (Epre : flat_map (blk sp' obs') pre = flat_map (blk sp obs) pre).
    { apply flat_map_ext_in2. intros c Hc. apply other_block. apply in_or_app; auto. }
    assert (Epost : flat_map (blk sp' obs') post = flat_map (blk sp obs) post).
    { apply flat_map_ext_in2. intros c Hc. apply other_block. apply in_or_app; auto. }
    assert (E' : channels sp' = pre ++ c1 :: c2 :: post) by reflexivity. rewrite E', Hch. rewrite !flat_map_app. cbn [flat_map].
    rewrite Epre, Epost, <- split_block, <- !app_assoc. reflexivity. Qed.
End Split.
