(* The JSON document of a workspace determines the workspace (the typed AST loses nothing), and is a well-formed document. *)
From Coq Require Import Bool Arith Lia String Ascii QArith Qcanon List.
Require Import PV.Sort PV.Json PV.Workspace.
Import ListNotations.
Local Open Scope string_scope.
Local Open Scope list_scope.

Lemma map_inj {A B} (f : A -> B) : (forall x y, f x = f y -> x = y) -> forall l l', map f l = map f l' -> l = l'.
Proof. intros H l. induction l as [|a t IH]; intros [|b t'] E; simpl in E; try discriminate; auto. inversion E. f_equal; auto. Qed.
Lemma map_inj_in {A B} (f : A -> B) l : (forall x, In x l -> forall y, f x = f y -> x = y) -> forall l', map f l = map f l' -> l = l'.
Proof. induction l as [|a t IH]; intros H [|b t'] E; simpl in E; try discriminate; auto. inversion E. f_equal.
  - apply H; auto. now left.
  - apply IH; auto. intros x Hx. apply H. now right. Qed.

Lemma jq_inj a b : jq a = jq b -> a = b.
Proof. intros H. now inversion H. Qed.
Lemma jqs_inj a b : jqs a = jqs b -> a = b.
Proof. intros H. unfold jqs in H. injection H as H. eapply map_inj; eauto. apply jq_inj. Qed.
Lemma jqss_inj (a b : list (list Qc)) : JArr (map jqs a) = JArr (map jqs b) -> a = b.
Proof. intros H. injection H as H. eapply map_inj; eauto. apply jqs_inj. Qed.

Ltac solve_maps := repeat match goal with
         | E : jq _ = jq _ |- _ => apply jq_inj in E; subst
         | E : jqs _ = jqs _ |- _ => apply jqs_inj in E; subst
         | E : map jq _ = map jq _ |- _ => apply (map_inj jq jq_inj) in E; subst
         | E : map jqs _ = map jqs _ |- _ => apply (map_inj jqs jqs_inj) in E; subst
         end.
Lemma json_of_mdata_inj a b : json_of_mdata a = json_of_mdata b -> a = b.
Proof. destruct a, b; simpl; unfold jqs; intros H; try discriminate H; try reflexivity; injection H as ?; solve_maps; subst; reflexivity. Qed.
Lemma json_of_modifier_inj a b : json_of_modifier a = json_of_modifier b -> a = b.
Proof. destruct a, b; unfold json_of_modifier; simpl. intros H. inversion H as [[H1 H2 H3]]. apply json_of_mdata_inj in H1. now subst. Qed.
Lemma json_of_sample_inj a b : json_of_sample a = json_of_sample b -> a = b.
Proof. destruct a, b; unfold json_of_sample; simpl. intros H. inversion H as [[H1 H2 H3]].
  f_equal; auto; [eapply map_inj; eauto; apply jq_inj|eapply map_inj; eauto; apply json_of_modifier_inj]. Qed.
Lemma json_of_channel_inj a b : json_of_channel a = json_of_channel b -> a = b.
Proof. destruct a, b; unfold json_of_channel; simpl. intros H. inversion H as [[H1 H2]]. f_equal; auto. eapply map_inj; eauto. apply json_of_sample_inj. Qed.
Lemma json_of_observation_inj a b : json_of_observation a = json_of_observation b -> a = b.
Proof. destruct a, b; unfold json_of_observation; simpl. intros H. inversion H as [[H1 H2]]. f_equal; auto. eapply map_inj; eauto. apply jq_inj. Qed.

Lemma json_of_pconfig_inj a b : json_of_pconfig a = json_of_pconfig b -> a = b.
Proof. destruct a as [n1 i1 b1 a1 f1 s1 x1], b as [n2 i2 b2 a2 f2 s2 x2]. unfold json_of_pconfig. simpl.
  destruct a1, a2, b1, b2, f1, f2; simpl; intros H; try discriminate H;
  destruct x1, x2, i1, i2; simpl in H; try discriminate H;
  destruct s1, s2; simpl in H; try discriminate H;
  inversion H; subst;
  repeat match goal with
         | E : jqs _ = jqs _ |- _ => apply jqs_inj in E; subst
         | E : map jq _ = map jq _ |- _ => apply (map_inj jq jq_inj) in E; subst
         | E : map jqs _ = map jqs _ |- _ => apply (map_inj jqs jqs_inj) in E; subst
         end; reflexivity. Qed.

Lemma json_of_measurement_inj a b : json_of_measurement a = json_of_measurement b -> a = b.
Proof. destruct a, b; unfold json_of_measurement; simpl. intros H. injection H as H1 H2 H3. subst. f_equal.
  eapply map_inj; eauto. apply json_of_pconfig_inj. Qed.

Theorem json_of_ws_inj a b : json_of_ws a = json_of_ws b -> a = b.
Proof. destruct a, b; unfold json_of_ws; simpl. intros H. injection H as H1 H2 H3 H4. subst. f_equal.
  - eapply map_inj; eauto. apply json_of_channel_inj.
  - eapply map_inj; eauto. apply json_of_observation_inj.
  - eapply map_inj; eauto. apply json_of_measurement_inj. Qed.

(* the document is already in canonical (key-sorted) form, so canonical comparison = comparison of the ASTs *)
Lemma canon_jqs l : canon (jqs l) = jqs l.
Proof. change (JArr (map canon (map jq l)) = JArr (map jq l)). f_equal. rewrite map_map. apply map_ext. reflexivity. Qed.
Lemma map_canon_id {A} (f : A -> json) l : (forall x, canon (f x) = f x) -> map canon (map f l) = map f l.
Proof. intros H. rewrite map_map. apply map_ext. exact H. Qed.
Lemma canon_mdata d : canon (json_of_mdata d) = json_of_mdata d.
Proof. destruct d; [reflexivity|reflexivity| |].
  - unfold json_of_mdata. cbn [canon map fst snd]. rewrite !canon_jqs. reflexivity.
  - apply canon_jqs. Qed.
Lemma canon_modifier m : canon (json_of_modifier m) = json_of_modifier m.
Proof. destruct m. unfold json_of_modifier. simpl. unfold ssort. simpl. now rewrite canon_mdata. Qed.
Lemma canon_sample s : canon (json_of_sample s) = json_of_sample s.
Proof. destruct s. unfold json_of_sample. simpl. unfold ssort. simpl. rewrite (map_canon_id json_of_modifier _ canon_modifier).
  rewrite map_map. simpl. erewrite map_ext; [reflexivity|reflexivity]. Qed.
Lemma canon_channel c : canon (json_of_channel c) = json_of_channel c.
Proof. destruct c. unfold json_of_channel. simpl. unfold ssort. simpl. now rewrite (map_canon_id json_of_sample _ canon_sample). Qed.
Lemma canon_observation o : canon (json_of_observation o) = json_of_observation o.
Proof. destruct o. unfold json_of_observation. simpl. unfold ssort. simpl. rewrite map_map. simpl. erewrite map_ext; [reflexivity|reflexivity]. Qed.
Lemma canon_jqss (l : list (list Qc)) : map canon (map jqs l) = map jqs l.
Proof. apply map_canon_id. apply canon_jqs. Qed.
Lemma canon_pconfig p : canon (json_of_pconfig p) = json_of_pconfig p.
Proof. destruct p as [n i b a f s x]. unfold json_of_pconfig. simpl.
  destruct a, b, f, x, i, s; simpl; unfold ssort; simpl; rewrite ?canon_jqss, ?map_map; simpl;
  repeat (erewrite (map_ext (fun x => canon (jq x)) jq); [|reflexivity]); reflexivity. Qed.
Lemma canon_measurement m : canon (json_of_measurement m) = json_of_measurement m.
Proof. destruct m. unfold json_of_measurement. simpl. unfold ssort. simpl. now rewrite (map_canon_id json_of_pconfig _ canon_pconfig). Qed.
Theorem json_of_ws_canonical w : canon (json_of_ws w) = json_of_ws w.
Proof. destruct w. unfold json_of_ws. simpl. unfold ssort. simpl.
  now rewrite (map_canon_id json_of_channel _ canon_channel), (map_canon_id json_of_observation _ canon_observation),
              (map_canon_id json_of_measurement _ canon_measurement). Qed.

(* hence: equal canonical documents <-> equal workspaces *)
Theorem canon_json_of_ws_inj a b : canon (json_of_ws a) = canon (json_of_ws b) -> a = b.
Proof. rewrite !json_of_ws_canonical. apply json_of_ws_inj. Qed.
