(* C15, specification level: the invariances of the HistFactory template lifted from single cells (Invariance.v) to
   whole specifications of any size.  Part 1: list toolkit ("permuted and pairwise related" lists), the congruence
   theorems (two specifications whose channels are related pairwise have equal expected data / equal term multisets),
   and the rewrites that change one channel: zero sample, null systematic, merged samples, rescaled signal. *)
From Coq Require Import Bool Arith Lia Permutation Ring Field String List.
Require Import PV.Num PV.Sort PV.Spec PV.Impl PV.Ref PV.RefineMonoid PV.Invariance.
Import ListNotations.
Local Open Scope list_scope.

(* ------------------------------------------------------------------ list toolkit *)
(* l' is, up to listing order, l with every element replaced by an R-related one *)
Definition PermRel {A B} (R : A -> B -> Prop) (l : list A) (l' : list B) : Prop :=
  exists l1, Permutation l l1 /\ Forall2 R l1 l'.

Section Kit.
  Variables A B : Type.
  Variable R : A -> B -> Prop.

  Lemma PermRel_Forall2 l l' : Forall2 R l l' -> PermRel R l l'.
  Proof. intros H. exists l. split; auto. Qed.
  Lemma PermRel_perm l l1 l' : Permutation l l1 -> PermRel R l1 l' -> PermRel R l l'.
  Proof. intros Hp [l2 [Hp2 Hf]]. exists l2. split; auto. now rewrite Hp. Qed.

  Lemma Forall2_in_l l l' x : Forall2 R l l' -> In x l -> exists x', In x' l' /\ R x x'.
  Proof. induction 1 as [|a b l l' Hab Hf IH]; intros Hin; [destruct Hin|]. destruct Hin as [->|Hin].
    - exists b. split; auto. now left.
    - destruct (IH Hin) as [x' [H1 H2]]. exists x'. split; auto. now right. Qed.
  Lemma Forall2_in_r l l' x' : Forall2 R l l' -> In x' l' -> exists x, In x l /\ R x x'.
  Proof. induction 1 as [|a b l l' Hab Hf IH]; intros Hin; [destruct Hin|]. destruct Hin as [->|Hin].
    - exists a. split; auto. now left.
    - destruct (IH Hin) as [x [H1 H2]]. exists x. split; auto. now right. Qed.
  Lemma PermRel_in_l l l' x : PermRel R l l' -> In x l -> exists x', In x' l' /\ R x x'.
  Proof. intros [l1 [Hp Hf]] Hin. apply (Forall2_in_l l1 l'); auto. eapply Permutation_in; eauto. Qed.
  Lemma PermRel_in_r l l' x' : PermRel R l l' -> In x' l' -> exists x, In x l /\ R x x'.
  Proof. intros [l1 [Hp Hf]] Hin. destruct (Forall2_in_r l1 l' x' Hf Hin) as [x [H1 H2]]. exists x. split; auto.
    eapply Permutation_in; [symmetry|]; eauto. Qed.

  Lemma Forall2_weaken_in (R' : A -> B -> Prop) l l' :
    (forall x x', In x l -> In x' l' -> R x x' -> R' x x') -> Forall2 R l l' -> Forall2 R' l l'.
  Proof. intros H Hf. induction Hf as [|a b l l' Hab Hf IH]; constructor.
    - apply H; auto; now left.
    - apply IH. intros x x' Hx Hx'. apply H; now right. Qed.

  (* flat_map *)
  Lemma Forall2_flat_map_eq {C} (f : A -> list C) (f' : B -> list C) l l' :
    Forall2 R l l' -> (forall x x', In x l -> In x' l' -> R x x' -> f x = f' x') -> flat_map f l = flat_map f' l'.
  Proof. induction 1 as [|a b l l' Hab Hf IH]; intros H; simpl; auto. f_equal.
    - apply H; auto; now left.
    - apply IH. intros x x' Hx Hx'. apply H; now right. Qed.
  Lemma Forall2_flat_map_perm {C} (f : A -> list C) (f' : B -> list C) l l' :
    Forall2 R l l' -> (forall x x', In x l -> In x' l' -> R x x' -> Permutation (f x) (f' x')) ->
    Permutation (flat_map f l) (flat_map f' l').
  Proof. induction 1 as [|a b l l' Hab Hf IH]; intros H; simpl; auto. apply Permutation_app.
    - apply H; auto; now left.
    - apply IH. intros x x' Hx Hx'. apply H; now right. Qed.
  Lemma PermRel_flat_map_perm {C} (f : A -> list C) (f' : B -> list C) l l' :
    PermRel R l l' -> (forall x x', In x l -> In x' l' -> R x x' -> Permutation (f x) (f' x')) ->
    Permutation (flat_map f l) (flat_map f' l').
  Proof. intros [l1 [Hp Hf]] H. rewrite (Permutation_flat_map f Hp). apply Forall2_flat_map_perm; auto.
    intros x x' Hx Hx'. apply H; auto. eapply Permutation_in; [symmetry|]; eauto. Qed.

  (* folds over a commutative monoid *)
  Lemma PermRel_foldm {M} (op : M -> M -> M) (e : M) (g : A -> M) (g' : B -> M) l l' :
    (forall a b, op a b = op b a) -> (forall a b c, op a (op b c) = op (op a b) c) ->
    PermRel R l l' -> (forall x x', In x l -> In x' l' -> R x x' -> g x = g' x') ->
    foldm M op e (map g l) = foldm M op e (map g' l').
  Proof. intros Hc Ha [l1 [Hp Hf]] H. rewrite (foldm_perm M op e Hc Ha _ _ (Permutation_map g Hp)).
    assert (H' : forall x x', In x l1 -> In x' l' -> R x x' -> g x = g' x').
    { intros x x' Hx Hx'. apply H; auto. eapply Permutation_in; [symmetry|]; eauto. }
    clear H Hp. induction Hf as [|a b l1 l' Hab Hf IH]; simpl; auto. f_equal.
    - apply H'; auto; now left.
    - apply IH. intros x x' Hx Hx'. apply H'; now right. Qed.

  (* filter, existsb *)
  Lemma Forall2_filter (p : A -> bool) (p' : B -> bool) l l' :
    Forall2 R l l' -> (forall x x', In x l -> In x' l' -> R x x' -> p x = p' x') -> Forall2 R (filter p l) (filter p' l').
  Proof. induction 1 as [|a b l l' Hab Hf IH]; intros H; simpl; auto.
    assert (E : p a = p' b) by (apply H; auto; now left). rewrite <- E.
    assert (IH' : Forall2 R (filter p l) (filter p' l')) by (apply IH; intros x x' Hx Hx'; apply H; now right).
    destruct (p a); auto. Qed.
  Lemma filter_perm (p : A -> bool) l l1 : Permutation l l1 -> Permutation (filter p l) (filter p l1).
  Proof. induction 1 as [|x l l1 Hp IH|x y l|l l1 l2 Hp1 IH1 Hp2 IH2]; simpl; auto.
    - destruct (p x); auto.
    - destruct (p x), (p y); auto. apply perm_swap.
    - now rewrite IH1. Qed.
  Lemma PermRel_filter (p : A -> bool) (p' : B -> bool) l l' :
    PermRel R l l' -> (forall x x', In x l -> In x' l' -> R x x' -> p x = p' x') -> PermRel R (filter p l) (filter p' l').
  Proof. intros [l1 [Hp Hf]] H. exists (filter p l1). split; [now apply filter_perm|]. apply Forall2_filter; auto.
    intros x x' Hx Hx'. apply H; auto. eapply Permutation_in; [symmetry|]; eauto. Qed.
  Lemma PermRel_existsb (p : A -> bool) (p' : B -> bool) l l' :
    PermRel R l l' -> (forall x x', In x l -> In x' l' -> R x x' -> p x = p' x') -> existsb p l = existsb p' l'.
  Proof. intros HP H. destruct (existsb p l) eqn:E.
    - apply existsb_exists in E. destruct E as [x [Hx Hpx]]. destruct (PermRel_in_l _ _ _ HP Hx) as [x' [Hx' Hr]].
      symmetry. apply existsb_exists. exists x'. split; auto. rewrite <- (H x x'); auto.
    - destruct (existsb p' l') eqn:E'; auto. apply existsb_exists in E'. destruct E' as [x' [Hx' Hpx]].
      destruct (PermRel_in_r _ _ _ HP Hx') as [x [Hx Hr]]. assert (existsb p l = true); [|congruence].
      apply existsb_exists. exists x. split; auto. rewrite (H x x'); auto. Qed.
End Kit.
Arguments PermRel_Forall2 {A B R}. Arguments PermRel_perm {A B R}. Arguments PermRel_in_l {A B R}. Arguments PermRel_in_r {A B R}.
Arguments Forall2_flat_map_eq {A B R C}. Arguments Forall2_flat_map_perm {A B R C}. Arguments PermRel_flat_map_perm {A B R C}.
Arguments PermRel_foldm {A B R M}. Arguments PermRel_filter {A B R}. Arguments PermRel_existsb {A B R}.
Arguments Forall2_filter {A B R}. Arguments filter_perm {A}. Arguments Forall2_weaken_in {A B R}.
Arguments Forall2_in_l {A B R}. Arguments Forall2_in_r {A B R}.

Lemma PermRel_weaken {A B} (R R' : A -> B -> Prop) l l' :
  (forall x x', In x l -> In x' l' -> R x x' -> R' x x') -> PermRel R l l' -> PermRel R' l l'.
Proof. intros H [l1 [Hp Hf]]. exists l1. split; auto. apply (@Forall2_weaken_in _ _ R R'); auto.
  intros x x' Hx Hx'. apply H; auto. eapply Permutation_in; [symmetry|]; eauto. Qed.
Lemma Forall2_refl_in {A} (R : A -> A -> Prop) l : (forall x, In x l -> R x x) -> Forall2 R l l.
Proof. induction l as [|a l IH]; intros H; constructor; [apply H; now left|]. apply IH. intros; apply H; now right. Qed.
Lemma Forall2_map_r {A B} (R : A -> B -> Prop) (F : A -> B) l : (forall x, In x l -> R x (F x)) -> Forall2 R l (map F l).
Proof. induction l as [|a l IH]; intros H; simpl; constructor; [apply H; now left|]. apply IH. intros; apply H; now right. Qed.

(* sorting related lists by keys that the relation preserves *)
Section SortRel.
  Variables A B : Type.
  Variable R : A -> B -> Prop.
  Variable key : A -> string.
  Variable key' : B -> string.
  Hypothesis Rkey : forall x x', R x x' -> key x = key' x'.
  Lemma Forall2_insert x x' l l' : R x x' -> Forall2 R l l' ->
    Forall2 R (insert string String.leb A key x l) (insert string String.leb B key' x' l').
  Proof. intros Hx Hf. induction Hf as [|a b l l' Hab Hf IH]; simpl; [repeat constructor; auto|].
    rewrite <- (Rkey _ _ Hx), <- (Rkey _ _ Hab). destruct (String.leb (key x) (key a)); repeat constructor; auto. Qed.
  Lemma Forall2_ssort l l' : Forall2 R l l' -> Forall2 R (ssort key l) (ssort key' l').
  Proof. induction 1; simpl; [constructor|]. apply Forall2_insert; auto. Qed.
  Lemma PermRel_ssort l l' : NoDup (map key l) -> PermRel R l l' -> Forall2 R (ssort key l) (ssort key' l').
  Proof. intros Hnd [l1 [Hp Hf]]. assert (E : ssort key l = ssort key l1) by (apply ssort_perm_eq; auto).
    rewrite E. now apply Forall2_ssort. Qed.
End SortRel.
Arguments Forall2_ssort {A B}. Arguments PermRel_ssort {A B}.

Lemma ssort_map {A B} (key : B -> string) (F : A -> B) l : ssort key (map F l) = map F (ssort (fun a => key (F a)) l).
Proof. induction l as [|a l IH]; simpl; auto. unfold ssort in *. simpl. rewrite IH. clear IH.
  induction (isort string String.leb A (fun a0 => key (F a0)) l) as [|y t IHt]; simpl; auto.
  destruct (String.leb (key (F a)) (key (F y))); simpl; auto. now rewrite IHt. Qed.

(* find on a list whose predicate has at most one hit does not depend on the listing order *)
Lemma find_perm_unique {A} (p : A -> bool) l l' : Permutation l l' ->
  (forall x y, In x l -> In y l -> p x = true -> p y = true -> x = y) -> find p l = find p l'.
Proof.
  induction 1 as [|x l l' Hp IH|x y l|l l1 l2 Hp1 IH1 Hp2 IH2]; intros Hu; simpl; auto.
  - destruct (p x); auto. apply IH. intros a b Ha Hb. apply Hu; now right.
  - destruct (p x) eqn:Ex, (p y) eqn:Ey; auto. f_equal. apply Hu; simpl; auto.
  - rewrite IH1 by auto. apply IH2. intros a b Ha Hb. apply Hu; eapply Permutation_in; try (symmetry; exact Hp1); auto.
Qed.
Lemma find_map {A B} (p : B -> bool) (F : A -> B) l : find p (map F l) = option_map F (find (fun a => p (F a)) l).
Proof. induction l; simpl; auto. destruct (p (F a)); auto. Qed.
Lemma flat_map_map2 {A B C} (f : B -> list C) (g : A -> B) l : flat_map f (map g l) = flat_map (fun a => f (g a)) l.
Proof. induction l; simpl; auto. now rewrite IHl. Qed.
Lemma flat_map_ext_in2 {A B} (f g : A -> list B) l : (forall a, In a l -> f a = g a) -> flat_map f l = flat_map g l.
Proof. induction l; simpl; intros H; auto. rewrite H by auto. f_equal. apply IHl. auto. Qed.
Lemma nodup_perm_iff l l' : (forall x : string, In x l <-> In x l') -> Permutation (nodup string_dec l) (nodup string_dec l').
Proof. intros H. apply NoDup_Permutation; try apply NoDup_nodup. intros x. rewrite !nodup_In. apply H. Qed.

(* ------------------------------------------------------------------ congruence: specifications with pairwise related channels *)
Section Congr.
  Variable N : Num.
  Notation V := (V N).
  Hypothesis Hring : ring_theory (n0 N) (n1 N) (nadd N) (nmul N) (nsub N) (nopp N) eq.
  Add Ring NR3 : Hring.
  Notation "0" := (n0 N). Notation "1" := (n1 N).
  Infix "+" := (nadd N). Infix "*" := (nmul N).
  Variable interp_add interp_mul : string -> V -> V -> V -> V -> V.
  Variables ncode hcode : string.
  Variables clip_s clip_b : option V.
  Notation spec := (spec N). Notation channel := (channel N). Notation sample := (sample N). Notation modifier := (modifier N).
  Notation mfac := (mod_factor N interp_mul ncode).
  Notation mdel := (mod_delta N interp_add hcode).
  Notation srate := (sample_rate N interp_add interp_mul ncode hcode clip_s).
  Notation rrate := (ref_rate N interp_add interp_mul ncode hcode clip_s clip_b).
  Notation rexp := (ref_expected N interp_add interp_mul ncode hcode clip_s clip_b).
  Notation rmain := (ref_main_terms N interp_add interp_mul ncode hcode clip_s clip_b).
  Notation rterms := (ref_terms N interp_add interp_mul ncode hcode clip_s clip_b).

  (* what the staterror component layout looks at *)
  Definition chan_sim (c c' : channel) : Prop :=
    c_name c = c_name c' /\ chan_nbins N c = chan_nbins N c' /\ forall n, chan_has N c n Staterror = chan_has N c' n Staterror.
  Lemma chan_sim_refl c : chan_sim c c. Proof. repeat split. Qed.

  Lemma stat_offset_sim (sp sp' : spec) : PermRel chan_sim (channels sp) (channels sp') ->
    forall n c c', c_name c = c_name c' -> stat_offset N sp n c = stat_offset N sp' n c'.
  Proof.
    intros HP n c c' Hn. unfold stat_offset. change (fold_right Nat.add O ?l) with (foldm nat Nat.add O l).
    apply (@PermRel_foldm _ _ chan_sim nat Nat.add O); [apply Nat.add_comm|apply Nat.add_assoc| |].
    - apply PermRel_filter; auto. intros x x' _ _ [H1 [H2 H3]]. now rewrite H3, H1, Hn.
    - intros x x' _ _ [H1 [H2 H3]]. exact H2.
  Qed.

  (* the rate of a channel depends on the rest of the specification only through the staterror offsets of its name *)
  Lemma mod_factor_change (sp sp' : spec) theta theta' c c' s s' m b :
    (forall n, stat_offset N sp n c = stat_offset N sp' n c') -> (forall n k, theta n k = theta' n k) ->
    mfac sp theta c s m b = mfac sp' theta' c' s' m b.
  Proof. intros Ho Ht. unfold mod_factor. destruct (m_type m); auto; try (destruct (m_data m); auto); rewrite ?Ho, ?Ht; auto. Qed.
  Lemma mod_delta_ext theta theta' s m b : (forall n k, theta n k = theta' n k) -> mdel theta s m b = mdel theta' s m b.
  Proof. intros Ht. unfold mod_delta. destruct (m_type m); auto. destruct (m_data m); auto. now rewrite Ht. Qed.
  Lemma sample_rate_change (sp sp' : spec) theta theta' c c' s b :
    (forall n, stat_offset N sp n c = stat_offset N sp' n c') -> (forall n k, theta n k = theta' n k) ->
    srate sp theta c s b = srate sp' theta' c' s b.
  Proof. intros Ho Ht. unfold sample_rate. f_equal. f_equal.
    - f_equal. apply map_ext. intros m. now apply mod_factor_change.
    - f_equal. f_equal. apply map_ext. intros m. now apply mod_delta_ext. Qed.
  Lemma ref_rate_change (sp sp' : spec) theta theta' c b :
    (forall n, stat_offset N sp n c = stat_offset N sp' n c) -> (forall n k, theta n k = theta' n k) ->
    rrate sp theta c b = rrate sp' theta' c b.
  Proof. intros Ho Ht. unfold ref_rate. f_equal. f_equal. apply map_ext. intros s. now apply sample_rate_change. Qed.

  Section Pair.
    Variables sp sp' : spec.
    Variable R : channel -> channel -> Prop.
    Hypothesis Hnd : NoDup (map c_name (channels sp)).
    Hypothesis HP : PermRel R (channels sp) (channels sp').
    Hypothesis Hsim : forall c c', In c (channels sp) -> In c' (channels sp') -> R c c' -> chan_sim c c'.

    Let R2 (c c' : channel) : Prop := In c (channels sp) /\ In c' (channels sp') /\ R c c'.
    Lemma HP2 : PermRel R2 (channels sp) (channels sp').
    Proof. apply (PermRel_weaken R R2); auto. intros x x' Hx Hx' Hr. repeat split; auto. Qed.
    Lemma HPsim : PermRel chan_sim (channels sp) (channels sp').
    Proof. apply (PermRel_weaken R chan_sim); auto. Qed.
    Lemma sorted_related : Forall2 R2 (sorted_channels N sp) (sorted_channels N sp').
    Proof. unfold sorted_channels. apply PermRel_ssort; auto; [|apply HP2]. intros x x' [Hx [Hx' Hr]]. now destruct (Hsim x x' Hx Hx' Hr). Qed.
    Lemma offsets_agree n c c' : c_name c = c_name c' -> stat_offset N sp n c = stat_offset N sp' n c'.
    Proof. apply stat_offset_sim. apply HPsim. Qed.

    (* expected data: it suffices to compare the rates of related channels inside ONE specification *)
    Theorem ref_expected_congr theta theta' :
      (forall c c', In c (channels sp) -> In c' (channels sp') -> R c c' -> forall b, b < chan_nbins N c ->
                    rrate sp theta c b = rrate sp theta' c' b) ->
      rexp sp theta = rexp sp' theta'.
    Proof.
      intros Hr. unfold ref_expected. apply (Forall2_flat_map_eq _ _ _ _ sorted_related).
      intros c c' _ _ [Hc [Hc' Hrc]]. destruct (Hsim c c' Hc Hc' Hrc) as [Hn [Hb Hs]]. rewrite <- Hb.
      apply map_ext_in. intros b Hin. apply in_seq in Hin. rewrite (Hr c c' Hc Hc' Hrc b) by lia.
      apply ref_rate_change; auto. intros n. now apply offsets_agree.
    Qed.
    Theorem ref_main_terms_congr theta theta' obs :
      (forall c c', In c (channels sp) -> In c' (channels sp') -> R c c' -> forall b, b < chan_nbins N c ->
                    rrate sp theta c b = rrate sp theta' c' b) ->
      rmain sp theta obs = rmain sp' theta' obs.
    Proof.
      intros Hr. unfold ref_main_terms. apply (Forall2_flat_map_eq _ _ _ _ sorted_related).
      intros c c' _ _ [Hc [Hc' Hrc]]. destruct (Hsim c c' Hc Hc' Hrc) as [Hn [Hb Hs]]. rewrite <- Hb, <- Hn.
      apply map_ext_in. intros b Hin. apply in_seq in Hin. f_equal. rewrite (Hr c c' Hc Hc' Hrc b) by lia.
      apply ref_rate_change; auto. intros n. now apply offsets_agree.
    Qed.
  End Pair.

  (* the template looks at the parameter function only pointwise *)
  Lemma ref_expected_ext (sp : spec) theta theta' : (forall n k, theta n k = theta' n k) -> rexp sp theta = rexp sp theta'.
  Proof. intros Ht. unfold ref_expected. apply flat_map_ext. intros c. apply map_ext. intros b. now apply ref_rate_change. Qed.

  (* ---- the constraint terms, block by block ---- *)
  Definition chan_tnames (t : mtype) (c : channel) : list string :=
    flat_map (fun s => flat_map (fun m => if mtype_eqb (m_type m) t then [m_name m] else []) (s_mods s)) (c_samples c).
  Lemma names_with_is (sp : spec) t : names_with N sp t = nodup string_dec (flat_map (chan_tnames t) (channels sp)).
  Proof. reflexivity. Qed.
  Lemma names_with_in (sp : spec) t n : In n (names_with N sp t) <-> exists c, In c (channels sp) /\ In n (chan_tnames t c).
  Proof. rewrite names_with_is, nodup_In, in_flat_map. reflexivity. Qed.
  Lemma alpha_names_in (sp : spec) n : In n (alpha_names N sp) <->
    exists c, In c (channels sp) /\ (In n (chan_tnames Normsys c) \/ In n (chan_tnames Histosys c)).
  Proof. unfold alpha_names. rewrite nodup_In, in_app_iff, !names_with_in. split.
    - intros [[c [H1 H2]]|[c [H1 H2]]]; exists c; auto.
    - intros [c [H1 [H2|H2]]]; [left|right]; exists c; auto. Qed.

  Section Blocks.
    Variable sp : spec.
    Variables theta aux : string -> nat -> V.
    Definition ct_alpha : list (term N) := map (fun n => TNorm (aux n O) (theta n O) 1) (alpha_names N sp).
    Definition ct_lumi : list (term N) :=
      map (fun n => TNorm (aux n O) (theta n O) (match user_sigmas2 N sp n O with Some v => v | None => 1 end)) (names_with N sp Lumi).
    Definition stat_block (n : string) (c : channel) : list (term N) :=
      if chan_has N c n Staterror then
        map (fun b => let k := (stat_offset N sp n c + b)%nat in
                      TNorm (aux n k) (theta n k) (match user_sigmas2 N sp n k with Some v => v | None => stat_delta2 N n c b end))
            (seq 0 (chan_nbins N c)) else [].
    Definition ct_stat : list (term N) := flat_map (fun n => flat_map (stat_block n) (sorted_channels N sp)) (names_with N sp Staterror).
    Definition mod_shape_terms (c : channel) (s : sample) (m : modifier) : list (term N) :=
      match m_type m, m_data m with
      | Shapesys, MDList unc => map (fun b => TPois (aux (m_name m) b)
             (theta (m_name m) b * (match user_factor N sp (m_name m) b with Some f => f | None => shapesys_tau N s unc b end)))
             (seq 0 (chan_nbins N c))
      | _, _ => [] end.
    Definition chan_shape_terms (c : channel) : list (term N) := flat_map (fun s => flat_map (mod_shape_terms c s) (s_mods s)) (c_samples c).
    Definition ct_shape : list (term N) := flat_map chan_shape_terms (channels sp).
    Lemma ref_cterms_is : ref_cterms N sp theta aux = ct_alpha ++ ct_lumi ++ ct_stat ++ ct_shape.
    Proof. reflexivity. Qed.
  End Blocks.

  Lemma ct_alpha_perm (sp sp' : spec) theta aux : (forall n, In n (alpha_names N sp) <-> In n (alpha_names N sp')) ->
    Permutation (ct_alpha sp theta aux) (ct_alpha sp' theta aux).
  Proof. intros H. unfold ct_alpha. apply Permutation_map. apply NoDup_Permutation; auto; apply NoDup_nodup. Qed.
  Lemma ct_alpha_new (sp sp' : spec) theta aux n0 : ~ In n0 (alpha_names N sp) ->
    (forall n, In n (alpha_names N sp') <-> n = n0 \/ In n (alpha_names N sp)) ->
    Permutation (ct_alpha sp' theta aux) (TNorm (aux n0 O) (theta n0 O) 1 :: ct_alpha sp theta aux).
  Proof. intros Hn H. unfold ct_alpha. change (TNorm (aux n0 O) (theta n0 O) 1 :: ?l) with (map (fun n => TNorm (aux n O) (theta n O) 1) (n0 :: alpha_names N sp)).
    apply Permutation_map. apply NoDup_Permutation; [apply NoDup_nodup|constructor; auto; apply NoDup_nodup|].
    intros x. rewrite H. simpl. intuition. Qed.

  (* everything the non-alpha constraint blocks look at in a channel *)
  Definition chan_cong (sp sp' : spec) theta aux (c c' : channel) : Prop :=
    (forall n b, chan_has N c n Staterror = true -> b < chan_nbins N c -> stat_delta2 N n c b = stat_delta2 N n c' b) /\
    (forall n, In n (chan_tnames Lumi c) <-> In n (chan_tnames Lumi c')) /\
    (forall n, In n (chan_tnames Staterror c) <-> In n (chan_tnames Staterror c')) /\
    Permutation (chan_shape_terms sp theta aux c) (chan_shape_terms sp' theta aux c').

  Section Pair2.
    Variables sp sp' : spec.
    Variable R : channel -> channel -> Prop.
    Variables theta aux : string -> nat -> V.
    Hypothesis Hnd : NoDup (map c_name (channels sp)).
    Hypothesis HP : PermRel R (channels sp) (channels sp').
    Hypothesis Hsim : forall c c', In c (channels sp) -> In c' (channels sp') -> R c c' -> chan_sim c c'.
    Hypothesis Hcong : forall c c', In c (channels sp) -> In c' (channels sp') -> R c c' -> chan_cong sp sp' theta aux c c'.
    Hypothesis Hsig : forall n k, user_sigmas2 N sp n k = user_sigmas2 N sp' n k.

    Lemma names_with_perm t : (forall c c', In c (channels sp) -> In c' (channels sp') -> R c c' -> forall n, In n (chan_tnames t c) <-> In n (chan_tnames t c')) ->
      Permutation (names_with N sp t) (names_with N sp' t).
    Proof. intros H. apply NoDup_Permutation; try apply NoDup_nodup. intros n. rewrite !names_with_in. split.
      - intros [c [Hc Hin]]. destruct (PermRel_in_l _ _ _ HP Hc) as [c' [Hc' Hr]]. exists c'. split; auto. now apply (H c c').
      - intros [c' [Hc' Hin]]. destruct (PermRel_in_r _ _ _ HP Hc') as [c [Hc Hr]]. exists c. split; auto. now apply (H c c'). Qed.

    Theorem ref_cterms_rest_congr :
      Permutation (ct_lumi sp theta aux ++ ct_stat sp theta aux ++ ct_shape sp theta aux)
                  (ct_lumi sp' theta aux ++ ct_stat sp' theta aux ++ ct_shape sp' theta aux).
    Proof.
      apply Permutation_app; [|apply Permutation_app].
      - unfold ct_lumi. rewrite (map_ext _ (fun n => TNorm (aux n O) (theta n O) match user_sigmas2 N sp' n O with Some v => v | None => 1 end))
          by (intros n; now rewrite Hsig).
        apply Permutation_map. apply names_with_perm. intros c c' Hc Hc' Hr. now destruct (Hcong c c' Hc Hc' Hr) as [_ [H _]].
      - unfold ct_stat.
        rewrite (flat_map_ext_in2 _ (fun n => flat_map (stat_block sp' theta aux n) (sorted_channels N sp'))).
        + apply Permutation_flat_map. apply names_with_perm. intros c c' Hc Hc' Hr. now destruct (Hcong c c' Hc Hc' Hr) as [_ [_ [H _]]].
        + intros n _. apply (Forall2_flat_map_eq _ _ _ _ (sorted_related sp sp' R Hnd HP Hsim)).
          intros c c' _ _ [Hc [Hc' Hr]]. destruct (Hsim c c' Hc Hc' Hr) as [Hn [Hb Hs]]. destruct (Hcong c c' Hc Hc' Hr) as [Hd _].
          unfold stat_block. rewrite <- Hs, <- Hb. destruct (chan_has N c n Staterror) eqn:E; auto.
          apply map_ext_in. intros b Hin. apply in_seq in Hin. cbv zeta.
          rewrite (offsets_agree sp sp' R HP Hsim n c c' Hn), Hsig, (Hd n b E) by lia. reflexivity.
      - unfold ct_shape. apply (PermRel_flat_map_perm _ _ _ _ HP). intros c c' Hc Hc' Hr. now destruct (Hcong c c' Hc Hc' Hr) as [_ [_ [_ H]]].
    Qed.
  End Pair2.
End Congr.

(* the staterror width of a bin looks at the samples of the channel only through their data, whether they carry the
   staterror, and its listed uncertainties -- and is a sum, hence independent of the listing order *)
Section StatDelta.
  Variable N : Num.
  Notation V := (V N).
  Hypothesis Hring : ring_theory (n0 N) (n1 N) (nadd N) (nmul N) (nsub N) (nopp N) eq.
  Add Ring NR3b : Hring.
  Definition samp_stat_sim (s s' : sample N) : Prop :=
    s_data s = s_data s' /\ (forall n, has_mod N s n Staterror = has_mod N s' n Staterror) /\ (forall n b, stat_unc N s n b = stat_unc N s' n b).
  Lemma samp_stat_sim_refl s : samp_stat_sim s s. Proof. repeat split. Qed.
  Lemma stat_delta2_congr n (c c' : channel N) b :
    PermRel samp_stat_sim (c_samples c) (c_samples c') -> stat_delta2 N n c b = stat_delta2 N n c' b.
  Proof.
    intros HP. unfold stat_delta2.
    assert (HC : PermRel samp_stat_sim (filter (fun s => has_mod N s n Staterror) (c_samples c)) (filter (fun s => has_mod N s n Staterror) (c_samples c'))).
    { apply PermRel_filter; auto. intros x x' _ _ [_ [H _]]. apply H. }
    assert (Hc : forall a b0, nadd N a b0 = nadd N b0 a) by (intros; ring).
    assert (Ha : forall a b0 c1, nadd N a (nadd N b0 c1) = nadd N (nadd N a b0) c1) by (intros; ring).
    assert (Et : rsum N (map (fun s => nth b (s_data s) (n0 N)) (filter (fun s => has_mod N s n Staterror) (c_samples c))) =
                 rsum N (map (fun s => nth b (s_data s) (n0 N)) (filter (fun s => has_mod N s n Staterror) (c_samples c')))).
    { apply (@PermRel_foldm _ _ samp_stat_sim V (nadd N) (n0 N)); auto. intros x x' _ _ [H _]. now rewrite H. }
    cbv zeta. rewrite Et.
    assert (Ev : forall T, rsum N (map (fun s => if rpos N T then nmul N (ndiv N (stat_unc N s n b) T) (ndiv N (stat_unc N s n b) T) else n0 N) (filter (fun s => has_mod N s n Staterror) (c_samples c))) =
                 rsum N (map (fun s => if rpos N T then nmul N (ndiv N (stat_unc N s n b) T) (ndiv N (stat_unc N s n b) T) else n0 N) (filter (fun s => has_mod N s n Staterror) (c_samples c')))).
    { intros T. apply (@PermRel_foldm _ _ samp_stat_sim V (nadd N) (n0 N)); auto. intros x x' _ _ [_ [_ H]]. now rewrite H. }
    rewrite Ev. reflexivity.
  Qed.
End StatDelta.
