(* C08 - the one-nuisance counting model ("on/off" problem) in closed form.
   One signal-region bin n ~ Pois(mu s + gamma b) and one auxiliary measurement m ~ Pois(gamma tau)
   (pyhf.simplemodels.uncorrelated_background([s],[b],[db]), tau = (b/db)^2, nominal auxiliary datum m = tau),
   POI mu in [lo, hi], nuisance gamma > 0. *)
From Coq Require Import Reals Lra Lia Psatz List.
Require Import PV.Num PV.Asympt PV.TestStat PV.Hypotest.
Import ListNotations.
Local Open Scope R_scope.

(* ---------- definitions (argument order: data n m; model s b tau; POI range lo hi; tested value) ---------- *)
Definition lam1 (s b mu g : R) : R := mu * s + g * b.          (* expected count in the signal region *)
Definition lam2 (tau g : R) : R := g * tau.                    (* expected auxiliary count *)
(* negative log-likelihood up to the data-only terms ln n! + ln Gamma(m+1) *)
Definition nll_onoff (n m s b tau mu g : R) : R :=
  (lam1 s b mu g - n * ln (lam1 s b mu g)) + (lam2 tau g - m * ln (lam2 tau g)).
(* d/dgamma nll = b + tau - n b/(mu s + gamma b) - m/gamma = 0  <=>  qa g^2 + qb g + qc = 0 *)
Definition qa (b tau : R) : R := (b + tau) * b.
Definition qb (n m s b tau mu : R) : R := (b + tau) * (mu * s) - (n + m) * b.
Definition qc (m s mu : R) : R := - (m * (mu * s)).
Definition disc (n m s b tau mu : R) : R := qb n m s b tau mu * qb n m s b tau mu - 4 * qa b tau * qc m s mu.
(* conditional MLE of gamma at fixed mu: the larger root *)
Definition gamma_cond (n m s b tau mu : R) : R := (- qb n m s b tau mu + sqrt (disc n m s b tau mu)) / (2 * qa b tau).
(* unconstrained optimum of mu (where gamma = m/tau), and the optimum over the box *)
Definition mu_free (n m s b tau : R) : R := (n - m / tau * b) / s.
Definition mu_hat (n m s b tau lo hi : R) : R := Rmax lo (Rmin hi (mu_free n m s b tau)).
Definition gamma_hat (n m s b tau lo hi : R) : R := gamma_cond n m s b tau (mu_hat n m s b tau lo hi).
(* profiled nll and the profile likelihood ratio *)
Definition prof (n m s b tau mu : R) : R := nll_onoff n m s b tau mu (gamma_cond n m s b tau mu).
Definition t_onoff (n m s b tau lo hi mu : R) : R := 2 * (prof n m s b tau mu - prof n m s b tau (mu_hat n m s b tau lo hi)).
Definition q_closed_onoff (st : tsname) (n m s b tau lo hi mu : R) : R :=
  match st with
  | ST | STtilde => t_onoff n m s b tau lo hi mu
  | SQ | SQtilde => if Rlt_dec mu (mu_hat n m s b tau lo hi) then 0 else t_onoff n m s b tau lo hi mu
  | SQ0 => if Rlt_dec (mu_hat n m s b tau lo hi) 0 then 0 else t_onoff n m s b tau lo hi 0
  end.
(* the Asimov data set: the model expectation at the conditional fit with the POI at mu0 *)
Definition asimov_n (n m s b tau mu0 : R) : R := lam1 s b mu0 (gamma_cond n m s b tau mu0).
Definition asimov_m (n m s b tau mu0 : R) : R := lam2 tau (gamma_cond n m s b tau mu0).
Definition qA_closed_onoff (st : tsname) (n m s b tau lo hi mu mu0 : R) : R :=
  q_closed_onoff st (asimov_n n m s b tau mu0) (asimov_m n m s b tau mu0) s b tau lo hi mu.

(* ---------- helpers for the certified reference values written by the harness ---------- *)
Lemma clamp_eq : forall u lo hi c : R, lo <= hi ->
  (c = lo /\ u <= lo) \/ (c = u /\ lo <= u <= hi) \/ (c = hi /\ hi <= u) -> Rmax lo (Rmin hi u) = c.
Proof. intros u lo hi c Hlh H. destruct H as [[-> H] | [[-> H] | [-> H]]].
  - apply Rmax_left. apply Rle_trans with u; [apply Rmin_r|assumption].
  - rewrite Rmin_right by lra. apply Rmax_right; lra.
  - rewrite Rmin_left by lra. apply Rmax_right; lra. Qed.

Lemma mu_hat_eq : forall n m s b tau lo hi c : R, lo <= hi ->
  (c = lo /\ mu_free n m s b tau <= lo) \/ (c = mu_free n m s b tau /\ lo <= mu_free n m s b tau <= hi) \/ (c = hi /\ hi <= mu_free n m s b tau) ->
  mu_hat n m s b tau lo hi = c.
Proof. intros. unfold mu_hat. apply clamp_eq; assumption. Qed.

(* on the expectation at (mu0, g), whatever g, the unconstrained optimum of mu is mu0 itself; in particular on the Asimov data set *)
Lemma mu_free_lam : forall s b tau mu0 g, s <> 0 -> tau <> 0 -> mu_free (lam1 s b mu0 g) (lam2 tau g) s b tau = mu0.
Proof. intros. unfold mu_free, lam1, lam2. field. split; assumption. Qed.

Lemma mu_hat_lam : forall s b tau lo hi mu0 g, s <> 0 -> tau <> 0 -> lo <= mu0 <= hi ->
  mu_hat (lam1 s b mu0 g) (lam2 tau g) s b tau lo hi = mu0.
Proof. intros. apply mu_hat_eq; [lra|]. rewrite mu_free_lam by assumption. right; left. split; [reflexivity|assumption]. Qed.

Lemma mu_free_asimov : forall n m s b tau mu0, s <> 0 -> tau <> 0 ->
  mu_free (asimov_n n m s b tau mu0) (asimov_m n m s b tau mu0) s b tau = mu0.
Proof. intros. apply mu_free_lam; assumption. Qed.

Lemma mu_hat_asimov : forall n m s b tau lo hi mu0, s <> 0 -> tau <> 0 -> lo <= mu0 <= hi ->
  mu_hat (asimov_n n m s b tau mu0) (asimov_m n m s b tau mu0) s b tau lo hi = mu0.
Proof. intros. apply mu_hat_lam; assumption. Qed.

Lemma qA_closed_unfold : forall st n m s b tau lo hi mu mu0 g, gamma_cond n m s b tau mu0 = g ->
  qA_closed_onoff st n m s b tau lo hi mu mu0 = q_closed_onoff st (lam1 s b mu0 g) (lam2 tau g) s b tau lo hi mu.
Proof. intros st n m s b tau lo hi mu mu0 g H. unfold qA_closed_onoff, asimov_n, asimov_m. rewrite H. reflexivity. Qed.

(* the coefficients of the quadratic are rational in the inputs: the harness supplies them evaluated *)
Lemma gamma_cond_eq : forall n m s b tau mu B D A2 : R,
  - qb n m s b tau mu = B -> disc n m s b tau mu = D -> 2 * qa b tau = A2 ->
  gamma_cond n m s b tau mu = (B + sqrt D) / A2.
Proof. intros n m s b tau mu B D A2 HB HD HA. unfold gamma_cond. rewrite HB, HD, HA. reflexivity. Qed.

(* ====================================================================================== *)
(* the closed forms are the optima *)
Section OnOffOptimum.
Variables n m s b tau : R.
Hypothesis Hn : 0 <= n.
Hypothesis Hm : 0 < m.
Hypothesis Hs : 0 < s.
Hypothesis Hb : 0 < b.
Hypothesis Htau : 0 < tau.

Notation A := (qa b tau).
Notation B mu := (qb n m s b tau mu).
Notation Cq mu := (qc m s mu).
Notation D mu := (disc n m s b tau mu).
Notation gc mu := (gamma_cond n m s b tau mu).
Notation l1 mu g := (lam1 s b mu g).
Notation l2 g := (lam2 tau g).
Notation nll mu g := (nll_onoff n m s b tau mu g).

Lemma qa_pos : 0 < A.
Proof. unfold qa. apply Rmult_lt_0_compat; lra. Qed.

(* the stationarity quadratic, factored: Q(g) = (b+tau) g (mu s + g b) - n b g - m (mu s + g b) *)
Lemma quad_factored : forall mu g, A * g * g + B mu * g + Cq mu = (b + tau) * g * l1 mu g - n * b * g - m * l1 mu g.
Proof. intros. unfold qa, qb, qc, lam1. ring. Qed.

(* discriminant: completed square at any x *)
Lemma disc_square : forall mu x, D mu = (2 * A * x + B mu) * (2 * A * x + B mu) - 4 * A * (A * x * x + B mu * x + Cq mu).
Proof. intros. unfold disc. ring. Qed.

(* at g0 = - mu s / b the rate mu s + g b vanishes and Q(g0) = n mu s *)
Lemma disc_at_g0 : forall mu, D mu = (2 * A * (- (mu * s) / b) + B mu) * (2 * A * (- (mu * s) / b) + B mu) - 4 * A * (n * (mu * s)).
Proof. intros mu. rewrite (disc_square mu (- (mu * s) / b)). rewrite quad_factored. unfold lam1.
  field. lra. Qed.

Lemma disc_nonneg : forall mu, 0 <= D mu.
Proof. intros mu. pose proof qa_pos as HA. destruct (Rle_dec 0 mu) as [H|H].
  - unfold disc, qc. assert (0 <= A * (m * (mu * s))) by (repeat apply Rmult_le_pos; lra).
    pose proof (Rle_0_sqr (B mu)) as Hsq. unfold Rsqr in Hsq. lra.
  - rewrite disc_at_g0. assert (0 <= A * (n * (- mu * s))) by (repeat apply Rmult_le_pos; lra).
    pose proof (Rle_0_sqr (2 * A * (- (mu * s) / b) + B mu)) as Hsq. unfold Rsqr in Hsq. lra. Qed.

Lemma gamma_cond_root : forall mu, A * gc mu * gc mu + B mu * gc mu + Cq mu = 0.
Proof. intros mu. pose proof qa_pos as HA. pose proof (disc_nonneg mu) as HD.
  unfold gamma_cond. set (r := sqrt (D mu)). assert (Hr : r * r = D mu) by (apply sqrt_sqrt; assumption).
  unfold disc in Hr. field_simplify_eq; [|lra]. nra. Qed.

Lemma gamma_cond_pos : forall mu, 0 < gc mu.
Proof. intros mu. pose proof qa_pos as HA. pose proof (disc_nonneg mu) as HD.
  unfold gamma_cond. apply Rdiv_lt_0_compat; [|lra].
  destruct (Rle_dec mu 0) as [H|H].
  - assert (0 < - B mu). { unfold qb. assert (0 <= (b + tau) * (- mu * s)) by (repeat apply Rmult_le_pos; lra). assert (0 < (n + m) * b) by (apply Rmult_lt_0_compat; lra). lra. }
    pose proof (sqrt_pos (D mu)). lra.
  - assert (Hlt : B mu * B mu < D mu). { unfold disc, qc. assert (0 < A * (m * (mu * s))) by (repeat apply Rmult_lt_0_compat; lra). lra. }
    assert (Habs : Rabs (B mu) < sqrt (D mu)).
    { rewrite <- sqrt_Rsqr_abs. apply sqrt_lt_1; [apply Rle_0_sqr|assumption|]. unfold Rsqr. exact Hlt. }
    pose proof (Rle_abs (B mu)). lra. Qed.

(* the expected count in the signal region is positive at the conditional optimum: for mu >= 0 always, for mu < 0 as soon as a
   count was observed *)
Lemma lam1_cond_pos : forall mu, 0 <= mu \/ 0 < n -> 0 < l1 mu (gc mu).
Proof. intros mu H. pose proof (gamma_cond_pos mu) as Hg. pose proof qa_pos as HA.
  destruct (Rle_dec 0 mu) as [H0|H0].
  - unfold lam1. assert (0 <= mu * s) by (apply Rmult_le_pos; lra). assert (0 < gc mu * b) by (apply Rmult_lt_0_compat; lra). lra.
  - destruct H as [H|H]; [lra|].
    assert (Hlt : (2 * A * (- (mu * s) / b) + B mu) * (2 * A * (- (mu * s) / b) + B mu) < D mu).
    { rewrite disc_at_g0. assert (0 < A * (n * (- mu * s))) by (repeat apply Rmult_lt_0_compat; lra). lra. }
    set (x := 2 * A * (- (mu * s) / b) + B mu) in *.
    assert (Habs : Rabs x < sqrt (D mu)).
    { rewrite <- sqrt_Rsqr_abs. apply sqrt_lt_1; [apply Rle_0_sqr|apply disc_nonneg|]. unfold Rsqr. exact Hlt. }
    pose proof (Rle_abs x) as Hx.
    assert (Hg0 : - (mu * s) / b < gc mu).
    { unfold gamma_cond. apply Rmult_lt_reg_r with (2 * A); [lra|]. unfold Rdiv at 2. rewrite Rmult_assoc, Rinv_l by lra. unfold x in *. lra. }
    unfold lam1. apply Rmult_lt_compat_r with (r := b) in Hg0; [|lra].
    replace (- (mu * s) / b * b) with (- (mu * s)) in Hg0 by (field; lra). lra. Qed.

(* stationarity in gamma at the conditional optimum *)
Lemma stationary_gamma : forall mu, 0 < l1 mu (gc mu) ->
  b * (1 - n / l1 mu (gc mu)) + tau * (1 - m / l2 (gc mu)) = 0.
Proof. intros mu Hl. pose proof (gamma_cond_pos mu) as Hg. pose proof (gamma_cond_root mu) as Hr. rewrite quad_factored in Hr.
  unfold lam2. set (g := gc mu) in *. set (l := l1 mu g) in *.
  assert (E : b * (1 - n / l) + tau * (1 - m / (g * tau)) = ((b + tau) * g * l - n * b * g - m * l) / (g * l)) by (field; lra).
  rewrite E, Hr. unfold Rdiv. ring. Qed.

(* 1. the larger root is the arg-min over gamma > 0 (on the domain where the rate is positive) *)
Theorem gamma_cond_is_argmin : forall mu g, 0 < l1 mu (gc mu) -> 0 < g -> 0 < l1 mu g -> nll mu (gc mu) <= nll mu g.
Proof. intros mu g Hl0 Hg Hl. pose proof (gamma_cond_pos mu) as Hg0. pose proof (stationary_gamma mu Hl0) as St.
  assert (H2 : 0 < l2 g) by (unfold lam2; apply Rmult_lt_0_compat; lra).
  assert (H20 : 0 < l2 (gc mu)) by (unfold lam2; apply Rmult_lt_0_compat; lra).
  pose proof (tangent n Hn (l1 mu g) (l1 mu (gc mu)) Hl Hl0) as T1.
  pose proof (tangent m (Rlt_le _ _ Hm) (l2 g) (l2 (gc mu)) H2 H20) as T2.
  assert (E : (l1 mu g - l1 mu (gc mu)) * (1 - n / l1 mu (gc mu)) + (l2 g - l2 (gc mu)) * (1 - m / l2 (gc mu))
              = (g - gc mu) * (b * (1 - n / l1 mu (gc mu)) + tau * (1 - m / l2 (gc mu)))) by (unfold lam1, lam2; ring).
  rewrite St, Rmult_0_r in E. unfold nll_onoff. lra. Qed.

(* sign of the mu-derivative at the conditional optimum: the profiled rate is above n to the right of the unconstrained optimum
   and below n to its left *)
Lemma rate_vs_count : forall mu, 0 < l1 mu (gc mu) ->
  (mu_free n m s b tau <= mu -> n <= l1 mu (gc mu)) /\ (mu <= mu_free n m s b tau -> l1 mu (gc mu) <= n).
Proof. intros mu Hl. pose proof (gamma_cond_pos mu) as Hg. pose proof (stationary_gamma mu Hl) as St.
  set (g := gc mu) in *. set (l := l1 mu g) in *.
  assert (Hfree : mu_free n m s b tau * s + m / tau * b = n) by (unfold mu_free; field; lra).
  assert (El : l = mu * s + g * b) by reflexivity.
  assert (E2 : tau * (1 - m / l2 g) = (g - m / tau) * tau / g) by (unfold lam2; field; lra).
  assert (E1 : b * (1 - n / l) = (l - n) * b / l) by (field; lra).
  rewrite E1, E2 in St.
  assert (Hil : 0 < / l) by (apply Rinv_0_lt_compat; assumption).
  assert (Hig : 0 < / g) by (apply Rinv_0_lt_compat; assumption).
  split; intro Hmu.
  - destruct (Rle_dec n l) as [|Hc]; [assumption|exfalso]. apply Rnot_le_lt in Hc.
    assert (S1 : (l - n) * b / l < 0). { unfold Rdiv. assert (0 < (n - l) * b * / l) by (repeat apply Rmult_lt_0_compat; lra). lra. }
    assert (S2 : 0 < (g - m / tau) * tau / g) by lra.
    assert (Hgm : m / tau < g).
    { destruct (Rlt_dec (m / tau) g) as [|Hc2]; [assumption|exfalso]. apply Rnot_lt_le in Hc2.
      assert (0 <= (m / tau - g) * tau * / g) by (repeat apply Rmult_le_pos; lra). unfold Rdiv in S2. lra. }
    assert (mu_free n m s b tau * s <= mu * s) by (apply Rmult_le_compat_r; lra).
    assert (m / tau * b < g * b) by (apply Rmult_lt_compat_r; lra). lra.
  - destruct (Rle_dec l n) as [|Hc]; [assumption|exfalso]. apply Rnot_le_lt in Hc.
    assert (S1 : 0 < (l - n) * b / l). { unfold Rdiv. repeat apply Rmult_lt_0_compat; lra. }
    assert (S2 : (g - m / tau) * tau / g < 0) by lra.
    assert (Hgm : g < m / tau).
    { destruct (Rlt_dec g (m / tau)) as [|Hc2]; [assumption|exfalso]. apply Rnot_lt_le in Hc2.
      assert (0 <= (g - m / tau) * tau * / g) by (repeat apply Rmult_le_pos; lra). unfold Rdiv in S2. lra. }
    assert (mu * s <= mu_free n m s b tau * s) by (apply Rmult_le_compat_r; lra).
    assert (g * b < m / tau * b) by (apply Rmult_lt_compat_r; lra). lra. Qed.
End OnOffOptimum.

(* ====================================================================================== *)
(* the optimum over the box lo <= mu <= hi, gamma > 0; the statistics through the transcribed functions *)
Section OnOffBox.
Variables n m s b tau lo hi C : R.
Hypothesis Hn : 0 <= n.
Hypothesis Hm : 0 < m.
Hypothesis Hs : 0 < s.
Hypothesis Hb : 0 < b.
Hypothesis Htau : 0 < tau.
Hypothesis Hlohi : lo <= hi.

Notation gc mu := (gamma_cond n m s b tau mu).
Notation l1 mu g := (lam1 s b mu g).
Notation l2 g := (lam2 tau g).
Notation nll mu g := (nll_onoff n m s b tau mu g).
Notation mh := (mu_hat n m s b tau lo hi).
Notation gh := (gamma_hat n m s b tau lo hi).
Notation u := (mu_free n m s b tau).

Lemma mu_hat_range : lo <= mh <= hi.
Proof. unfold mu_hat. split; [apply Rmax_l|]. apply Rmax_lub; [assumption|apply Rmin_l]. Qed.

(* 2. the clamped optimum is the arg-min over the box (on the domain where the rates are positive), provided the rate is
   positive at the optimum itself - see lam1_hat_pos for when that is guaranteed *)
Theorem mu_hat_is_argmin : 0 < l1 mh gh ->
  forall mu g, lo <= mu <= hi -> 0 < g -> 0 < l1 mu g -> nll mh gh <= nll mu g.
Proof. intros Hpos mu g [Hl Hh] Hg Hl1. unfold gamma_hat in *.
  pose proof (gamma_cond_pos n m s b tau Hn Hm Hs Hb Htau mh) as Hg0.
  pose proof (stationary_gamma n m s b tau Hn Hm Hs Hb Htau mh Hpos) as St.
  destruct (rate_vs_count n m s b tau Hn Hm Hs Hb Htau mh Hpos) as [Rge Rle].
  assert (H2 : 0 < l2 g) by (unfold lam2; apply Rmult_lt_0_compat; lra).
  assert (H20 : 0 < l2 (gc mh)) by (unfold lam2; apply Rmult_lt_0_compat; lra).
  pose proof (tangent n Hn (l1 mu g) (l1 mh (gc mh)) Hl1 Hpos) as T1.
  pose proof (tangent m (Rlt_le _ _ Hm) (l2 g) (l2 (gc mh)) H2 H20) as T2.
  assert (E : (l1 mu g - l1 mh (gc mh)) * (1 - n / l1 mh (gc mh)) + (l2 g - l2 (gc mh)) * (1 - m / l2 (gc mh))
              = (mu - mh) * s * (1 - n / l1 mh (gc mh)) + (g - gc mh) * (b * (1 - n / l1 mh (gc mh)) + tau * (1 - m / l2 (gc mh))))
    by (unfold lam1, lam2; ring).
  rewrite St, Rmult_0_r, Rplus_0_r in E.
  assert (Hsign : 0 <= (mu - mh) * s * (1 - n / l1 mh (gc mh))).
  { set (l := l1 mh (gc mh)) in *.
    assert (E1 : 1 - n / l = (l - n) * / l) by (field; lra). rewrite E1.
    assert (Hil : 0 < / l) by (apply Rinv_0_lt_compat; assumption).
    destruct (Rle_dec u lo) as [Hu | Hu].
    - assert (Em : mh = lo) by (apply mu_hat_eq; [assumption|left; split; [reflexivity|assumption]]).
      assert (n <= l) by (apply Rge; lra). rewrite Em in *. repeat apply Rmult_le_pos; lra.
    - destruct (Rle_dec u hi) as [Hu2 | Hu2].
      + assert (Em : mh = u) by (apply mu_hat_eq; [assumption|right; left; split; [reflexivity|lra]]).
        assert (n <= l) by (apply Rge; lra). assert (l <= n) by (apply Rle; lra).
        replace (l - n) with 0 by lra. lra.
      + assert (Em : mh = hi) by (apply mu_hat_eq; [assumption|right; right; split; [reflexivity|lra]]).
        assert (l <= n) by (apply Rle; lra). rewrite Em in *.
        replace ((mu - hi) * s * ((l - n) * / l)) with ((hi - mu) * s * ((n - l) * / l)) by ring.
        repeat apply Rmult_le_pos; lra. }
  unfold nll_onoff. lra. Qed.

(* when the POI range is non-negative, or a count was observed, the rates are positive at every conditional optimum in the range *)
Lemma lam1_range_pos : 0 <= lo \/ 0 < n -> forall mu, lo <= mu -> 0 < l1 mu (gc mu).
Proof. intros H mu Hmu. apply lam1_cond_pos; try assumption. destruct H; [left; lra|right; assumption]. Qed.
Lemma lam1_hat_pos : 0 <= lo \/ 0 < n -> 0 < l1 mh gh.
Proof. intro H. unfold gamma_hat. apply lam1_range_pos; [assumption|apply mu_hat_range]. Qed.

Notation tt_ mu := (t_onoff n m s b tau lo hi mu).

(* general form: the only thing needed about the domain is that the rate is positive at the conditional optimum of every POI
   value of the range (this also covers n = 0 with a negative lower POI bound, as long as lo s + gamma_cond(lo) b > 0) *)
Definition rates_positive : Prop := forall x, lo <= x <= hi -> 0 < l1 x (gc x).

Lemma rates_positive_when : 0 <= lo \/ 0 < n -> rates_positive.
Proof. intros H x Hx. apply lam1_range_pos; [assumption|apply Hx]. Qed.

Theorem t_onoff_nonneg_gen : rates_positive -> forall mu, lo <= mu <= hi -> 0 <= tt_ mu.
Proof. intros H mu Hmu. unfold t_onoff, prof.
  assert (Hh : 0 < l1 mh gh) by (unfold gamma_hat; apply H; apply mu_hat_range).
  pose proof (mu_hat_is_argmin Hh mu (gc mu) Hmu (gamma_cond_pos n m s b tau Hn Hm Hs Hb Htau mu) (H mu Hmu)) as Hmin.
  unfold gamma_hat in Hmin. lra. Qed.
Theorem t_onoff_nonneg : 0 <= lo \/ 0 < n -> forall mu, lo <= mu <= hi -> 0 <= tt_ mu.
Proof. intro H. apply t_onoff_nonneg_gen. apply rates_positive_when; assumption. Qed.
Theorem t_onoff_zero_at_best_fit : tt_ mh = 0.
Proof. unfold t_onoff. ring. Qed.

(* the statistics of this model through the transcribed functions (TestStat.teststat), with exact fits *)
Definition ofit (_ : unit) : list R * R := ([mh; gh], 2 * nll mh gh + C).
Definition ofixed (mu : R) (_ : unit) : list R * R := ([mu; gc mu], 2 * nll mu (gc mu) + C).
Notation OTS := (teststat RNum unit ofit ofixed (fun _ => Some 0%nat) (fun _ => lo)).

Theorem q_closed_form_onoff_gen : rates_positive -> forall st mu, lo <= mu <= hi -> (st = SQ0 -> lo <= 0 <= hi) ->
  value_of RNum (OTS st mu tt) = Some (q_closed_onoff st n m s b tau lo hi mu).
Proof. intros H st mu Hmu H0.
  rewrite (value_cases unit ofit ofixed (fun _ => Some 0%nat) (fun _ => lo) tt 0%nat eq_refl).
  unfold ratio, ofit, ofixed, poi_of; simpl.
  assert (R1 : forall x, 2 * nll x (gc x) + C - (2 * nll mh gh + C) = tt_ x) by (intro x; unfold t_onoff, prof, gamma_hat; ring).
  rewrite !R1. unfold q_closed_onoff.
  destruct st.
  - rewrite (Rmax_right 0 (tt_ mu)) by (apply t_onoff_nonneg_gen; assumption). reflexivity.
  - rewrite (Rmax_right 0 (tt_ mu)) by (apply t_onoff_nonneg_gen; assumption). reflexivity.
  - specialize (H0 eq_refl). rewrite (Rmax_right 0 (tt_ 0)) by (apply t_onoff_nonneg_gen; assumption). reflexivity.
  - rewrite (Rmax_right 0 (tt_ mu)) by (apply t_onoff_nonneg_gen; assumption). reflexivity.
  - rewrite (Rmax_right 0 (tt_ mu)) by (apply t_onoff_nonneg_gen; assumption). reflexivity. Qed.
Theorem q_closed_form_onoff : 0 <= lo \/ 0 < n -> forall st mu, lo <= mu <= hi -> (st = SQ0 -> lo <= 0 <= hi) ->
  value_of RNum (OTS st mu tt) = Some (q_closed_onoff st n m s b tau lo hi mu).
Proof. intro H. apply q_closed_form_onoff_gen. apply rates_positive_when; assumption. Qed.

Theorem q_closed_onoff_nonneg : 0 <= lo \/ 0 < n -> forall st mu, lo <= mu <= hi -> (st = SQ0 -> lo <= 0 <= hi) ->
  0 <= q_closed_onoff st n m s b tau lo hi mu.
Proof. intros H st mu Hmu H0. unfold q_closed_onoff.
  destruct st; try destruct (Rlt_dec _ _); try lra; apply t_onoff_nonneg; auto. Qed.
End OnOffBox.

(* ====================================================================================== *)
(* the asymptotic calculator on this model: data d = (n, m), parameters [mu; gamma], exact fits *)
Section OnOffHypotest.
Variable Phi : R -> R.
Variables s b tau lo hi C : R.
Hypothesis Hs : 0 < s.
Hypothesis Hb : 0 < b.
Hypothesis Htau : 0 < tau.
Hypothesis Hlohi : lo <= hi.

Definition onoff_teststat (k : tkind) (mu : R) (d : R * R) : R * (list R * list R) :=
  match teststat RNum unit (ofit (fst d) (snd d) s b tau lo hi C) (ofixed (fst d) (snd d) s b tau C)
                 (fun _ => Some 0%nat) (fun _ => lo) (st_of k) mu tt with
  | inr (_, r) => r
  | inl _ => (0, ([], []))
  end.
Definition onoff_fixed (mu : R) (d : R * R) : list R := [mu; gamma_cond (fst d) (snd d) s b tau mu].
Definition onoff_expected (p : list R) : R * R := (lam1 s b (nth 0 p 0) (nth 1 p 0), lam2 tau (nth 1 p 0)).
Definition mu0_of (k : tkind) : R := match k with KQ0 => 1 | _ => 0 end.

Definition q_obs_onoff (k : tkind) (mu n m : R) : R := q_closed_onoff (st_of k) n m s b tau lo hi mu.
Definition q_asimov_onoff (k : tkind) (mu n m : R) : R := qA_closed_onoff (st_of k) n m s b tau lo hi mu (mu0_of k).

Lemma onoff_teststat_value : forall k mu n m, 0 <= n -> 0 < m -> 0 <= lo \/ 0 < n -> lo <= mu <= hi -> (k = KQ0 -> lo <= 0 <= hi) ->
  fst (onoff_teststat k mu (n, m)) = q_obs_onoff k mu n m.
Proof. intros k mu n m Hn Hm Hdom Hmu H0. unfold onoff_teststat, q_obs_onoff. cbn [fst snd].
  assert (Hst : st_of k = SQ0 -> lo <= 0 <= hi) by (destruct k; simpl; try discriminate; auto).
  pose proof (q_closed_form_onoff n m s b tau lo hi C Hn Hm Hs Hb Htau Hlohi Hdom (st_of k) mu Hmu Hst) as Q.
  unfold value_of in Q.
  destruct (teststat RNum unit (ofit n m s b tau lo hi C) (ofixed n m s b tau C) (fun _ => Some 0%nat) (fun _ => lo) (st_of k) mu tt) as [e|[w [v p]]].
  - discriminate.
  - simpl. inversion Q. reflexivity. Qed.

Definition onoff_calc (k : tkind) (base : basedist) (mu : R) (d : R * R) :=
  let '(ts, sA, _, adata) := calc_teststatistic RNum (R * R) (list R) sqrt onoff_teststat onoff_fixed onoff_expected k mu d in
  match distributions RNum (Some sA) base with
  | inl e => inl e
  | inr (dsb, db) => inr (adata, pvalues RNum Phi ts dsb db, expected_pvalues RNum Phi dsb db)
  end.

Lemma asimov_data_pos : forall k n m, 0 <= n -> 0 < m ->
  0 < asimov_n n m s b tau (mu0_of k) /\ 0 < asimov_m n m s b tau (mu0_of k).
Proof. intros k n m Hn Hm. pose proof (gamma_cond_pos n m s b tau Hn Hm Hs Hb Htau (mu0_of k)) as Hg.
  unfold asimov_n, asimov_m, lam1, lam2.
  assert (0 < gamma_cond n m s b tau (mu0_of k) * b) by (apply Rmult_lt_0_compat; lra).
  assert (0 < gamma_cond n m s b tau (mu0_of k) * tau) by (apply Rmult_lt_0_compat; lra).
  assert (0 <= mu0_of k * s) by (unfold mu0_of; destruct k; lra). split; lra. Qed.

Theorem hypotest_onoff_analytic : forall k base mu n m,
  known base -> 0 <= n -> 0 < m -> 0 <= lo \/ 0 < n -> lo <= mu <= hi -> lo <= 0 <= hi -> (k = KQ0 -> lo <= 1 <= hi) ->
  exists exp_band,
  onoff_calc k base mu (n, m) = inr ((asimov_n n m s b tau (mu0_of k), asimov_m n m s b tau (mu0_of k)),   (* the Asimov data set *)
     (Some (Phi (- (tstat k (q_obs_onoff k mu n m) (q_asimov_onoff k mu n m) + sqrt (q_asimov_onoff k mu n m)))),
      Some (Phi (- tstat k (q_obs_onoff k mu n m) (q_asimov_onoff k mu n m))),
      Some (Phi (- (tstat k (q_obs_onoff k mu n m) (q_asimov_onoff k mu n m) + sqrt (q_asimov_onoff k mu n m)))
            / Phi (- tstat k (q_obs_onoff k mu n m) (q_asimov_onoff k mu n m)))),
     exp_band) /\
  inr exp_band = run_exp RNum Phi sqrt k base (q_obs_onoff k mu n m) (q_asimov_onoff k mu n m).
Proof. intros k base mu n m Hbase Hn Hm Hdom Hmu H0 H1.
  destruct (asimov_data_pos k n m Hn Hm) as [HnA HmA].
  set (nA := asimov_n n m s b tau (mu0_of k)) in *. set (mA := asimov_m n m s b tau (mu0_of k)) in *.
  assert (Hk0 : k = KQ0 -> lo <= 0 <= hi) by (intros _; exact H0).
  assert (Hst : st_of k = SQ0 -> lo <= 0 <= hi) by (intros _; exact H0).
  assert (E1 : fst (onoff_teststat k mu (n, m)) = q_obs_onoff k mu n m) by (apply onoff_teststat_value; auto).
  assert (EA : onoff_expected (onoff_fixed (match k with KQ0 => 1 | _ => 0 end) (n, m)) = (nA, mA))
    by (unfold onoff_expected, onoff_fixed, nA, mA, asimov_n, asimov_m, mu0_of; destruct k; reflexivity).
  assert (E2 : fst (onoff_teststat k mu (nA, mA)) = q_asimov_onoff k mu n m).
  { rewrite onoff_teststat_value; auto; try lra; reflexivity. }
  assert (Hq : 0 <= q_obs_onoff k mu n m) by (apply q_closed_onoff_nonneg; auto).
  assert (HqA : 0 <= q_asimov_onoff k mu n m).
  { unfold q_asimov_onoff, qA_closed_onoff. fold nA mA. apply q_closed_onoff_nonneg; auto; lra. }
  pose proof (run_obs_closed Phi k base (q_obs_onoff k mu n m) (q_asimov_onoff k mu n m) Hbase Hq HqA) as RO. simpl in RO.
  pose proof (asimov_is_expectation RNum (R * R)%type (list R) sqrt onoff_teststat onoff_fixed onoff_expected k mu (n, m)) as W.
  unfold onoff_calc.
  destruct (calc_teststatistic RNum (R * R)%type (list R) sqrt onoff_teststat onoff_fixed onoff_expected k mu (n, m)) as [[[ts sA] f] adata].
  destruct W as (Wa & _ & Wt & _).
  assert (Ha : asimov_of RNum (R * R)%type (list R) onoff_fixed onoff_expected k (n, m) = (nA, mA)) by exact EA.
  rewrite Ha in Wa, Wt. subst adata. change (V RNum) with R in Wt. rewrite E1, E2 in Wt.
  assert (Ets : ts = tstat k (q_obs_onoff k mu n m) (q_asimov_onoff k mu n m)) by (unfold tstat; rewrite <- Wt; reflexivity).
  assert (EsA : sA = sqrt (q_asimov_onoff k mu n m)) by (unfold teststatistic in Wt; inversion Wt; reflexivity).
  subst ts sA. clear Wt.
  unfold run_obs, run_exp, tstat, teststatistic in *. cbn beta iota in *. cbn [fst] in *. change (V RNum) with R in *.
  destruct (distributions RNum (Some (sqrt (q_asimov_onoff k mu n m))) base) as [e | [dsb db]] eqn:D; try rewrite D in RO; cbn beta iota in RO; [discriminate RO|].
  eexists. split; [|reflexivity]. inversion RO as [RO']. reflexivity. Qed.
End OnOffHypotest.

(* the Asimov data set of the asymptotic calculator on this model (instance of Hypotest.asimov_of): the expectation at the
   conditional fit with the POI at 0 (1 for the discovery statistic) *)
Lemma onoff_asimov_is_expectation : forall s b tau k n m,
  asimov_of RNum (R * R)%type (list R) (onoff_fixed s b tau) (onoff_expected s b tau) k (n, m)
  = (asimov_n n m s b tau (mu0_of k), asimov_m n m s b tau (mu0_of k)).
Proof. intros. unfold asimov_of, onoff_expected, onoff_fixed, asimov_n, asimov_m, mu0_of. destruct k; reflexivity. Qed.

(* at the unconstrained optimum of mu the conditional optimum of gamma is m/tau and the rate equals the count: the familiar
   (mu_hat, gamma_hat) = ((n - (m/tau) b)/s, m/tau) *)
Lemma gamma_cond_at_free : forall n m s b tau, 0 <= n -> 0 < m -> 0 < s -> 0 < b -> 0 < tau ->
  0 < lam1 s b (mu_free n m s b tau) (gamma_cond n m s b tau (mu_free n m s b tau)) ->
  gamma_cond n m s b tau (mu_free n m s b tau) = m / tau /\
  lam1 s b (mu_free n m s b tau) (gamma_cond n m s b tau (mu_free n m s b tau)) = n.
Proof. intros n m s b tau Hn Hm Hs Hb Htau Hl.
  pose proof (gamma_cond_pos n m s b tau Hn Hm Hs Hb Htau (mu_free n m s b tau)) as Hg.
  destruct (rate_vs_count n m s b tau Hn Hm Hs Hb Htau _ Hl) as [R1 R2].
  assert (El : lam1 s b (mu_free n m s b tau) (gamma_cond n m s b tau (mu_free n m s b tau)) = n) by (apply Rle_antisym; [apply R2|apply R1]; lra).
  split; [|exact El]. unfold lam1 in El.
  assert (Hfree : mu_free n m s b tau * s + m / tau * b = n) by (unfold mu_free; field; lra).
  assert (E : (gamma_cond n m s b tau (mu_free n m s b tau) - m / tau) * b = 0) by lra.
  apply Rmult_integral in E. destruct E; lra. Qed.

(* non-vacuity: n = 5, m = 4, s = 2, b = 3, tau = 4, POI range [0, 10]: the discriminant is 29^2, the best fit is (1, 1) *)
Example onoff_nonvacuous :
  gamma_cond 5 4 2 3 4 1 = 1 /\ mu_hat 5 4 2 3 4 0 10 = 1 /\ gamma_hat 5 4 2 3 4 0 10 = 1 /\
  0 < lam1 2 3 (mu_hat 5 4 2 3 4 0 10) (gamma_hat 5 4 2 3 4 0 10) /\ t_onoff 5 4 2 3 4 0 10 1 = 0 /\
  gamma_cond 5 4 2 3 4 0 = 9 / 7 /\ asimov_n 5 4 2 3 4 0 = 27 / 7 /\ asimov_m 5 4 2 3 4 0 = 36 / 7.
Proof.
  assert (G : gamma_cond 5 4 2 3 4 1 = 1).
  { unfold gamma_cond, disc, qb, qa, qc. replace ((((3 + 4) * (1 * 2) - (5 + 4) * 3) * ((3 + 4) * (1 * 2) - (5 + 4) * 3) - 4 * ((3 + 4) * 3) * - (4 * (1 * 2)))) with (29 * 29) by ring.
    rewrite sqrt_square by lra. field. }
  assert (E : mu_hat 5 4 2 3 4 0 10 = 1) by (apply mu_hat_eq; [lra|unfold mu_free; right; left; split; lra]).
  assert (G0 : gamma_cond 5 4 2 3 4 0 = 9 / 7).
  { unfold gamma_cond, disc, qb, qa, qc. replace ((((3 + 4) * (0 * 2) - (5 + 4) * 3) * ((3 + 4) * (0 * 2) - (5 + 4) * 3) - 4 * ((3 + 4) * 3) * - (4 * (0 * 2)))) with (27 * 27) by ring.
    rewrite sqrt_square by lra. field. }
  assert (T : t_onoff 5 4 2 3 4 0 10 1 = 0).
  { replace (t_onoff 5 4 2 3 4 0 10 1) with (t_onoff 5 4 2 3 4 0 10 (mu_hat 5 4 2 3 4 0 10)) by (rewrite E; reflexivity).
    apply t_onoff_zero_at_best_fit. }
  unfold gamma_hat, asimov_n, asimov_m. rewrite E, G, G0. unfold lam1, lam2.
  repeat split; try lra; exact T. Qed.
