(* Number record: one model text, two instances (Qc executable, R analytic). *)
From Coq Require Import ZArith QArith Qcanon Reals Ring Field Bool List.
Import ListNotations.

Record Num := mkNum {
  V : Type;
  n0 : V; n1 : V;
  nadd : V -> V -> V; nmul : V -> V -> V; nsub : V -> V -> V; nopp : V -> V;
  ndiv : V -> V -> V; ninv : V -> V;
  nltb : V -> V -> bool; nleb : V -> V -> bool; neqb : V -> V -> bool;
  nofZ : Z -> V
}.

Declare Scope num_scope.
Delimit Scope num_scope with num.

(* ---------- the laws a Num may satisfy (stated as predicates, never assumed globally) ---------- *)
Definition num_ring (N : Num) : Prop :=
  ring_theory (n0 N) (n1 N) (nadd N) (nmul N) (nsub N) (nopp N) eq.

Definition num_field (N : Num) : Prop :=
  field_theory (n0 N) (n1 N) (nadd N) (nmul N) (nsub N) (nopp N) (ndiv N) (ninv N) eq.

(* ---------- Qc instance ---------- *)
Definition mkq (n : Z) (d : positive) : Qc := Q2Qc (n # d).
Definition qltb (a b : Qc) : bool := match a ?= b with Lt => true | _ => false end.
Definition qleb (a b : Qc) : bool := match a ?= b with Gt => false | _ => true end.
Definition qout (a : Qc) : Z * positive := (Qnum a, Qden a).

Definition QcNum : Num :=
  mkNum Qc 0%Qc 1%Qc Qcplus Qcmult Qcminus Qcopp Qcdiv Qcinv qltb qleb Qc_eq_bool
        (fun z => mkq z 1).

Lemma QcNum_ring : num_ring QcNum.
Proof. exact Qcrt. Qed.
Lemma QcNum_field : num_field QcNum.
Proof. exact Qcft. Qed.

Lemma qltb_lt a b : qltb a b = true <-> (a < b)%Qc.
Proof. unfold qltb, Qclt, Qccompare, Qlt, Qcompare, Z.lt.
  destruct (Qnum a * QDen b ?= Qnum b * QDen a)%Z; split; intro H; try discriminate; reflexivity.
Qed.
Lemma qleb_le a b : qleb a b = true <-> (a <= b)%Qc.
Proof. unfold qleb, Qcle, Qccompare, Qle, Qcompare, Z.le.
  destruct (Qnum a * QDen b ?= Qnum b * QDen a)%Z; split; intro H; try discriminate; try reflexivity.
  exfalso; apply H; reflexivity.
Qed.

(* ---------- R instance ---------- *)
Definition rltb (a b : R) : bool := if Rlt_dec a b then true else false.
Definition rleb (a b : R) : bool := if Rle_dec a b then true else false.
Definition reqb (a b : R) : bool := if Req_EM_T a b then true else false.

Definition RNum : Num :=
  mkNum R 0%R 1%R Rplus Rmult Rminus Ropp Rdiv Rinv rltb rleb reqb IZR.

Lemma RNum_ring : num_ring RNum.
Proof. exact RTheory. Qed.
Lemma RNum_field : num_field RNum.
Proof. exact Rfield. Qed.

Lemma rltb_lt a b : rltb a b = true <-> (a < b)%R.
Proof. unfold rltb. destruct (Rlt_dec a b); split; intro; try discriminate; try contradiction; auto. Qed.
Lemma rleb_le a b : rleb a b = true <-> (a <= b)%R.
Proof. unfold rleb. destruct (Rle_dec a b); split; intro; try discriminate; try contradiction; auto. Qed.

(* Qc -> R, used to relate the executed instance with the analytic one *)
Definition Qc2R (x : Qc) : R := (IZR (Qnum x) / IZR (Zpos (Qden x)))%R.
