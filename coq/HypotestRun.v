(* C08 - running the Hypotest layout/prerequisite model on labels (used by harness/props/c08.py):
   every p-value gets a distinct integer label, so the printed layout says which quantity sits where. *)
From Coq Require Import ZArith Bool List.
Require Import PV.Num PV.Asympt PV.Hypotest.
Import ListNotations.
Local Open Scope Z_scope.

Definition labels : pvals Z := mkPvals Z 1 2 3 [10; 11; 12; 13; 14] [20; 21; 22; 23; 24] [30; 31; 32; 33; 34].

Definition enc_item (x : ritem Z Z) : Z * list Z :=
  match x with RScalar v => (0, [v]) | RList l => (1, l) | RCalc c => (2, [c]) end.

Definition errcode (e : herr) : Z :=
  match e with HUnspecifiedPOI => 1 | HInvalidModel => 2 | HKeyError => 3 | HCalc _ => 4 end.

Definition mk (ct : calctype) (fixed : list bool) : option (Z * (cerr + pvals Z)) :=
  match ct with COtherCalc => None | _ => Some (99, inr labels) end.

(* result: inl error code | inr (is_tuple, items) *)
Definition run_layout (poi : option nat) (fg : option (list bool)) (sf : list bool) (ct : calctype)
                      (q0 tail exp expset calcf : bool) : Z + (bool * list (Z * list Z)) :=
  match hypotest Z Z 0 mk poi fg sf ct q0 tail exp expset calcf with
  | inl e => inl (errcode e)
  | inr (Bare x) => inr (false, [enc_item x])
  | inr (Tuple l) => inr (true, map enc_item l)
  end.
