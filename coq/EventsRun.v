(* C11 - compact printing of Events.report for the correspondence files written by the harness
   (printing a few thousand constructor/string terms costs far more than computing them). *)
From Coq Require Import ZArith String List.
Require Import PV.Events.
Import ListNotations.
Local Open Scope string_scope.
Local Open Scope list_scope.

Fixpoint index_of (a : string) (l : list string) (k : Z) : Z :=
  match l with [] => (-1)%Z | x :: r => if String.eqb a x then k else index_of a r (k + 1)%Z end.

Definition trigger_names := ["change_backend::before"; "tensorlib_changed"; "optimizer_changed"; "change_backend::after"].

(* (kind, a, b):  0 trigger(name index) | 1 _precompute(id) | 2 subscribe(id, class index) | 3 observation(id, fresh?) | 4 shape(id, shape) | 5 all-live-objects observation(fresh?) *)
Definition enc_ev (F : list cfacts) (e : ev) : Z * Z * Z :=
  match e with
  | EvTrigger n => (0, index_of n trigger_names 0, 0)%Z
  | EvPre id => (1, Z.of_nat id, 0)%Z
  | EvSub id cls => (2%Z, Z.of_nat id, index_of cls (map cf_name F) 0%Z)
  | EvObs id b => (3%Z, Z.of_nat id, if b then 1%Z else 0%Z)
  | EvShape id sh => (4%Z, Z.of_nat id, Z.of_nat sh)
  | EvAllObs b => (5%Z, 0%Z, if b then 1%Z else 0%Z)
  end.
Definition enc_report (F : list cfacts) (h : list op) : list (list (Z * Z * Z) * Z) :=
  map (fun p => (map (enc_ev F) (fst p), Z.of_nat (snd p))) (report F h).
