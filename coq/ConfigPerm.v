(* C12: constructing a model does not depend on the listing order.

   Exported definitions (Section Perm, over an arbitrary number record N)
     permR R l l'            := exists l1, Forall2 R l l1 /\ Permutation l1 l'
                                (l' is a reordering of an elementwise R-image of l)
     sample_perm s s'        := same name, same data, modifier lists are permutations of each other
     channel_perm c c'       := same name, sample lists related by permR sample_perm
     spec_perm sp sp'        := channel lists related by permR channel_perm, the measurement's
                                configuration entries are permuted, same POI
     uniformb sp             := every listed sample has the bin count nbins of its channel

   Exported theorems
     permR toolkit           : permR_in_l, permR_in_r, permR_map, permR_existsb, permR_app, permR_flat_map,
                               permR_flat_map_perm, permR_sym, Forall2_perm_commute, existsb_perm,
                               has_dup_perm, has_dup_pair_perm, find_perm_unique, last_find_perm_unique
     spec_perm_sym           : spec_perm is symmetric
     level facts             : all_samples_permR, listing_dups_perm, shapesys_dups_perm, user_dups_perm,
                               cfg_channels_perm, cfg_samples_perm, cfg_modifiers_perm
     listing_nodup           : listing_dups N sp = false gives the three distinct-name facts
     lookups (names distinct): cell_rel, cell_data_perm, cellmod_perm, find_user_perm, nbins_perm,
                               uniformb_perm, nominal_false_of_nonuniform
     build_hot_ext           : build_hot reads the specification only through the data of cell, cellmod, nbins,
                               find_user, poi and the three duplicate tests
     build_listing_invariant : forall sp sp', spec_perm sp sp' -> build N sp' = build N sp     (UNCONDITIONAL:
                               no distinct-name premise; the duplicate tests are themselves order independent)
   Non-vacuity (QcNum)
     perm_example_spec, perm_example_spec', perm_example_related, perm_example_accepted, perm_example_same *)
From Coq Require Import Bool Arith Lia Permutation String List.
Require Import PV.Num PV.Sort PV.Spec PV.Impl PV.Wf PV.RefineLookup.
Import ListNotations.
Local Open Scope list_scope.

(* ---------------------------------------------------------------- generic list facts *)
Lemma forallb_ext {A} (f g : A -> bool) l : (forall a, f a = g a) -> forallb f l = forallb g l.
Proof. intros H. induction l as [|a l IH]; simpl; [reflexivity|]. rewrite H, IH. reflexivity. Qed.
Lemma existsb_ext {A} (f g : A -> bool) l : (forall a, f a = g a) -> existsb f l = existsb g l.
Proof. intros H. induction l as [|a l IH]; simpl; [reflexivity|]. rewrite H, IH. reflexivity. Qed.
Lemma find_ext {A} (f g : A -> bool) l : (forall a, f a = g a) -> find f l = find g l.
Proof. intros H. induction l as [|a l IH]; simpl; [reflexivity|]. rewrite H, IH. reflexivity. Qed.
Lemma fold_left_ext {A B} (f g : A -> B -> A) l : (forall a b, f a b = g a b) -> forall a, fold_left f l a = fold_left g l a.
Proof. intros H. induction l as [|b l IH]; simpl; intros a; [reflexivity|]. rewrite H. apply IH. Qed.
Lemma check_all_ext {A} (f g : A -> result unit) l : (forall a, f a = g a) -> check_all f l = check_all g l.
Proof. intros H. induction l as [|a l IH]; simpl; [reflexivity|]. rewrite H, IH. reflexivity. Qed.

Lemma existsb_false_in {A} (f : A -> bool) l x : existsb f l = false -> In x l -> f x = false.
Proof.
  intros H Hin. destruct (f x) eqn:E; [|reflexivity].
  assert (Ht : existsb f l = true) by (apply existsb_exists; exists x; split; assumption). congruence.
Qed.
Lemma forallb_false_ex {A} (f : A -> bool) l : forallb f l = false -> exists x, In x l /\ f x = false.
Proof.
  induction l as [|a l IH]; simpl; intros H; [discriminate|].
  destruct (f a) eqn:E.
  - simpl in H. destruct (IH H) as [x [Hx Hf]]. exists x. split; [right; assumption|assumption].
  - exists a. split; [left; reflexivity|assumption].
Qed.
Lemma existsb_perm {A} (f : A -> bool) l l' : Permutation l l' -> existsb f l = existsb f l'.
Proof.
  intros H. induction H as [|x l l' Hp IH|x y l|l l' l'' H1 IH1 H2 IH2]; simpl.
  - reflexivity.
  - rewrite IH. reflexivity.
  - destruct (f x), (f y); reflexivity.
  - congruence.
Qed.

Lemma has_dup_perm l l' : Permutation l l' -> has_dup l = has_dup l'.
Proof.
  intros H. destruct (has_dup l) eqn:E, (has_dup l') eqn:E'; try reflexivity.
  - apply has_dup_false_NoDup in E'. apply (Permutation_NoDup (Permutation_sym H)) in E'.
    apply has_dup_false_NoDup in E'. congruence.
  - apply has_dup_false_NoDup in E. apply (Permutation_NoDup H) in E.
    apply has_dup_false_NoDup in E. congruence.
Qed.
Lemma has_dup_pair_perm l l' : Permutation l l' -> has_dup_pair l = has_dup_pair l'.
Proof.
  intros H. destruct (has_dup_pair l) eqn:E, (has_dup_pair l') eqn:E'; try reflexivity.
  - apply has_dup_pair_false_NoDup in E'. apply (Permutation_NoDup (Permutation_sym H)) in E'.
    apply has_dup_pair_false_NoDup in E'. congruence.
  - apply has_dup_pair_false_NoDup in E. apply (Permutation_NoDup H) in E.
    apply has_dup_pair_false_NoDup in E. congruence.
Qed.

Lemma last_find_some' {A} (p : A -> bool) l x : last_find p l = Some x -> In x l /\ p x = true.
Proof. unfold last_find. intros H. apply find_some in H. destruct H as [H1 H2]. split; [apply in_rev; assumption|assumption]. Qed.
Lemma last_find_none_inv {A} (p : A -> bool) l : last_find p l = None -> forall y, In y l -> p y = false.
Proof. unfold last_find. intros H y Hy. apply (proj1 (find_none_iff p (rev l)) H). apply in_rev in Hy. exact Hy. Qed.

(* a lookup by a predicate that at most one element satisfies does not see the order *)
Lemma last_find_perm_unique {A} (p : A -> bool) l l' :
  Permutation l l' -> (forall x y, In x l -> In y l -> p x = true -> p y = true -> x = y) ->
  last_find p l' = last_find p l.
Proof.
  intros Hp Hu. destruct (last_find p l) as [x|] eqn:E.
  - apply last_find_some' in E. destruct E as [Hin Hx]. apply last_find_unique.
    + apply (Permutation_in _ Hp Hin).
    + exact Hx.
    + intros y Hy Hpy. apply Hu; auto. apply (Permutation_in _ (Permutation_sym Hp) Hy).
  - apply last_find_none. intros y Hy. apply (last_find_none_inv p l E). apply (Permutation_in _ (Permutation_sym Hp) Hy).
Qed.
Lemma find_perm_unique {A} (p : A -> bool) l l' :
  Permutation l l' -> (forall x y, In x l -> In y l -> p x = true -> p y = true -> x = y) ->
  find p l' = find p l.
Proof.
  intros Hp Hu. destruct (find p l) as [x|] eqn:E.
  - apply find_some in E. destruct E as [Hin Hx]. apply find_unique.
    + apply (Permutation_in _ Hp Hin).
    + exact Hx.
    + intros y Hy Hpy. apply Hu; auto. apply (Permutation_in _ (Permutation_sym Hp) Hy).
  - apply find_none_iff. intros y Hy. apply (proj1 (find_none_iff p l) E). apply (Permutation_in _ (Permutation_sym Hp) Hy).
Qed.

(* ---------------------------------------------------------------- permR: reordering of an elementwise related list *)
Definition permR {A} (R : A -> A -> Prop) (l l' : list A) : Prop := exists l1, Forall2 R l l1 /\ Permutation l1 l'.

Section PermR.
  Variable A : Type.
  Variable R : A -> A -> Prop.

  Lemma Forall2_in_l l l1 x : Forall2 R l l1 -> In x l -> exists y, In y l1 /\ R x y.
  Proof.
    intros H. induction H as [|a b l l1 Hab HF IH]; intros Hin; [destruct Hin|].
    destruct Hin as [->|Hin].
    - exists b. split; [left; reflexivity|assumption].
    - destruct (IH Hin) as [y [Hy Hr]]. exists y. split; [right; assumption|assumption].
  Qed.
  Lemma Forall2_in_r l l1 y : Forall2 R l l1 -> In y l1 -> exists x, In x l /\ R x y.
  Proof.
    intros H. induction H as [|a b l l1 Hab HF IH]; intros Hin; [destruct Hin|].
    destruct Hin as [->|Hin].
    - exists a. split; [left; reflexivity|assumption].
    - destruct (IH Hin) as [x [Hx Hr]]. exists x. split; [right; assumption|assumption].
  Qed.

  Lemma permR_in_l l l' x : permR R l l' -> In x l -> exists y, In y l' /\ R x y.
  Proof.
    intros [l1 [HF HP]] Hin. destruct (Forall2_in_l _ _ _ HF Hin) as [y [Hy Hr]].
    exists y. split; [apply (Permutation_in _ HP Hy)|assumption].
  Qed.
  Lemma permR_in_r l l' y : permR R l l' -> In y l' -> exists x, In x l /\ R x y.
  Proof.
    intros [l1 [HF HP]] Hin. apply (Permutation_in _ (Permutation_sym HP)) in Hin.
    apply (Forall2_in_r _ _ _ HF Hin).
  Qed.
  Lemma permR_nil_r l : permR R l [] -> l = [].
  Proof. intros [l1 [HF HP]]. apply Permutation_sym, Permutation_nil in HP. subst l1. inversion HF. reflexivity. Qed.

  Lemma permR_perm_r l l' l'' : permR R l l' -> Permutation l' l'' -> permR R l l''.
  Proof. intros [l1 [HF HP]] H. exists l1. split; [assumption|]. apply (perm_trans HP H). Qed.
  Lemma permR_app a b a' b' : permR R a b -> permR R a' b' -> permR R (a ++ a') (b ++ b').
  Proof.
    intros [l1 [HF HP]] [l1' [HF' HP']]. exists (l1 ++ l1'). split.
    - apply Forall2_app; assumption.
    - apply Permutation_app; assumption.
  Qed.

  Lemma Forall2_map_eq {B} (f g : A -> B) l l1 : (forall x y, R x y -> f x = g y) -> Forall2 R l l1 -> map f l = map g l1.
  Proof. intros Hfg H. induction H as [|a b l l1 Hab HF IH]; simpl; [reflexivity|]. rewrite (Hfg _ _ Hab), IH. reflexivity. Qed.
  Lemma permR_map {B} (f g : A -> B) l l' : (forall x y, R x y -> f x = g y) -> permR R l l' -> Permutation (map f l) (map g l').
  Proof. intros Hfg [l1 [HF HP]]. rewrite (Forall2_map_eq f g _ _ Hfg HF). apply Permutation_map. exact HP. Qed.

  Lemma permR_existsb (f g : A -> bool) l l' : (forall x y, R x y -> f x = g y) -> permR R l l' -> existsb f l = existsb g l'.
  Proof.
    intros Hfg [l1 [HF HP]]. rewrite <- (existsb_perm g _ _ HP). clear HP.
    induction HF as [|a b l l1 Hab HF IH]; simpl; [reflexivity|]. rewrite (Hfg _ _ Hab), IH. reflexivity.
  Qed.

  Lemma permR_flat_map_perm {B} (f g : A -> list B) l l' :
    (forall x y, R x y -> Permutation (f x) (g y)) -> permR R l l' -> Permutation (flat_map f l) (flat_map g l').
  Proof.
    intros Hfg [l1 [HF HP]]. apply perm_trans with (flat_map g l1).
    - clear HP. induction HF as [|a b l l1 Hab HF IH]; simpl; [apply Permutation_refl|].
      apply Permutation_app; [apply (Hfg _ _ Hab)|exact IH].
    - apply Permutation_flat_map. exact HP.
  Qed.

  (* a reordering of the image can be pulled back to a reordering of the source *)
  Lemma Forall2_perm_commute l1 l' : Permutation l1 l' -> forall l, Forall2 R l l1 ->
    exists l2, Permutation l l2 /\ Forall2 R l2 l'.
  Proof.
    intros H. induction H as [|x l1 l' Hp IH|x y t|l1 l' l'' H1 IH1 H2 IH2]; intros l HF.
    - inversion HF; subst. exists []. split; [apply Permutation_refl|constructor].
    - inversion HF as [|a b l0 l10 Hab HF0]; subst. destruct (IH _ HF0) as [l2 [Hp2 HF2]].
      exists (a :: l2). split; [apply perm_skip; assumption|constructor; assumption].
    - inversion HF as [|a b l0 l10 Hab HF0]; subst. inversion HF0 as [|a' b' l00 l100 Hab' HF00]; subst.
      exists (a' :: a :: l00). split; [apply perm_swap|]. constructor; [assumption|]. constructor; assumption.
    - destruct (IH1 _ HF) as [l2 [Hp2 HF2]]. destruct (IH2 _ HF2) as [l3 [Hp3 HF3]].
      exists l3. split; [apply (perm_trans Hp2 Hp3)|assumption].
  Qed.

  Lemma Forall2_flip' l l1 : Forall2 R l l1 -> (forall x y, R x y -> R y x) -> Forall2 R l1 l.
  Proof. intros H Hs. induction H as [|a b l l1 Hab HF IH]; constructor; auto. Qed.
  Lemma permR_sym l l' : (forall x y, R x y -> R y x) -> permR R l l' -> permR R l' l.
  Proof.
    intros Hs [l1 [HF HP]]. destruct (Forall2_perm_commute _ _ HP _ HF) as [l2 [Hp2 HF2]].
    exists l2. split; [apply Forall2_flip'; assumption|apply Permutation_sym; assumption].
  Qed.
End PermR.
Arguments permR_in_l {A R l l' x}. Arguments permR_in_r {A R l l' y}.
Arguments permR_map {A R B}. Arguments permR_existsb {A R}. Arguments permR_flat_map_perm {A R B}.
Arguments permR_app {A R a b a' b'}. Arguments permR_perm_r {A R l l' l''}. Arguments permR_nil_r {A R l}.

Lemma permR_flat_map {A B} (R : A -> A -> Prop) (S : B -> B -> Prop) (f g : A -> list B) l l' :
  (forall x y, R x y -> permR S (f x) (g y)) -> permR R l l' -> permR S (flat_map f l) (flat_map g l').
Proof.
  intros Hfg [l1 [HF HP]]. apply (@permR_perm_r _ S _ (flat_map g l1)).
  - clear HP. induction HF as [|a b l l1 Hab HF IH]; simpl.
    + exists []. split; [constructor|apply Permutation_refl].
    + apply permR_app; [apply (Hfg _ _ Hab)|exact IH].
  - apply Permutation_flat_map. exact HP.
Qed.

(* ---------------------------------------------------------------- the relation between two listings of one specification *)
Section Perm.
  Variable N : Num.
  Notation spec := (spec N). Notation channel := (channel N). Notation sample := (sample N).
  Notation modifier := (modifier N).

  Definition sample_perm (s s' : sample) : Prop :=
    s_name s = s_name s' /\ s_data s = s_data s' /\ Permutation (s_mods s) (s_mods s').
  Definition channel_perm (c c' : channel) : Prop :=
    c_name c = c_name c' /\ permR sample_perm (c_samples c) (c_samples c').
  Definition spec_perm (sp sp' : spec) : Prop :=
    permR channel_perm (channels sp) (channels sp') /\ Permutation (parameters sp) (parameters sp') /\ poi sp = poi sp'.

  Lemma sample_perm_sym s s' : sample_perm s s' -> sample_perm s' s.
  Proof. intros (H1 & H2 & H3). repeat split; [symmetry; assumption|symmetry; assumption|apply Permutation_sym; assumption]. Qed.
  Lemma channel_perm_sym c c' : channel_perm c c' -> channel_perm c' c.
  Proof. intros (H1 & H2). split; [symmetry; assumption|]. apply permR_sym; [exact sample_perm_sym|assumption]. Qed.
  Lemma spec_perm_sym sp sp' : spec_perm sp sp' -> spec_perm sp' sp.
  Proof.
    intros (H1 & H2 & H3). repeat split; [|apply Permutation_sym; assumption|symmetry; assumption].
    apply permR_sym; [exact channel_perm_sym|assumption].
  Qed.

  Lemma channel_perm_snames c c' : channel_perm c c' -> Permutation (map s_name (c_samples c)) (map s_name (c_samples c')).
  Proof. intros [_ H]. apply (permR_map s_name s_name _ _) in H; [exact H|]. intros x y (Hn & _). exact Hn. Qed.
  Lemma sample_perm_mkeys s s' : sample_perm s s' -> Permutation (map mkey (s_mods s)) (map mkey (s_mods s')).
  Proof. intros (_ & _ & H). apply Permutation_map. exact H. Qed.

  (* the three distinct-name facts behind the first refusal of build *)
  Lemma listing_nodup sp : listing_dups N sp = false ->
    NoDup (map c_name (channels sp)) /\
    (forall c, In c (channels sp) -> NoDup (map s_name (c_samples c))) /\
    (forall c s, In c (channels sp) -> In s (c_samples c) -> NoDup (map mkey (s_mods s))).
  Proof.
    unfold listing_dups. intros H. apply orb_false_iff in H. destruct H as [H H3].
    apply orb_false_iff in H. destruct H as [H1 H2]. split; [|split].
    - apply has_dup_false_NoDup. exact H1.
    - intros c Hc. apply has_dup_false_NoDup. apply (existsb_false_in _ _ c H2 Hc).
    - intros c s Hc Hs. apply has_dup_pair_false_NoDup.
      apply (existsb_false_in _ _ s H3). unfold all_samples. apply in_flat_map. exists c. split; assumption.
  Qed.

  Lemma cell_unknown sp cn sn : ~ In cn (map c_name (channels sp)) -> cell N sp cn sn = None.
  Proof. intros H. unfold cell. rewrite (filter_none N cn _ H). reflexivity. Qed.
  Lemma nbins_unknown sp cn : ~ In cn (map c_name (channels sp)) -> nbins N sp cn = 0.
  Proof.
    intros H. unfold nbins. rewrite last_find_none; [reflexivity|].
    intros y Hy. destruct (String.eqb_spec (c_name y) cn) as [e|ne]; [|reflexivity].
    exfalso. apply H. rewrite <- e. apply in_map. exact Hy.
  Qed.

  Definition uniformb (sp : spec) : bool :=
    forallb (fun c => forallb (fun s => Nat.eqb (length (s_data s)) (nbins N sp (c_name c))) (c_samples c)) (channels sp).
  Lemma uniformb_in sp c s : uniformb sp = true -> In c (channels sp) -> In s (c_samples c) ->
    length (s_data s) = nbins N sp (c_name c).
  Proof.
    unfold uniformb. intros H Hc Hs. rewrite forallb_forall in H. specialize (H c Hc). cbv beta in H.
    rewrite forallb_forall in H. specialize (H s Hs). cbv beta in H. apply Nat.eqb_eq. exact H.
  Qed.

  (* with distinct names, the nominal length test of build is the uniformity of the listing *)
  Lemma nominal_false_of_nonuniform sp :
    NoDup (map c_name (channels sp)) -> (forall c, In c (channels sp) -> NoDup (map s_name (c_samples c))) ->
    uniformb sp = false -> nominal_lengths_ok N sp (cfg_channels N sp) (cfg_samples N sp) = false.
  Proof.
    intros Hc Hs Hu. unfold uniformb in Hu.
    destruct (forallb_false_ex _ _ Hu) as [c [Hin Hf]]. cbv beta in Hf.
    destruct (forallb_false_ex _ _ Hf) as [s [Hsin Hne]]. cbv beta in Hne.
    destruct (nominal_lengths_ok N sp (cfg_channels N sp) (cfg_samples N sp)) eqn:E; [|reflexivity].
    exfalso. unfold nominal_lengths_ok in E. rewrite forallb_forall in E.
    assert (Hcn : In (c_name c) (cfg_channels N sp)).
    { unfold cfg_channels. apply sort_uniq_in. apply in_map. exact Hin. }
    specialize (E _ Hcn). cbv beta in E. rewrite forallb_forall in E.
    assert (Hsn : In (s_name s) (cfg_samples N sp)).
    { unfold cfg_samples. apply sort_uniq_in. apply in_map. unfold all_samples. apply in_flat_map. exists c. split; assumption. }
    specialize (E _ Hsn). cbv beta in E. rewrite (cell_present N sp Hc Hs c s Hin Hsin) in E. congruence.
  Qed.

  (* ---------------------------------------------------------------- level facts of spec_perm *)
  Section Levels.
    Variables sp sp' : spec.
    Hypothesis HP : spec_perm sp sp'.

    Lemma chan_names_perm : Permutation (map c_name (channels sp)) (map c_name (channels sp')).
    Proof. destruct HP as [H _]. apply (@permR_map _ channel_perm _ c_name c_name); [|exact H]. intros x y [Hn _]. exact Hn. Qed.
    Lemma all_samples_permR : permR sample_perm (all_samples N sp) (all_samples N sp').
    Proof. destruct HP as [H _]. unfold all_samples. apply (permR_flat_map channel_perm sample_perm); [|exact H]. intros x y [_ Hs]. exact Hs. Qed.
    Lemma sample_names_perm : Permutation (map s_name (all_samples N sp)) (map s_name (all_samples N sp')).
    Proof. apply (@permR_map _ sample_perm _ s_name s_name); [|exact all_samples_permR]. intros x y (Hn & _). exact Hn. Qed.
    Lemma mkeys_perm : Permutation (flat_map (fun s : sample => map mkey (s_mods s)) (all_samples N sp))
                                   (flat_map (fun s : sample => map mkey (s_mods s)) (all_samples N sp')).
    Proof. apply (@permR_flat_map_perm _ sample_perm); [|exact all_samples_permR]. intros x y H. apply sample_perm_mkeys. exact H. Qed.
    Lemma shapesys_names_perm : Permutation (shapesys_names_listed N sp) (shapesys_names_listed N sp').
    Proof.
      unfold shapesys_names_listed. apply (@permR_flat_map_perm _ sample_perm); [|exact all_samples_permR].
      intros x y (_ & _ & H). apply Permutation_flat_map. exact H.
    Qed.

    Lemma listing_dups_perm : listing_dups N sp' = listing_dups N sp.
    Proof.
      unfold listing_dups. symmetry. f_equal; [f_equal|].
      - apply has_dup_perm. exact chan_names_perm.
      - destruct HP as [H _]. apply (@permR_existsb _ channel_perm); [|exact H].
        intros x y Hxy. apply has_dup_perm. apply channel_perm_snames. exact Hxy.
      - apply (@permR_existsb _ sample_perm); [|exact all_samples_permR].
        intros x y Hxy. apply has_dup_pair_perm. apply sample_perm_mkeys. exact Hxy.
    Qed.
    Lemma shapesys_dups_perm : has_dup (shapesys_names_listed N sp') = has_dup (shapesys_names_listed N sp).
    Proof. symmetry. apply has_dup_perm. exact shapesys_names_perm. Qed.
    Lemma user_dups_perm : user_dups N sp' = user_dups N sp.
    Proof. unfold user_dups. symmetry. apply has_dup_perm. apply Permutation_map. destruct HP as (_ & H & _). exact H. Qed.

    Lemma cfg_channels_perm : cfg_channels N sp' = cfg_channels N sp.
    Proof.
      unfold cfg_channels. apply sort_uniq_ext. intros x. split; apply Permutation_in.
      - apply Permutation_sym. exact chan_names_perm.
      - exact chan_names_perm.
    Qed.
    Lemma cfg_samples_perm : cfg_samples N sp' = cfg_samples N sp.
    Proof.
      unfold cfg_samples. apply sort_uniq_ext. intros x. split; apply Permutation_in.
      - apply Permutation_sym. exact sample_names_perm.
      - exact sample_names_perm.
    Qed.
    Lemma cfg_modifiers_perm : cfg_modifiers N sp' = cfg_modifiers N sp.
    Proof.
      unfold cfg_modifiers. symmetry. apply psort_perm_eq.
      - rewrite map_id. apply NoDup_nodup.
      - apply NoDup_Permutation; try apply NoDup_nodup. intros x. rewrite !nodup_In. split; apply Permutation_in.
        + exact mkeys_perm.
        + apply Permutation_sym. exact mkeys_perm.
    Qed.

    (* ---- lookups, once names are distinct on both sides ---- *)
    Hypothesis Hc : NoDup (map c_name (channels sp)).
    Hypothesis Hs : forall c, In c (channels sp) -> NoDup (map s_name (c_samples c)).
    Hypothesis Hm : forall c s, In c (channels sp) -> In s (c_samples c) -> NoDup (map mkey (s_mods s)).
    Hypothesis Hc' : NoDup (map c_name (channels sp')).
    Hypothesis Hs' : forall c, In c (channels sp') -> NoDup (map s_name (c_samples c)).

    Lemma chan_cases cn :
      (exists c c', In c (channels sp) /\ In c' (channels sp') /\ c_name c = cn /\ channel_perm c c') \/
      (~ In cn (map c_name (channels sp)) /\ ~ In cn (map c_name (channels sp'))).
    Proof.
      destruct (in_dec string_dec cn (map c_name (channels sp))) as [Hi|Hn].
      - left. apply in_map_iff in Hi. destruct Hi as [c [Hn Hin]].
        destruct HP as [H _]. destruct (permR_in_l H Hin) as [c' [Hin' Hcc]].
        exists c, c'. split; [exact Hin|split; [exact Hin'|split; [exact Hn|exact Hcc]]].
      - right. split; [exact Hn|]. intros Hi. apply Hn. apply (Permutation_in _ (Permutation_sym chan_names_perm) Hi).
    Qed.

    Lemma cell_rel cn sn :
      (exists s s', cell N sp cn sn = Some s /\ cell N sp' cn sn = Some s' /\ sample_perm s s' /\ NoDup (map mkey (s_mods s))) \/
      (cell N sp cn sn = None /\ cell N sp' cn sn = None).
    Proof.
      destruct (chan_cases cn) as [(c & c' & Hin & Hin' & Hcn & Hcp)|[Hn Hn']].
      - subst cn. destruct (in_dec string_dec sn (map s_name (c_samples c))) as [Hi|Hni].
        + left. apply in_map_iff in Hi. destruct Hi as [s [Hsn Hsin]]. subst sn.
          destruct Hcp as [Hname Hps]. destruct (permR_in_l Hps Hsin) as [s' [Hsin' Hss]].
          exists s, s'. split; [|split; [|split]].
          * apply (cell_present N sp Hc Hs c s Hin Hsin).
          * rewrite Hname. destruct Hss as (Hnm & _). rewrite Hnm. apply (cell_present N sp' Hc' Hs' c' s' Hin' Hsin').
          * exact Hss.
          * apply (Hm c s Hin Hsin).
        + right. split.
          * apply (cell_absent N sp Hc Hs c sn Hin Hni).
          * destruct Hcp as [Hname Hps]. rewrite Hname. apply (cell_absent N sp' Hc' Hs' c' sn Hin').
            intros Hi. apply Hni. apply (Permutation_in _ (Permutation_sym (channel_perm_snames c c' (conj Hname Hps))) Hi).
      - right. split; apply cell_unknown; assumption.
    Qed.

    Lemma cell_data_perm cn sn : option_map s_data (cell N sp' cn sn) = option_map s_data (cell N sp cn sn).
    Proof.
      destruct (cell_rel cn sn) as [(s & s' & E & E' & (_ & Hd & _) & _)|[E E']]; rewrite E, E'; simpl; [|reflexivity].
      rewrite Hd. reflexivity.
    Qed.
    Lemma cellmod_perm cn sn k : cellmod N sp' cn sn k = cellmod N sp cn sn k.
    Proof.
      unfold cellmod. destruct (cell_rel cn sn) as [(s & s' & E & E' & (_ & _ & Hpm) & Hnd)|[E E']]; rewrite E, E'; [|reflexivity].
      unfold smod. apply last_find_perm_unique; [exact Hpm|].
      intros x y Hx Hy Hpx Hpy. apply pair_eqb_eq in Hpx, Hpy.
      apply (NoDup_map_inj_in mkey (s_mods s) x y Hnd Hx Hy). congruence.
    Qed.
    Lemma find_user_perm name : user_dups N sp = false -> find_user N sp' name = find_user N sp name.
    Proof.
      intros Hu. unfold user_dups in Hu. apply has_dup_false_NoDup in Hu. unfold find_user.
      apply find_perm_unique; [destruct HP as (_ & H & _); exact H|].
      intros x y Hx Hy Hpx Hpy. apply String.eqb_eq in Hpx, Hpy.
      apply (NoDup_map_inj_in pc_name (parameters sp) x y Hu Hx Hy). congruence.
    Qed.

    Lemma nbins_perm : uniformb sp = true -> forall cn, nbins N sp' cn = nbins N sp cn.
    Proof.
      intros Hu cn. destruct (chan_cases cn) as [(c & c' & Hin & Hin' & Hcn & [Hname Hps])|[Hn Hn']].
      - subst cn.
        assert (E' : nbins N sp' (c_name c) = match c_samples c' with s :: _ => length (s_data s) | [] => 0 end).
        { rewrite Hname. apply (nbins_is N sp' Hc' c' Hin'). }
        rewrite E'. destruct (c_samples c') as [|s' t'] eqn:Ec'.
        + apply permR_nil_r in Hps. rewrite (nbins_is N sp Hc c Hin), Hps. reflexivity.
        + destruct (permR_in_r Hps (or_introl eq_refl)) as [s [Hsin (_ & Hd & _)]].
          rewrite <- Hd. apply (uniformb_in sp c s Hu Hin Hsin).
      - rewrite (nbins_unknown sp cn Hn), (nbins_unknown sp' cn Hn'). reflexivity.
    Qed.
    Lemma uniformb_perm_true : uniformb sp = true -> uniformb sp' = true.
    Proof.
      intros Hu. unfold uniformb. apply forallb_forall. intros c' Hin'. apply forallb_forall. intros s' Hsin'.
      apply Nat.eqb_eq. destruct HP as [H _]. destruct (permR_in_r H Hin') as [c [Hin [Hname Hps]]].
      destruct (permR_in_r Hps Hsin') as [s [Hsin (_ & Hd & _)]].
      rewrite <- Hd, <- Hname, (nbins_perm Hu). apply (uniformb_in sp c s Hu Hin Hsin).
    Qed.
  End Levels.

  Lemma uniformb_perm sp sp' : spec_perm sp sp' -> listing_dups N sp = false -> uniformb sp' = uniformb sp.
  Proof.
    intros HP Hl. assert (Hl' : listing_dups N sp' = false) by (rewrite (listing_dups_perm sp sp' HP); exact Hl).
    destruct (listing_nodup sp Hl) as (Hc & Hs & Hm). destruct (listing_nodup sp' Hl') as (Hc' & Hs' & Hm').
    destruct (uniformb sp) eqn:E.
    - apply (uniformb_perm_true sp sp' HP Hc Hc'). exact E.
    - destruct (uniformb sp') eqn:E'; [|reflexivity].
      rewrite (uniformb_perm_true sp' sp (spec_perm_sym _ _ HP) Hc' Hc E') in E. discriminate.
  Qed.

  (* ---------------------------------------------------------------- build_hot sees the specification through its lookups only *)
  Section Ext.
    Variables sp sp' : spec.
    Variables (chs smps : list string) (mods : list (string * string)).
    Hypothesis Hcell : forall cn sn, option_map s_data (cell N sp' cn sn) = option_map s_data (cell N sp cn sn).
    Hypothesis Hmod : forall cn sn k, cellmod N sp' cn sn k = cellmod N sp cn sn k.
    Hypothesis Hnb : forall cn, nbins N sp' cn = nbins N sp cn.

    Lemma cell_data_ext {B} (f : list (V N) -> B) (d : B) cn sn :
      match cell N sp' cn sn with Some s => f (s_data s) | None => d end =
      match cell N sp cn sn with Some s => f (s_data s) | None => d end.
    Proof.
      specialize (Hcell cn sn). destruct (cell N sp' cn sn) as [s'|], (cell N sp cn sn) as [s|]; simpl in Hcell; try discriminate; [|reflexivity].
      inversion Hcell as [Hd]. reflexivity.
    Qed.

    Lemma declared_ext cn sn k : declared N sp' cn sn k = declared N sp cn sn k.
    Proof. unfold declared. rewrite Hmod. reflexivity. Qed.
    Lemma nomf_ext cn sn b : nomf N sp' cn sn b = nomf N sp cn sn b.
    Proof. unfold nomf. exact (cell_data_ext (fun l => nth b l (n0 N)) (n0 N) cn sn). Qed.
    Lemma nominal_lengths_ok_ext : nominal_lengths_ok N sp' chs smps = nominal_lengths_ok N sp chs smps.
    Proof.
      unfold nominal_lengths_ok. apply forallb_ext. intros cn. apply forallb_ext. intros sn. rewrite Hnb.
      exact (cell_data_ext (fun l => Nat.eqb (length l) (nbins N sp cn)) true cn sn).
    Qed.
    Lemma lengths_ok_ext t f : lengths_ok N sp' chs smps mods t f = lengths_ok N sp chs smps mods t f.
    Proof.
      unfold lengths_ok. apply forallb_ext. intros k. apply forallb_ext. intros sn. apply forallb_ext. intros cn.
      rewrite Hmod, Hnb. reflexivity.
    Qed.
    Lemma carries_ext k sn : carries N sp' chs k sn = carries N sp chs k sn.
    Proof. unfold carries. apply existsb_ext. intros cn. apply declared_ext. Qed.
    Lemma gpos_ext : gpos N sp' chs = gpos N sp chs.
    Proof. unfold gpos. apply flat_map_ext. intros cn. rewrite Hnb. reflexivity. Qed.
    Lemma maskrow_ext k sn : maskrow N sp' chs k sn = maskrow N sp chs k sn.
    Proof. unfold maskrow. rewrite gpos_ext. apply map_ext. intros p. apply declared_ext. Qed.
    Lemma first_carrier_ext k : first_carrier N sp' chs smps k = first_carrier N sp chs smps k.
    Proof. unfold first_carrier. apply find_ext. intros sn. apply carries_ext. Qed.
    Lemma last_carrier_ext k : last_carrier N sp' chs smps k = last_carrier N sp chs smps k.
    Proof. unfold last_carrier, last_find. apply find_ext. intros sn. apply carries_ext. Qed.
    Lemma stat_masks_consistent_ext k : stat_masks_consistent N sp' chs smps k = stat_masks_consistent N sp chs smps k.
    Proof.
      unfold stat_masks_consistent. rewrite first_carrier_ext.
      destruct (first_carrier N sp chs smps k) as [s0|]; [|reflexivity].
      apply forallb_ext. intros sn. rewrite carries_ext, !maskrow_ext. reflexivity.
    Qed.
    Lemma uncf_ext cn sn k b : uncf N sp' cn sn k b = uncf N sp cn sn k b.
    Proof. unfold uncf. rewrite Hmod. reflexivity. Qed.
    Lemma stat_nomsall_ext k cn b : stat_nomsall N sp' chs smps k cn b = stat_nomsall N sp chs smps k cn b.
    Proof.
      unfold stat_nomsall. rewrite (filter_ext _ _ (carries_ext k) smps). f_equal.
      apply map_ext. intros sn. apply nomf_ext.
    Qed.
    Lemma stat_relvar_ext k cn b : stat_relvar N sp' chs smps k cn b = stat_relvar N sp chs smps k cn b.
    Proof.
      unfold stat_relvar. cbv zeta. f_equal. apply map_ext. intros sn.
      rewrite stat_nomsall_ext, uncf_ext. reflexivity.
    Qed.
    Lemma stat_vars_ext k : stat_vars N sp' chs smps k = stat_vars N sp chs smps k.
    Proof.
      unfold stat_vars. rewrite first_carrier_ext, gpos_ext.
      destruct (first_carrier N sp chs smps k) as [s0|]; [|reflexivity].
      apply flat_map_ext. intros p. rewrite declared_ext, stat_relvar_ext. reflexivity.
    Qed.
    Lemma walk_decls_ext t : walk_decls N sp' chs smps mods t = walk_decls N sp chs smps mods t.
    Proof.
      unfold walk_decls. apply flat_map_ext. intros cn. apply flat_map_ext. intros sn. apply flat_map_ext. intros k.
      rewrite Hmod. reflexivity.
    Qed.
    Lemma first_decls_ext t : first_decls N sp' chs smps mods t = first_decls N sp chs smps mods t.
    Proof. unfold first_decls. rewrite walk_decls_ext. reflexivity. Qed.
    Lemma sf_sizes_ext name : sf_sizes N sp' chs smps mods name = sf_sizes N sp chs smps mods name.
    Proof.
      unfold sf_sizes. rewrite walk_decls_ext. f_equal. apply flat_map_ext. intros d.
      destruct (String.eqb (fst d) name); [|reflexivity]. f_equal.
      exact (cell_data_ext (fun l => length l) 0 (fst (fst (snd d))) (snd (fst (snd d)))).
    Qed.
    Lemma required_ext t : required N sp' chs smps mods t = required N sp chs smps mods t.
    Proof.
      destruct t; unfold required; rewrite ?first_decls_ext; try reflexivity.
      - apply map_ext. intros d. rewrite sf_sizes_ext. reflexivity.
      - apply map_ext. intros [name [[cn sn] m]]. do 3 f_equal.
        exact (cell_data_ext (fun l => l) [] cn sn).
      - apply map_ext. intros k. rewrite stat_vars_ext. reflexivity.
    Qed.
    Lemma required_all_ext : required_all N sp' chs smps mods = required_all N sp chs smps mods.
    Proof. unfold required_all. apply fold_left_ext. intros acc t. rewrite required_ext. reflexivity. Qed.
    Lemma reindex_ok_ext ps k : reindex_ok N sp' chs smps ps k = reindex_ok N sp chs smps ps k.
    Proof.
      unfold reindex_ok. rewrite last_carrier_ext.
      destruct (last_carrier N sp chs smps k) as [sn|]; [|reflexivity]. rewrite maskrow_ext. reflexivity.
    Qed.

    Hypothesis Hld : listing_dups N sp' = listing_dups N sp.
    Hypothesis Hss : has_dup (shapesys_names_listed N sp') = has_dup (shapesys_names_listed N sp).
    Hypothesis Hud : user_dups N sp' = user_dups N sp.
    Hypothesis Huser : user_dups N sp = false -> forall name, find_user N sp' name = find_user N sp name.
    Hypothesis Hpoi : poi sp' = poi sp.

    Lemma reduce_one_ext name rs start : user_dups N sp = false -> reduce_one N sp' name rs start = reduce_one N sp name rs start.
    Proof. intros Hu. unfold reduce_one. rewrite (Huser Hu name). reflexivity. Qed.
    Lemma reduce_all_ext l : user_dups N sp = false -> forall start, reduce_all N sp' l start = reduce_all N sp l start.
    Proof.
      intros Hu. induction l as [|[name rs] t IH]; intros start; simpl; [reflexivity|].
      rewrite (reduce_one_ext name rs start Hu). destruct (reduce_one N sp name rs start) as [p|e]; simpl; [|reflexivity].
      rewrite IH. reflexivity.
    Qed.
    Lemma set_poi_ext ps : set_poi N sp' ps = set_poi N sp ps.
    Proof. unfold set_poi. rewrite Hpoi. reflexivity. Qed.

    Lemma build_hot_ext : build_hot N sp' chs smps mods = build_hot N sp chs smps mods.
    Proof.
      unfold build_hot.
      rewrite Hld, Hss, nominal_lengths_ok_ext, !lengths_ok_ext, Hud.
      rewrite (forallb_ext _ _ (mods_of mods Staterror) stat_masks_consistent_ext).
      assert (E1 : forallb (fun k => match first_carrier N sp' chs smps k with Some _ => true | None => false end) (mods_of mods Staterror) =
                   forallb (fun k => match first_carrier N sp chs smps k with Some _ => true | None => false end) (mods_of mods Staterror)).
      { apply forallb_ext. intros k. rewrite first_carrier_ext. reflexivity. }
      rewrite E1.
      assert (Hcase : user_dups N sp = true \/ user_dups N sp = false) by (destruct (user_dups N sp); auto).
      destruct Hcase as [Eu|Eu]; rewrite Eu; [reflexivity|].
      rewrite required_all_ext, (reduce_all_ext _ Eu).
      destruct (reduce_all N sp (required_all N sp chs smps mods) 0) as [ps|e]; [|reflexivity].
      cbn [bind].
      rewrite (check_all_ext _ _ (mods_of mods Shapesys) (reindex_ok_ext ps)).
      rewrite (check_all_ext _ _ (mods_of mods Staterror) (reindex_ok_ext ps)).
      rewrite set_poi_ext. reflexivity.
    Qed.
  End Ext.

  (* ---------------------------------------------------------------- the theorem *)
  Theorem build_listing_invariant : forall sp sp', spec_perm sp sp' -> build N sp' = build N sp.
  Proof.
    intros sp sp' HP. unfold build.
    rewrite (cfg_channels_perm sp sp' HP), (cfg_samples_perm sp sp' HP), (cfg_modifiers_perm sp sp' HP).
    pose proof (listing_dups_perm sp sp' HP) as Hld.
    pose proof (shapesys_dups_perm sp sp' HP) as Hss.
    destruct (listing_dups N sp) eqn:El.
    - unfold build_hot. rewrite Hld, El. reflexivity.
    - destruct (listing_nodup sp El) as (Hc & Hs & Hm).
      destruct (listing_nodup sp' Hld) as (Hc' & Hs' & Hm').
      pose proof (uniformb_perm sp sp' HP El) as Hun.
      destruct (uniformb sp) eqn:Eu.
      + apply build_hot_ext.
        * apply (cell_data_perm sp sp' HP Hc Hs Hm Hc' Hs').
        * apply (cellmod_perm sp sp' HP Hc Hs Hm Hc' Hs').
        * apply (nbins_perm sp sp' HP Hc Hc' Eu).
        * rewrite Hld, El. reflexivity.
        * exact Hss.
        * apply (user_dups_perm sp sp' HP).
        * intros Hu name. apply (find_user_perm sp sp' HP name Hu).
        * destruct HP as (_ & _ & H). symmetry. exact H.
      + pose proof (nominal_false_of_nonuniform sp Hc Hs Eu) as Hn.
        pose proof (nominal_false_of_nonuniform sp' Hc' Hs' Hun) as Hn'.
        rewrite (cfg_channels_perm sp sp' HP), (cfg_samples_perm sp sp' HP) in Hn'.
        unfold build_hot. rewrite Hld, El, Hss, Hn, Hn'. reflexivity.
  Qed.
End Perm.

(* ---------------------------------------------------------------- non-vacuity: an accepted specification and a reordering of every level *)
From Coq Require Import QArith Qcanon.
Local Open Scope nat_scope.

Lemma result_ok_witness {A} (r : result A) (P : A -> bool) :
  match r with Ok a => P a | Err _ => false end = true -> exists a, r = Ok a /\ P a = true.
Proof. destruct r as [a|e]; [intros H; exists a; split; [reflexivity|exact H]|discriminate]. Qed.

Definition pq (l : list Z) : list Qc := map (fun z => mkq z 1) l.
Definition pm (name : string) (t : mtype) (d : moddata QcNum) : modifier QcNum := Build_modifier (N:=QcNum) name t d.

Definition x_mu : modifier QcNum := pm "mu" Normfactor (@MDNone QcNum).
Definition x_ns : modifier QcNum := pm "ns" Normsys (@MDNorm QcNum (mkq 9 10) (mkq 11 10)).
Definition x_ns2 : modifier QcNum := pm "ns" Normsys (@MDNorm QcNum (mkq 8 10) (mkq 12 10)).
Definition x_stat_a : modifier QcNum := pm "mcstat" Staterror (@MDList QcNum (pq [5; 6]%Z)).
Definition x_stat_b : modifier QcNum := pm "mcstat" Staterror (@MDList QcNum (pq [2; 1]%Z)).
Definition x_stat_c : modifier QcNum := pm "mcstat" Staterror (@MDList QcNum (pq [7; 8; 9]%Z)).
Definition x_stat_d : modifier QcNum := pm "mcstat" Staterror (@MDList QcNum (pq [1; 1; 1]%Z)).
Definition x_uncorr : modifier QcNum := pm "uncorr" Shapesys (@MDList QcNum (pq [3; 4]%Z)).
Definition x_hs : modifier QcNum := pm "hs" Histosys (@MDHisto QcNum (pq [18; 9]%Z) (pq [22; 11]%Z)).
Definition x_sf : modifier QcNum := pm "sf" Shapefactor (@MDNone QcNum).

Definition x_cfg_mu : parcfg QcNum :=
  Build_parcfg (N:=QcNum) "mu" (Some [mkq 1 1]) (Some [(mkq 0 1, mkq 5 1)]) None None None (Some false).
Definition x_cfg_ns : parcfg QcNum :=
  Build_parcfg (N:=QcNum) "ns" (Some [mkq 0 1]) (Some [(mkq (-3) 1, mkq 3 1)]) None None None None.

Definition x_sig : sample QcNum := Build_sample (N:=QcNum) "sig" (pq [5; 6]%Z) [x_mu; x_ns].
Definition x_bkg : sample QcNum := Build_sample (N:=QcNum) "bkg" (pq [50; 60]%Z) [x_stat_a; x_uncorr; x_ns].
Definition x_bkg2 : sample QcNum := Build_sample (N:=QcNum) "bkg2" (pq [20; 10]%Z) [x_stat_b; x_hs].
Definition x_cbkg : sample QcNum := Build_sample (N:=QcNum) "bkg" (pq [70; 80; 90]%Z) [x_stat_c; x_ns2].
Definition x_cbkg2 : sample QcNum := Build_sample (N:=QcNum) "bkg2" (pq [7; 8; 9]%Z) [x_stat_d; x_sf].
(* the same samples with their modifiers listed in another order *)
Definition y_sig : sample QcNum := Build_sample (N:=QcNum) "sig" (pq [5; 6]%Z) [x_ns; x_mu].
Definition y_bkg : sample QcNum := Build_sample (N:=QcNum) "bkg" (pq [50; 60]%Z) [x_ns; x_stat_a; x_uncorr].
Definition y_bkg2 : sample QcNum := Build_sample (N:=QcNum) "bkg2" (pq [20; 10]%Z) [x_hs; x_stat_b].
Definition y_cbkg : sample QcNum := Build_sample (N:=QcNum) "bkg" (pq [70; 80; 90]%Z) [x_ns2; x_stat_c].
Definition y_cbkg2 : sample QcNum := Build_sample (N:=QcNum) "bkg2" (pq [7; 8; 9]%Z) [x_sf; x_stat_d].

Definition perm_example_spec : spec QcNum :=
  Build_spec (N:=QcNum)
    [ Build_channel (N:=QcNum) "SR" [x_sig; x_bkg; x_bkg2];
      Build_channel (N:=QcNum) "CR" [x_cbkg; x_cbkg2] ]
    [ x_cfg_mu; x_cfg_ns ] (Some "mu"%string).

(* channels swapped, samples rotated / swapped, modifiers reordered on every sample, configuration entries swapped *)
Definition perm_example_spec' : spec QcNum :=
  Build_spec (N:=QcNum)
    [ Build_channel (N:=QcNum) "CR" [y_cbkg2; y_cbkg];
      Build_channel (N:=QcNum) "SR" [y_bkg2; y_sig; y_bkg] ]
    [ x_cfg_ns; x_cfg_mu ] (Some "mu"%string).

Example perm_example_related : spec_perm QcNum perm_example_spec perm_example_spec'.
Proof.
  unfold spec_perm, perm_example_spec, perm_example_spec'. cbn [channels parameters poi]. split; [|split; [apply perm_swap|reflexivity]].
  exists [ Build_channel (N:=QcNum) "SR" [y_bkg2; y_sig; y_bkg]; Build_channel (N:=QcNum) "CR" [y_cbkg2; y_cbkg] ].
  split; [|apply perm_swap].
  constructor; [|constructor; [|constructor]].
  - split; [reflexivity|]. cbn [c_samples]. exists [y_sig; y_bkg; y_bkg2]. split.
    + constructor; [|constructor; [|constructor; [|constructor]]].
      * split; [reflexivity|split; [reflexivity|apply perm_swap]].
      * split; [reflexivity|split; [reflexivity|]]. cbn [s_mods x_bkg y_bkg].
        apply (Permutation_sym (Permutation_cons_app [x_stat_a; x_uncorr] [] x_ns (Permutation_refl _))).
      * split; [reflexivity|split; [reflexivity|apply perm_swap]].
    + apply (Permutation_sym (Permutation_cons_app [y_sig; y_bkg] [] y_bkg2 (Permutation_refl _))).
  - split; [reflexivity|]. cbn [c_samples]. exists [y_cbkg; y_cbkg2]. split; [|apply perm_swap].
    constructor; [|constructor; [|constructor]].
    + split; [reflexivity|split; [reflexivity|apply perm_swap]].
    + split; [reflexivity|split; [reflexivity|apply perm_swap]].
Qed.

(* the example is accepted: six parameter sets, 13 parameters, POI at index 1 *)
Example perm_example_accepted :
  exists md, build QcNum perm_example_spec = Ok md /\
             map (p_name QcNum) (md_psets QcNum md) = ["hs"; "mu"; "ns"; "sf"; "uncorr"; "mcstat"]%string /\
             md_npars QcNum md = 13 /\ md_poi QcNum md = Some 1.
Proof.
  destruct (result_ok_witness (build QcNum perm_example_spec)
              (fun md => list_eqb String.eqb (map (p_name QcNum) (md_psets QcNum md)) ["hs"; "mu"; "ns"; "sf"; "uncorr"; "mcstat"]%string &&
                         Nat.eqb (md_npars QcNum md) 13 &&
                         match md_poi QcNum md with Some i => Nat.eqb i 1 | None => false end)) as (md & Hb & HP).
  { vm_compute. reflexivity. }
  exists md. split; [exact Hb|].
  apply andb_true_iff in HP. destruct HP as [HP H3]. apply andb_true_iff in HP. destruct HP as [H1 H2].
  split; [|split].
  - clear - H1. revert H1. generalize (map (p_name QcNum) (md_psets QcNum md)). intros l.
    repeat (destruct l as [|? l]; [discriminate|]; cbn [list_eqb]; intros H; apply andb_true_iff in H; destruct H as [E H];
            apply String.eqb_eq in E; subst; revert H).
    destruct l; [reflexivity|discriminate].
  - apply Nat.eqb_eq. exact H2.
  - destruct (md_poi QcNum md) as [i|]; [|discriminate]. apply Nat.eqb_eq in H3. subst. reflexivity.
Qed.

(* hence the reordered listing builds literally the same model *)
Example perm_example_same : build QcNum perm_example_spec' = build QcNum perm_example_spec.
Proof. apply build_listing_invariant. exact perm_example_related. Qed.
