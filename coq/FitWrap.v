(* C05 (part 1) - the bookkeeping around a fit: infer/mle.py (fit, fixed_poi_fit, _validate_fit_inputs),
   optimize/common.py (shim, _make_stitch_pars), tensor/common.py (_TensorViewer.__init__/stitch),
   optimize/mixins.py (_internal_minimize, _internal_postprocess, minimize).
   The optimiser itself (SLSQP / MIGRAD) is a Section variable; what is assumed of it is a Section hypothesis
   of exactly the theorems that need it. *)
From Coq Require Import Bool Arith Lia Permutation Sorting.Sorted List.
Require Import PV.Sort.
Import ListNotations.
Local Open Scope list_scope.

(* ------------------------------------------------------------------------------------------ *)
(* numpy argsort on integer keys, as used by _TensorViewer: positions ordered by key.
   Transcribed as a stable insertion sort of (key, position) pairs. *)
Definition argsort (l : list nat) : list nat :=
  map snd (isort nat Nat.leb (nat * nat) fst (combine l (seq 0 (length l)))).

Lemma natleb_total a b : Nat.leb a b = true \/ Nat.leb b a = true.
Proof. destruct (Nat.leb a b) eqn:E; auto. right. apply Nat.leb_le. apply Nat.leb_gt in E. lia. Qed.
Lemma natleb_trans a b c : Nat.leb a b = true -> Nat.leb b c = true -> Nat.leb a c = true.
Proof. rewrite !Nat.leb_le. lia. Qed.
Lemma natleb_antisym a b : Nat.leb a b = true -> Nat.leb b a = true -> a = b.
Proof. rewrite !Nat.leb_le. lia. Qed.

Lemma map_fst_combine {X Y} (l : list X) (l' : list Y) : length l = length l' -> map fst (combine l l') = l.
Proof. revert l'. induction l as [|a t IH]; intros [|b t'] H; simpl in *; try discriminate; auto.
  f_equal. apply IH. lia. Qed.

Lemma in_combine_seq {X} (dx : X) (l : list X) : forall s a j,
  In (a, j) (combine l (seq s (length l))) -> s <= j < s + length l /\ nth (j - s) l dx = a.
Proof. induction l as [|x t IH]; simpl; intros s a j H; [contradiction|].
  destruct H as [H|H].
  - inversion H; subst. split; [lia|]. now rewrite Nat.sub_diag.
  - apply IH in H. destruct H as [Hr Hn]. split; [lia|].
    replace (j - s) with (S (j - S s)) by lia. exact Hn. Qed.

Lemma sorted_map_fst (S : list (nat * nat)) :
  StronglySorted (le nat Nat.leb (nat * nat) fst) S -> StronglySorted (le nat Nat.leb nat (fun x => x)) (map fst S).
Proof. induction 1 as [|a t Ht IH Ha]; simpl; constructor; auto.
  rewrite Forall_forall in *. intros x Hx. apply in_map_iff in Hx. destruct Hx as [y [<- Hy]]. exact (Ha _ Hy). Qed.

Lemma seq_sorted n s : StronglySorted (le nat Nat.leb nat (fun x => x)) (seq s n).
Proof. revert s. induction n as [|n IH]; intros s; simpl; constructor; auto.
  rewrite Forall_forall. intros x Hx. apply in_seq in Hx. unfold le. apply Nat.leb_le. lia. Qed.

(* the specification of argsort on a permutation of 0..n-1: entry i is the position of value i *)
Theorem argsort_spec l n : Permutation l (seq 0 n) ->
  length (argsort l) = n /\
  forall i, i < n -> nth i (argsort l) 0 < n /\ nth (nth i (argsort l) 0) l 0 = i.
Proof.
  intros Hp. assert (Hlen : length l = n) by (rewrite (Permutation_length Hp); apply seq_length).
  unfold argsort. set (C := combine l (seq 0 (length l))). set (S := isort nat Nat.leb (nat * nat) fst C).
  assert (HpS : Permutation S C) by apply isort_perm.
  assert (HfC : map fst C = l) by (apply map_fst_combine; now rewrite seq_length).
  assert (Hkeys : map fst S = seq 0 n).
  { apply (sorted_perm_eq nat Nat.leb natleb_antisym nat (fun x => x)).
    - rewrite map_id. eapply Permutation_NoDup; [|apply (seq_NoDup n 0)].
      symmetry. rewrite (Permutation_map fst HpS), HfC. exact Hp.
    - apply sorted_map_fst. apply isort_sorted; [exact natleb_total|exact natleb_trans].
    - apply seq_sorted.
    - rewrite (Permutation_map fst HpS), HfC. exact Hp. }
  assert (HlenS : length S = n) by (rewrite <- (map_length fst), Hkeys; apply seq_length).
  split; [now rewrite map_length|].
  intros i Hi.
  assert (Hin : In (nth i S (0, 0)) C) by (eapply Permutation_in; [exact HpS|apply nth_In; lia]).
  assert (Hfst : fst (nth i S (0, 0)) = i).
  { rewrite <- (map_nth fst S (0, 0) i). rewrite Hkeys. simpl. rewrite seq_nth; lia. }
  assert (Hsnd : nth i (map snd S) 0 = snd (nth i S (0, 0))) by (apply (map_nth snd S (0, 0) i)).
  rewrite Hsnd. destruct (nth i S (0, 0)) as [a j] eqn:E. simpl in *. subst a.
  unfold C in Hin. apply (in_combine_seq 0) in Hin. rewrite Nat.sub_0_r in Hin.
  destruct Hin as [Hr Hv]. split; [lia|exact Hv].
Qed.

(* ------------------------------------------------------------------------------------------ *)
Section Wrapper.
  Variable A : Type.            (* parameter values (floats) *)
  Variable zero : A.            (* 0.0: tensorlib.zeros, and the default of out-of-range reads in the model *)
  Variable F : Type.            (* objective values *)
  Variable leb : A -> A -> bool.

  Definition gather (data : list A) (idx : list nat) : list A := map (fun i => nth i data zero) idx.

  (* ---- tensor/common.py : _TensorViewer ---- *)
  Record viewer := { partition_indices : list (list nat); sorted_indices : list nat }.
  Definition mk_viewer (indices : list (list nat)) : viewer :=
    {| partition_indices := indices; sorted_indices := argsort (concat indices) |}.
  (* stitch: concatenate; gather on the sorted indices.  (`assert len(self.partition_indices) == len(data)`:
     shim builds the viewer from a literal two-element list and stitch_pars passes a literal two-element list) *)
  Definition stitch (tv : viewer) (data : list (list A)) : list A := gather (concat data) (sorted_indices tv).

  (* the reference: "place the p-th datum at target index (concat indices)[p]" *)
  Definition placed (idx : list nat) (data stitched : list A) : Prop :=
    length stitched = length idx /\
    forall p, p < length idx -> nth (nth p idx 0) stitched zero = nth p data zero.

  Lemma nth_gather data idx i : i < length idx -> nth i (gather data idx) zero = nth (nth i idx 0) data zero.
  Proof. intros H. unfold gather. rewrite (nth_indep _ zero ((fun k => nth k data zero) 0)) by (now rewrite map_length).
    apply (map_nth (fun k => nth k data zero)). Qed.

  Theorem stitch_places indices data n :
    Permutation (concat indices) (seq 0 n) ->
    placed (concat indices) (concat data) (stitch (mk_viewer indices) data).
  Proof.
    intros Hp. unfold stitch. simpl.
    destruct (argsort_spec _ _ Hp) as [Hlen Hspec].
    assert (Hn : length (concat indices) = n) by (rewrite (Permutation_length Hp); apply seq_length).
    split; [unfold gather; rewrite map_length; lia|].
    intros p Hpn. set (i := nth p (concat indices) 0).
    assert (Hi : i < n).
    { assert (In i (seq 0 n)) by (eapply Permutation_in; [exact Hp|apply nth_In; lia]). apply in_seq in H. lia. }
    rewrite nth_gather by lia. destruct (Hspec i Hi) as [Hj Hji].
    assert (Hnd : NoDup (concat indices)) by (eapply Permutation_NoDup; [symmetry; exact Hp|apply seq_NoDup]).
    assert (nth i (argsort (concat indices)) 0 = p); [|congruence].
    apply (proj1 (NoDup_nth (concat indices) 0) Hnd); try lia; try exact Hji.
  Qed.

  (* ---- optimize/common.py : _make_stitch_pars ---- *)
  (* stitch_pars(pars, stitch_with=fixed_values); without viewer: the identity *)
  Definition make_stitch_pars (tvfv : option (viewer * list A)) : option (list A) -> list A -> list A :=
    match tvfv with
    | None => fun _ pars => pars
    | Some (tv, fixed_values) =>
        fun stitch_with pars => stitch tv [match stitch_with with Some w => w | None => fixed_values end; pars]
    end.

  (* ---- optimize/common.py : shim ---- *)
  Definition mem (x : nat) (l : list nat) : bool := existsb (Nat.eqb x) l.
  Record kwargs := { k_x0 : list A; k_bounds : list (A * A); k_fixed : list (nat * A) }.
  Definition variable_idx (npars : nat) (fixed_idx : list nat) : list nat :=
    filter (fun x => negb (mem x fixed_idx)) (seq 0 npars).
  Definition shim (npars : nat) (init : list A) (bounds : list (A * A)) (fixed_vals : list (nat * A)) (do_stitch : bool)
    : kwargs * (option (list A) -> list A -> list A) :=
    let fixed_idx := map fst fixed_vals in
    let fixed_values := map snd fixed_vals in
    let vidx := variable_idx npars fixed_idx in
    if do_stitch then
      ({| k_x0 := gather init vidx; k_bounds := map (fun i => nth i bounds (zero, zero)) vidx; k_fixed := [] |},
       make_stitch_pars (Some (mk_viewer [fixed_idx; vidx], fixed_values)))
    else ({| k_x0 := init; k_bounds := bounds; k_fixed := fixed_vals |}, make_stitch_pars None).

  (* ---- the optimiser: SLSQP / MIGRAD behind _get_minimizer/_minimize ---- *)
  Record optres := { o_x : list A; o_fun : F; o_success : bool; o_unc : option (list A) }.
  Variable optimiser : bool -> (list A -> F) -> kwargs -> optres.

  (* ---- optimize/mixins.py ---- *)
  Inductive fit_err := ValueError (index : nat) | UnspecifiedPOI | FailedMinimization.
  Record fitres := { r_x : list A; r_fun : F; r_unc : option (list A) }.

  Fixpoint where_fixed (i : nat) (fixed_idx : list nat) (u : list A) : list A :=
    match u with [] => [] | a :: t => (if mem i fixed_idx then zero else a) :: where_fixed (S i) fixed_idx t end.

  Definition internal_postprocess (r : optres) (kw : kwargs) (stitch_pars : option (list A) -> list A -> list A) : fitres :=
    let fitted_pars := stitch_pars None (o_x r) in
    let unc := match o_unc r with
               | None => None
               | Some u =>
                   let num_fixed_pars := length fitted_pars - length (o_x r) in
                   let u' := where_fixed 0 (map fst (k_fixed kw)) u in      (* np.where(minuit.fixed, 0.0, unc) *)
                   Some (stitch_pars (Some (repeat zero num_fixed_pars)) u')
               end in
    {| r_x := fitted_pars; r_fun := o_fun r; r_unc := unc |}.

  Definition wrapped (objective : list A -> F) (stitch_pars : option (list A) -> list A -> list A) : list A -> F :=
    fun pars => objective (stitch_pars None pars).                           (* opt_*.wrap_objective *)

  Definition minimize (objective : list A -> F) (npars : nat) init bounds fixed_vals (do_grad do_stitch : bool)
    : fit_err + fitres :=
    let '(kw, stitch_pars) := shim npars init bounds fixed_vals do_stitch in
    let r := optimiser do_grad (wrapped objective stitch_pars) kw in
    if o_success r then inr (internal_postprocess r kw stitch_pars) else inl FailedMinimization.

  (* ---- infer/mle.py ---- *)
  Definition in_bounds (v : A) (b : A * A) : bool := leb (fst b) v && leb v (snd b).
  Fixpoint validate (i : nat) (init : list A) (bounds : list (A * A)) : option nat :=
    match init, bounds with
    | v :: it, b :: bt => if in_bounds v b then validate (S i) it bt else Some i
    | _, _ => None end.
  (* [(index, init) for index, (init, is_fixed) in enumerate(zip(init_pars, fixed_params)) if is_fixed] *)
  Fixpoint fvals_from (s : nat) (init : list A) (mask : list bool) : list (nat * A) :=
    match init, mask with
    | v :: it, b :: mt => if b then (s, v) :: fvals_from (S s) it mt else fvals_from (S s) it mt
    | _, _ => [] end.
  Definition fit objective npars init bounds mask do_grad do_stitch : fit_err + fitres :=
    match validate 0 init bounds with
    | Some i => inl (ValueError i)
    | None => minimize objective npars init bounds (fvals_from 0 init mask) do_grad do_stitch
    end.
  Fixpoint upd {X} (i : nat) (v : X) (l : list X) : list X :=
    match l, i with [], _ => [] | _ :: t, 0 => v :: t | x :: t, S k => x :: upd k v t end.
  Definition fixed_poi_fit (poi_index : option nat) (poi_val : A) objective npars init bounds mask do_grad do_stitch :=
    match poi_index with
    | None => inl UnspecifiedPOI
    | Some p => fit objective npars (upd p poi_val init) bounds (upd p true mask) do_grad do_stitch
    end.

  (* ======================================= lemmas ========================================= *)
  Lemma mem_In x l : mem x l = true <-> In x l.
  Proof. unfold mem. rewrite existsb_exists. split.
    - intros [y [Hy E]]. apply Nat.eqb_eq in E. now subst.
    - intros H. exists x. split; auto. apply Nat.eqb_refl. Qed.

  Lemma fvals_sound init : forall s mask i v, In (i, v) (fvals_from s init mask) ->
    s <= i /\ i - s < length init /\ i - s < length mask /\ nth (i - s) mask false = true /\ nth (i - s) init zero = v.
  Proof. induction init as [|a it IH]; intros s [|b mt] i v H; simpl in H; try contradiction.
    assert (Hrec : In (i, v) (fvals_from (S s) it mt) ->
       s <= i /\ i - s < length (a :: it) /\ i - s < length (b :: mt) /\ nth (i - s) (b :: mt) false = true /\ nth (i - s) (a :: it) zero = v).
    { intros H'. apply IH in H'. destruct H' as [H1 [H2 [H3 [H4 H5]]]].
      replace (i - s) with (S (i - S s)) by lia. simpl. repeat split; auto; lia. }
    destruct b; [destruct H as [H|H]|]; auto.
    inversion H; subst. rewrite Nat.sub_diag. simpl. repeat split; auto; lia. Qed.

  Lemma fvals_complete init : forall s mask k, k < length init -> k < length mask -> nth k mask false = true ->
    In (s + k, nth k init zero) (fvals_from s init mask).
  Proof. induction init as [|a it IH]; intros s [|b mt] k H1 H2 H3; simpl in *; try lia.
    destruct k as [|k].
    - subst b. rewrite Nat.add_0_r. now left.
    - replace (s + S k) with (S s + k) by lia. destruct b; [right|]; apply IH; auto; lia. Qed.

  Lemma fvals_nodup init : forall s mask, NoDup (map fst (fvals_from s init mask)).
  Proof. induction init as [|a it IH]; intros s [|b mt]; simpl; try constructor.
    destruct b; simpl; [constructor|]; auto.
    intros H. apply in_map_iff in H. destruct H as [[i v] [E H]]. simpl in E. subst i.
    apply fvals_sound in H. lia. Qed.

  Lemma NoDup_app_intro {X} (l l' : list X) : NoDup l -> NoDup l' -> (forall x, In x l -> ~ In x l') -> NoDup (l ++ l').
  Proof. induction l as [|a t IH]; simpl; intros H1 H2 H3; auto.
    inversion H1; subst. constructor.
    - rewrite in_app_iff. intros [H|H]; [contradiction|]. eapply H3; eauto.
    - apply IH; auto. Qed.

  Lemma partition_perm npars fidx : NoDup fidx -> (forall i, In i fidx -> i < npars) ->
    Permutation (concat [fidx; variable_idx npars fidx]) (seq 0 npars).
  Proof. intros Hnd Hlt. simpl. rewrite app_nil_r. apply NoDup_Permutation.
    - apply NoDup_app_intro; auto.
      + apply NoDup_filter, seq_NoDup.
      + intros x Hx Hv. apply filter_In in Hv. destruct Hv as [_ Hv]. apply negb_true_iff in Hv.
        apply mem_In in Hx. congruence.
    - apply seq_NoDup.
    - intros x. rewrite in_app_iff, in_seq. unfold variable_idx. rewrite filter_In, in_seq. split.
      + intros [H|[H _]]; [apply Hlt in H|]; lia.
      + intros H. destruct (mem x fidx) eqn:E; [left; now apply mem_In|right; split; [lia|cbv beta; rewrite ?E; reflexivity]]. Qed.

  (* what the stitch closure of shim does, under the conditions shim establishes *)
  Lemma stitch_two npars (fv : list (nat * A)) (free : list A) :
    NoDup (map fst fv) -> (forall i, In i (map fst fv) -> i < npars) ->
    forall w, length w = length fv -> length free = length (variable_idx npars (map fst fv)) ->
    let x := stitch (mk_viewer [map fst fv; variable_idx npars (map fst fv)]) [w; free] in
    length x = npars /\
    (forall k, k < length fv -> nth (nth k (map fst fv) 0) x zero = nth k w zero) /\
    gather x (variable_idx npars (map fst fv)) = free.
  Proof. intros Hnd Hlt w Hw Hfree x.
    pose proof (partition_perm npars _ Hnd Hlt) as Hp.
    destruct (stitch_places [map fst fv; variable_idx npars (map fst fv)] [w; free] npars Hp) as [Hlen Hpl].
    fold x in Hlen, Hpl. simpl in Hlen, Hpl. rewrite !app_nil_r in *.
    assert (Hn : length (map fst fv ++ variable_idx npars (map fst fv)) = npars).
    { rewrite <- (seq_length npars 0) at 2. apply Permutation_length. simpl in Hp. rewrite app_nil_r in Hp. exact Hp. }
    split; [lia|]. rewrite app_length, map_length in *. split.
    - intros k Hk. specialize (Hpl k ltac:(lia)).
      rewrite app_nth1 in Hpl by (rewrite map_length; lia). rewrite app_nth1 in Hpl by lia. exact Hpl.
    - apply (nth_ext _ _ zero zero); [unfold gather; rewrite map_length; lia|].
      intros k Hk. unfold gather in Hk. rewrite map_length in Hk. rewrite nth_gather by exact Hk.
      specialize (Hpl (length fv + k) ltac:(lia)).
      rewrite app_nth2 in Hpl by (rewrite map_length; lia). rewrite map_length in Hpl.
      rewrite app_nth2 in Hpl by lia. replace (length fv + k - length fv) with k in Hpl by lia.
      replace (length fv + k - length w) with k in Hpl by lia. exact Hpl. Qed.

  Lemma variable_idx_mask npars init mask : length init = npars -> length mask = npars ->
    variable_idx npars (map fst (fvals_from 0 init mask)) = filter (fun i => negb (nth i mask false)) (seq 0 npars).
  Proof. intros H1 H2. unfold variable_idx. apply filter_ext_in. intros i Hi. apply in_seq in Hi. f_equal.
    destruct (nth i mask false) eqn:E.
    - apply mem_In. apply in_map_iff. exists (i, nth i init zero). split; auto.
      apply (fvals_complete init 0 mask i); try lia; exact E.
    - destruct (mem i (map fst (fvals_from 0 init mask))) eqn:M; auto.
      apply mem_In, in_map_iff in M. destruct M as [[j v] [Ej M]]. simpl in Ej. subst j.
      apply fvals_sound in M. rewrite Nat.sub_0_r in M. destruct M as [_ [_ [_ [M _]]]]. congruence. Qed.

  (* the spec-side notion: positions the mask leaves free, in increasing order *)
  Definition free_positions (npars : nat) (mask : list bool) : list nat :=
    filter (fun i => negb (nth i mask false)) (seq 0 npars).

  Section Theorems.
    Variable objective : list A -> F.
    Variable npars : nat.
    Variables (init : list A) (bounds : list (A * A)) (mask : list bool).
    Hypothesis Hinit : length init = npars.
    Hypothesis Hmask : length mask = npars.

    (* --- do_stitch = True : nothing is assumed of the optimiser but the dimension of what it returns --- *)
    Theorem stitched_fixed_exact do_grad res :
      (forall g f kw, length (o_x (optimiser g f kw)) = length (k_x0 kw)) ->
      fit objective npars init bounds mask do_grad true = inr res ->
      let '(kw, sp) := shim npars init bounds (fvals_from 0 init mask) true in
      let r := optimiser do_grad (wrapped objective sp) kw in
      length (r_x res) = npars /\
      (forall i, i < npars -> nth i mask false = true -> nth i (r_x res) zero = nth i init zero) /\
      gather (r_x res) (free_positions npars mask) = o_x r /\
      k_x0 kw = gather init (free_positions npars mask) /\
      r_fun res = o_fun r.
    Proof. intros Hlen Hfit. unfold fit in Hfit. destruct (validate 0 init bounds); [discriminate|].
      unfold minimize in Hfit.
      set (fv := fvals_from 0 init mask) in *.
      pose (sp := make_stitch_pars (Some (mk_viewer [map fst fv; variable_idx npars (map fst fv)], map snd fv))).
      pose (kw := {| k_x0 := gather init (variable_idx npars (map fst fv));
                     k_bounds := map (fun i => nth i bounds (zero, zero)) (variable_idx npars (map fst fv)); k_fixed := [] |}).
      change (shim npars init bounds fv true) with (kw, sp) in Hfit |- *. cbv beta iota zeta in Hfit |- *.
      set (r := optimiser do_grad (wrapped objective sp) kw) in *.
      destruct (o_success r); [|discriminate]. inversion Hfit; subst res; clear Hfit.
      unfold internal_postprocess; cbv beta iota zeta; unfold r_x, r_fun.
      assert (Hnd : NoDup (map fst fv)) by apply fvals_nodup.
      assert (Hlt : forall i, In i (map fst fv) -> i < npars).
      { intros i Hi. apply in_map_iff in Hi. destruct Hi as [[j v] [E Hi]]. simpl in E; subst j.
        apply fvals_sound in Hi. lia. }
      assert (Hfree : length (o_x r) = length (variable_idx npars (map fst fv))).
      { unfold r. rewrite Hlen. simpl. unfold gather. now rewrite map_length. }
      destruct (stitch_two npars fv (o_x r) Hnd Hlt (map snd fv) ltac:(now rewrite map_length) Hfree) as [H1 [H2 H3]].
      unfold free_positions. rewrite <- (variable_idx_mask npars init mask Hinit Hmask). fold fv.
      repeat split; auto.
      intros i Hi Hm. pose proof (fvals_complete init 0 mask i ltac:(lia) ltac:(lia) Hm) as Hin. simpl in Hin. fold fv in Hin.
      destruct (In_nth _ _ (0, zero) Hin) as [k [Hk Ek]]. specialize (H2 k Hk).
      assert (E1 : nth k (map fst fv) 0 = i) by (change 0 with (fst (0, zero)); rewrite map_nth, Ek; reflexivity).
      assert (E2 : nth k (map snd fv) zero = nth i init zero) by (change zero with (snd (0, zero)) at 1; rewrite map_nth, Ek; reflexivity).
      unfold sp. simpl. rewrite <- E1 at 1. rewrite H2. exact E2. Qed.

    (* reported objective = objective at the returned vector, if the optimiser reports func at its own x *)
    Theorem stitched_fun_honest do_grad res :
      (forall g f kw, o_fun (optimiser g f kw) = f (o_x (optimiser g f kw))) ->
      forall do_stitch, fit objective npars init bounds mask do_grad do_stitch = inr res -> r_fun res = objective (r_x res).
    Proof. intros Hh do_stitch Hfit. unfold fit in Hfit. destruct (validate 0 init bounds); [discriminate|].
      unfold minimize in Hfit. destruct (shim npars init bounds (fvals_from 0 init mask) do_stitch) as [kw sp].
      destruct (o_success _); [|discriminate]. inversion Hfit; subst res; clear Hfit. simpl. now rewrite Hh. Qed.

    (* --- do_stitch = False : the optimiser is trusted to hold the fixed values it is given --- *)
    Theorem nostitch_fixed_exact do_grad res :
      (forall g f kw i v, In (i, v) (k_fixed kw) -> nth i (o_x (optimiser g f kw)) zero = v) ->
      fit objective npars init bounds mask do_grad false = inr res ->
      forall i, i < npars -> nth i mask false = true -> nth i (r_x res) zero = nth i init zero.
    Proof. intros Hfix Hfit i Hi Hm. unfold fit in Hfit. destruct (validate 0 init bounds); [discriminate|].
      unfold minimize in Hfit. simpl in Hfit. destruct (o_success _); [|discriminate]. inversion Hfit; subst res; clear Hfit. simpl.
      apply Hfix. simpl. apply (fvals_complete init 0 mask i); auto; lia. Qed.

    (* rejected starting points never reach the optimiser *)
    Theorem fit_validates do_grad do_stitch res :
      fit objective npars init bounds mask do_grad do_stitch = inr res ->
      forall i, i < npars -> i < length bounds -> in_bounds (nth i init zero) (nth i bounds (zero, zero)) = true.
    Proof. intros Hfit. unfold fit in Hfit. destruct (validate 0 init bounds) eqn:V; [discriminate|]. clear Hfit.
      rewrite <- Hinit. clear Hinit Hmask. revert V. generalize 0 as s. revert bounds.
      induction init as [|a it IH]; intros [|b bt] s V i H1 H2; simpl in *; try lia.
      destruct (in_bounds a b) eqn:E; [|discriminate]. destruct i; auto. apply (IH bt (S s)); auto; lia. Qed.

    (* uncertainties of fixed parameters are exactly zero on the stitched path *)
    Theorem stitched_unc_zero do_grad res u :
      (forall g f kw, length (o_x (optimiser g f kw)) = length (k_x0 kw)) ->
      (forall g f kw u, o_unc (optimiser g f kw) = Some u -> length u = length (k_x0 kw)) ->
      fit objective npars init bounds mask do_grad true = inr res -> r_unc res = Some u ->
      length u = npars /\ forall i, i < npars -> nth i mask false = true -> nth i u zero = zero.
    Proof. intros Hlen Hul Hfit Hu. unfold fit in Hfit. destruct (validate 0 init bounds); [discriminate|].
      unfold minimize in Hfit.
      set (fv := fvals_from 0 init mask) in *.
      pose (sp := make_stitch_pars (Some (mk_viewer [map fst fv; variable_idx npars (map fst fv)], map snd fv))).
      pose (kw := {| k_x0 := gather init (variable_idx npars (map fst fv));
                     k_bounds := map (fun i => nth i bounds (zero, zero)) (variable_idx npars (map fst fv)); k_fixed := [] |}).
      change (shim npars init bounds fv true) with (kw, sp) in Hfit. cbv beta iota zeta in Hfit.
      set (r := optimiser do_grad (wrapped objective sp) kw) in *.
      destruct (o_success r); [|discriminate]. inversion Hfit; subst res; clear Hfit.
      unfold internal_postprocess in Hu; cbv beta iota zeta in Hu; unfold r_unc in Hu.
      destruct (o_unc r) as [u0|] eqn:Eu; [|discriminate]. inversion Hu; subst u; clear Hu.
      assert (Hnd : NoDup (map fst fv)) by apply fvals_nodup.
      assert (Hlt : forall i, In i (map fst fv) -> i < npars).
      { intros i Hi. apply in_map_iff in Hi. destruct Hi as [[j v] [E Hi]]. simpl in E; subst j.
        apply fvals_sound in Hi. lia. }
      assert (Hx : length (o_x r) = length (variable_idx npars (map fst fv))).
      { unfold r. rewrite Hlen. simpl. unfold gather. now rewrite map_length. }
      assert (Hu0 : length u0 = length (variable_idx npars (map fst fv))).
      { rewrite (Hul _ _ _ _ Eu). simpl. unfold gather. now rewrite map_length. }
      destruct (stitch_two npars fv (o_x r) Hnd Hlt (map snd fv) ltac:(now rewrite map_length) Hx) as [H1 _].
      assert (Hperm := partition_perm npars _ Hnd Hlt). apply Permutation_length in Hperm. simpl in Hperm.
      rewrite app_nil_r, app_length, seq_length, map_length in Hperm.
      assert (Hnf : length (sp None (o_x r)) - length (o_x r) = length fv) by (unfold sp; simpl; lia).
      rewrite Hnf. simpl where_fixed.
      assert (Hw : forall l, where_fixed 0 [] l = l).
      { generalize 0. intros s l. revert s. induction l; intros s; simpl; auto. now rewrite IHl. }
      rewrite Hw.
      destruct (stitch_two npars fv u0 Hnd Hlt (repeat zero (length fv)) ltac:(now rewrite repeat_length) Hu0) as [G1 [G2 _]].
      unfold sp. simpl. split; [exact G1|].
      intros i Hi Hm. pose proof (fvals_complete init 0 mask i ltac:(lia) ltac:(lia) Hm) as Hin. simpl in Hin. fold fv in Hin.
      destruct (In_nth _ _ (0, zero) Hin) as [k [Hk Ek]]. specialize (G2 k Hk).
      assert (E1 : nth k (map fst fv) 0 = i) by (change 0 with (fst (0, zero)); rewrite map_nth, Ek; reflexivity).
      rewrite <- E1. rewrite G2. apply nth_repeat. Qed.
  End Theorems.

  Lemma upd_length {X} (l : list X) : forall i v, length (upd i v l) = length l.
  Proof. induction l; intros [|i] v; simpl; auto. Qed.
  Lemma upd_same {X} (d : X) (l : list X) : forall i v, i < length l -> nth i (upd i v l) d = v.
  Proof. induction l; intros [|i] v H; simpl in *; try lia; auto. apply IHl. lia. Qed.
  Lemma upd_other {X} (d : X) (l : list X) : forall i j v, i <> j -> nth j (upd i v l) d = nth j l d.
  Proof. induction l; intros [|i] [|j] v H; simpl; auto; try congruence. Qed.

  (* fixed-POI fit: the POI comes back as poi_val, every other fixed parameter as supplied *)
  Theorem fixed_poi_stitched_exact objective npars init bounds mask p poi_val do_grad res :
    length init = npars -> length mask = npars -> p < npars ->
    (forall g f kw, length (o_x (optimiser g f kw)) = length (k_x0 kw)) ->
    fixed_poi_fit (Some p) poi_val objective npars init bounds mask do_grad true = inr res ->
    length (r_x res) = npars /\ nth p (r_x res) zero = poi_val /\
    (forall i, i < npars -> i <> p -> nth i mask false = true -> nth i (r_x res) zero = nth i init zero) /\
    in_bounds poi_val (nth p bounds (zero, zero)) = true \/ length bounds <= p.
  Proof. intros H1 H2 Hp Hlen Hfit. unfold fixed_poi_fit in Hfit.
    assert (L1 : length (upd p poi_val init) = npars) by (now rewrite upd_length).
    assert (L2 : length (upd p true mask) = npars) by (now rewrite upd_length).
    pose proof (stitched_fixed_exact objective npars (upd p poi_val init) bounds (upd p true mask) L1 L2 do_grad res Hlen Hfit) as H.
    destruct (shim npars (upd p poi_val init) bounds (fvals_from 0 (upd p poi_val init) (upd p true mask)) true) as [kw sp].
    destruct H as [G1 [G2 _]].
    destruct (le_lt_dec (length bounds) p) as [Hb|Hb]; [now right|left].
    split; [exact G1|]. split; [|split].
    - rewrite (G2 p Hp); [apply upd_same; lia|apply upd_same; lia].
    - intros i Hi Hne Hm. rewrite (G2 i Hi); [apply upd_other; auto|rewrite upd_other; auto].
    - pose proof (fit_validates objective npars (upd p poi_val init) bounds (upd p true mask) L1 do_grad true res Hfit p Hp Hb) as V.
      rewrite upd_same in V by lia. exact V. Qed.
End Wrapper.
