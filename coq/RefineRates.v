(* Engine S refinement, main theorem: for an accepted specification the expected rates of the mega-channel
   implementation model (Impl) are the HistFactory template (Ref) with parameters addressed by name. *)
From Coq Require Import Bool Arith Lia Permutation Ring String List.
Require Import PV.Num PV.Sort PV.Spec PV.Impl PV.Ref PV.Wf PV.RefineLookup PV.RefineMonoid.
Import ListNotations.
Local Open Scope list_scope.

Section Rates.
  Variable N : Num.
  Notation V := (V N).
  Hypothesis Hring : ring_theory (n0 N) (n1 N) (nadd N) (nmul N) (nsub N) (nopp N) eq.
  Add Ring NR : Hring.
  Notation "0" := (n0 N). Notation "1" := (n1 N).
  Infix "+" := (nadd N). Infix "*" := (nmul N).

  Variable interp_add interp_mul : string -> V -> V -> V -> V -> V.
  Variable sp : spec N.
  Variable st : settings N.
  Variable md : model N.
  Variable par : nat -> V.

  Notation chs := (cfg_channels N sp).
  Notation smps := (cfg_samples N sp).
  Notation mods := (cfg_modifiers N sp).

  (* guarantees of an accepted specification (Wf.v) *)
  Hypothesis Hchan : NoDup (map c_name (channels sp)).
  Hypothesis Hsamp : forall c, In c (channels sp) -> NoDup (map s_name (c_samples c)).
  Hypothesis Hmods : forall c s, In c (channels sp) -> In s (c_samples c) -> NoDup (map mkey (s_mods s)).
  (* the JSON schema fixes the shape of modifier data per type *)
  Hypothesis Hshape : forall c s m, In c (channels sp) -> In s (c_samples c) -> In m (s_mods s) ->
    match m_type m with
    | Histosys => exists lo hi, m_data m = MDHisto lo hi
    | Normsys => exists lo hi, m_data m = MDNorm lo hi
    | _ => True end.
  (* per-sample clip not positive (see the known finding about absent samples) *)
  Hypothesis Hclip : match clip_sample N st with None => True | Some c => nltb N 0 c = false end.

  Definition theta (name : string) (k : nat) : V := par (pstart N md name + k)%nat.

  (* the access fields address the component the template names *)
  Definition layout_ok : Prop := forall c s m b, In c (channels sp) -> In s (c_samples c) -> In m (s_mods s) -> b < chan_nbins N c ->
    match m_type m with
    | Shapefactor => access_shapefactor N md (mkey m) b = (pstart N md (m_name m) + b)%nat
    | Shapesys => access_binwise N sp chs smps md (mkey m) (c_name c) b = (pstart N md (m_name m) + b)%nat
    | Staterror => access_binwise N sp chs smps md (mkey m) (c_name c) b = (pstart N md (m_name m) + (stat_offset N sp (m_name m) c + b))%nat
    | _ => True end.
  Hypothesis Hlayout : layout_ok.

  (* ---- monoid facts ---- *)
  Lemma add_comm' a b : a + b = b + a. Proof. ring. Qed.
  Lemma add_assoc' a b c : a + (b + c) = (a + b) + c. Proof. ring. Qed.
  Lemma add_0' a : 0 + a = a. Proof. ring. Qed.
  Lemma mul_comm' a b : a * b = b * a. Proof. ring. Qed.
  Lemma mul_assoc' a b c : a * (b * c) = (a * b) * c. Proof. ring. Qed.
  Lemma mul_1' a : 1 * a = a. Proof. ring. Qed.

  Lemma sumV_is l : sumV N l = foldm V (nadd N) 0 l. Proof. reflexivity. Qed.
  Lemma prodV_is l : prodV N l = foldm V (nmul N) 1 l. Proof. reflexivity. Qed.
  Lemma rsum_is l : rsum N l = foldm V (nadd N) 0 l. Proof. reflexivity. Qed.
  Lemma rprod_is l : rprod N l = foldm V (nmul N) 1 l. Proof. reflexivity. Qed.

  Lemma mods_nodup : NoDup mods.
  Proof.
    unfold cfg_modifiers, psort. eapply Permutation_NoDup; [symmetry; apply isort_perm|]. apply NoDup_nodup.
  Qed.
  Lemma mods_of_nodup t : NoDup (mods_of mods t).
  Proof. unfold mods_of. apply NoDup_filter. apply mods_nodup. Qed.
  Lemma in_mods k : In k mods <-> In k (flat_map (fun s => map mkey (s_mods s)) (all_samples N sp)).
  Proof. unfold cfg_modifiers, psort. rewrite isort_in. apply nodup_In. Qed.
  Lemma in_mods_of t k : In k (mods_of mods t) <-> In k mods /\ snd k = tyname t.
  Proof. unfold mods_of. rewrite filter_In. rewrite String.eqb_eq. tauto. Qed.
  Lemma smps_nodup : NoDup smps.
  Proof. apply sort_uniq_nodup. Qed.

  Section OneCell.
    Variable c : channel N.
    Hypothesis Hc : In c (channels sp).
    Variable b : nat.
    Hypothesis Hb : b < chan_nbins N c.
    Notation cn := (c_name c).

    Lemma declared_present s m : In s (c_samples c) -> In m (s_mods s) -> cellmod N sp cn (s_name s) (mkey m) = Some m.
    Proof. intros Hs Hm. unfold cellmod. rewrite (cell_present N sp Hchan Hsamp c s Hc Hs). eapply smod_present; eauto. Qed.
    Lemma declared_absent s k : In s (c_samples c) -> ~ In k (map mkey (s_mods s)) -> cellmod N sp cn (s_name s) k = None.
    Proof. intros Hs Hk. unfold cellmod. rewrite (cell_present N sp Hchan Hsamp c s Hc Hs). now apply smod_absent. Qed.

    (* keys of the modifiers of type t that sample s declares *)
    Definition keys_of (s : sample N) (t : mtype) : list (string * string) :=
      map mkey (filter (fun m => mtype_eqb (m_type m) t) (s_mods s)).
    Lemma keys_of_nodup s t : In s (c_samples c) -> NoDup (keys_of s t).
    Proof.
      intros Hs. unfold keys_of. pose proof (Hmods c s Hc Hs) as Hnd.
      revert Hnd. generalize (s_mods s). induction l as [|m l IH]; simpl; intros Hnd; [constructor|].
      inversion Hnd as [|? ? Hni Hnd']; subst. destruct (mtype_eqb (m_type m) t); simpl; auto.
      constructor; auto. intros Hin. apply Hni. apply in_map_iff in Hin. destruct Hin as [m' [E Hm']].
      apply filter_In in Hm'. rewrite <- E. apply in_map. tauto.
    Qed.
    Lemma keys_of_incl s t : In s (c_samples c) -> incl (keys_of s t) (mods_of mods t).
    Proof.
      intros Hs k Hk. unfold keys_of in Hk. apply in_map_iff in Hk. destruct Hk as [m [<- Hm]].
      apply filter_In in Hm. destruct Hm as [Hm Ht]. apply mtype_eqb_eq in Ht.
      apply in_mods_of. split; [|unfold mkey; simpl; now rewrite Ht].
      apply in_mods. apply in_flat_map. exists s. split; [unfold all_samples; apply in_flat_map; eauto|now apply in_map].
    Qed.
    Lemma not_key_absent s t k : In s (c_samples c) -> In k (mods_of mods t) -> ~ In k (keys_of s t) -> ~ In k (map mkey (s_mods s)).
    Proof.
      intros Hs Hk Hn Hin. apply Hn. apply in_map_iff in Hin. destruct Hin as [m [E Hm]]. subst k.
      unfold keys_of. apply in_map. apply filter_In. split; auto. apply mtype_eqb_eq.
      apply in_mods_of in Hk. destruct Hk as [_ Hk]. unfold mkey in Hk. simpl in Hk. now apply tyname_inj.
    Qed.

    (* ---- additive part ---- *)
    Lemma delta_sum s : In s (c_samples c) ->
      sumV N (map (fun k => delta N interp_add sp st md par k cn (s_name s) b) (mods_of mods Histosys)) =
      rsum N (map (fun m => mod_delta N interp_add (histosys_code N st) theta s m b) (s_mods s)).
    Proof.
      intros Hs. rewrite sumV_is, rsum_is.
      rewrite (foldm_superset V (nadd N) 0 add_comm' add_assoc' add_0' _ (keys_of s Histosys) (mods_of mods Histosys)
                 (keys_of_nodup s Histosys Hs) (mods_of_nodup Histosys) (keys_of_incl s Histosys Hs)).
      2:{ intros k Hk Hn. unfold delta. now rewrite (declared_absent s k Hs (not_key_absent s Histosys k Hs Hk Hn)). }
      unfold keys_of. rewrite map_map.
      rewrite (foldm_filter V (nadd N) 0 add_0' (fun m => mod_delta N interp_add (histosys_code N st) theta s m b)
                 (fun m => mtype_eqb (m_type m) Histosys) (s_mods s)).
      2:{ intros m Hm Ht. unfold mod_delta. destruct (m_type m); try reflexivity. discriminate Ht. }
      unfold foldm. f_equal. apply map_ext_in. intros m Hm. apply filter_In in Hm. destruct Hm as [Hm Ht].
      apply mtype_eqb_eq in Ht. unfold delta. rewrite (declared_present s m Hs Hm).
      pose proof (Hshape c s m Hc Hs Hm) as Hsh. rewrite Ht in Hsh. destruct Hsh as [lo [hi Hd]].
      unfold mod_delta, mdlo, mdhi, nomf. rewrite Ht, Hd. rewrite (cell_present N sp Hchan Hsamp c s Hc Hs).
      unfold theta. rewrite Nat.add_0_r. unfold mkey; simpl. reflexivity.
    Qed.

    (* ---- multiplicative part, one type at a time ---- *)
    Lemma factor_prod_type s t : In s (c_samples c) -> t <> Histosys ->
      prodV N (map (fun k => factor N interp_mul sp chs smps st md par t k cn (s_name s) b) (mods_of mods t)) =
      rprod N (map (fun m => mod_factor N interp_mul (normsys_code N st) sp theta c s m b)
                   (filter (fun m => mtype_eqb (m_type m) t) (s_mods s))).
    Proof.
      intros Hs Hne. rewrite prodV_is, rprod_is.
      rewrite (foldm_superset V (nmul N) 1 mul_comm' mul_assoc' mul_1' _ (keys_of s t) (mods_of mods t)
                 (keys_of_nodup s t Hs) (mods_of_nodup t) (keys_of_incl s t Hs)).
      2:{ intros k Hk Hn. unfold factor, declared. now rewrite (declared_absent s k Hs (not_key_absent s t k Hs Hk Hn)). }
      unfold keys_of. rewrite map_map. unfold foldm. f_equal. apply map_ext_in. intros m Hm.
      apply filter_In in Hm. destruct Hm as [Hm Ht]. apply mtype_eqb_eq in Ht.
      unfold factor, declared. rewrite (declared_present s m Hs Hm).
      pose proof (Hlayout c s m b Hc Hs Hm Hb) as Hl. pose proof (Hshape c s m Hc Hs Hm) as Hsh.
      unfold mod_factor. rewrite Ht in *. unfold theta.
      destruct t; try contradiction; try (rewrite Nat.add_0_r; unfold mkey; simpl; reflexivity).
      - destruct Hsh as [lo [hi Hd]]. unfold mdnlo, mdnhi. rewrite Hd. rewrite Nat.add_0_r. unfold mkey; simpl. reflexivity.
      - rewrite Hl. reflexivity.
      - rewrite Hl. reflexivity.
      - rewrite Hl. reflexivity.
    Qed.

    Lemma all_types_nodup : NoDup all_types.
    Proof. unfold all_types. repeat constructor; simpl; intuition discriminate. Qed.

    Lemma factor_prod s : In s (c_samples c) ->
      prodV N (flat_map (fun t => map (fun k => factor N interp_mul sp chs smps st md par t k cn (s_name s) b) (mods_of mods t)) mult_types) =
      rprod N (map (fun m => mod_factor N interp_mul (normsys_code N st) sp theta c s m b) (s_mods s)).
    Proof.
      intros Hs.
      assert (P := foldm_partition V (nmul N) 1 mul_comm' mul_assoc' mul_1'
                     (fun m => mod_factor N interp_mul (normsys_code N st) sp theta c s m b)
                     (@m_type N) mtype_eqb all_types mtype_eqb_eq all_types_nodup (s_mods s)).
      change (rprod N (map (fun m => mod_factor N interp_mul (normsys_code N st) sp theta c s m b) (s_mods s)))
        with (foldm V (nmul N) 1 (map (fun m => mod_factor N interp_mul (normsys_code N st) sp theta c s m b) (s_mods s))).
      rewrite P.
      2:{ intros m _. unfold all_types. destruct (m_type m); simpl; auto 10. }
      clear P. unfold mult_types, all_types. simpl flat_map. rewrite app_nil_r.
      rewrite !prodV_is. repeat (rewrite foldm_app; [|exact mul_assoc'|exact mul_1']).
      rewrite <- !prodV_is.
      rewrite (factor_prod_type s Lumi Hs) by discriminate. rewrite (factor_prod_type s Normfactor Hs) by discriminate.
      rewrite (factor_prod_type s Normsys Hs) by discriminate. rewrite (factor_prod_type s Shapefactor Hs) by discriminate.
      rewrite (factor_prod_type s Shapesys Hs) by discriminate. rewrite (factor_prod_type s Staterror Hs) by discriminate.
      rewrite !rprod_is. simpl map. simpl foldm.
      (* the histosys class contributes 1 *)
      assert (Hh : foldm V (nmul N) 1 (map (fun m => mod_factor N interp_mul (normsys_code N st) sp theta c s m b)
                     (filter (fun m => mtype_eqb (m_type m) Histosys) (s_mods s))) = 1).
      { apply foldm_neutral; [exact mul_1'|]. intros m Hm. apply filter_In in Hm. destruct Hm as [_ Ht].
        apply mtype_eqb_eq in Ht. unfold mod_factor. now rewrite Ht. }
      rewrite Hh. ring.
    Qed.

    Lemma by_sample_present s : In s (c_samples c) ->
      by_sample N interp_add interp_mul sp chs smps mods st md par cn (s_name s) b =
      sample_rate N interp_add interp_mul (normsys_code N st) (histosys_code N st) (clip_sample N st) sp theta c s b.
    Proof.
      intros Hs. unfold by_sample, sample_rate. rewrite (factor_prod s Hs), (delta_sum s Hs).
      unfold nomf. rewrite (cell_present N sp Hchan Hsamp c s Hc Hs). reflexivity.
    Qed.

    Lemma by_sample_absent sn : ~ In sn (map s_name (c_samples c)) ->
      by_sample N interp_add interp_mul sp chs smps mods st md par cn sn b = 0.
    Proof.
      intros Hn. unfold by_sample.
      assert (Hcell : cell N sp cn sn = None) by (apply (cell_absent N sp Hchan Hsamp c sn Hc Hn)).
      assert (Hd : sumV N (map (fun k => delta N interp_add sp st md par k cn sn b) (mods_of mods Histosys)) = 0).
      { rewrite sumV_is. apply foldm_neutral; [exact add_0'|]. intros k _. unfold delta, cellmod. now rewrite Hcell. }
      assert (Hf : prodV N (flat_map (fun t => map (fun k => factor N interp_mul sp chs smps st md par t k cn sn b) (mods_of mods t)) mult_types) = 1).
      { rewrite prodV_is. rewrite flat_map_concat_map. 
        assert (G : forall l : list V, (forall x, In x l -> x = 1) -> foldm V (nmul N) 1 l = 1).
        { induction l as [|x l IH]; simpl; intros H; auto. rewrite (H x) by auto. rewrite mul_1'. apply IH. auto. }
        apply G. intros x Hx. apply in_concat in Hx. destruct Hx as [l [Hl Hx]]. apply in_map_iff in Hl. destruct Hl as [t [<- _]].
        apply in_map_iff in Hx. destruct Hx as [k [<- _]]. unfold factor, declared, cellmod. now rewrite Hcell. }
      rewrite Hd, Hf. unfold nomf. rewrite Hcell.
      replace (1 * (0 + 0)) with 0 by ring.
      unfold clipv, vmax. destruct (clip_sample N st) as [cv|]; auto. now rewrite Hclip.
    Qed.

    Lemma samples_incl : incl (map s_name (c_samples c)) smps.
    Proof.
      intros sn Hsn. apply sort_uniq_in. apply in_map_iff in Hsn. destruct Hsn as [s [<- Hs]].
      apply in_map. unfold all_samples. apply in_flat_map. eauto.
    Qed.

    Theorem rate_refines :
      rate N interp_add interp_mul sp chs smps mods st md par cn b =
      ref_rate N interp_add interp_mul (normsys_code N st) (histosys_code N st) (clip_sample N st) (clip_bin N st) sp theta c b.
    Proof.
      assert (E : sumV N (map (fun sn => by_sample N interp_add interp_mul sp chs smps mods st md par cn sn b) smps) =
                  rsum N (map (fun s => sample_rate N interp_add interp_mul (normsys_code N st) (histosys_code N st) (clip_sample N st) sp theta c s b) (c_samples c))).
      { pose proof (foldm_superset V (nadd N) 0 add_comm' add_assoc' add_0'
                      (fun sn => by_sample N interp_add interp_mul sp chs smps mods st md par cn sn b)
                      (map s_name (c_samples c)) smps (Hsamp c Hc) smps_nodup samples_incl) as P.
        unfold foldm in P. unfold sumV, rsum. rewrite P.
        2:{ intros sn _ Hn. now apply by_sample_absent. }
        rewrite map_map. apply (f_equal (fold_right (nadd N) 0)). apply map_ext_in. intros s Hs. now apply by_sample_present. }
      unfold rate, ref_rate. rewrite E. reflexivity.
    Qed.
  End OneCell.

  Lemma flat_map_map' {A B C} (f : B -> list C) (g : A -> B) l : flat_map f (map g l) = flat_map (fun a => f (g a)) l.
  Proof. induction l; simpl; auto. now rewrite IHl. Qed.
  Lemma flat_map_ext_in' {A B} (f g : A -> list B) l : (forall a, In a l -> f a = g a) -> flat_map f l = flat_map g l.
  Proof. induction l; simpl; intros H; auto. rewrite H by auto. f_equal. apply IHl. auto. Qed.

  (* C01: the expected data of the implementation model is the template, channel by channel in sorted order *)
  Theorem expected_data_refines :
    expected_actualdata_hot N interp_add interp_mul sp chs smps mods st md par =
    ref_expected N interp_add interp_mul (normsys_code N st) (histosys_code N st) (clip_sample N st) (clip_bin N st) sp theta.
  Proof.
    unfold expected_actualdata_hot, ref_expected, sorted_channels.
    assert (G : forall f : string -> list V, flat_map f chs = flat_map (fun c => f (c_name c)) (ssort c_name (channels sp))).
    { intros f. rewrite (cfg_channels_sorted N sp Hchan). apply flat_map_map'. }
    rewrite G. clear G.
    apply flat_map_ext_in'. intros c Hcs. cbv beta.
    assert (Hc : In c (channels sp)) by (unfold ssort in Hcs; now apply isort_in in Hcs).
    rewrite (nbins_is N sp Hchan c Hc). unfold tab. fold (chan_nbins N c).
    apply map_ext_in. intros b Hb. apply in_seq in Hb. cbv beta.
    assert (Hb' : b < chan_nbins N c) by lia. exact (rate_refines c Hc b Hb').
  Qed.
End Rates.
