(* C13 - the interpolation pieces in the gradient.
   (A) for every interpolation code K in {0, 1, 2, 4, 4p} the derivative with respect to alpha of the definition translated
       from pyhf's source (gen/InterpGen.v, real instance), in every regime and on the breakpoints:
         codes 2, 4, 4p : differentiable everywhere (C1 results of InterpThms.v), derivative dcodeK;
         codes 0, 1     : differentiable everywhere except alpha = 0, where the two one-sided derivatives are proved,
                          no derivative exists when they differ, and the branch the comparison `0 < alpha` selects at 0
                          is the `alpha <= 0` one (dcodeK 0 is the LEFT derivative);
   (B) product / sum rule for a bin rate built from differentiable pieces (generic);
   (C) the rate model of FitRate.v / Grad.v evaluated at dual numbers computes exactly that derivative, also for cells with
       histosys pieces (lifting Grad.rate_dual_is_derivative_partial);
   (D) cells extended by normsys factors (codes 1, 4) and the gradient of twice the negative log-likelihood. *)
From Coq Require Import ZArith Reals Lra Lia Bool List.
From Coquelicot Require Import Coquelicot.
Require Import PV.Num PV.TNum PV.InterpFast PV.InterpGeneric PV.gen.InterpGen PV.InterpThms PV.FitCert PV.FitRate PV.Grad.
Import ListNotations.
Local Open Scope list_scope.
Local Open Scope R_scope.

(* ------------------------------------------------------------------------------------------ *)
(* one-sided derivatives (difference quotients, epsilon-delta)                                 *)
(* ------------------------------------------------------------------------------------------ *)
Definition right_derive (f : R -> R) (x l : R) : Prop :=
  forall eps, 0 < eps -> exists delta, 0 < delta /\ forall h, 0 < h < delta -> Rabs ((f (x + h) - f x) / h - l) < eps.
Definition left_derive (f : R -> R) (x l : R) : Prop :=
  forall eps, 0 < eps -> exists delta, 0 < delta /\ forall h, - delta < h < 0 -> Rabs ((f (x + h) - f x) / h - l) < eps.

Lemma derive_sides f x l : is_derive f x l -> right_derive f x l /\ left_derive f x l.
Proof.
  intro H. apply is_derive_Reals in H.
  split; intros eps He; destruct (H eps He) as [d Hd]; exists d; (split; [apply cond_pos|]); intros h Hh; apply Hd; try lra;
    unfold Rabs; destruct (Rcase_abs h); lra.
Qed.

Lemma right_derive_ext f g x l : (forall y, x <= y -> f y = g y) -> right_derive g x l -> right_derive f x l.
Proof.
  intros E H eps He. destruct (H eps He) as [d [Hd Hq]]. exists d. split; [exact Hd|]. intros h Hh.
  rewrite (E (x + h)) by lra. rewrite (E x) by lra. apply Hq. exact Hh.
Qed.
Lemma left_derive_ext f g x l : (forall y, y <= x -> f y = g y) -> left_derive g x l -> left_derive f x l.
Proof.
  intros E H eps He. destruct (H eps He) as [d [Hd Hq]]. exists d. split; [exact Hd|]. intros h Hh.
  rewrite (E (x + h)) by lra. rewrite (E x) by lra. apply Hq. exact Hh.
Qed.

Lemma right_derive_unique f x l1 l2 : right_derive f x l1 -> right_derive f x l2 -> l1 = l2.
Proof.
  intros H1 H2. destruct (Req_dec l1 l2) as [E | N]; [exact E | exfalso].
  assert (He : 0 < Rabs (l1 - l2) / 2) by (assert (0 < Rabs (l1 - l2)) by (apply Rabs_pos_lt; lra); lra).
  destruct (H1 _ He) as [d1 [Hd1 Q1]]. destruct (H2 _ He) as [d2 [Hd2 Q2]].
  set (h := Rmin d1 d2 / 2).
  assert (Hh : 0 < h < d1 /\ 0 < h < d2).
  { unfold h. pose proof (Rmin_l d1 d2). pose proof (Rmin_r d1 d2).
    assert (0 < Rmin d1 d2) by (apply Rmin_pos; assumption). lra. }
  specialize (Q1 h (proj1 Hh)). specialize (Q2 h (proj2 Hh)).
  set (q := (f (x + h) - f x) / h) in *.
  assert (T : Rabs (l1 - l2) <= Rabs (q - l2) + Rabs (q - l1)).
  { replace (l1 - l2) with ((q - l2) + - (q - l1)) by ring.
    eapply Rle_trans; [apply Rabs_triang|]. rewrite Rabs_Ropp. lra. }
  lra.
Qed.
Lemma left_derive_unique f x l1 l2 : left_derive f x l1 -> left_derive f x l2 -> l1 = l2.
Proof.
  intros H1 H2. destruct (Req_dec l1 l2) as [E | N]; [exact E | exfalso].
  assert (He : 0 < Rabs (l1 - l2) / 2) by (assert (0 < Rabs (l1 - l2)) by (apply Rabs_pos_lt; lra); lra).
  destruct (H1 _ He) as [d1 [Hd1 Q1]]. destruct (H2 _ He) as [d2 [Hd2 Q2]].
  set (h := - (Rmin d1 d2 / 2)).
  assert (Hh : - d1 < h < 0 /\ - d2 < h < 0).
  { unfold h. pose proof (Rmin_l d1 d2). pose proof (Rmin_r d1 d2).
    assert (0 < Rmin d1 d2) by (apply Rmin_pos; assumption). lra. }
  specialize (Q1 h (proj1 Hh)). specialize (Q2 h (proj2 Hh)).
  set (q := (f (x + h) - f x) / h) in *.
  assert (T : Rabs (l1 - l2) <= Rabs (q - l2) + Rabs (q - l1)).
  { replace (l1 - l2) with ((q - l2) + - (q - l1)) by ring.
    eapply Rle_trans; [apply Rabs_triang|]. rewrite Rabs_Ropp. lra. }
  lra.
Qed.

(* a genuine kink: the one-sided derivatives differ, so no derivative exists *)
Lemma kink_no_derivative f x lr ll : right_derive f x lr -> left_derive f x ll -> lr <> ll -> forall l, ~ is_derive f x l.
Proof.
  intros Hr Hl N l D. destruct (derive_sides f x l D) as [Dr Dl].
  apply N. rewrite (right_derive_unique f x lr l Hr Dr). apply (left_derive_unique f x l ll Dl Hl).
Qed.

(* a function that coincides with a differentiable one on a half line has that one-sided derivative *)
Lemma right_of_piece f g x l : (forall y, x <= y -> f y = g y) -> is_derive g x l -> right_derive f x l.
Proof. intros E D. apply right_derive_ext with g; [exact E|]. apply (derive_sides g x l D). Qed.
Lemma left_of_piece f g x l : (forall y, y <= x -> f y = g y) -> is_derive g x l -> left_derive f x l.
Proof. intros E D. apply left_derive_ext with g; [exact E|]. apply (derive_sides g x l D). Qed.

(* ------------------------------------------------------------------------------------------ *)
(* (A) code 0                                                                                  *)
(* ------------------------------------------------------------------------------------------ *)
Section DCode0.
  Variables lo nom hi : R.
  Let f : R -> R := slow_code0 RT lo nom hi.
  (* same comparison as the code: at alpha = 0 the `else` (down) branch is the one taken *)
  Definition dcode0 (a : R) : R := if rltb 0 a then hi - nom else nom - lo.

  Theorem dcode0_derive a : a <> 0 -> is_derive f a (dcode0 a).
  Proof.
    intro N. unfold dcode0. destruct (Rlt_dec 0 a) as [P | P].
    - rewrite rltb_true by exact P.
      apply is_derive_ext_loc with (fun y => (hi - nom) * y).
      + generalize (locally_gt 0 a P). apply filter_imp. intros y Hy. cbv beta in Hy. symmetry. apply code0_pos. lra.
      + auto_derive; auto. ring.
    - rewrite rltb_false by lra. assert (Q : a < 0) by lra.
      apply is_derive_ext_loc with (fun y => (nom - lo) * y).
      + generalize (locally_lt 0 a Q). apply filter_imp. intros y Hy. cbv beta in Hy. symmetry. apply code0_neg. lra.
      + auto_derive; auto. ring.
  Qed.
  Theorem dcode0_right : right_derive f 0 (hi - nom).
  Proof. apply right_of_piece with (fun y => (hi - nom) * y); [intros; apply code0_pos; assumption|]. auto_derive; auto. ring. Qed.
  Theorem dcode0_left : left_derive f 0 (nom - lo).
  Proof. apply left_of_piece with (fun y => (nom - lo) * y); [intros; apply code0_neg; assumption|]. auto_derive; auto. ring. Qed.
  (* the branch selected at the kink is the left one *)
  Theorem dcode0_at_kink : dcode0 0 = nom - lo /\ left_derive f 0 (dcode0 0).
  Proof. assert (E : dcode0 0 = nom - lo) by (unfold dcode0; rewrite rltb_false by lra; reflexivity).
    split; [exact E|]. rewrite E. exact dcode0_left. Qed.
  Theorem code0_kink : hi - nom <> nom - lo -> forall l, ~ is_derive f 0 l.
  Proof. apply kink_no_derivative; [exact dcode0_right | exact dcode0_left]. Qed.
End DCode0.

(* ------------------------------------------------------------------------------------------ *)
(* (A) code 1                                                                                  *)
(* ------------------------------------------------------------------------------------------ *)
Section DCode1.
  Variables lo nom hi : R.
  Hypothesis Hlo : 0 < lo.
  Hypothesis Hnom : 0 < nom.
  Hypothesis Hhi : 0 < hi.
  Let f : R -> R := slow_code1 RT lo nom hi.
  Definition dcode1 (a : R) : R :=
    if rltb 0 a then ln (hi / nom) * exp (a * ln (hi / nom)) else - ln (lo / nom) * exp (- a * ln (lo / nom)).

  Lemma code1_up_derive a : is_derive (fun y => exp (y * ln (hi / nom))) a (ln (hi / nom) * exp (a * ln (hi / nom))).
  Proof. auto_derive; auto. ring. Qed.
  Lemma code1_dn_derive a : is_derive (fun y => exp (- y * ln (lo / nom))) a (- ln (lo / nom) * exp (- a * ln (lo / nom))).
  Proof. auto_derive; auto. ring. Qed.

  Theorem dcode1_derive a : a <> 0 -> is_derive f a (dcode1 a).
  Proof.
    intro N. unfold dcode1. destruct (Rlt_dec 0 a) as [P | P].
    - rewrite rltb_true by exact P.
      apply is_derive_ext_loc with (fun y => exp (y * ln (hi / nom))); [|apply code1_up_derive].
      generalize (locally_gt 0 a P). apply filter_imp. intros y Hy. cbv beta in Hy. symmetry. apply code1_pos; auto. lra.
    - rewrite rltb_false by lra. assert (Q : a < 0) by lra.
      apply is_derive_ext_loc with (fun y => exp (- y * ln (lo / nom))); [|apply code1_dn_derive].
      generalize (locally_lt 0 a Q). apply filter_imp. intros y Hy. cbv beta in Hy. symmetry. apply code1_neg; auto. lra.
  Qed.
  Theorem dcode1_right : right_derive f 0 (ln (hi / nom)).
  Proof.
    apply right_of_piece with (fun y => exp (y * ln (hi / nom))); [intros; apply code1_pos; auto|].
    pose proof (code1_up_derive 0) as D. rewrite Rmult_0_l, exp_0, Rmult_1_r in D. exact D.
  Qed.
  Theorem dcode1_left : left_derive f 0 (- ln (lo / nom)).
  Proof.
    apply left_of_piece with (fun y => exp (- y * ln (lo / nom))); [intros; apply code1_neg; auto|].
    pose proof (code1_dn_derive 0) as D. rewrite Ropp_0, Rmult_0_l, exp_0, Rmult_1_r in D. exact D.
  Qed.
  Theorem dcode1_at_kink : dcode1 0 = - ln (lo / nom) /\ left_derive f 0 (dcode1 0).
  Proof. assert (E : dcode1 0 = - ln (lo / nom)) by (unfold dcode1; rewrite rltb_false by lra; rewrite Ropp_0, Rmult_0_l, exp_0; ring).
    split; [exact E|]. rewrite E. exact dcode1_left. Qed.
  Theorem code1_kink : ln (hi / nom) <> - ln (lo / nom) -> forall l, ~ is_derive f 0 l.
  Proof. apply kink_no_derivative; [exact dcode1_right | exact dcode1_left]. Qed.
End DCode1.

(* ------------------------------------------------------------------------------------------ *)
(* (A) codes 2, 4p, 4 : differentiable everywhere                                              *)
(* ------------------------------------------------------------------------------------------ *)
Section DCode2.
  Variables lo nom hi : R.
  Let qa := (hi + lo) / 2 - nom.
  Let qb := (hi - lo) / 2.
  Definition dcode2 (a : R) : R :=
    if rltb 1 a then qb + 2 * qa else if rleb (-1) a then 2 * qa * a + qb else qb - 2 * qa.
  Lemma dcode2_d1 a : dcode2 a = code2_d1 lo nom hi a.
  Proof.
    unfold dcode2, code2_d1. fold qa qb.
    destruct (Rle_dec a (-1)) as [L | L].
    - rewrite rltb_false by lra. destruct (Req_dec a (-1)) as [-> | N].
      + rewrite rleb_true by lra. ring.
      + rewrite rleb_false by lra. reflexivity.
    - destruct (Rle_dec a 1) as [U | U].
      + rewrite rltb_false by lra. rewrite rleb_true by lra. reflexivity.
      + rewrite rltb_true by lra. reflexivity.
  Qed.
  Theorem dcode2_derive a : is_derive (slow_code2 RT lo nom hi) a (dcode2 a).
  Proof. rewrite dcode2_d1. apply code2_C1. Qed.
End DCode2.

Section DCode4p.
  Variables lo nom hi : R.
  Let du := hi - nom.
  Let dd := nom - lo.
  Definition dcode4p (a : R) : R :=
    if rltb a (-1) then dd else if rltb 1 a then du
    else (du + dd) / 2 + (du - dd) / 16 * (30 * a - 40 * a ^ 3 + 18 * a ^ 5).
  Lemma dcode4p_d1 a : dcode4p a = code4p_d1 lo nom hi a.
  Proof.
    unfold dcode4p, code4p_d1. fold du dd.
    destruct (Rle_dec a (-1)) as [L | L].
    - destruct (Req_dec a (-1)) as [-> | N].
      + rewrite rltb_false by lra. rewrite rltb_false by lra. field.
      + rewrite rltb_true by lra. reflexivity.
    - rewrite rltb_false by lra. destruct (Rle_dec a 1) as [U | U].
      + rewrite rltb_false by lra. reflexivity.
      + rewrite rltb_true by lra. reflexivity.
  Qed.
  Theorem dcode4p_derive a : is_derive (slow_code4p RT lo nom hi) a (dcode4p a).
  Proof. rewrite dcode4p_d1. apply code4p_C1. Qed.
End DCode4p.

Section DCode4.
  Variables a0 lo nom hi : R.
  Hypothesis Ha0 : 0 < a0.
  Hypothesis Hlo : 0 < lo.
  Hypothesis Hnom : 0 < nom.
  Hypothesis Hhi : 0 < hi.
  Let Lu := ln (hi / nom).
  Let Ld := ln (lo / nom).
  Definition dcode4 (x : R) : R :=
    if rleb x (- a0) then - Ld * exp (- x * Ld)
    else if rleb x a0 then dpoly6 (c4 a0 (exp (a0 * Lu)) (exp (a0 * Ld)) Lu Ld) x
    else Lu * exp (x * Lu).
  Lemma dcode4_d1 x : dcode4 x = code4_d1 a0 lo nom hi x.
  Proof.
    unfold dcode4, code4_d1. fold Lu Ld.
    destruct (Rle_dec x (- a0)) as [L | L].
    - rewrite rleb_true by lra. reflexivity.
    - rewrite rleb_false by lra. destruct (Rle_dec x a0) as [U | U].
      + rewrite rleb_true by lra. reflexivity.
      + rewrite rleb_false by lra. reflexivity.
  Qed.
  Theorem dcode4_derive x : is_derive (slow_code4 RT a0 lo nom hi) x (dcode4 x).
  Proof. rewrite dcode4_d1. apply code4_C1; assumption. Qed.
  (* on the breakpoints the polynomial's derivative and the exponential's coincide, so it does not matter which branch an
     implementation differentiates there - but it must differentiate one of them *)
  Theorem dcode4_at_breakpoints : dcode4 a0 = Lu * exp (a0 * Lu) /\ dcode4 (- a0) = - Ld * exp (a0 * Ld).
  Proof.
    assert (N : a0 <> 0) by lra.
    destruct (code4_conditions a0 (exp (a0 * Lu)) (exp (a0 * Ld)) Lu Ld N) as (_ & _ & B3 & _).
    unfold dcode4. split.
    - rewrite rleb_false by lra. rewrite rleb_true by lra. exact B3.
    - rewrite rleb_true by lra. f_equal. f_equal. ring.
  Qed.
End DCode4.

(* ------------------------------------------------------------------------------------------ *)
(* (B) product / sum rule for bin rates built from differentiable pieces                        *)
(*     rate of a cell = (nominal + sum of additive pieces) * product of plain parameters * product of factor pieces;  *)
(*     a piece is a function of ONE parameter (p_i), p_df is its claimed derivative, p_l its left extension:          *)
(*     [p_l a] coincides with p_f on (-inf, a] and is differentiable at a (at a kink: the branch taken there)          *)
(* ------------------------------------------------------------------------------------------ *)
Record piece := { p_f : R -> R; p_df : R -> R; p_l : R -> R -> R; p_i : nat }.
Record gcell := { g_nom : R; g_add : list piece; g_fac : list nat; g_mul : list piece }.
Definition pval (x : list R) (p : piece) : R := p_f p (par RNum x (p_i p)).
Definition gcell_rate (x : list R) (c : gcell) : R :=
  fold_right (fun p acc => pval x p + acc) (g_nom c) (g_add c) * fold_right (fun i acc => par RNum x i * acc) 1 (g_fac c)
  * fold_right (fun p acc => pval x p * acc) 1 (g_mul c).
Definition gbin_rate (x : list R) (cells : list gcell) : R := fold_right (fun c acc => gcell_rate x c + acc) 0 cells.

Definition pdual (x : list R) (j : nat) (p : piece) : R * R := (pval x p, p_df p (par RNum x (p_i p)) * dirj x j (p_i p)).
Definition pardual (x : list R) (j i : nat) : R * R := (par RNum x i, dirj x j i).
Definition gcell_dual (x : list R) (j : nat) (c : gcell) : R * R :=
  d_mul RNum (d_mul RNum (fold_right (fun p acc => d_add RNum (pdual x j p) acc) (g_nom c, 0) (g_add c))
                         (fold_right (fun i acc => d_mul RNum (pardual x j i) acc) (1, 0) (g_fac c)))
             (fold_right (fun p acc => d_mul RNum (pdual x j p) acc) (1, 0) (g_mul c)).
Definition gbin_dual (x : list R) (j : nat) (cells : list gcell) : R * R :=
  fold_right (fun c acc => d_add RNum (gcell_dual x j c) acc) (0, 0) cells.

(* F has value fst v and derivative snd v at 0 *)
Definition Dat (F : R -> R) (v : R * R) : Prop := F 0 = fst v /\ is_derive F 0 (snd v).
Lemma Dat_const c : Dat (fun _ => c) (c, 0).
Proof. split; [reflexivity|]. simpl. auto_derive; auto. Qed.
Lemma Dat_add F G u v : Dat F u -> Dat G v -> Dat (fun t => F t + G t) (d_add RNum u v).
Proof. intros [F0 F1] [G0 G1]. split; simpl; [now rewrite F0, G0|]. apply (is_derive_plus F G); assumption. Qed.
Lemma Dat_mul F G u v : Dat F u -> Dat G v -> Dat (fun t => F t * G t) (d_mul RNum u v).
Proof. intros [F0 F1] [G0 G1]. split; simpl; [now rewrite F0, G0|].
  pose proof (is_derive_mult F G 0 _ _ F1 G1 Rmult_comm) as M. simpl in M. rewrite F0, G0 in M. exact M. Qed.
Lemma Dat_ext F G v : (forall t, F t = G t) -> Dat G v -> Dat F v.
Proof. intros E [G0 G1]. split; [now rewrite E|]. eapply is_derive_ext; [intro t; symmetry; apply E|exact G1]. Qed.

Lemma par_moved0 x j t i : par RNum (moved_from 0 j t x) i = par RNum x i + t * dirj x j i.
Proof. rewrite (par_moved x j t 0 i). reflexivity. Qed.
Lemma dirj_cases x j i : (dirj x j i = 1 /\ i = j /\ (j < length x)%nat) \/ dirj x j i = 0.
Proof. unfold dirj. destruct (Nat.eqb i j) eqn:E; [|right; reflexivity]. apply Nat.eqb_eq in E. subst i.
  destruct (Nat.ltb j (length x)) eqn:L; [|right; reflexivity]. apply Nat.ltb_lt in L. left. auto. Qed.

Lemma Dat_par x j i : Dat (fun t => par RNum (moved_from 0 j t x) i) (pardual x j i).
Proof. apply Dat_ext with (fun t => par RNum x i + t * dirj x j i); [intro t; apply par_moved0|].
  unfold pardual. split; cbn [fst snd]; [ring|]. auto_derive; auto. apply Rmult_1_l. Qed.

Lemma Dat_piece x j p :
  (p_i p = j -> (j < length x)%nat -> is_derive (p_f p) (par RNum x j) (p_df p (par RNum x j))) ->
  Dat (fun t => pval (moved_from 0 j t x) p) (pdual x j p).
Proof.
  intro H. unfold pdual, pval. apply Dat_ext with (fun t => p_f p (par RNum x (p_i p) + t * dirj x j (p_i p))).
  { intro t. now rewrite par_moved0. }
  destruct (dirj_cases x j (p_i p)) as [[E1 [E2 E3]] | E0].
  - rewrite E1. split; cbn [fst snd]; [f_equal; ring|].
    specialize (H E2 E3). rewrite <- E2 in H.
    pose proof (is_derive_comp (p_f p) (fun t => par RNum x (p_i p) + t * 1) 0 (p_df p (par RNum x (p_i p))) 1) as C.
    cbv beta in C. set (a := par RNum x (p_i p)) in *. change (V RNum) with R in a.
    replace (a + 0 * 1) with a in C by ring.
    assert (D1 : is_derive (fun t : R => a + t * 1) 0 1) by (auto_derive; auto; apply Rmult_1_l).
    specialize (C H D1). unfold scal in C; simpl in C; unfold mult in C; simpl in C.
    replace (p_df p a * 1) with (1 * p_df p a) by ring. exact C.
  - rewrite E0. apply Dat_ext with (fun _ => p_f p (par RNum x (p_i p))); [intro t; f_equal; ring|].
    replace (p_df p (par RNum x (p_i p)) * 0) with 0 by ring. apply Dat_const.
Qed.

Definition smooth_piece (x : list R) (j : nat) (p : piece) : Prop :=
  p_i p = j -> (j < length x)%nat -> is_derive (p_f p) (par RNum x j) (p_df p (par RNum x j)).
Definition smooth_cell (x : list R) (j : nat) (c : gcell) : Prop :=
  List.Forall (smooth_piece x j) (g_add c) /\ List.Forall (smooth_piece x j) (g_mul c).

Lemma Dat_sum_pieces x j nom ps : List.Forall (smooth_piece x j) ps ->
  Dat (fun t => fold_right (fun p acc => pval (moved_from 0 j t x) p + acc) nom ps)
      (fold_right (fun p acc => d_add RNum (pdual x j p) acc) (nom, 0) ps).
Proof. induction 1 as [|p ps Hp _ IH]; simpl; [apply Dat_const|].
  apply (Dat_add (fun t => pval (moved_from 0 j t x) p)); [apply Dat_piece; exact Hp | exact IH]. Qed.
Lemma Dat_prod_pieces x j ps : List.Forall (smooth_piece x j) ps ->
  Dat (fun t => fold_right (fun p acc => pval (moved_from 0 j t x) p * acc) 1 ps)
      (fold_right (fun p acc => d_mul RNum (pdual x j p) acc) (1, 0) ps).
Proof. induction 1 as [|p ps Hp _ IH]; simpl; [apply Dat_const|].
  apply (Dat_mul (fun t => pval (moved_from 0 j t x) p)); [apply Dat_piece; exact Hp | exact IH]. Qed.
Lemma Dat_prod_par x j idx :
  Dat (fun t => fold_right (fun i acc => par RNum (moved_from 0 j t x) i * acc) 1 idx)
      (fold_right (fun i acc => d_mul RNum (pardual x j i) acc) (1, 0) idx).
Proof. induction idx as [|i idx IH]; simpl; [apply Dat_const|].
  apply (Dat_mul (fun t => par RNum (moved_from 0 j t x) i)); [apply Dat_par | exact IH]. Qed.

Lemma Dat_gcell x j c : smooth_cell x j c -> Dat (fun t => gcell_rate (moved_from 0 j t x) c) (gcell_dual x j c).
Proof. intros [Ha Hm]. unfold gcell_rate, gcell_dual.
  apply (Dat_mul (fun t => fold_right (fun p acc => pval (moved_from 0 j t x) p + acc) (g_nom c) (g_add c)
                           * fold_right (fun i acc => par RNum (moved_from 0 j t x) i * acc) 1 (g_fac c))).
  - apply (Dat_mul (fun t => fold_right (fun p acc => pval (moved_from 0 j t x) p + acc) (g_nom c) (g_add c))).
    + apply Dat_sum_pieces; exact Ha.
    + apply Dat_prod_par.
  - apply Dat_prod_pieces; exact Hm.
Qed.

Theorem Dat_gbin x j cells : List.Forall (smooth_cell x j) cells ->
  Dat (fun t => gbin_rate (moved_from 0 j t x) cells) (gbin_dual x j cells).
Proof. induction 1 as [|c cells Hc _ IH]; simpl; [apply Dat_const|].
  apply (Dat_add (fun t => gcell_rate (moved_from 0 j t x) c)); [apply Dat_gcell; exact Hc | exact IH]. Qed.

(* the first component is the rate itself, whatever the pieces *)
Lemma gcell_dual_value x j c : fst (gcell_dual x j c) = gcell_rate x c.
Proof. unfold gcell_dual, gcell_rate. simpl. f_equal; [f_equal|].
  - induction (g_add c) as [|p ps IH]; simpl; [reflexivity|]. now rewrite IH.
  - induction (g_fac c) as [|i ps IH]; simpl; [reflexivity|]. now rewrite IH.
  - induction (g_mul c) as [|p ps IH]; simpl; [reflexivity|]. now rewrite IH.
Qed.
Lemma gbin_dual_value x j cells : fst (gbin_dual x j cells) = gbin_rate x cells.
Proof. induction cells as [|c cells IH]; [reflexivity|].
  change (fst (gbin_dual x j (c :: cells))) with (fst (gcell_dual x j c) + fst (gbin_dual x j cells)).
  rewrite gcell_dual_value, IH. reflexivity. Qed.

(* ---- the same at a kink: the dual evaluation yields the LEFT derivative as soon as every piece has a left extension ---- *)
Definition left_ok (p : piece) (a : R) : Prop :=
  (forall y, y <= a -> p_f p y = p_l p a y) /\ is_derive (p_l p a) a (p_df p a).
Definition lok (x : list R) (p : piece) : Prop := left_ok p (par RNum x (p_i p)).
Definition lok_cell (x : list R) (c : gcell) : Prop := List.Forall (lok x) (g_add c) /\ List.Forall (lok x) (g_mul c).
Definition lpiece (x : list R) (p : piece) : piece :=
  {| p_f := p_l p (par RNum x (p_i p)); p_df := p_df p; p_l := p_l p; p_i := p_i p |}.
Definition lcell (x : list R) (c : gcell) : gcell :=
  {| g_nom := g_nom c; g_add := map (lpiece x) (g_add c); g_fac := g_fac c; g_mul := map (lpiece x) (g_mul c) |}.

Lemma lpiece_smooth x j p : lok x p -> smooth_piece x j (lpiece x p).
Proof. intros [_ D] E _. unfold lpiece; simpl. simpl in E. rewrite <- E. exact D. Qed.
Lemma lpiece_dual x j p : lok x p -> pdual x j (lpiece x p) = pdual x j p.
Proof. intros [E _]. unfold pdual, pval, lpiece; simpl. f_equal. symmetry. apply E. apply Rle_refl. Qed.
Lemma lpiece_val x j t p : lok x p -> t <= 0 -> pval (moved_from 0 j t x) p = pval (moved_from 0 j t x) (lpiece x p).
Proof. intros [E _] Ht. unfold pval, lpiece; simpl. apply E. rewrite par_moved0.
  set (a := par RNum x (p_i p)). change (V RNum) with R in a.
  destruct (dirj_cases x j (p_i p)) as [[E1 _] | E0]; [rewrite E1 | rewrite E0]; lra. Qed.

Lemma lcell_smooth x j c : lok_cell x c -> smooth_cell x j (lcell x c).
Proof. intros [Ha Hm]. split; simpl; apply Forall_forall; intros q Hq; apply in_map_iff in Hq; destruct Hq as [p [<- Hp]];
  apply lpiece_smooth; [exact (proj1 (Forall_forall _ _) Ha p Hp) | exact (proj1 (Forall_forall _ _) Hm p Hp)]. Qed.
Lemma fold_map_ext {A B C} (f : A -> B) (g h : B -> C -> C) (k : A -> C -> C) (z : C) (l : list A) :
  (forall a acc, In a l -> g (f a) acc = k a acc) -> fold_right g z (map f l) = fold_right k z l.
Proof. induction l as [|a l IH]; intros H; simpl; [reflexivity|]. rewrite IH by (intros; apply H; right; assumption).
  apply H. left; reflexivity. Qed.
Lemma lcell_dual x j c : lok_cell x c -> gcell_dual x j (lcell x c) = gcell_dual x j c.
Proof. intros [Ha Hm]. unfold gcell_dual, lcell; simpl. f_equal; [f_equal|].
  - apply (fold_map_ext (lpiece x) _ (fun _ acc => acc)). intros p acc Hp. f_equal. apply lpiece_dual. exact (proj1 (Forall_forall _ _) Ha p Hp).
  - apply (fold_map_ext (lpiece x) _ (fun _ acc => acc)). intros p acc Hp. f_equal. apply lpiece_dual. exact (proj1 (Forall_forall _ _) Hm p Hp).
Qed.
Lemma lcell_val x j t c : lok_cell x c -> t <= 0 -> gcell_rate (moved_from 0 j t x) c = gcell_rate (moved_from 0 j t x) (lcell x c).
Proof. intros [Ha Hm] Ht. unfold gcell_rate, lcell; simpl. f_equal; [f_equal|]; symmetry.
  - apply (fold_map_ext (lpiece x) _ (fun _ acc => acc)). intros p acc Hp. f_equal. symmetry. apply lpiece_val; [exact (proj1 (Forall_forall _ _) Ha p Hp) | exact Ht].
  - apply (fold_map_ext (lpiece x) _ (fun _ acc => acc)). intros p acc Hp. f_equal. symmetry. apply lpiece_val; [exact (proj1 (Forall_forall _ _) Hm p Hp) | exact Ht].
Qed.
Lemma lbin_smooth x j cells : List.Forall (lok_cell x) cells -> List.Forall (smooth_cell x j) (map (lcell x) cells).
Proof. induction 1; simpl; constructor; auto. apply lcell_smooth; assumption. Qed.
Lemma lbin_dual x j cells : List.Forall (lok_cell x) cells -> gbin_dual x j (map (lcell x) cells) = gbin_dual x j cells.
Proof. induction 1 as [|c cells Hc _ IH]; simpl; [reflexivity|]. now rewrite lcell_dual, IH. Qed.
Lemma lbin_val x j t cells : List.Forall (lok_cell x) cells -> t <= 0 ->
  gbin_rate (moved_from 0 j t x) cells = gbin_rate (moved_from 0 j t x) (map (lcell x) cells).
Proof. intros H Ht. induction H as [|c cells Hc _ IH]; simpl; [reflexivity|]. now rewrite <- lcell_val, IH. Qed.

Theorem Lat_gbin x j cells : List.Forall (lok_cell x) cells ->
  left_derive (fun t => gbin_rate (moved_from 0 j t x) cells) 0 (snd (gbin_dual x j cells)).
Proof. intro H. apply left_of_piece with (fun t => gbin_rate (moved_from 0 j t x) (map (lcell x) cells)).
  - intros t Ht. apply lbin_val; assumption.
  - rewrite <- (lbin_dual x j cells H). apply (Dat_gbin x j _ (lbin_smooth x j cells H)). Qed.

(* ------------------------------------------------------------------------------------------ *)
(* gradient of twice the negative log-likelihood of a model built from such cells               *)
(* ------------------------------------------------------------------------------------------ *)
Record gmodel := { gm_bins : list (R * list gcell); gm_pois : list (R * R * nat); gm_gaus : list (R * R * nat) }.
Definition gnll_main (bins : list (R * list gcell)) (x : list R) : R :=
  fold_right (fun nb acc => nllterm (fst nb) (gbin_rate x (snd nb)) + acc) 0 bins.
Definition gnll_pois (l : list (R * R * nat)) (x : list R) : R :=
  fold_right (fun p acc => let '(aux, tau, i) := p in nllterm aux (tau * par RNum x i) + acc) 0 l.
Definition gnll_gaus (l : list (R * R * nat)) (x : list R) : R :=
  fold_right (fun g acc => let '(w, aux, i) := g in w / 2 * ((par RNum x i - aux) * (par RNum x i - aux)) + acc) 0 l.
Definition gnll (M : gmodel) (x : list R) : R := gnll_main (gm_bins M) x + (gnll_pois (gm_pois M) x + gnll_gaus (gm_gaus M) x).

Definition ggrad_main (bins : list (R * list gcell)) (x : list R) (j : nat) : R :=
  fold_right (fun nb acc => let r := gbin_dual x j (snd nb) in (1 - fst nb / fst r) * snd r + acc) 0 bins.
Definition ggrad_pois (l : list (R * R * nat)) (x : list R) (j : nat) : R :=
  fold_right (fun p acc => let '(aux, tau, i) := p in (1 - aux / (tau * par RNum x i)) * (tau * dirj x j i) + acc) 0 l.
Definition ggrad_gaus (l : list (R * R * nat)) (x : list R) (j : nat) : R :=
  fold_right (fun g acc => let '(w, aux, i) := g in w * (par RNum x i - aux) * dirj x j i + acc) 0 l.
Definition ggrad (M : gmodel) (x : list R) (j : nat) : R :=
  2 * (ggrad_main (gm_bins M) x j + (ggrad_pois (gm_pois M) x j + ggrad_gaus (gm_gaus M) x j)).

Definition gpos (M : gmodel) (x : list R) : Prop :=
  List.Forall (fun nb => 0 < gbin_rate x (snd nb)) (gm_bins M) /\
  List.Forall (fun p : R * R * nat => 0 < snd (fst p) * par RNum x (snd p)) (gm_pois M).

Lemma nll_chain (lam : R -> R) (v : R * R) (n : R) : Dat lam v -> 0 < fst v ->
  is_derive (fun t => nllterm n (lam t)) 0 ((1 - n / fst v) * snd v).
Proof. intros [L0 L1] Hp. unfold nllterm. rewrite <- L0 in *.
  pose proof (is_derive_comp (fun l => l - n * ln l) lam 0 (1 - n / lam 0) (snd v)) as C.
  assert (D : is_derive (fun l => l - n * ln l) (lam 0) (1 - n / lam 0)) by (auto_derive; [lra | field; lra]).
  specialize (C D L1). unfold scal in C; simpl in C; unfold mult in C; simpl in C.
  replace ((1 - n / lam 0) * snd v) with (snd v * (1 - n / lam 0)) by ring. exact C. Qed.

Lemma moved_zero x j : forall s, moved_from s j 0 x = x.
Proof. induction x as [|v x IH]; intro s; simpl; [reflexivity|]. rewrite IH. f_equal. ring. Qed.

Lemma dmain x j bins : List.Forall (fun nb => 0 < gbin_rate x (snd nb)) bins ->
  List.Forall (fun nb => List.Forall (smooth_cell x j) (snd nb)) bins ->
  is_derive (fun t => gnll_main bins (moved_from 0 j t x)) 0 (ggrad_main bins x j).
Proof. intros Hp Hs. induction bins as [|[n cells] bins IH]; simpl.
  - auto_derive; auto.
  - inversion Hp as [|? ? P1 P2]; subst. inversion Hs as [|? ? S1 S2]; subst. simpl in P1, S1.
    apply (is_derive_plus (fun t => nllterm n (gbin_rate (moved_from 0 j t x) cells)) (fun t => gnll_main bins (moved_from 0 j t x))); [|apply IH; assumption].
    apply (nll_chain (fun t => gbin_rate (moved_from 0 j t x) cells)); [apply Dat_gbin; exact S1|].
    rewrite gbin_dual_value. exact P1. Qed.
Lemma dpois x j l : List.Forall (fun p : R * R * nat => 0 < snd (fst p) * par RNum x (snd p)) l ->
  is_derive (fun t => gnll_pois l (moved_from 0 j t x)) 0 (ggrad_pois l x j).
Proof. induction 1 as [|[[aux tau] i] l P1 _ IH]; simpl.
  - auto_derive; auto.
  - simpl in P1.
    apply (is_derive_plus (fun t => nllterm aux (tau * par RNum (moved_from 0 j t x) i)) (fun t => gnll_pois l (moved_from 0 j t x))); [|exact IH].
    pose proof (nll_chain (fun t => tau * par RNum (moved_from 0 j t x) i) (d_mul RNum (tau, 0) (pardual x j i)) aux
                  (Dat_mul (fun _ => tau) _ _ _ (Dat_const tau) (Dat_par x j i)) P1) as C.
    cbn [d_mul pardual fst snd nmul nadd RNum] in C.
    replace ((1 - aux / (tau * par RNum x i)) * (tau * dirj x j i))
      with ((1 - aux / (tau * par RNum x i)) * (0 * par RNum x i + tau * dirj x j i)) by ring. exact C. Qed.
Lemma dgaus x j l : is_derive (fun t => gnll_gaus l (moved_from 0 j t x)) 0 (ggrad_gaus l x j).
Proof. induction l as [|[[w aux] i] l IH]; simpl.
  - auto_derive; auto.
  - apply (is_derive_plus (fun t => w / 2 * ((par RNum (moved_from 0 j t x) i - aux) * (par RNum (moved_from 0 j t x) i - aux)))
                          (fun t => gnll_gaus l (moved_from 0 j t x))); [|exact IH].
    apply is_derive_ext with (fun t => w / 2 * ((par RNum x i + t * dirj x j i - aux) * (par RNum x i + t * dirj x j i - aux)));
      [intro t; now rewrite par_moved0|].
    set (a := par RNum x i). change (V RNum) with R in a. set (d := dirj x j i).
    auto_derive; auto. field. Qed.

Theorem ggrad_is_derivative M x j : gpos M x ->
  List.Forall (fun nb => List.Forall (smooth_cell x j) (snd nb)) (gm_bins M) ->
  is_derive (fun t => 2 * gnll M (moved_from 0 j t x)) 0 (ggrad M x j).
Proof. intros [P1 P2] S. unfold ggrad, gnll.
  apply (is_derive_scal (fun t => gnll_main (gm_bins M) (moved_from 0 j t x) + (gnll_pois (gm_pois M) (moved_from 0 j t x) + gnll_gaus (gm_gaus M) (moved_from 0 j t x)))).
  apply (is_derive_plus (fun t => gnll_main (gm_bins M) (moved_from 0 j t x))
                        (fun t => gnll_pois (gm_pois M) (moved_from 0 j t x) + gnll_gaus (gm_gaus M) (moved_from 0 j t x))).
  - apply dmain; assumption.
  - apply (is_derive_plus (fun t => gnll_pois (gm_pois M) (moved_from 0 j t x)) (fun t => gnll_gaus (gm_gaus M) (moved_from 0 j t x))).
    + apply dpois; assumption.
    + apply dgaus.
Qed.

(* at a kink: the same expression is the left derivative of the objective *)
Definition lmodel (x : list R) (M : gmodel) : gmodel :=
  {| gm_bins := map (fun nb => (fst nb, map (lcell x) (snd nb))) (gm_bins M); gm_pois := gm_pois M; gm_gaus := gm_gaus M |}.
Theorem ggrad_left_derivative M x j : gpos M x ->
  List.Forall (fun nb => List.Forall (lok_cell x) (snd nb)) (gm_bins M) ->
  left_derive (fun t => 2 * gnll M (moved_from 0 j t x)) 0 (ggrad M x j).
Proof. intros [P1 P2] L.
  assert (V0 : forall t, t <= 0 -> gnll_main (gm_bins M) (moved_from 0 j t x) = gnll_main (gm_bins (lmodel x M)) (moved_from 0 j t x)).
  { intros t Ht. unfold lmodel; simpl. induction L as [|[n cells] bins L1 _ IH]; simpl; [reflexivity|].
    simpl in L1. rewrite <- (lbin_val x j t cells L1 Ht). f_equal. inversion P1; subst. apply IH; assumption. }
  assert (G0 : ggrad_main (gm_bins (lmodel x M)) x j = ggrad_main (gm_bins M) x j).
  { unfold lmodel; simpl. clear V0 P1. induction L as [|[n cells] bins L1 _ IH]; simpl; [reflexivity|].
    simpl in L1. rewrite (lbin_dual x j cells L1). now rewrite IH. }
  apply left_of_piece with (fun t => 2 * gnll (lmodel x M) (moved_from 0 j t x)).
  - intros t Ht. unfold gnll. rewrite (V0 t Ht). reflexivity.
  - replace (ggrad M x j) with (ggrad (lmodel x M) x j) by (unfold ggrad; rewrite G0; reflexivity).
    apply ggrad_is_derivative.
    + split; [|exact P2]. unfold lmodel; simpl. clear V0 G0.
      induction L as [|[n cells] bins L1 _ IH]; simpl; constructor.
      * simpl. simpl in L1. inversion P1; subst. simpl in *.
        pose proof (lbin_val x j 0 cells L1 (Rle_refl 0)) as E. rewrite !moved_zero in E. rewrite <- E. assumption.
      * inversion P1; subst. apply IH; assumption.
    + unfold lmodel; simpl. clear V0 G0 P1. induction L as [|[n cells] bins L1 _ IH]; simpl; constructor; [|exact IH].
      simpl. apply lbin_smooth. exact L1.
Qed.

(* ------------------------------------------------------------------------------------------ *)
(* (C) the rate model of FitRate.v: its histosys pieces are the translated interpolation codes, and evaluating it at dual  *)
(*     numbers (Grad.rate_dual - the text the check executes over Qc) computes the derivative                               *)
(* ------------------------------------------------------------------------------------------ *)
Definition slow_of (h : hsys RNum) (nom : R) : R -> R :=
  match h_code RNum h with
  | Code0 => slow_code0 RT (h_lo RNum h) nom (h_hi RNum h)
  | Code2 => slow_code2 RT (h_lo RNum h) nom (h_hi RNum h)
  | Code4p => slow_code4p RT (h_lo RNum h) nom (h_hi RNum h)
  end.
Definition ddelta (h : hsys RNum) (nom a : R) : R :=
  match h_code RNum h with
  | Code0 => dcode0 (h_lo RNum h) nom (h_hi RNum h) a
  | Code2 => dcode2 (h_lo RNum h) nom (h_hi RNum h) a
  | Code4p => dcode4p (h_lo RNum h) nom (h_hi RNum h) a
  end.

(* FitRate.delta (hand-written, generic over Num) is, over R, the definition translated from pyhf's source *)
Lemma delta_slow h nom a : delta RNum h nom a = slow_of h nom a.
Proof.
  destruct h as [code lo hi i]. unfold delta, slow_of, two, ofnat. cbn [h_code h_lo h_hi Z.of_nat Pos.of_succ_nat Pos.succ].
  destruct code.
  - unfold slow_code0. rsimp. reflexivity.
  - unfold slow_code2. rsimp.
    destruct (Rlt_dec 1 a); [cmp; field|]. destruct (Rle_dec (-1) a); cmp; cbn [andb]; field.
  - unfold slow_code4p. rsimp.
    destruct (Rlt_dec a (-1)); [cmp; field|]. destruct (Rlt_dec 1 a); cmp; field.
Qed.

Lemma ddelta_derive h nom a : (h_code RNum h = Code0 -> a <> 0) -> is_derive (delta RNum h nom) a (ddelta h nom a).
Proof.
  intro K. apply is_derive_ext with (slow_of h nom); [intro y; symmetry; apply delta_slow|].
  unfold slow_of, ddelta. destruct (h_code RNum h).
  - apply dcode0_derive. apply K. reflexivity.
  - apply dcode2_derive.
  - apply dcode4p_derive.
Qed.

(* evaluating delta at a dual number: comparisons look at the value, the second component is the derivative formula of the
   selected branch - exactly dcodeK *)
Lemma delta_dual h nom a da :
  delta (DualNum RNum) (inj_hsys RNum h) (inj RNum nom) (a, da) = (delta RNum h nom a, ddelta h nom a * da).
Proof.
  destruct h as [code lo hi i]. unfold delta, ddelta, inj_hsys, inj, two, ofnat.
  cbn [h_code h_lo h_hi Z.of_nat Pos.of_succ_nat Pos.succ].
  destruct code.
  - unfold dcode0. cbv [DualNum nltb nleb n0 n1 nsub nadd nmul ndiv nofZ V RNum d_sub d_add d_mul d_div d_const fst snd].
    destruct (rltb 0 a); f_equal; ring.
  - unfold dcode2. cbv [DualNum nltb nleb n0 n1 nsub nadd nmul ndiv nofZ V RNum d_sub d_add d_mul d_div d_const fst snd].
    destruct (rltb 1 a); [f_equal; field|]. destruct (rleb (0 - 1) a) eqn:E.
    + replace (rleb (-1) a) with true by (rewrite <- E; f_equal; lra). f_equal; field.
    + replace (rleb (-1) a) with false by (rewrite <- E; f_equal; lra). f_equal; field.
  - unfold dcode4p. cbv [DualNum nltb nleb n0 n1 nsub nadd nmul ndiv nofZ V RNum d_sub d_add d_mul d_div d_const fst snd].
    replace (0 - 1) with (-1) by ring.
    destruct (rltb a (-1)); [f_equal; field|]. destruct (rltb 1 a); f_equal; field.
Qed.

(* left extension of a histosys piece at base point a: the piece itself, except at/below the kink of code 0 where it is the
   linear function of the branch `alpha <= 0` *)
Definition ldelta (h : hsys RNum) (nom a : R) : R -> R :=
  match h_code RNum h with
  | Code0 => if rltb 0 a then delta RNum h nom else (fun y => (nom - h_lo RNum h) * y)
  | _ => delta RNum h nom
  end.
Definition hpiece (nom : R) (h : hsys RNum) : piece :=
  {| p_f := delta RNum h nom; p_df := ddelta h nom; p_l := ldelta h nom; p_i := h_par RNum h |}.

Lemma hpiece_left_ok nom h a : left_ok (hpiece nom h) a.
Proof.
  unfold left_ok, hpiece, ldelta; cbn [p_f p_df p_l]. destruct (h_code RNum h) eqn:C.
  - destruct (Rlt_dec 0 a) as [P | P].
    + rewrite rltb_true by exact P. split; [reflexivity|]. apply ddelta_derive. intros _. lra.
    + rewrite rltb_false by lra. split.
      * intros y Hy. rewrite delta_slow. unfold slow_of. rewrite C. apply code0_neg. lra.
      * unfold ddelta. rewrite C. unfold dcode0. rewrite rltb_false by lra. auto_derive; auto. ring.
  - split; [reflexivity|]. apply ddelta_derive. rewrite C. discriminate.
  - split; [reflexivity|]. apply ddelta_derive. rewrite C. discriminate.
Qed.

Definition cell_g (c : cell RNum) : gcell :=
  {| g_nom := c_nom RNum c; g_add := map (hpiece (c_nom RNum c)) (c_hs RNum c); g_fac := c_fac RNum c; g_mul := [] |}.

Lemma prod_par_fold x idx : prod_par RNum x idx = fold_right (fun i acc => par RNum x i * acc) 1 idx.
Proof. induction idx as [|i idx IH]; simpl; [reflexivity|]. now rewrite IH. Qed.
Lemma fold_hpiece x nom0 nom hs :
  fold_right (fun h acc => nadd RNum (delta RNum h nom (par RNum x (h_par RNum h))) acc) nom0 hs
  = fold_right (fun p acc => pval x p + acc) nom0 (map (hpiece nom) hs).
Proof. induction hs as [|h hs IH]; cbn [map fold_right]; [reflexivity|]. rewrite IH. reflexivity. Qed.
Lemma cell_rate_g x c : cell_rate RNum x c = gcell_rate x (cell_g c).
Proof. unfold cell_rate, gcell_rate, cell_g; cbn [g_nom g_add g_fac g_mul fold_right].
  rewrite Rmult_1_r. rewrite prod_par_fold. cbn [nmul RNum]. f_equal. apply fold_hpiece. Qed.
Lemma bin_rate_g x cells : bin_rate RNum x cells = gbin_rate x (map cell_g cells).
Proof. induction cells as [|c cells IH]; cbn [map bin_rate gbin_rate fold_right]; [reflexivity|].
  rewrite cell_rate_g. cbn [nadd RNum]. f_equal. exact IH. Qed.

Lemma d_mul_one (X : R * R) : d_mul RNum X (1, 0) = X.
Proof. destruct X as [a b]. unfold d_mul; cbn [fst snd nmul nadd RNum]. f_equal; ring. Qed.
Lemma par_seed0 x j i : par (DualNum RNum) (seed_from RNum 0 j x) i = pardual x j i.
Proof. rewrite (par_seed x j 0 i). reflexivity. Qed.

Lemma cell_dual_g x j c : cell_rate (DualNum RNum) (seed_from RNum 0 j x) (inj_cell RNum c) = gcell_dual x j (cell_g c).
Proof.
  unfold cell_rate, gcell_dual, cell_g, inj_cell; cbn [c_nom c_hs c_fac g_nom g_add g_fac g_mul fold_right].
  rewrite d_mul_one. change (nmul (DualNum RNum)) with (d_mul RNum). f_equal.
  - induction (c_hs RNum c) as [|h hs IH]; cbn [map fold_right]; [reflexivity|]. rewrite IH.
    change (nadd (DualNum RNum)) with (d_add RNum). f_equal.
    destruct h as [code lo hi i]. cbn [inj_hsys h_par h_code h_lo h_hi]. rewrite par_seed0. unfold pardual.
    rewrite (delta_dual (Build_hsys code lo hi i)). reflexivity.
  - induction (c_fac RNum c) as [|i idx IH]; cbn [prod_par fold_right]; [reflexivity|]. rewrite IH, par_seed0. reflexivity.
Qed.
Lemma rate_dual_g x j cells : rate_dual RNum x j cells = gbin_dual x j (map cell_g cells).
Proof. unfold rate_dual. induction cells as [|c cells IH]; [reflexivity|].
  cbn [map bin_rate fold_right gbin_dual]. rewrite cell_dual_g. change (nadd (DualNum RNum)) with (d_add RNum). f_equal. exact IH. Qed.

(* no code-0 piece driven by parameter j sits on its kink *)
Definition kink_free (x : list R) (j : nat) (cells : list (cell RNum)) : Prop :=
  forall c h, In c cells -> In h (c_hs RNum c) -> h_code RNum h = Code0 -> h_par RNum h = j -> par RNum x j <> 0.

Lemma cells_smooth x j cells : kink_free x j cells -> List.Forall (smooth_cell x j) (map cell_g cells).
Proof. intro K. apply Forall_forall. intros g Hg. apply in_map_iff in Hg. destruct Hg as [c [<- Hc]].
  split; cbn [cell_g g_add g_mul]; [|constructor].
  apply Forall_forall. intros p Hp. apply in_map_iff in Hp. destruct Hp as [h [<- Hh]].
  intros E _. cbn [hpiece p_i p_f p_df] in *. apply ddelta_derive. intro C0. exact (K c h Hc Hh C0 E). Qed.
Lemma cells_lok x cells : List.Forall (lok_cell x) (map cell_g cells).
Proof. apply Forall_forall. intros g Hg. apply in_map_iff in Hg. destruct Hg as [c [<- Hc]].
  split; cbn [cell_g g_add g_mul]; [|constructor].
  apply Forall_forall. intros p Hp. apply in_map_iff in Hp. destruct Hp as [h [<- Hh]]. apply hpiece_left_ok. Qed.

(* the lifted theorem: cells WITH histosys pieces (codes 0, 2, 4p), every regime, breakpoints included.  Nothing is excluded:
   on the kink of a code-0 piece no derivative exists, and there the same second component is the left derivative *)
Theorem rate_dual_is_derivative x j cells : kink_free x j cells ->
  fst (rate_dual RNum x j cells) = bin_rate RNum x cells /\
  is_derive (fun t => bin_rate RNum (moved_from 0 j t x) cells) 0 (snd (rate_dual RNum x j cells)).
Proof. intro K. rewrite rate_dual_g. split.
  - rewrite gbin_dual_value. symmetry. apply bin_rate_g.
  - eapply is_derive_ext; [intro t; symmetry; apply bin_rate_g|].
    apply (Dat_gbin x j (map cell_g cells) (cells_smooth x j cells K)). Qed.
Theorem rate_dual_left_derivative x j cells :
  left_derive (fun t => bin_rate RNum (moved_from 0 j t x) cells) 0 (snd (rate_dual RNum x j cells)).
Proof. rewrite rate_dual_g. apply left_derive_ext with (fun t => gbin_rate (moved_from 0 j t x) (map cell_g cells)).
  - intros t _. apply bin_rate_g.
  - apply Lat_gbin. apply cells_lok. Qed.

Ltac kink_free_tac :=
  let c := fresh "c" in let h := fresh "h" in let Hc := fresh "Hc" in let Hh := fresh "Hh" in let C0 := fresh "C0" in let E := fresh "E" in
  intros c h Hc Hh C0 E; cbn [In] in Hc;
  repeat (destruct Hc as [<- | Hc];
          [cbn [c_hs In] in Hh; repeat (destruct Hh as [<- | Hh]; [cbn in C0, E; try discriminate; try (cbn; lra)|]); try contradiction|]);
  try contradiction.
(* non-vacuity: a bin with a code-0 piece on its kink, a code-2 piece on its breakpoint +1 and a code-4p piece on -1 *)
Example rate_dual_nonvacuous :
  let cells := [Build_cell (N := RNum) 10 [Build_hsys (N := RNum) Code0 8 13 1; Build_hsys (N := RNum) Code2 9 12 2] [0%nat];
                Build_cell (N := RNum) 5 [Build_hsys (N := RNum) Code4p 4 7 3] []] in
  let x := [2; 0; 1; -1] in
  kink_free x 0 cells /\ kink_free x 2 cells /\ kink_free x 3 cells /\ ~ kink_free x 1 cells /\
  rate_dual RNum x 1 cells = (28, 4) /\ rate_dual RNum x 2 cells = (28, 5) /\ rate_dual RNum x 3 cells = (28, 1).
Proof.
  cbv zeta. repeat split.
  - kink_free_tac.
  - kink_free_tac.
  - kink_free_tac.
  - intro K. apply (K _ _ (or_introl eq_refl) (or_introl eq_refl) eq_refl eq_refl). reflexivity.
  - rewrite rate_dual_g. cbv [gbin_dual gcell_dual map fold_right cell_g hpiece pdual pval pardual dirj par nth c_nom c_hs c_fac g_nom g_add g_fac g_mul
      p_f p_df p_i h_par h_code h_lo h_hi Nat.eqb Nat.ltb Nat.leb length d_add d_mul fst snd nadd nmul n0 RNum V delta ddelta dcode0 dcode2 dcode4p two ofnat
      nsub ndiv n1 nofZ nltb nleb Z.of_nat Pos.of_succ_nat Pos.succ]. cmp. f_equal; field.
  - rewrite rate_dual_g. cbv [gbin_dual gcell_dual map fold_right cell_g hpiece pdual pval pardual dirj par nth c_nom c_hs c_fac g_nom g_add g_fac g_mul
      p_f p_df p_i h_par h_code h_lo h_hi Nat.eqb Nat.ltb Nat.leb length d_add d_mul fst snd nadd nmul n0 RNum V delta ddelta dcode0 dcode2 dcode4p two ofnat
      nsub ndiv n1 nofZ nltb nleb Z.of_nat Pos.of_succ_nat Pos.succ]. cmp. f_equal; field.
  - rewrite rate_dual_g. cbv [gbin_dual gcell_dual map fold_right cell_g hpiece pdual pval pardual dirj par nth c_nom c_hs c_fac g_nom g_add g_fac g_mul
      p_f p_df p_i h_par h_code h_lo h_hi Nat.eqb Nat.ltb Nat.leb length d_add d_mul fst snd nadd nmul n0 RNum V delta ddelta dcode0 dcode2 dcode4p two ofnat
      nsub ndiv n1 nofZ nltb nleb Z.of_nat Pos.of_succ_nat Pos.succ]. cmp. f_equal; field.
Qed.

(* ------------------------------------------------------------------------------------------ *)
(* (D) cells extended by normsys factors (interpolation codes 1 and 4 on the triple lo, 1, hi)  *)
(* ------------------------------------------------------------------------------------------ *)
Inductive ncode := NCode1 | NCode4 (a0 : R).
Record nsys := { n_code : ncode; n_lo : R; n_hi : R; n_par : nat }.
Definition nfac (n : nsys) : R -> R :=
  match n_code n with
  | NCode1 => slow_code1 RT (n_lo n) 1 (n_hi n)
  | NCode4 a0 => slow_code4 RT a0 (n_lo n) 1 (n_hi n)
  end.
Definition dnfac (n : nsys) (a : R) : R :=
  match n_code n with
  | NCode1 => dcode1 (n_lo n) 1 (n_hi n) a
  | NCode4 a0 => dcode4 a0 (n_lo n) 1 (n_hi n) a
  end.
Definition lnfac (n : nsys) (a : R) : R -> R :=
  match n_code n with
  | NCode1 => if rltb 0 a then nfac n else (fun y => exp (- y * ln (n_lo n / 1)))
  | NCode4 _ => nfac n
  end.
Definition ns_ok (n : nsys) : Prop :=
  0 < n_lo n /\ 0 < n_hi n /\ match n_code n with NCode1 => True | NCode4 a0 => 0 < a0 end.
Definition npiece (n : nsys) : piece := {| p_f := nfac n; p_df := dnfac n; p_l := lnfac n; p_i := n_par n |}.

Lemma dnfac_derive n a : ns_ok n -> (n_code n = NCode1 -> a <> 0) -> is_derive (nfac n) a (dnfac n a).
Proof. intros (Hlo & Hhi & Hc) K. unfold nfac, dnfac. destruct (n_code n) as [|a0].
  - apply dcode1_derive; try lra. apply K. reflexivity.
  - apply dcode4_derive; try lra. Qed.
Lemma npiece_left_ok n a : ns_ok n -> left_ok (npiece n) a.
Proof. intros Hok. pose proof Hok as (Hlo & Hhi & Hc). unfold left_ok, npiece, lnfac; cbn [p_f p_df p_l]. destruct (n_code n) as [|a0] eqn:C.
  - destruct (Rlt_dec 0 a) as [P | P].
    + rewrite rltb_true by exact P. split; [reflexivity|]. apply dnfac_derive; [exact Hok|]. intros _. lra.
    + rewrite rltb_false by lra. split.
      * intros y Hy. unfold nfac. rewrite C. apply code1_neg; lra.
      * unfold dnfac. rewrite C. unfold dcode1. rewrite rltb_false by lra. apply code1_dn_derive.
  - split; [reflexivity|]. apply dnfac_derive; [exact Hok|]. rewrite C. discriminate.
Qed.

Record xcell := { x_cell : cell RNum; x_ns : list nsys }.
Definition xcell_rate (x : list R) (c : xcell) : R :=
  cell_rate RNum x (x_cell c) * fold_right (fun n acc => nfac n (par RNum x (n_par n)) * acc) 1 (x_ns c).
Definition xbin_rate (x : list R) (cells : list xcell) : R := fold_right (fun c acc => xcell_rate x c + acc) 0 cells.
Definition xcell_g (c : xcell) : gcell :=
  {| g_nom := c_nom RNum (x_cell c); g_add := map (hpiece (c_nom RNum (x_cell c))) (c_hs RNum (x_cell c));
     g_fac := c_fac RNum (x_cell c); g_mul := map npiece (x_ns c) |}.
Lemma xcell_rate_g x c : xcell_rate x c = gcell_rate x (xcell_g c).
Proof. unfold xcell_rate, cell_rate, gcell_rate, xcell_g; cbn [g_nom g_add g_fac g_mul].
  rewrite prod_par_fold, fold_hpiece. cbn [nmul RNum]. f_equal.
  induction (x_ns c) as [|n ns IH]; cbn [map fold_right]; [reflexivity|]. rewrite IH. reflexivity. Qed.
Lemma xbin_rate_g x cells : xbin_rate x cells = gbin_rate x (map xcell_g cells).
Proof. induction cells as [|c cells IH]; cbn [map xbin_rate gbin_rate fold_right]; [reflexivity|].
  rewrite xcell_rate_g. f_equal. exact IH. Qed.

(* value and derivative along parameter j of the rate of one bin: the product / sum rule with dcodeK at the cell's alpha *)
Definition xrate_dual (x : list R) (j : nat) (cells : list xcell) : R * R := gbin_dual x j (map xcell_g cells).

Definition xwf (cells : list xcell) : Prop := forall c n, In c cells -> In n (x_ns c) -> ns_ok n.
(* no code-0 histosys piece and no code-1 normsys factor driven by parameter j sits on its kink alpha = 0 *)
Definition xkink_free (x : list R) (j : nat) (cells : list xcell) : Prop :=
  (forall c h, In c cells -> In h (c_hs RNum (x_cell c)) -> h_code RNum h = Code0 -> h_par RNum h = j -> par RNum x j <> 0) /\
  (forall c n, In c cells -> In n (x_ns c) -> n_code n = NCode1 -> n_par n = j -> par RNum x j <> 0).

Lemma xcells_smooth x j cells : xwf cells -> xkink_free x j cells -> List.Forall (smooth_cell x j) (map xcell_g cells).
Proof. intros W [K1 K2]. apply Forall_forall. intros g Hg. apply in_map_iff in Hg. destruct Hg as [c [<- Hc]].
  split; cbn [xcell_g g_add g_mul]; apply Forall_forall; intros p Hp; apply in_map_iff in Hp.
  - destruct Hp as [h [<- Hh]]. intros E _. cbn [hpiece p_i p_f p_df] in *. apply ddelta_derive. intro C0. exact (K1 c h Hc Hh C0 E).
  - destruct Hp as [n [<- Hn]]. intros E _. cbn [npiece p_i p_f p_df] in *. apply dnfac_derive; [exact (W c n Hc Hn)|].
    intro C1. exact (K2 c n Hc Hn C1 E). Qed.
Lemma xcells_lok x cells : xwf cells -> List.Forall (lok_cell x) (map xcell_g cells).
Proof. intros W. apply Forall_forall. intros g Hg. apply in_map_iff in Hg. destruct Hg as [c [<- Hc]].
  split; cbn [xcell_g g_add g_mul]; apply Forall_forall; intros p Hp; apply in_map_iff in Hp.
  - destruct Hp as [h [<- Hh]]. apply hpiece_left_ok.
  - destruct Hp as [n [<- Hn]]. apply npiece_left_ok. exact (W c n Hc Hn). Qed.

Theorem xrate_dual_is_derivative x j cells : xwf cells -> xkink_free x j cells ->
  fst (xrate_dual x j cells) = xbin_rate x cells /\
  is_derive (fun t => xbin_rate (moved_from 0 j t x) cells) 0 (snd (xrate_dual x j cells)).
Proof. intros W K. unfold xrate_dual. split.
  - rewrite gbin_dual_value. symmetry. apply xbin_rate_g.
  - eapply is_derive_ext; [intro t; symmetry; apply xbin_rate_g|].
    apply (Dat_gbin x j (map xcell_g cells) (xcells_smooth x j cells W K)). Qed.
Theorem xrate_dual_left_derivative x j cells : xwf cells ->
  left_derive (fun t => xbin_rate (moved_from 0 j t x) cells) 0 (snd (xrate_dual x j cells)).
Proof. intro W. unfold xrate_dual. apply left_derive_ext with (fun t => gbin_rate (moved_from 0 j t x) (map xcell_g cells)).
  - intros t _. apply xbin_rate_g.
  - apply Lat_gbin. apply xcells_lok. exact W. Qed.

(* ---- the whole objective ---- *)
Record xmodel := { xm_bins : list (R * list xcell); xm_pois : list (R * R * nat); xm_gaus : list (R * R * nat) }.
Definition xmodel_g (M : xmodel) : gmodel :=
  {| gm_bins := map (fun nb => (fst nb, map xcell_g (snd nb))) (xm_bins M); gm_pois := xm_pois M; gm_gaus := xm_gaus M |}.
(* negative log-likelihood up to parameter-independent constants: twice_nll = 2 * xnll + const *)
Definition xnll (M : xmodel) (x : list R) : R :=
  fold_right (fun nb acc => nllterm (fst nb) (xbin_rate x (snd nb)) + acc) 0 (xm_bins M)
  + (gnll_pois (xm_pois M) x + gnll_gaus (xm_gaus M) x).
Definition xgrad (M : xmodel) (x : list R) (j : nat) : R := ggrad (xmodel_g M) x j.
Lemma xnll_g M x : xnll M x = gnll (xmodel_g M) x.
Proof. unfold xnll, gnll, xmodel_g; cbn [gm_bins gm_pois gm_gaus]. f_equal. unfold gnll_main.
  induction (xm_bins M) as [|[n cells] bins IH]; cbn [map fold_right fst snd]; [reflexivity|]. rewrite IH, xbin_rate_g. reflexivity. Qed.

Definition xpos (M : xmodel) (x : list R) : Prop :=
  List.Forall (fun nb => 0 < xbin_rate x (snd nb)) (xm_bins M) /\
  List.Forall (fun p : R * R * nat => 0 < snd (fst p) * par RNum x (snd p)) (xm_pois M).
Definition xmodel_wf (M : xmodel) : Prop := List.Forall (fun nb => xwf (snd nb)) (xm_bins M).
Definition xmodel_kink_free (M : xmodel) (x : list R) (j : nat) : Prop := List.Forall (fun nb => xkink_free x j (snd nb)) (xm_bins M).

Lemma xpos_g M x : xpos M x -> gpos (xmodel_g M) x.
Proof. intros [P1 P2]. split; [|exact P2]. unfold xmodel_g; cbn [gm_bins].
  induction P1 as [|[n cells] bins H _ IH]; cbn [map]; constructor; [|exact IH]. cbn [snd] in *. rewrite <- xbin_rate_g. exact H. Qed.

Theorem xgrad_is_derivative M x j : xpos M x -> xmodel_wf M -> xmodel_kink_free M x j ->
  is_derive (fun t => 2 * xnll M (moved_from 0 j t x)) 0 (xgrad M x j).
Proof. intros P W K. apply is_derive_ext with (fun t => 2 * gnll (xmodel_g M) (moved_from 0 j t x)); [intro t; now rewrite xnll_g|].
  apply ggrad_is_derivative; [apply xpos_g; exact P|]. unfold xmodel_g; cbn [gm_bins].
  unfold xmodel_wf, xmodel_kink_free in *. induction W as [|[n cells] bins W1 _ IH]; cbn [map]; constructor.
  - cbn [snd] in *. apply xcells_smooth; [exact W1|]. inversion K; subst. assumption.
  - apply IH. inversion K; subst. assumption. Qed.
Theorem xgrad_left_derivative M x j : xpos M x -> xmodel_wf M ->
  left_derive (fun t => 2 * xnll M (moved_from 0 j t x)) 0 (xgrad M x j).
Proof. intros P W. apply left_derive_ext with (fun t => 2 * gnll (xmodel_g M) (moved_from 0 j t x)); [intros t _; now rewrite xnll_g|].
  apply ggrad_left_derivative; [apply xpos_g; exact P|]. unfold xmodel_g; cbn [gm_bins].
  unfold xmodel_wf in *. induction W as [|[n cells] bins W1 _ IH]; cbn [map]; constructor; [|exact IH].
  cbn [snd] in *. apply xcells_lok. exact W1. Qed.

(* ---- the gradient the check executes over Qc (Grad.grad_coord on the FitRate model), read over R ---- *)
Definition model_g (M : model RNum) : gmodel :=
  {| gm_bins := map (fun nb => (fst nb, map cell_g (snd nb))) (m_bins RNum M); gm_pois := m_pois RNum M; gm_gaus := m_gaus RNum M |}.
Lemma nllM_g M x : nllM M x = gnll (model_g M) x.
Proof. unfold nllM, gnll, model_g; cbn [gm_bins gm_pois gm_gaus]. f_equal. unfold gnll_main.
  induction (m_bins RNum M) as [|[n cells] bins IH]; cbn [map fold_right fst snd]; [reflexivity|]. rewrite IH, bin_rate_g. reflexivity. Qed.

Lemma dirj_same x j : (j < length x)%nat -> dirj x j j = 1.
Proof. intro H. unfold dirj. rewrite Nat.eqb_refl. apply Nat.ltb_lt in H. rewrite H. reflexivity. Qed.
Lemma dirj_other x j i : Nat.eqb i j = false -> dirj x j i = 0.
Proof. intro H. unfold dirj. rewrite H. reflexivity. Qed.

Lemma grad_coord_g M x j : (j < length x)%nat -> grad_coord RNum M x j = ggrad (model_g M) x j.
Proof.
  intro Hj. unfold grad_coord, ggrad, model_g, two_; cbn [gm_bins gm_pois gm_gaus nmul nadd n1 RNum].
  replace (1 + 1) with 2 by ring. f_equal. f_equal; [|f_equal].
  - unfold ggrad_main. induction (m_bins RNum M) as [|[n cells] bins IH]; cbn [map fold_right fst snd]; [reflexivity|].
    rewrite sadd_R, IH, rate_dual_g. reflexivity.
  - unfold ggrad_pois. induction (m_pois RNum M) as [|[[aux tau] i] l IH]; cbn [fold_right]; [reflexivity|].
    rewrite IH. destruct (Nat.eqb i j) eqn:E.
    + apply Nat.eqb_eq in E. subst i. rewrite sadd_R, (dirj_same x j Hj). cbn [nmul nsub ndiv n1 RNum]. change (V RNum) with R in *. ring.
    + rewrite (dirj_other x j i E). change (V RNum) with R in *. ring.
  - unfold ggrad_gaus. induction (m_gaus RNum M) as [|[[w aux] i] l IH]; cbn [fold_right]; [reflexivity|].
    rewrite IH. destruct (Nat.eqb i j) eqn:E.
    + apply Nat.eqb_eq in E. subst i. rewrite sadd_R, (dirj_same x j Hj). cbn [nmul nsub RNum]. change (V RNum) with R in *. ring.
    + rewrite (dirj_other x j i E). change (V RNum) with R in *. ring.
Qed.

Definition mpos (M : model RNum) (x : list R) : Prop :=
  List.Forall (fun nb => 0 < bin_rate RNum x (snd nb)) (m_bins RNum M) /\
  List.Forall (fun p : R * R * nat => 0 < snd (fst p) * par RNum x (snd p)) (m_pois RNum M).
Lemma mpos_g M x : mpos M x -> gpos (model_g M) x.
Proof. intros [P1 P2]. split; [|exact P2]. unfold model_g; cbn [gm_bins].
  induction P1 as [|[n cells] bins H _ IH]; cbn [map]; constructor; [|exact IH]. cbn [snd] in *. rewrite <- bin_rate_g. exact H. Qed.

(* Grad.model_grad is the gradient of 2 * nllM (= twice_nll up to a parameter-independent constant) wherever it exists ... *)
Theorem grad_coord_is_derivative M x j : (j < length x)%nat -> mpos M x ->
  List.Forall (fun nb => kink_free x j (snd nb)) (m_bins RNum M) ->
  is_derive (fun t => 2 * nllM M (moved_from 0 j t x)) 0 (grad_coord RNum M x j).
Proof. intros Hj P K. rewrite (grad_coord_g M x j Hj).
  apply is_derive_ext with (fun t => 2 * gnll (model_g M) (moved_from 0 j t x)); [intro t; now rewrite nllM_g|].
  apply ggrad_is_derivative; [apply mpos_g; exact P|]. unfold model_g; cbn [gm_bins].
  induction K as [|[n cells] bins K1 _ IH]; cbn [map]; constructor; [|exact IH]. cbn [snd] in *. apply cells_smooth. exact K1. Qed.
(* ... and its left derivative at every point, kinks of code 0 included *)
Theorem grad_coord_left_derivative M x j : (j < length x)%nat -> mpos M x ->
  left_derive (fun t => 2 * nllM M (moved_from 0 j t x)) 0 (grad_coord RNum M x j).
Proof. intros Hj P. rewrite (grad_coord_g M x j Hj).
  apply left_derive_ext with (fun t => 2 * gnll (model_g M) (moved_from 0 j t x)); [intros t _; now rewrite nllM_g|].
  apply ggrad_left_derivative; [apply mpos_g; exact P|]. unfold model_g; cbn [gm_bins].
  induction (m_bins RNum M) as [|[n cells] bins IH]; cbn [map]; constructor; [|exact IH]. cbn [snd]. apply cells_lok. Qed.

(* ---- non-vacuity: a model with a normsys (code 4) factor sitting exactly on the breakpoint alpha = alpha0 = 1, a code-1
   factor on its kink and a code-0 histosys piece on its kink meets the premises of the theorems above ---- *)
Definition ex_cells : list xcell :=
  [Build_xcell (@Build_cell RNum 10 [] [0%nat]) [Build_nsys (NCode4 1) (7 / 10) (6 / 5) 1];
   Build_xcell (@Build_cell RNum 50 [@Build_hsys RNum Code0 45 58 2] []) [Build_nsys NCode1 (9 / 10) (23 / 20) 3]].
Definition ex_model : xmodel := Build_xmodel [(55, ex_cells)] [] [(1, 0, 1%nat); (1, 0, 2%nat); (1, 0, 3%nat)].
Definition ex_point : list R := [1; 1; 0; 0].

Lemma ex_wf : xmodel_wf ex_model.
Proof. constructor; [|constructor]. intros c n Hc Hn. cbn in Hc.
  destruct Hc as [<- | [<- | []]]; cbn in Hn; destruct Hn as [<- | []]; unfold ns_ok; cbn; repeat split; lra. Qed.
Lemma ex_rate : xbin_rate ex_point ex_cells = 10 * 1 * (6 / 5 * 1) + ((0 + 50) * 1 * (1 * 1) + 0).
Proof.
  unfold xbin_rate, ex_cells, ex_point, xcell_rate, cell_rate, nfac, slow_code4, slow_code1, delta.
  cbn [fold_right x_cell x_ns c_nom c_hs c_fac prod_par par nth n_code n_lo n_hi n_par h_code h_lo h_hi h_par].
  cbv zeta. rsimp. cmp. cbn [andb]. rpow_res. replace (- 0) with 0 by ring. rewrite Rmult_0_l, exp_0. field. Qed.
Lemma ex_pos : xpos ex_model ex_point.
Proof. split; [|constructor]. constructor; [|constructor]. cbn [snd]. rewrite ex_rate. lra. Qed.
Example xgrad_nonvacuous :
  xpos ex_model ex_point /\ xmodel_wf ex_model /\
  xmodel_kink_free ex_model ex_point 0 /\ xmodel_kink_free ex_model ex_point 1 /\
  ~ xmodel_kink_free ex_model ex_point 2 /\ ~ xmodel_kink_free ex_model ex_point 3.
Proof.
  split; [exact ex_pos|]. split; [exact ex_wf|].
  assert (KF : forall j, (j < 2)%nat -> xmodel_kink_free ex_model ex_point j).
  { intros j Hj. constructor; [|constructor]. split; intros c q Hc Hq; cbn in Hc;
      (destruct Hc as [<- | [<- | []]]; cbn in Hq; try contradiction; destruct Hq as [<- | []]; cbn; intros; try discriminate; lia). }
  split; [apply KF; lia|]. split; [apply KF; lia|]. split; intro K; inversion K as [|? ? [K1 K2] _]; subst.
  - apply (K1 (nth 1 ex_cells (Build_xcell (@Build_cell RNum 0 [] []) [])) (@Build_hsys RNum Code0 45 58 2)); cbn; auto.
  - apply (K2 (nth 1 ex_cells (Build_xcell (@Build_cell RNum 0 [] []) [])) (Build_nsys NCode1 (9 / 10) (23 / 20) 3)); cbn; auto.
Qed.
