(* C18, likelihood half of the XML+ROOT round trip.
   1. to_spec / to_data: the model specification (Spec.v) and data vector pyhf builds from a workspace (Xml.v) and one of its
      measurements.
   2. roundtrip_spec: under the hypotheses of roundtrip_model (XmlThms.v) and the guards lik_guard / cfg_guard below, the
      specification of the re-imported workspace is related to the original one by spec_rt: channel by channel the same samples
      with the same yields and modifiers of the same name / type / data in another listing order (the lumi modifier moves to
      the front; shapesys uncertainties are only kept where the nominal yield is non-zero), the same POI and constant flags,
      and the same configuration fields wherever the template reads them.
   3. roundtrip_likelihood: hence the name-indexed template Ref.ref_terms of the re-imported workspace is a permutation of
      that of the original, for all interpolation functions, clips, parameter points, observations, auxiliary data.
      roundtrip_loglik: through RefineTermsFull.logpdf_terms_refines on both sides, when both specifications are accepted
      by Impl.build the implementation model's log-likelihoods agree at parameter points and data that agree by NAME, for any
      density primitives; roundtrip_loglik_canonical: at the same parameter VECTOR and data VECTOR for workspaces already in
      the shape the XML dictates, and roundtrip_loglik_same_vector: for ANY listing order of the modifiers provided no shapesys
      carries an uncertainty on a bin without yield (the parameter layouts are then derived to be the same, the second through
      ConfigPerm.build_listing_invariant); spec_rt_loglik_same_vector: same vectors for any spec_rt pair whose layouts
      coincide (explicit premise same_layout, decidable) -- the only case not closed is a shapesys uncertainty on an empty bin.
   4. lik_ws: a concrete workspace (lumi 2 +- 1/5, fixed parameters, staterror, shapesys with an uncertainty on an empty
      bin, histosys, normsys, shapefactor, normfactor with custom bounds, two channels, two measurements) meeting every premise,
      with both specifications accepted and the log-likelihood defined.
   The channel-level congruence theorems of InvarianceSpec.v (C15) are reused. *)
From Coq Require Import Bool Arith Lia Permutation Ring Field String Ascii ZArith QArith Qcanon Reals List.
Require Import PV.Num PV.Sort PV.Spec PV.Impl PV.Ref PV.RefineMonoid PV.RefineLookup PV.Invariance PV.InvarianceSpec.
Import ListNotations.
Local Open Scope nat_scope.
Local Open Scope list_scope.

(* ======================================================================================================================== *)
(* Part I (Spec level): a relation between two specifications that the likelihood template cannot see                       *)
(* ======================================================================================================================== *)
Lemma Forall2_map_eq2 {A B C} (R : A -> B -> Prop) (f : A -> C) (g : B -> C) l l' :
  Forall2 R l l' -> (forall x x', In x l -> In x' l' -> R x x' -> f x = g x') -> map f l = map g l'.
Proof. induction 1 as [|a b l l' Hab Hf IH]; intros H; simpl; auto. f_equal; [apply H; auto; now left|].
  apply IH. intros x x' Hx Hx'. apply H; now right. Qed.
Lemma find_Forall2 {A B} (R : A -> B -> Prop) (p : A -> bool) (p' : B -> bool) l l' :
  Forall2 R l l' -> (forall x x', R x x' -> p x = p' x') ->
  match find p l, find p' l' with Some a, Some b => R a b | None, None => True | _, _ => False end.
Proof. induction 1 as [|a b l l' Hab Hf IH]; intros H; simpl; [exact I|]. rewrite <- (H a b Hab). destruct (p a); [exact Hab|apply IH; exact H]. Qed.

Section Rel.
  Variable N : Num.
  Notation V := (V N).
  Hypothesis Hring : ring_theory (n0 N) (n1 N) (nadd N) (nmul N) (nsub N) (nopp N) eq.
  Hypothesis Heqb : forall a b : V, neqb N a b = true <-> a = b.
  Hypothesis Hlt0 : nltb N (n0 N) (n0 N) = false.
  Add Ring NRrt : Hring.
  Notation "0" := (n0 N). Notation "1" := (n1 N).
  Infix "+" := (nadd N). Infix "*" := (nmul N).
  Variable interp_add interp_mul : string -> V -> V -> V -> V -> V.
  Variables ncode hcode : string.
  Variables clip_s clip_b : option V.
  Notation spec := (spec N). Notation channel := (channel N). Notation sample := (sample N). Notation modifier := (modifier N).
  Notation mfac := (mod_factor N interp_mul ncode).
  Notation mdel := (mod_delta N interp_add hcode).
  Notation srate := (sample_rate N interp_add interp_mul ncode hcode clip_s).
  Notation rrate := (ref_rate N interp_add interp_mul ncode hcode clip_s clip_b).
  Notation rmain := (ref_main_terms N interp_add interp_mul ncode hcode clip_s clip_b).
  Notation rterms := (ref_terms N interp_add interp_mul ncode hcode clip_s clip_b).

  (* what a write -> read cycle does to one modifier of a sample with nominal yields sd: name, type and data are kept,
     except that the per-bin uncertainties of a shapesys are only kept in the bins whose nominal yield is non-zero *)
  Definition mod_rt (sd : list V) (m m' : modifier) : Prop :=
    m_name m' = m_name m /\ m_type m' = m_type m /\
    match m_type m with
    | Shapesys => exists d d', m_data m = MDList d /\ m_data m' = MDList d' /\ forall b, nth b sd 0 <> 0 -> nth b d' 0 = nth b d 0
    | _ => m_data m' = m_data m end.
  (* ... to a sample: same name and yields, the modifiers listed in another order *)
  Definition samp_rt (s s' : sample) : Prop :=
    s_name s' = s_name s /\ s_data s' = s_data s /\ PermRel (mod_rt (s_data s)) (s_mods s) (s_mods s').
  (* ... to a channel: same name, the same samples in the same order *)
  Definition chan_rt (c c' : channel) : Prop := c_name c' = c_name c /\ Forall2 samp_rt (c_samples c) (c_samples c').

  Lemma has_mod_rt s s' n t : samp_rt s s' -> has_mod N s n t = has_mod N s' n t.
  Proof. intros [_ [_ HP]]. unfold has_mod. apply (PermRel_existsb _ _ _ _ HP). intros x x' _ _ [Hn [Ht _]]. now rewrite Hn, Ht. Qed.
  Lemma chan_has_rt c c' n t : chan_rt c c' -> chan_has N c n t = chan_has N c' n t.
  Proof. intros [_ HF]. unfold chan_has. apply (PermRel_existsb _ _ _ _ (PermRel_Forall2 _ _ HF)). intros s s' _ _ Hs. now apply has_mod_rt. Qed.
  Lemma nbins_rt c c' : chan_rt c c' -> chan_nbins N c = chan_nbins N c'.
  Proof. intros [_ HF]. unfold chan_nbins. inversion HF as [|s s' l l' [_ [Hd _]] _]; auto. now rewrite Hd. Qed.
  Lemma chan_sim_rt c c' : chan_rt c c' -> chan_sim N c c'.
  Proof. intros H. split; [symmetry; apply H|]. split; [now apply nbins_rt|]. intros n. now apply chan_has_rt. Qed.

  Lemma factor_rt (sp : spec) theta c c' s s' sd m m' b : mod_rt sd m m' -> c_name c' = c_name c ->
    mfac sp theta c s m b = mfac sp theta c' s' m' b.
  Proof. intros [Hn [Ht Hd]] Hc. unfold mod_factor, stat_offset. rewrite Ht, Hn, Hc. destruct (m_type m); try rewrite Hd; auto. Qed.
  Lemma delta_rt theta s s' sd m m' b : mod_rt sd m m' -> s_data s' = s_data s -> mdel theta s m b = mdel theta s' m' b.
  Proof. intros [Hn [Ht Hd]] Hs. unfold mod_delta. rewrite Ht, Hn, Hs. destruct (m_type m); auto. now rewrite Hd. Qed.
  Lemma srate_rt (sp : spec) theta c c' s s' b : samp_rt s s' -> c_name c' = c_name c -> srate sp theta c s b = srate sp theta c' s' b.
  Proof. intros [_ [Hd HP]] Hc. unfold sample_rate. rewrite Hd. f_equal. f_equal.
    - change (rprod N ?l) with (foldm V (nmul N) 1 l). apply (@PermRel_foldm _ _ (mod_rt (s_data s)) V (nmul N) 1); auto; try (intros; ring).
      intros m m' _ _ Hm. now apply (factor_rt sp theta c c' s s' (s_data s)).
    - f_equal. change (rsum N ?l) with (foldm V (nadd N) 0 l). apply (@PermRel_foldm _ _ (mod_rt (s_data s)) V (nadd N) 0); auto; try (intros; ring).
      intros m m' _ _ Hm. now apply (delta_rt theta s s' (s_data s)). Qed.
  Lemma rate_rt (sp : spec) theta c c' b : chan_rt c c' -> rrate sp theta c b = rrate sp theta c' b.
  Proof. intros [Hc HF]. unfold ref_rate. f_equal. f_equal. apply (Forall2_map_eq2 _ _ _ _ _ HF). intros s s' _ _ Hs. now apply srate_rt. Qed.

  Lemma stat_unc_rt s s' n b : NoDup (map mkey (s_mods s)) -> samp_rt s s' -> stat_unc N s n b = stat_unc N s' n b.
  Proof. intros Hnd [_ [_ [l1 [Hp HF]]]]. unfold stat_unc.
    set (p := fun m : modifier => String.eqb (m_name m) n && mtype_eqb (m_type m) Staterror).
    rewrite (find_perm_unique p _ _ Hp).
    - pose proof (find_Forall2 (mod_rt (s_data s)) p p _ _ HF) as H.
      destruct (find p l1) as [m|] eqn:E1, (find p (s_mods s')) as [m'|] eqn:E2; try (exfalso; apply H; intros x x' [Hn [Ht _]]; unfold p; now rewrite Hn, Ht); auto.
      assert (Hm : mod_rt (s_data s) m m') by (apply H; intros x x' [Hn [Ht _]]; unfold p; now rewrite Hn, Ht).
      apply find_some in E1. destruct E1 as [_ E1]. unfold p in E1. apply andb_prop in E1. destruct E1 as [_ E1]. apply mtype_eqb_eq in E1.
      destruct Hm as [_ [_ Hd]]. rewrite E1 in Hd. now rewrite Hd.
    - intros x y Hx Hy Ex Ey. unfold p in Ex, Ey. apply andb_prop in Ex, Ey. destruct Ex as [E1 E2], Ey as [E3 E4].
      apply String.eqb_eq in E1, E3. apply mtype_eqb_eq in E2, E4. apply (NoDup_map_inj_in mkey (s_mods s)); auto. unfold mkey. congruence. Qed.

  Lemma tnames_in t (c : channel) n : In n (chan_tnames N t c) <->
    exists s m, In s (c_samples c) /\ In m (s_mods s) /\ m_type m = t /\ m_name m = n.
  Proof. unfold chan_tnames. rewrite in_flat_map. split.
    - intros [s [Hs H]]. apply in_flat_map in H. destruct H as [m [Hm H]]. destruct (mtype_eqb (m_type m) t) eqn:E; [|destruct H].
      destruct H as [H|[]]. apply mtype_eqb_eq in E. eauto 8.
    - intros [s [m [Hs [Hm [Ht Hn]]]]]. exists s. split; auto. apply in_flat_map. exists m. split; auto.
      apply mtype_eqb_eq in Ht. rewrite Ht. now left. Qed.
  Lemma tnames_rt t c c' n : chan_rt c c' -> In n (chan_tnames N t c) <-> In n (chan_tnames N t c').
  Proof. intros [_ HF]. rewrite !tnames_in. split.
    - intros [s [m [Hs [Hm [Ht Hn]]]]]. destruct (Forall2_in_l _ _ s HF Hs) as [s' [Hs' [_ [_ HP]]]].
      destruct (PermRel_in_l _ _ m HP Hm) as [m' [Hm' [Hn' [Ht' _]]]]. exists s', m'. repeat split; auto; congruence.
    - intros [s' [m' [Hs' [Hm' [Ht Hn]]]]]. destruct (Forall2_in_r _ _ s' HF Hs') as [s [Hs [_ [_ HP]]]].
      destruct (PermRel_in_r _ _ m' HP Hm') as [m [Hm [Hn' [Ht' _]]]]. exists s, m. repeat split; auto; congruence. Qed.

  Lemma tau_rt s s' d d' b : s_data s' = s_data s -> (forall b, nth b (s_data s) 0 <> 0 -> nth b d' 0 = nth b d 0) ->
    shapesys_tau N s d b = shapesys_tau N s' d' b.
  Proof. intros Hs Hag. unfold shapesys_tau. rewrite Hs. cbv zeta. destruct (neqb N (nth b (s_data s) 0) 0) eqn:E.
    - apply Heqb in E. rewrite E. unfold rpos. rewrite Hlt0. reflexivity.
    - rewrite Hag; auto. intros Hz. apply Heqb in Hz. congruence. Qed.

  Section Pair.
    Variables sp sp' : spec.
    Hypothesis HF : Forall2 chan_rt (channels sp) (channels sp').
    Hypothesis Hnd : NoDup (map c_name (channels sp)).
    Hypothesis Hmk : forall c s, In c (channels sp) -> In s (c_samples c) -> NoDup (map mkey (s_mods s)).
    (* the configuration fields the template reads, where it reads them *)
    Hypothesis Hsig_lumi : forall n, In n (names_with N sp Lumi) -> user_sigmas2 N sp n O = user_sigmas2 N sp' n O.
    Hypothesis Hsig_stat : forall n k, In n (names_with N sp Staterror) -> user_sigmas2 N sp n k = user_sigmas2 N sp' n k.
    Hypothesis Hfac : forall n k, In n (names_with N sp Shapesys) -> user_factor N sp n k = user_factor N sp' n k.

    Let HP : PermRel chan_rt (channels sp) (channels sp') := PermRel_Forall2 _ _ HF.
    Let Hsim : forall c c', In c (channels sp) -> In c' (channels sp') -> chan_rt c c' -> chan_sim N c c' := fun c c' _ _ H => chan_sim_rt c c' H.

    Lemma rt_main theta obs : rmain sp theta obs = rmain sp' theta obs.
    Proof. apply (ref_main_terms_congr N interp_add interp_mul ncode hcode clip_s clip_b sp sp' chan_rt Hnd HP Hsim).
      intros c c' _ _ Hr b _. now apply rate_rt. Qed.

    Lemma rt_names_with t : Permutation (names_with N sp t) (names_with N sp' t).
    Proof. apply (names_with_perm N sp sp' chan_rt HP). intros c c' _ _ Hr n. now apply tnames_rt. Qed.
    Lemma rt_alpha n : In n (alpha_names N sp) <-> In n (alpha_names N sp').
    Proof. rewrite !alpha_names_in. split.
      - intros [c [Hc H]]. destruct (PermRel_in_l _ _ c HP Hc) as [c' [Hc' Hr]]. exists c'. split; auto.
        now rewrite <- !(tnames_rt _ c c' n Hr).
      - intros [c' [Hc' H]]. destruct (PermRel_in_r _ _ c' HP Hc') as [c [Hc Hr]]. exists c. split; auto.
        now rewrite !(tnames_rt _ c c' n Hr). Qed.

    Lemma rt_stat_delta2 n c c' b : In c (channels sp) -> chan_rt c c' -> stat_delta2 N n c b = stat_delta2 N n c' b.
    Proof. intros Hc [_ HFs]. apply (stat_delta2_congr N Hring). apply PermRel_Forall2.
      apply (@Forall2_weaken_in _ _ samp_rt (samp_stat_sim N)); auto. intros s s' Hs _ Hss. split; [symmetry; apply Hss|]. split.
      - intros n'. now apply has_mod_rt.
      - intros n' b'. apply stat_unc_rt; auto. now apply (Hmk c). Qed.

    Lemma shapesys_listed c s m : In c (channels sp) -> In s (c_samples c) -> In m (s_mods s) -> m_type m = Shapesys ->
      In (m_name m) (names_with N sp Shapesys).
    Proof. intros Hc Hs Hm Ht. apply names_with_in. exists c. split; auto. apply tnames_in. eauto 8. Qed.

    Lemma rt_shape theta aux c c' : In c (channels sp) -> chan_rt c c' ->
      Permutation (chan_shape_terms N sp theta aux c) (chan_shape_terms N sp' theta aux c').
    Proof. intros Hc Hr. pose proof (nbins_rt c c' Hr) as Hb. destruct Hr as [_ HFs]. unfold chan_shape_terms.
      apply (Forall2_flat_map_perm _ _ _ _ HFs). intros s s' Hs _ [_ [Hd HPm]].
      apply (PermRel_flat_map_perm _ _ _ _ HPm). intros m m' Hm _ [Hn [Ht Hdat]]. apply Permutation_refl'.
      unfold mod_shape_terms. rewrite Ht, Hn, <- Hb. destruct (m_type m) eqn:Et; try reflexivity;
        try (destruct (m_data m), (m_data m'); reflexivity).
      destruct Hdat as [d [d' [E1 [E2 Hag]]]]. rewrite E1, E2. apply map_ext. intros b. f_equal. f_equal.
      rewrite <- (Hfac (m_name m) b) by (apply (shapesys_listed c s m); auto).
      destruct (user_factor N sp (m_name m) b); auto. now apply tau_rt. Qed.

    Theorem rt_terms theta obs aux : Permutation (rterms sp' theta obs aux) (rterms sp theta obs aux).
    Proof.
      unfold ref_terms. rewrite <- rt_main. apply Permutation_app_head. rewrite !ref_cterms_is. symmetry.
      apply Permutation_app; [apply ct_alpha_perm, rt_alpha|].
      apply Permutation_app; [|apply Permutation_app].
      - unfold ct_lumi.
        rewrite (map_ext_in _ (fun n => TNorm (aux n O) (theta n O) match user_sigmas2 N sp' n O with Some v => v | None => 1 end))
          by (intros n Hn; now rewrite Hsig_lumi).
        apply Permutation_map. apply rt_names_with.
      - unfold ct_stat.
        rewrite (flat_map_ext_in2 _ (fun n => flat_map (stat_block N sp' theta aux n) (sorted_channels N sp'))).
        + apply Permutation_flat_map. apply rt_names_with.
        + intros n Hn. apply (Forall2_flat_map_eq _ _ _ _ (sorted_related N sp sp' chan_rt Hnd HP Hsim)).
          intros c c' _ _ [Hc [Hc' Hr]]. destruct (Hsim c c' Hc Hc' Hr) as [Hnm [Hb Hs]].
          unfold stat_block. rewrite <- Hs, <- Hb. destruct (chan_has N c n Staterror) eqn:E; auto.
          apply map_ext_in. intros b Hin. cbv zeta.
          rewrite (offsets_agree N sp sp' chan_rt HP Hsim n c c' Hnm), (Hsig_stat _ _ Hn), (rt_stat_delta2 n c c' b Hc Hr). reflexivity.
      - unfold ct_shape. apply (PermRel_flat_map_perm _ _ _ _ HP). intros c c' Hc _ Hr. now apply rt_shape.
    Qed.
  End Pair.
End Rel.

(* ======================================================================================================================== *)
(* Part II: workspaces (Xml.v).  From here on the unqualified names modifier, sample, channel, m_name, ... are those of    *)
(* Xml.v; the specification side is written Spec.m_name, Impl.build, Ref.ref_terms, ...                                     *)
(* ======================================================================================================================== *)
Require Import PV.Json.
Require PV.RefineTop PV.RefineTermsFinal PV.RefineTerms PV.RefineTermsTop PV.RefineTermsFull PV.RefineRates PV.RefineTermsBlocks PV.Wf PV.RefineParams PV.ConfigPerm.
Require Import PV.Xml PV.XmlThms PV.XmlInst.
Local Open Scope string_scope.
Local Open Scope nat_scope.
Local Open Scope list_scope.

(* ---------- generic list facts ---------- *)
Lemma filter_split_perm {A} (p : A -> bool) l : Permutation (filter p l ++ filter (fun x => negb (p x)) l) l.
Proof. induction l as [|a l IH]; simpl; auto. destruct (p a); simpl; [now apply perm_skip|].
  apply Permutation_sym, Permutation_cons_app, Permutation_sym, IH. Qed.
Lemma Forall2_map_both {A B} (R : B -> B -> Prop) (f g : A -> B) l : (forall x, In x l -> R (f x) (g x)) -> Forall2 R (map f l) (map g l).
Proof. induction l as [|a l IH]; intros H; simpl; constructor; [apply H; now left|]. apply IH. intros; apply H; now right. Qed.
Lemma Forall2_nth_rel {A B} (R : A -> B -> Prop) l l' k da db : Forall2 R l l' -> k < length l -> R (nth k l da) (nth k l' db).
Proof. intros H. revert k. induction H as [|a b l l' Hab _ IH]; intros k Hk; simpl in *; [lia|]. destruct k; auto. apply IH. lia. Qed.
Lemma find_name_unique {A} (key : A -> string) l x : NoDup (map key l) -> In x l -> find (fun p => String.eqb (key p) (key x)) l = Some x.
Proof. induction l as [|a l IH]; intros Hnd Hin; [destruct Hin|]. simpl in *. inversion Hnd as [|? ? Hna Hnd']; subst.
  destruct Hin as [->|Hin]; [now rewrite String.eqb_refl|].
  destruct (String.eqb_spec (key a) (key x)) as [E|E]; [|auto]. exfalso. apply Hna. rewrite E. now apply in_map. Qed.

Section Conv.
  Variable N : Num.
  Notation V := (Num.V N).

  (* ================= 1. the model specification pyhf builds from a workspace and one of its measurements ================= *)
  Definition ctype (d : mdata N) : Spec.mtype :=
    match d with DHisto _ _ => Spec.Histosys | DNormsys _ _ => Spec.Normsys | DNormfactor => Spec.Normfactor
            | DShapesys _ => Spec.Shapesys | DStaterror _ => Spec.Staterror | DShapefactor => Spec.Shapefactor | DLumi => Spec.Lumi end.
  Definition cdata (d : mdata N) : Spec.moddata N :=
    match d with DHisto lo hi => Spec.MDHisto lo hi | DNormsys lo hi => Spec.MDNorm lo hi
            | DShapesys l => Spec.MDList l | DStaterror l => Spec.MDList l | _ => Spec.MDNone end.
  Definition conv_mod (m : modifier N) : Spec.modifier N :=
    {| Spec.m_name := m_name N m; Spec.m_type := ctype (m_data N m); Spec.m_data := cdata (m_data N m) |}.
  Definition conv_sample (s : sample N) : Spec.sample N :=
    {| Spec.s_name := s_name N s; Spec.s_data := s_data N s; Spec.s_mods := map conv_mod (s_mods N s) |}.
  Definition conv_chan (c : channel N) : Spec.channel N :=
    {| Spec.c_name := c_name N c; Spec.c_samples := map conv_sample (c_samples N c) |}.
  (* a measurement's parameter configuration; the XML-expressible workspace AST has no `factors` key *)
  Definition conv_param (p : param N) : Spec.parcfg N :=
    {| Spec.pc_name := p_name N p; Spec.pc_inits := p_inits N p; Spec.pc_bounds := p_bounds N p; Spec.pc_auxdata := p_auxdata N p;
       Spec.pc_factors := None; Spec.pc_sigmas := p_sigmas N p; Spec.pc_fixed := p_fixed N p |}.
  (* Workspace.model: {'channels': ws['channels'], 'parameters': measurement['config']['parameters']}, poi_name = measurement poi *)
  Definition to_spec_m (ws : workspace N) (m : measurement N) : Spec.spec N :=
    {| Spec.channels := map conv_chan (w_channels N ws); Spec.parameters := map conv_param (me_params N m); Spec.poi := Some (me_poi N m) |}.
  Definition no_meas : measurement N := mkMeas "" "" [].
  Definition to_spec (ws : workspace N) (k : nat) : Spec.spec N := to_spec_m ws (nth k (w_meas N ws) no_meas).

  (* Workspace.data(model): observations in the model's channel order (sorted names; self.observations is a dict: the last
     entry of a name stays), then the model's auxiliary data *)
  Definition obs_dict (ws : workspace N) (cn : string) : list V :=
    match Impl.last_find (fun o : string * list V => String.eqb (fst o) cn) (w_obs N ws) with Some o => snd o | None => [] end.
  Definition main_data (ws : workspace N) : list V :=
    flat_map (obs_dict ws) (Impl.cfg_channels N (to_spec ws 0)).
  Definition to_data (ws : workspace N) (md : Impl.model N) : list V := main_data ws ++ Impl.md_auxdata N md.

  Lemma tyname_ctype d : Spec.tyname (ctype d) = mtype N d.
  Proof. destruct d; reflexivity. Qed.
  Definition mkeyX (m : modifier N) : string * string := (m_name N m, mtype N (m_data N m)).
  Lemma mkey_conv ms : map Spec.mkey (map conv_mod ms) = map mkeyX ms.
  Proof. rewrite map_map. apply map_ext. intros m. unfold Spec.mkey, mkeyX. simpl. now rewrite tyname_ctype. Qed.

  (* the JSON-schema shapes that the refinement theorem asks for hold by construction *)
  Lemma to_spec_shape_ok ws m : RefineTop.shape_ok N (to_spec_m ws m).
  Proof. intros c s mo Hc Hs Hm. simpl in Hc. apply in_map_iff in Hc. destruct Hc as [c0 [<- _]]. simpl in Hs.
    apply in_map_iff in Hs. destruct Hs as [s0 [<- _]]. simpl in Hm. apply in_map_iff in Hm. destruct Hm as [m0 [<- _]].
    unfold conv_mod. simpl. destruct (m_data N m0); simpl; eauto. Qed.
  Lemma to_spec_list_shape_ok ws m : RefineTermsFinal.list_shape_ok N (to_spec_m ws m).
  Proof. intros c s mo Hc Hs Hm. simpl in Hc. apply in_map_iff in Hc. destruct Hc as [c0 [<- _]]. simpl in Hs.
    apply in_map_iff in Hs. destruct Hs as [s0 [<- _]]. simpl in Hm. apply in_map_iff in Hm. destruct Hm as [m0 [<- _]].
    unfold conv_mod. simpl. destruct (m_data N m0); simpl; eauto. Qed.

  (* configuration lookups of a converted measurement *)
  Definition xcfg (ps : list (param N)) (n : string) : option (param N) := find (fun p => String.eqb (p_name N p) n) ps.
  Lemma user_cfg_conv ws m n : Ref.user_cfg N (to_spec_m ws m) n = option_map conv_param (xcfg (me_params N m) n).
  Proof. unfold Ref.user_cfg, xcfg. simpl. apply find_map. Qed.
  Lemma user_sigmas2_conv ws m n k : Ref.user_sigmas2 N (to_spec_m ws m) n k =
    match xcfg (me_params N m) n with
    | Some p => match p_sigmas N p with Some l => Some (nmul N (nth k l (n1 N)) (nth k l (n1 N))) | None => None end
    | None => None end.
  Proof. unfold Ref.user_sigmas2. rewrite user_cfg_conv. destruct (xcfg (me_params N m) n); reflexivity. Qed.
  Lemma user_factor_conv ws m n k : Ref.user_factor N (to_spec_m ws m) n k = None.
  Proof. unfold Ref.user_factor. rewrite user_cfg_conv. destruct (xcfg (me_params N m) n); reflexivity. Qed.
  (* the constant flags of the measurement, by parameter name *)
  Definition spec_fixed (sp : Spec.spec N) (n : string) : bool :=
    existsb (fun p => String.eqb (Spec.pc_name p) n && match Spec.pc_fixed p with Some true => true | _ => false end) (Spec.parameters sp).
  Lemma spec_fixed_conv ws m n : spec_fixed (to_spec_m ws m) n = has_fixed N (me_params N m) n.
  Proof. unfold spec_fixed, has_fixed. simpl. induction (me_params N m) as [|p ps IH]; simpl; auto. now rewrite IH. Qed.
  (* first auxiliary datum configured for a parameter *)
  Definition spec_aux0 (sp : Spec.spec N) (n : string) : option V :=
    match Ref.user_cfg N sp n with Some p => match Spec.pc_auxdata p with Some (a :: _) => Some a | _ => None end | None => None end.

  (* names of a modifier type in a converted workspace come from listed modifiers *)
  Lemma names_with_conv ws m t n : In n (Ref.names_with N (to_spec_m ws m) t) ->
    exists c s mo, In c (w_channels N ws) /\ In s (c_samples N c) /\ In mo (s_mods N s) /\ ctype (m_data N mo) = t /\ m_name N mo = n.
  Proof. intros H. apply names_with_in in H. destruct H as [c [Hc H]]. apply tnames_in in H. destruct H as [s [mo [Hs [Hm [Ht Hn]]]]].
    simpl in Hc. apply in_map_iff in Hc. destruct Hc as [c0 [<- Hc0]]. simpl in Hs. apply in_map_iff in Hs. destruct Hs as [s0 [<- Hs0]].
    simpl in Hm. apply in_map_iff in Hm. destruct Hm as [m0 [<- Hm0]]. exists c0, s0, m0. auto. Qed.

  (* ================= 2. what every successfully parsed workspace looks like on the measurement side ================= *)
  Definition nosig (p : param N) : Prop := p_sigmas N p = None.
  Lemma process_mod_nosig file cn data xm r : process_mod N file cn data xm = inl r -> Forall nosig (snd r).
  Proof. destruct xm; simpl.
    - intros H. inversion H. constructor.
    - intros H. inversion H. simpl. repeat constructor.
    - destruct (lookup_hist N file hlow); simpl; [|discriminate]. destruct (lookup_hist N file hhigh); simpl; [|discriminate].
      intros H. inversion H. constructor.
    - destruct (lookup_hist N file hname); simpl; [|discriminate]. destruct (stat_abs N l data); [discriminate|].
      intros H. inversion H. constructor.
    - destruct (lookup_hist N file hname); simpl; [|discriminate]. intros H. inversion H. constructor.
    - intros H. inversion H. constructor. Qed.
  Lemma process_mods_nosig file cn data : forall xs r, process_mods N file cn data xs = inl r -> Forall nosig (snd r).
  Proof. induction xs as [|x xs IH]; simpl; intros r H; [inversion H; constructor|].
    destruct (process_mod N file cn data x) as [a|] eqn:E1; simpl in H; [|discriminate].
    destruct (process_mods N file cn data xs) as [b|] eqn:E2; simpl in H; [|discriminate]. inversion H; subst. simpl.
    apply Forall_app. split; [eapply process_mod_nosig; eauto|eapply IH; eauto]. Qed.
  Lemma process_sample_nosig file cn xs r : process_sample N file cn xs = inl r -> Forall nosig (snd r).
  Proof. unfold process_sample. destruct (lookup_hist N file (xs_hist N xs)) as [d|]; simpl; [|discriminate].
    destruct (process_mods N file cn d (xs_mods N xs)) as [b|] eqn:E; simpl; [|discriminate]. intros H. inversion H. simpl.
    eapply process_mods_nosig; eauto. Qed.
  Lemma process_samples_nosig file cn : forall l r, process_samples N file cn l = inl r -> Forall nosig (snd r).
  Proof. induction l as [|x l IH]; simpl; intros r H; [inversion H; constructor|].
    destruct (process_sample N file cn x) as [a|] eqn:E1; simpl in H; [|discriminate].
    destruct (process_samples N file cn l) as [b|] eqn:E2; simpl in H; [|discriminate]. inversion H; subst. simpl.
    apply Forall_app. split; [eapply process_sample_nosig; eauto|eapply IH; eauto]. Qed.
  Lemma process_channel_nosig file xc r : process_channel N file xc = inl r -> Forall nosig (cr_cfgs N r).
  Proof. unfold process_channel. destruct (xc_data N xc); [|discriminate]. destruct (lookup_hist N file s); simpl; [|discriminate].
    destruct (process_samples N file (xc_name N xc) (xc_samples N xc)) as [b|] eqn:E; simpl; [|discriminate]. intros H. inversion H. simpl.
    eapply process_samples_nosig; eauto. Qed.
  Lemma process_channels_nosig file : forall xcs chs, mapM (process_channel N file) xcs = inl chs -> Forall nosig (flat_map (cr_cfgs N) chs).
  Proof. induction xcs as [|x xcs IH]; simpl; intros chs H; [inversion H; constructor|].
    destruct (process_channel N file x) as [a|] eqn:E1; simpl in H; [|discriminate].
    destruct (mapM (process_channel N file) xcs) as [b|] eqn:E2; simpl in H; [|discriminate]. inversion H; subst. simpl.
    apply Forall_app. split; [eapply process_channel_nosig; eauto|eapply IH; eauto]. Qed.

  Lemma dict_pop_sub name : forall m o r, dict_pop N name m = (o, r) ->
    (forall q, In q r -> In q m) /\ (forall p, o = Some p -> In p m).
  Proof. induction m as [|q m IH]; intros o r; simpl.
    - intros H. inversion H. split; [auto|discriminate].
    - destruct (String.eqb (p_name N q) name).
      + intros H. inversion H; subst. split; [intros; now right|]. intros p Hp. inversion Hp. now left.
      + destruct (dict_pop N name m) as [o' r'] eqn:E. intros H. inversion H; subst. destruct (IH _ _ eq_refl) as [I1 I2]. split.
        * intros q' [Hq|Hq]; [now left|right; auto].
        * intros p Hp. right. auto. Qed.
  Lemma pc_err' l e : fold_left (process_const N) l (inr e) = inr e.
  Proof. induction l; simpl; auto. Qed.
  Lemma pc_fold_nosig : forall rns st0 st, fold_left (process_const N) rns (inl st0) = inl st -> Forall nosig (snd st0) -> Forall nosig (snd st).
  Proof. induction rns as [|rn rns IH]; intros st0 st H H0; simpl in H; [inversion H; now subst|].
    destruct (interp rn) as [nm|] eqn:Ei; simpl in H; [|rewrite pc_err' in H; discriminate].
    destruct (String.eqb nm "lumi").
    - apply (IH _ _ H). exact H0.
    - destruct (dict_pop N nm (snd st0)) as [po rest] eqn:Ep. apply (IH _ _ H). simpl.
      destruct (dict_pop_sub _ _ _ _ Ep) as [P1 P2]. apply Forall_app. split.
      + apply Forall_forall. intros q Hq. rewrite Forall_forall in H0. auto.
      + constructor; [|constructor]. unfold nosig. destruct po as [p|]; simpl; [|reflexivity].
        rewrite Forall_forall in H0. apply (H0 p). now apply P2. Qed.
  Lemma process_measurement_nosig others xm m' : process_measurement N others xm = inl m' -> Forall nosig (dict_of N others) ->
    exists lp rest, me_params N m' = lp :: rest /\ Forall nosig rest.
  Proof. unfold process_measurement. intros H H0.
    destruct (fold_left (process_const N) (xm_const N xm) _) as [st|] eqn:E; simpl in H; [|discriminate]. inversion H; subst. simpl.
    exists (fst st), (snd st). split; auto. unfold ret in E. apply (pc_fold_nosig _ _ _ E). exact H0. Qed.
  Lemma mapM_Forall {A B} (f : A -> res B) (P : B -> Prop) : forall l r, mapM f l = inl r -> (forall a b, f a = inl b -> P b) -> Forall P r.
  Proof. induction l as [|a l IH]; simpl; intros r H HP; [inversion H; constructor|].
    destruct (f a) as [b|] eqn:E; simpl in H; [|discriminate]. destruct (mapM f l) as [bs|]; simpl in H; [|discriminate].
    inversion H; subst. constructor; eauto. Qed.
  (* every measurement of a parsed workspace lists one leading configuration followed by configurations without `sigmas` *)
  Theorem read_params_nosig x file ws' : read N x file = inl ws' ->
    Forall (fun m' => exists lp rest, me_params N m' = lp :: rest /\ Forall nosig rest) (w_meas N ws').
  Proof. unfold read. destruct (mapM (process_channel N file) (x_channels N x)) as [chs|] eqn:E1; simpl; [|discriminate].
    unfold dedupe. destruct (forallb _ (flat_map (cr_cfgs N) chs)); simpl; [|discriminate].
    destruct (mapM (process_measurement N (dict_of N (flat_map (cr_cfgs N) chs))) (x_meas N x)) as [ms|] eqn:E2; simpl; [|discriminate].
    intros H. inversion H; subst. simpl. apply (mapM_Forall _ _ _ _ E2). intros xm m' Hm. apply (process_measurement_nosig _ _ _ Hm).
    apply Forall_forall. intros q Hq. apply dict_of_in, dict_of_in in Hq. pose proof (process_channels_nosig _ _ _ E1) as Hn.
    rewrite Forall_forall in Hn. auto. Qed.
End Conv.

Lemma Forall2_len {A B} (R : A -> B -> Prop) l l' : Forall2 R l l' -> length l = length l'.
Proof. induction 1; simpl; auto. Qed.

Section Trip.
  Variable N : Num.
  Notation V := (Num.V N).
  Hypothesis Hf : field_theory (n0 N) (n1 N) (nadd N) (nmul N) (nsub N) (nopp N) (ndiv N) (ninv N) eq.
  Hypothesis Heqb : forall a b : V, neqb N a b = true <-> a = b.
  Hypothesis Hlt0 : nltb N (n0 N) (n0 N) = false.
  Let Hring := F_R Hf.

  (* ================= 3. the guards under which the template cannot tell the re-imported workspace from the original ================= *)
  (* the schema fixes the name of the luminosity modifier: a modifier is called lumi iff it is of type lumi *)
  Definition lumi_wf (m : modifier N) : Prop := m_name N m = "lumi" <-> m_data N m = DLumi.
  (* the XML format dictates the name of a staterror (staterror_<channel>) and carries its uncertainties relative to the
     nominal yield: the absolute value survives where the code's own guard nom <> 0 holds (mask d nom = d; see mask_id) *)
  Definition stat_canon (cname : string) (sdata : list V) (m : modifier N) : Prop :=
    match m_data N m with DStaterror d => m_name N m = "staterror_" +s+ cname /\ mask N d sdata = d | _ => True end.
  Definition lik_guard_sample (cname : string) (s : sample N) : Prop :=
    NoDup (map (mkeyX N) (s_mods N s)) /\ Forall (fun m => lumi_wf m /\ stat_canon cname (s_data N s) m) (s_mods N s).
  Definition lik_guard (ws : workspace N) : Prop :=
    NoDup (map (c_name N) (w_channels N ws)) /\
    Forall (fun c => Forall (lik_guard_sample (c_name N c)) (c_samples N c)) (w_channels N ws).
  Definition has_lumi_mod (ws : workspace N) : Prop :=
    exists c s m, In c (w_channels N ws) /\ In s (c_samples N c) /\ In m (s_mods N s) /\ m_data N m = DLumi.
  (* the measurement: one configuration per parameter; `sigmas` only on lumi (no XML element carries another one);
     a luminosity modifier comes with its configuration *)
  Definition cfg_guard (ws : workspace N) (m : measurement N) : Prop :=
    NoDup (map (p_name N) (me_params N m)) /\
    (forall p, In p (me_params N m) -> p_name N p <> "lumi" -> p_sigmas N p = None) /\
    (has_lumi_mod ws -> exists p l lt s st, In p (me_params N m) /\ p_name N p = "lumi" /\
                                             p_auxdata N p = Some (l :: lt) /\ p_sigmas N p = Some (s :: st)).


  Lemma mod_rt_conv_refl sd m : mod_rt N sd (conv_mod N m) (conv_mod N m).
  Proof. unfold mod_rt, conv_mod. simpl. split; auto. split; auto. destruct (m_data N m); simpl; auto.
    exists d, d. auto. Qed.
  Lemma mask_nth d nom b : nth b nom (n0 N) <> n0 N -> nth b (mask N d nom) (n0 N) = nth b d (n0 N).
  Proof. unfold mask. revert nom b. induction d as [|a d IH]; intros nom b H.
    - destruct nom, b; reflexivity.
    - destruct nom as [|c nom]; [destruct b; simpl in H; congruence|]. destruct b; simpl in *.
      + destruct (neqb N c (n0 N)) eqn:E; auto. apply Heqb in E. congruence.
      + now apply IH. Qed.

  Lemma lumi_is m : lumi_wf m -> is_lumi_type N m = true -> m = lumi_mod N.
  Proof. unfold lumi_wf, is_lumi_type, lumi_mod. destruct m as [n d]; simpl. intros [_ H]. destruct d; try discriminate.
    intros _. now rewrite (H eq_refl). Qed.
  Lemma lumi_filter ms : NoDup (map (mkeyX N) ms) -> Forall lumi_wf ms ->
    filter (is_lumi_type N) ms = if existsb (is_lumi_type N) ms then [lumi_mod N] else [].
  Proof. induction ms as [|m ms IH]; simpl; intros Hnd Hw; auto. inversion Hnd as [|? ? Hni Hnd']; subst. inversion Hw as [|? ? Hwm Hw']; subst.
    destruct (is_lumi_type N m) eqn:E; simpl.
    - rewrite (lumi_is m Hwm E). f_equal. rewrite (IH Hnd' Hw'). destruct (existsb (is_lumi_type N) ms) eqn:Ex; auto. exfalso.
      apply existsb_exists in Ex. destruct Ex as [m2 [Hin E2]]. rewrite Forall_forall in Hw'.
      rewrite (lumi_is m2 (Hw' m2 Hin) E2) in Hin. apply Hni. rewrite (lumi_is m Hwm E). now apply in_map.
    - apply IH; auto. Qed.

  Lemma expected_nonlumi cname sdata ms : Forall (fun m => lumi_wf m /\ stat_canon cname sdata m) ms ->
    Forall2 (fun m m' => mod_rt N sdata (conv_mod N m) (conv_mod N m')) (filter (fun m => negb (is_lumi_type N m)) ms)
            (flat_map (expected_mod N cname sdata) ms).
  Proof. induction 1 as [|m ms [Hw Hc] _ IH]; simpl; [constructor|].
    unfold expected_mod at 1. destruct (is_lumi_type N m) eqn:E; simpl.
    - rewrite (lumi_is m Hw E). simpl. exact IH.
    - destruct (String.eqb_spec (m_name N m) "lumi") as [En|En].
      + exfalso. apply Hw in En. unfold is_lumi_type in E. rewrite En in E. discriminate.
      + unfold stat_canon in Hc. destruct m as [n d]; simpl in *. destruct d; simpl; try (constructor; [apply mod_rt_conv_refl|exact IH]).
        * constructor; [|exact IH]. unfold mod_rt, conv_mod. simpl. split; auto. split; auto. exists d, (mask N d sdata).
          split; auto. split; auto. intros b Hb. now apply mask_nth.
        * destruct Hc as [Hc1 Hc2]. rewrite Hc2, <- Hc1. constructor; [apply mod_rt_conv_refl|exact IH].
        * discriminate. Qed.

  Lemma samp_rt_expected cname s : lik_guard_sample cname s -> samp_rt N (conv_sample N s) (conv_sample N (expected_sample N cname s)).
  Proof. intros [Hnd HF]. unfold samp_rt. simpl. split; auto. split; auto.
    exists (map (conv_mod N) (filter (is_lumi_type N) (s_mods N s) ++ filter (fun m => negb (is_lumi_type N m)) (s_mods N s))). split.
    - apply Permutation_map, Permutation_sym, filter_split_perm.
    - rewrite !map_app. apply Forall2_app.
      + rewrite lumi_filter; auto.
        * apply Forall2_map_both. intros x _. apply mod_rt_conv_refl.
        * eapply Forall_impl; [|exact HF]. intros a Ha. apply Ha.
      + pose proof (expected_nonlumi cname (s_data N s) _ HF) as H. clear - H.
        induction H; simpl; constructor; auto. Qed.
  Lemma chan_rt_expected c : Forall (lik_guard_sample (c_name N c)) (c_samples N c) -> chan_rt N (conv_chan N c) (conv_chan N (expected_channel N c)).
  Proof. intros H. unfold chan_rt. simpl. split; auto. rewrite map_map. apply Forall2_map_both. intros s Hs. apply samp_rt_expected. rewrite Forall_forall in H. auto. Qed.

  (* ---- the luminosity configuration ---- *)
  Lemma lumi_cfg_other ps acc : Forall (fun p => p_name N p <> "lumi") ps -> lumi_cfg N ps acc = acc.
  Proof. unfold lumi_cfg. revert acc. induction ps as [|p ps IH]; intros acc H; simpl; auto. inversion H; subst.
    unfold lumi_upd at 2. destruct (String.eqb_spec (p_name N p) "lumi"); [congruence|]. now apply IH. Qed.
  Lemma lumi_cfg_unique ps p0 l lt s st : NoDup (map (p_name N) ps) -> In p0 ps -> p_name N p0 = "lumi" ->
    p_auxdata N p0 = Some (l :: lt) -> p_sigmas N p0 = Some (s :: st) -> forall acc, lumi_cfg N ps acc = (l, s).
  Proof. intros Hnd Hin Hn Ha Hs. induction ps as [|p ps IH]; [destruct Hin|]. intros acc. inversion Hnd as [|? ? Hni Hnd']; subst.
    unfold lumi_cfg. simpl. fold (lumi_cfg N ps (lumi_upd N acc p)). destruct Hin as [->|Hin].
    - unfold lumi_upd. rewrite Hn, Ha, Hs. simpl. apply lumi_cfg_other. apply Forall_forall. intros q Hq Hqn.
      apply Hni. simpl. rewrite Hn, <- Hqn. now apply in_map.
    - assert (Hp : p_name N p <> "lumi"). { intros Hp. apply Hni. rewrite Hp, <- Hn. now apply in_map. }
      unfold lumi_upd. destruct (String.eqb_spec (p_name N p) "lumi"); [congruence|]. now apply IH. Qed.

  (* ================= 4. the relation between the two model specifications ================= *)
  (* sp' is sp as far as the likelihood template can see: channel by channel the same samples with the same yields and
     (in another listing order) modifiers of the same name, type and data -- shapesys uncertainties where the nominal yield
     is non-zero --, the same POI, the same constant flags, and the configuration fields the template reads: `sigmas` of
     the luminosity and of every staterror parameter, `factors` of every shapesys parameter, the luminosity's auxiliary datum *)
  Definition spec_rt (sp sp' : Spec.spec N) : Prop :=
    Forall2 (chan_rt N) (Spec.channels sp) (Spec.channels sp') /\
    Spec.poi sp' = Spec.poi sp /\
    (forall n, spec_fixed N sp' n = spec_fixed N sp n) /\
    (forall n, In n (Ref.names_with N sp Spec.Lumi) -> Ref.user_sigmas2 N sp n O = Ref.user_sigmas2 N sp' n O) /\
    (forall n k, In n (Ref.names_with N sp Spec.Staterror) -> Ref.user_sigmas2 N sp n k = Ref.user_sigmas2 N sp' n k) /\
    (forall n k, In n (Ref.names_with N sp Spec.Shapesys) -> Ref.user_factor N sp n k = Ref.user_factor N sp' n k) /\
    (forall n, In n (Ref.names_with N sp Spec.Lumi) -> spec_aux0 N sp' n = spec_aux0 N sp n).

  Theorem roundtrip_spec ws x file k :
    write N ws = inl (x, file) -> w_obs N ws <> [] -> stat_ok N ws -> names_ok N ws ->
    lik_guard ws -> k < length (w_meas N ws) -> cfg_guard ws (nth k (w_meas N ws) (no_meas N)) ->
    exists ws', read N x file = inl ws' /\ length (w_meas N ws') = length (w_meas N ws) /\
      w_obs N ws' = map (fun c => (c_name N c, XmlThms.obs_of N ws (c_name N c))) (w_channels N ws) /\
      spec_rt (to_spec N ws k) (to_spec N ws' k).
  Proof.
    intros Hw Ho Hs Hn [Hcn Hg] Hk [Hpn [Hps Hpl]].
    destruct (roundtrip_model N Hf Heqb ws x file Hw Ho Hs Hn) as [ws' [R1 [R2 [R3 R4]]]].
    exists ws'. split; auto. split; [symmetry; eapply Forall2_len; eauto|]. split; auto.
    pose proof (read_params_nosig N x file ws' R1) as Hns.
    set (m := nth k (w_meas N ws) (no_meas N)) in *. set (m' := nth k (w_meas N ws') (no_meas N)).
    assert (Hm : meas_recovered N (all_cfgs N ws) m m') by (apply Forall2_nth_rel; auto).
    assert (Hk' : k < length (w_meas N ws')) by (rewrite <- (Forall2_len _ _ _ R4); auto).
    assert (Hm' : exists lp rest, me_params N m' = lp :: rest /\ Forall (nosig N) rest).
    { rewrite Forall_forall in Hns. apply Hns. now apply nth_In. }
    destruct Hm as (M1 & M2 & M3 & lp & rest & D1 & D2 & D3 & D4 & D5 & D6 & D7).
    destruct Hm' as (lp' & rest' & D1' & Hrest). rewrite D1 in D1'. inversion D1'; subst lp' rest'; clear D1'.
    unfold to_spec. fold m m'.
    (* names of the lumi type: only "lumi", and then the workspace has a luminosity modifier *)
    assert (Hlumi : forall n, In n (Ref.names_with N (to_spec_m N ws m) Spec.Lumi) -> n = "lumi" /\ has_lumi_mod ws).
    { intros n Hin. apply names_with_conv in Hin. destruct Hin as (c & s & mo & Hc & Hsm & Hmo & Ht & Hnm).
      assert (Hd : m_data N mo = DLumi) by (destruct (m_data N mo); try discriminate; reflexivity).
      rewrite Forall_forall in Hg. pose proof (Hg c Hc) as Hgc. rewrite Forall_forall in Hgc. destruct (Hgc s Hsm) as [_ Hgm].
      rewrite Forall_forall in Hgm. destruct (Hgm mo Hmo) as [Hwf _]. split; [rewrite <- Hnm; now apply Hwf|]. exists c, s, mo. auto. }
    assert (Hxl : xcfg N (me_params N m') "lumi" = Some lp) by (rewrite D1; unfold xcfg; simpl; now rewrite D2).
    unfold spec_rt. split; [|split; [|split; [|split; [|split; [|split]]]]].
    - simpl. rewrite R2, map_map. apply Forall2_map_both. intros c Hc. apply chan_rt_expected. rewrite Forall_forall in Hg. auto.
    - simpl. now rewrite M2.
    - intros n. rewrite !spec_fixed_conv. apply M3.
    - intros n Hin. destruct (Hlumi n Hin) as [-> Hhl]. destruct (Hpl Hhl) as (p0 & l & lt & s & st & P1 & P2 & P3 & P4).
      assert (Hx0 : xcfg N (me_params N m) "lumi" = Some p0) by (unfold xcfg; rewrite <- P2; now apply find_name_unique).
      rewrite !user_sigmas2_conv, Hxl, D4, Hx0, P4.
      rewrite (lumi_cfg_unique _ p0 l lt s st Hpn P1 P2 P3 P4). reflexivity.
    - intros n j Hin. apply names_with_conv in Hin. destruct Hin as (c & s & mo & Hc & Hsm & Hmo & Ht & Hnm).
      assert (Hnl : n <> "lumi").
      { intros En. rewrite Forall_forall in Hg. pose proof (Hg c Hc) as Hgc. rewrite Forall_forall in Hgc. destruct (Hgc s Hsm) as [_ Hgm].
        rewrite Forall_forall in Hgm. destruct (Hgm mo Hmo) as [Hwf _]. rewrite <- Hnm in En. apply Hwf in En. rewrite En in Ht. discriminate. }
      rewrite !user_sigmas2_conv.
      assert (E1 : match xcfg N (me_params N m) n with Some p => p_sigmas N p | None => None end = None).
      { destruct (xcfg N (me_params N m) n) as [p|] eqn:E; auto. apply find_some in E. destruct E as [E1 E2]. apply String.eqb_eq in E2.
        apply Hps; auto. congruence. }
      assert (E2 : match xcfg N (me_params N m') n with Some p => p_sigmas N p | None => None end = None).
      { rewrite D1. unfold xcfg. simpl. rewrite D2. destruct (String.eqb_spec "lumi" n); [congruence|].
        destruct (find _ rest) as [p|] eqn:E; auto. apply find_some in E. destruct E as [E1' _]. rewrite Forall_forall in Hrest. now apply Hrest. }
      destruct (xcfg N (me_params N m) n) as [p|]; destruct (xcfg N (me_params N m') n) as [p'|]; try rewrite E1; try rewrite E2; reflexivity.
    - intros n j _. now rewrite !user_factor_conv.
    - intros n Hin. destruct (Hlumi n Hin) as [-> Hhl]. destruct (Hpl Hhl) as (p0 & l & lt & s & st & P1 & P2 & P3 & P4).
      assert (Hx0 : xcfg N (me_params N m) "lumi" = Some p0) by (unfold xcfg; rewrite <- P2; now apply find_name_unique).
      unfold spec_aux0. rewrite !user_cfg_conv, Hxl, Hx0.
      simpl. rewrite D3, P3. rewrite (lumi_cfg_unique _ p0 l lt s st Hpn P1 P2 P3 P4). reflexivity.
  Qed.
End Trip.

Lemma Forall2_rev2 {A B} (R : A -> B -> Prop) l l' : Forall2 R l l' -> Forall2 R (rev l) (rev l').
Proof. induction 1; simpl; auto. apply Forall2_app; auto. Qed.

(* the template looks at the parameter point, the observations and the auxiliary data only pointwise *)
Lemma ref_terms_ext N (Hring : ring_theory (n0 N) (n1 N) (nadd N) (nmul N) (nsub N) (nopp N) eq) ia im nc hc cs cb (sp : Spec.spec N)
  theta theta' obs obs' aux aux' :
  (forall n k, theta n k = theta' n k) -> (forall c b, obs c b = obs' c b) -> (forall n k, aux n k = aux' n k) ->
  Ref.ref_terms N ia im nc hc cs cb sp theta obs aux = Ref.ref_terms N ia im nc hc cs cb sp theta' obs' aux'.
Proof. intros Ht Ho Ha. unfold Ref.ref_terms. f_equal.
  - unfold Ref.ref_main_terms. apply flat_map_ext. intros c. apply map_ext. intros b. rewrite Ho. f_equal.
    apply ref_rate_change; auto.
  - rewrite !ref_cterms_is. unfold ct_alpha, ct_lumi, ct_stat, ct_shape. f_equal; [|f_equal; [|f_equal]].
    + apply map_ext. intros n. now rewrite Ha, Ht.
    + apply map_ext. intros n. now rewrite Ha, Ht.
    + apply flat_map_ext. intros n. apply flat_map_ext. intros c. unfold stat_block. destruct (Ref.chan_has N c n Spec.Staterror); auto.
      apply map_ext. intros b. cbv zeta. now rewrite Ha, Ht.
    + apply flat_map_ext. intros c. unfold chan_shape_terms. apply flat_map_ext. intros s. apply flat_map_ext. intros m.
      unfold mod_shape_terms. destruct (Spec.m_type m); auto. destruct (Spec.m_data m); auto. apply map_ext. intros b. now rewrite Ha, Ht. Qed.

Section Top.
  Variable N : Num.
  Notation V := (Num.V N).
  Hypothesis Hf : field_theory (n0 N) (n1 N) (nadd N) (nmul N) (nsub N) (nopp N) (ndiv N) (ninv N) eq.
  Hypothesis Heqb : forall a b : V, neqb N a b = true <-> a = b.
  Hypothesis Hlt0 : nltb N (n0 N) (n0 N) = false.
  Let Hring := F_R Hf.

  Lemma to_spec_distinct_channels ws m : lik_guard N ws -> NoDup (map Spec.c_name (Spec.channels (to_spec_m N ws m))).
  Proof. intros [H _]. simpl. rewrite map_map. exact H. Qed.
  Lemma to_spec_distinct_mods ws m : lik_guard N ws -> forall c s, In c (Spec.channels (to_spec_m N ws m)) -> In s (Spec.c_samples c) ->
    NoDup (map Spec.mkey (Spec.s_mods s)).
  Proof. intros [_ H] c s Hc Hs. simpl in Hc. apply in_map_iff in Hc. destruct Hc as [c0 [<- Hc0]]. simpl in Hs.
    apply in_map_iff in Hs. destruct Hs as [s0 [<- Hs0]]. simpl. rewrite mkey_conv. rewrite Forall_forall in H. pose proof (H c0 Hc0) as Hc.
    rewrite Forall_forall in Hc. apply (Hc s0 Hs0). Qed.

  (* ================= 5. the likelihood template of the re-imported workspace ================= *)
  Theorem spec_rt_terms ia im nc hc cs cb (sp sp' : Spec.spec N) : spec_rt N sp sp' ->
    NoDup (map Spec.c_name (Spec.channels sp)) ->
    (forall c s, In c (Spec.channels sp) -> In s (Spec.c_samples c) -> NoDup (map Spec.mkey (Spec.s_mods s))) ->
    forall theta obs aux, Permutation (Ref.ref_terms N ia im nc hc cs cb sp' theta obs aux) (Ref.ref_terms N ia im nc hc cs cb sp theta obs aux).
  Proof. intros (H1 & _ & _ & H4 & H5 & H6 & _) Hnd Hmk. now apply (rt_terms N Hring Heqb Hlt0). Qed.

  (* the template of the re-imported workspace has the same terms as the template of the original, for every interpolation
     functions and codes, every clip setting, every parameter point, every observation and every auxiliary datum *)
  Theorem roundtrip_likelihood ws x file k :
    write N ws = inl (x, file) -> w_obs N ws <> [] -> stat_ok N ws -> names_ok N ws ->
    lik_guard N ws -> k < length (w_meas N ws) -> cfg_guard N ws (nth k (w_meas N ws) (no_meas N)) ->
    exists ws', read N x file = inl ws' /\
      forall ia im nc hc cs cb theta obs aux,
        Permutation (Ref.ref_terms N ia im nc hc cs cb (to_spec N ws' k) theta obs aux)
                    (Ref.ref_terms N ia im nc hc cs cb (to_spec N ws k) theta obs aux).
  Proof. intros Hw Ho Hs Hn Hg Hk Hc. destruct (roundtrip_spec N Hf Heqb ws x file k Hw Ho Hs Hn Hg Hk Hc) as [ws' [R1 [_ [_ R2]]]].
    exists ws'. split; auto. intros. apply spec_rt_terms; auto.
    - now apply to_spec_distinct_channels.
    - now apply to_spec_distinct_mods. Qed.

  (* ================= 6. the implementation's log-likelihood ================= *)
  Notation sumlog := (RefineTerms.sumlog N).
  Notation theta := (RefineRates.theta N).
  Notation obs_by_name := (RefineTermsTop.obs_by_name N).
  Notation aux_of_data := (RefineTermsTop.aux_of_data N).

  (* two accepted specifications related by spec_rt: the implementation models assign the same log-likelihood at parameter
     points and data that agree BY NAME (component k of the parameter called n; bin b of the channel called c; auxiliary datum
     k of the parameter called n), for any density primitives and interpolation functions *)
  Theorem spec_rt_loglik (sp sp' : Spec.spec N) : spec_rt N sp sp' ->
    RefineTermsFinal.list_shape_ok N sp -> RefineTop.shape_ok N sp -> RefineTermsFinal.list_shape_ok N sp' -> RefineTop.shape_ok N sp' ->
    forall ia im st md md' logpois lognorm pars pars' data data' l l',
    Impl.build N sp = Impl.Ok md -> Impl.build N sp' = Impl.Ok md' -> RefineTop.clip_guard N st ->
    Impl.logpdf_terms N ia im sp st md pars data = Impl.Ok l ->
    Impl.logpdf_terms N ia im sp' st md' pars' data' = Impl.Ok l' ->
    (forall n j, theta md' (Impl.parf N pars') n j = theta md (Impl.parf N pars) n j) ->
    (forall c b, obs_by_name sp' data' c b = obs_by_name sp data c b) ->
    (forall n j, aux_of_data sp' md' data' n j = aux_of_data sp md data n j) ->
    sumlog logpois lognorm l' = sumlog logpois lognorm l.
  Proof.
    intros Hrt Hl1 Hs1 Hl2 Hs2 ia im st md md' lp ln pars pars' data data' l l' Hb Hb' Hc Hl Hl' Ht Ho Ha.
    assert (He : forall a b : V, neqb N a b = true -> a = b) by (intros a b; apply Heqb).
    pose proof (RefineTermsFull.logpdf_terms_refines N Hring He (Fdiv_def Hf) ia im sp st md pars data l Hb Hl1 Hs1 Hc Hl) as P.
    pose proof (RefineTermsFull.logpdf_terms_refines N Hring He (Fdiv_def Hf) ia im sp' st md' pars' data' l' Hb' Hl2 Hs2 Hc Hl') as P'.
    rewrite (RefineTerms.sumlog_perm N Hring lp ln _ _ P), (RefineTerms.sumlog_perm N Hring lp ln _ _ P').
    rewrite (ref_terms_ext N Hring _ _ _ _ _ _ sp' _ _ _ _ _ _ Ht Ho Ha).
    apply (RefineTerms.sumlog_perm N Hring). apply spec_rt_terms; auto.
    - exact (Wf.accepted_distinct_channels N sp md Hb).
    - intros c s. exact (Wf.accepted_distinct_modifiers N sp md c s Hb).
  Qed.

  Theorem roundtrip_loglik ws x file k :
    write N ws = inl (x, file) -> w_obs N ws <> [] -> stat_ok N ws -> names_ok N ws ->
    lik_guard N ws -> k < length (w_meas N ws) -> cfg_guard N ws (nth k (w_meas N ws) (no_meas N)) ->
    exists ws', read N x file = inl ws' /\
      forall ia im st md md' logpois lognorm pars pars' data data' l l',
      Impl.build N (to_spec N ws k) = Impl.Ok md -> Impl.build N (to_spec N ws' k) = Impl.Ok md' -> RefineTop.clip_guard N st ->
      Impl.logpdf_terms N ia im (to_spec N ws k) st md pars data = Impl.Ok l ->
      Impl.logpdf_terms N ia im (to_spec N ws' k) st md' pars' data' = Impl.Ok l' ->
      (forall n j, theta md' (Impl.parf N pars') n j = theta md (Impl.parf N pars) n j) ->
      (forall c b, obs_by_name (to_spec N ws' k) data' c b = obs_by_name (to_spec N ws k) data c b) ->
      (forall n j, aux_of_data (to_spec N ws' k) md' data' n j = aux_of_data (to_spec N ws k) md data n j) ->
      sumlog logpois lognorm l' = sumlog logpois lognorm l.
  Proof. intros Hw Ho Hs Hn Hg Hk Hc. destruct (roundtrip_spec N Hf Heqb ws x file k Hw Ho Hs Hn Hg Hk Hc) as [ws' [R1 [_ [_ R2]]]].
    exists ws'. split; auto. intros. eapply (spec_rt_loglik _ _ R2); eauto;
      try apply to_spec_list_shape_ok; try apply to_spec_shape_ok. Qed.

  (* ---------- the observations: Workspace.data of the re-imported workspace lists the same main data ---------- *)
  Lemma last_find_unique {A} (p : A -> bool) l : (forall a b, In a l -> In b l -> p a = true -> p b = true -> a = b) ->
    Impl.last_find p l = find p l.
  Proof. intros Hu. unfold Impl.last_find. destruct (find p (rev l)) as [a|] eqn:E1, (find p l) as [b|] eqn:E2; auto.
    - apply find_some in E1, E2. destruct E1 as [I1 P1], E2 as [I2 P2]. apply in_rev in I1. f_equal. auto.
    - apply find_some in E1. destruct E1 as [I1 P1]. apply in_rev in I1. rewrite (find_none _ _ E2 a I1) in P1. discriminate.
    - apply find_some in E2. destruct E2 as [I2 P2]. apply (in_rev l) in I2. rewrite (find_none _ _ E1 b I2) in P2. discriminate. Qed.
  Lemma obs_dict_original ws cn : NoDup (map fst (w_obs N ws)) -> obs_dict N ws cn = XmlThms.obs_of N ws cn.
  Proof. intros Hnd. unfold obs_dict, XmlThms.obs_of, find_obs. rewrite last_find_unique.
    - destruct (find _ (w_obs N ws)); reflexivity.
    - intros a b Ia Ib Pa Pb. apply String.eqb_eq in Pa, Pb. apply (NoDup_map_inj_in fst (w_obs N ws)); auto. congruence. Qed.
  Lemma obs_dict_read (ws' : workspace N) (cs : list (channel N)) (h : string -> list V) cn :
    w_obs N ws' = map (fun c => (c_name N c, h (c_name N c))) cs -> In cn (map (c_name N) cs) -> obs_dict N ws' cn = h cn.
  Proof. intros Ho Hin. unfold obs_dict, Impl.last_find. rewrite Ho.
    destruct (find _ (rev (map (fun c => (c_name N c, h (c_name N c))) cs))) as [o|] eqn:E.
    - apply find_some in E. destruct E as [I1 P1]. apply in_rev in I1. apply in_map_iff in I1. destruct I1 as [c [<- _]].
      simpl in *. apply String.eqb_eq in P1. now rewrite P1.
    - exfalso. apply in_map_iff in Hin. destruct Hin as [c [Hc Hin]].
      assert (I1 : In (c_name N c, h (c_name N c)) (rev (map (fun c => (c_name N c, h (c_name N c))) cs))).
      { apply in_rev. rewrite rev_involutive. apply in_map_iff. eauto. }
      pose proof (find_none _ _ E _ I1) as P. simpl in P. rewrite Hc, String.eqb_refl in P. discriminate. Qed.
  Theorem roundtrip_main_data ws x file :
    write N ws = inl (x, file) -> w_obs N ws <> [] -> stat_ok N ws -> names_ok N ws -> NoDup (map fst (w_obs N ws)) ->
    exists ws', read N x file = inl ws' /\ main_data N ws' = main_data N ws.
  Proof. intros Hw Ho Hs Hn Hnd. destruct (roundtrip_model N Hf Heqb ws x file Hw Ho Hs Hn) as [ws' [R1 [R2 [R3 _]]]].
    exists ws'. split; auto. unfold main_data, Impl.cfg_channels, to_spec. simpl. rewrite R2.
    assert (E : map Spec.c_name (map (conv_chan N) (map (expected_channel N) (w_channels N ws))) = map Spec.c_name (map (conv_chan N) (w_channels N ws))).
    { rewrite !map_map. apply map_ext. reflexivity. }
    rewrite E. apply flat_map_ext_in2. intros cn Hin0. apply (proj1 (sort_uniq_in _ _)) in Hin0. rewrite map_map in Hin0.
    assert (Hin : In cn (map (c_name N) (w_channels N ws))) by exact Hin0.
    rewrite (obs_dict_read ws' (w_channels N ws) (XmlThms.obs_of N ws) cn R3 Hin). symmetry. now apply obs_dict_original. Qed.

  (* ---------- same parameter VECTOR, same data VECTOR: when the two models lay their parameters out identically ---------- *)
  Definition ptup (p : Impl.pset N) := (Impl.p_name N p, Impl.p_type N p, Impl.p_n N p, Impl.p_start N p).
  Definition same_layout (md md' : Impl.model N) : Prop := map ptup (Impl.md_psets N md) = map ptup (Impl.md_psets N md').

  Lemma layout_pstart ps ps' name : map ptup ps = map ptup ps' ->
    option_map (Impl.p_start N) (Impl.find_pset N ps name) = option_map (Impl.p_start N) (Impl.find_pset N ps' name).
  Proof. revert ps'. induction ps as [|p ps IH]; intros [|p' ps'] H; try discriminate; auto. simpl in H. inversion H as [[H1 H2 H3 H4 H5]].
    unfold Impl.find_pset. simpl. rewrite H1. destruct (String.eqb (Impl.p_name N p') name); simpl; [now rewrite H4|]. now apply IH. Qed.
  Lemma layout_theta md md' par n j : same_layout md md' -> theta md' par n j = theta md par n j.
  Proof. intros H. unfold RefineRates.theta, Impl.pstart. pose proof (layout_pstart _ _ n H) as E.
    destruct (Impl.find_pset N (Impl.md_psets N md) n), (Impl.find_pset N (Impl.md_psets N md') n); simpl in E; try discriminate; auto.
    inversion E. reflexivity. Qed.
  Lemma layout_aux_offset ps ps' name : map ptup ps = map ptup ps' -> RefineTerms.aux_offset N ps name = RefineTerms.aux_offset N ps' name.
  Proof. revert ps'. induction ps as [|p ps IH]; intros [|p' ps'] H; try discriminate; auto. simpl in H. inversion H as [[H1 H2 H3 H4 H5]].
    simpl. rewrite H1. destruct (String.eqb (Impl.p_name N p') name); auto. rewrite (IH _ H5). f_equal.
    unfold RefineTerms.csize, Impl.constrained. now rewrite H2, H3. Qed.

  (* main data: both specifications slice the data vector identically *)
  Lemma rt_nbins (sp sp' : Spec.spec N) cn : Forall2 (chan_rt N) (Spec.channels sp) (Spec.channels sp') -> Impl.nbins N sp' cn = Impl.nbins N sp cn.
  Proof. intros HF. unfold Impl.nbins, Impl.last_find.
    pose proof (find_Forall2 (chan_rt N) (fun c => String.eqb (Spec.c_name c) cn) (fun c => String.eqb (Spec.c_name c) cn) _ _ (Forall2_rev2 _ _ _ HF)) as H.
    destruct (find _ (rev (Spec.channels sp))) as [c|], (find _ (rev (Spec.channels sp'))) as [c'|];
      try (exfalso; apply H; intros a b [Hn _]; now rewrite Hn); auto.
    assert (Hr : chan_rt N c c') by (apply H; intros a b [Hn _]; now rewrite Hn).
    symmetry. exact (nbins_rt N c c' Hr). Qed.
  Lemma rt_cfg_channels (sp sp' : Spec.spec N) : Forall2 (chan_rt N) (Spec.channels sp) (Spec.channels sp') -> Impl.cfg_channels N sp' = Impl.cfg_channels N sp.
  Proof. intros HF. unfold Impl.cfg_channels. f_equal. symmetry. apply (Forall2_map_eq2 _ _ _ _ _ HF). intros a b _ _ [Hn _]. now rewrite Hn. Qed.
  Lemma rt_nmaindata (sp sp' : Spec.spec N) : Forall2 (chan_rt N) (Spec.channels sp) (Spec.channels sp') -> Impl.nmaindata N sp' = Impl.nmaindata N sp.
  Proof. intros HF. unfold Impl.nmaindata. rewrite (rt_cfg_channels _ _ HF). f_equal. apply map_ext. intros cn. now apply rt_nbins. Qed.
  Lemma rt_obs (sp sp' : Spec.spec N) data c b : Forall2 (chan_rt N) (Spec.channels sp) (Spec.channels sp') -> obs_by_name sp' data c b = obs_by_name sp data c b.
  Proof. intros HF. unfold RefineTermsTop.obs_by_name, RefineTerms.obs_of, RefineTerms.chan_start, Impl.channel_slices.
    rewrite (rt_cfg_channels _ _ HF). rewrite (map_ext (Impl.nbins N sp') (Impl.nbins N sp)); auto. intros cn. now apply rt_nbins. Qed.

  Theorem spec_rt_loglik_same_vector (sp sp' : Spec.spec N) : spec_rt N sp sp' ->
    RefineTermsFinal.list_shape_ok N sp -> RefineTop.shape_ok N sp -> RefineTermsFinal.list_shape_ok N sp' -> RefineTop.shape_ok N sp' ->
    forall ia im st md md' logpois lognorm pars data l l',
    Impl.build N sp = Impl.Ok md -> Impl.build N sp' = Impl.Ok md' -> RefineTop.clip_guard N st -> same_layout md md' ->
    Impl.logpdf_terms N ia im sp st md pars data = Impl.Ok l ->
    Impl.logpdf_terms N ia im sp' st md' pars data = Impl.Ok l' ->
    sumlog logpois lognorm l' = sumlog logpois lognorm l.
  Proof. intros Hrt Hl1 Hs1 Hl2 Hs2 ia im st md md' lp ln pars data l l' Hb Hb' Hc Hlay Hl Hl'.
    apply (spec_rt_loglik sp sp' Hrt Hl1 Hs1 Hl2 Hs2 ia im st md md' lp ln pars pars data data l l'); auto.
    - intros n j. now apply layout_theta.
    - intros c b. apply rt_obs. apply Hrt.
    - intros n j. unfold RefineTermsTop.aux_of_data, RefineTermsBlocks.aux_by_name.
      rewrite (rt_nmaindata sp sp') by apply Hrt. now rewrite (layout_aux_offset _ _ n Hlay). Qed.

  (* the layout is a function of the channels alone: when the re-imported channels ARE the original channels, it is the same *)
  Lemma reduce_all_layout (sp sp' : Spec.spec N) : forall l start ps ps',
    Impl.reduce_all N sp l start = Impl.Ok ps -> Impl.reduce_all N sp' l start = Impl.Ok ps' -> map ptup ps = map ptup ps'.
  Proof. induction l as [|[name rs] t IH]; intros start ps ps' H H'; simpl in *.
    - inversion H. inversion H'. reflexivity.
    - destruct (Impl.reduce_one N sp name rs start) as [p|] eqn:E; simpl in H; [|discriminate].
      destruct (Impl.reduce_one N sp' name rs start) as [p'|] eqn:E'; simpl in H'; [|discriminate].
      destruct (RefineParams.reduce_one_fields N sp name rs start p E) as [F1 [F2 F3]].
      destruct (RefineParams.reduce_one_fields N sp' name rs start p' E') as [F1' [F2' F3']].
      destruct rs as [|r0 rs]; [discriminate|]. destruct (F3 r0 (or_introl eq_refl)) as [G1 [G2 _]]. destruct (F3' r0 (or_introl eq_refl)) as [G1' [G2' _]].
      destruct (Impl.reduce_all N sp t (start + Impl.p_n N p)) as [q|] eqn:Eq; simpl in H; [|discriminate].
      destruct (Impl.reduce_all N sp' t (start + Impl.p_n N p')) as [q'|] eqn:Eq'; simpl in H'; [|discriminate].
      inversion H; inversion H'; subst ps ps'. simpl. f_equal.
      + unfold ptup. congruence.
      + rewrite G1' in Eq'. rewrite G1 in Eq. eapply IH; eauto. Qed.
  Lemma same_channels_layout (sp sp' : Spec.spec N) md md' : Spec.channels sp' = Spec.channels sp ->
    Impl.build N sp = Impl.Ok md -> Impl.build N sp' = Impl.Ok md' -> same_layout md md'.
  Proof. intros Hc Hb Hb'. pose proof (RefineParams.accepted_reduce N sp md Hb) as R. pose proof (RefineParams.accepted_reduce N sp' md' Hb') as R'.
    destruct sp as [C P o], sp' as [C' P' o']. simpl in Hc. subst C'.
    change (Impl.required_all N {| Spec.channels := C; Spec.parameters := P'; Spec.poi := o' |}
              (Impl.cfg_channels N {| Spec.channels := C; Spec.parameters := P'; Spec.poi := o' |})
              (Impl.cfg_samples N {| Spec.channels := C; Spec.parameters := P'; Spec.poi := o' |})
              (Impl.cfg_modifiers N {| Spec.channels := C; Spec.parameters := P'; Spec.poi := o' |}))
      with (Impl.required_all N {| Spec.channels := C; Spec.parameters := P; Spec.poi := o |}
              (Impl.cfg_channels N {| Spec.channels := C; Spec.parameters := P; Spec.poi := o |})
              (Impl.cfg_samples N {| Spec.channels := C; Spec.parameters := P; Spec.poi := o |})
              (Impl.cfg_modifiers N {| Spec.channels := C; Spec.parameters := P; Spec.poi := o |})) in R'.
    exact (reduce_all_layout _ _ _ _ _ _ R R'). Qed.

  (* a workspace already in the shape the XML format dictates (canonical_ws of XmlThms: lumi modifier first, staterror named
     staterror_<channel>, no shapesys / staterror uncertainty on a bin without yield): same log-likelihood at the same
     parameter vector and the same data vector *)
  Lemma canonical_lik_guard ws : canonical_ws N ws -> NoDup (map (c_name N) (w_channels N ws)) ->
    (forall c s, In c (w_channels N ws) -> In s (c_samples N c) -> NoDup (map (mkeyX N) (s_mods N s))) -> lik_guard N ws.
  Proof. intros Hc Hn Hm. split; auto. apply Forall_forall. intros c Hin. apply Forall_forall. intros s Hs. split; [now apply (Hm c)|].
    unfold canonical_ws in Hc. rewrite Forall_forall in Hc. pose proof (Hc c Hin) as Hcc. rewrite Forall_forall in Hcc.
    destruct (Hcc s Hs) as [rest [Hr Hms]].
    assert (Hrest : Forall (fun m => lumi_wf N m /\ stat_canon N (c_name N c) (s_data N s) m) rest).
    { eapply Forall_impl; [|exact Hr]. intros m [Hnl Hd]. split.
      - unfold lumi_wf. split; [congruence|]. intros E. rewrite E in Hd. contradiction.
      - unfold stat_canon. destruct (m_data N m); auto. destruct Hd as [Hd1 Hd2]. split; auto. now apply (mask_id N Heqb). }
    destruct Hms as [->| ->]; auto. constructor; auto. split; [unfold lumi_wf; simpl; tauto|exact I]. Qed.

  Theorem roundtrip_loglik_canonical ws x file k :
    write N ws = inl (x, file) -> w_obs N ws <> [] -> stat_ok N ws -> names_ok N ws -> canonical_ws N ws ->
    k < length (w_meas N ws) -> cfg_guard N ws (nth k (w_meas N ws) (no_meas N)) ->
    exists ws', read N x file = inl ws' /\ w_channels N ws' = w_channels N ws /\
      forall ia im st md md' logpois lognorm pars data l l',
      Impl.build N (to_spec N ws k) = Impl.Ok md -> Impl.build N (to_spec N ws' k) = Impl.Ok md' -> RefineTop.clip_guard N st ->
      Impl.logpdf_terms N ia im (to_spec N ws k) st md pars data = Impl.Ok l ->
      Impl.logpdf_terms N ia im (to_spec N ws' k) st md' pars data = Impl.Ok l' ->
      sumlog logpois lognorm l' = sumlog logpois lognorm l.
  Proof. intros Hw Ho Hs Hn Hcan Hk Hc.
    destruct (roundtrip_likelihood_partial N Hf Heqb ws x file Hw Ho Hs Hn Hcan) as [ws' [R1 [R2 _]]].
    exists ws'. split; auto. split; auto. intros ia im st md md' lp ln pars data l l' Hb Hb' Hcg Hl Hl'.
    assert (Hg : lik_guard N ws).
    { apply canonical_lik_guard; auto.
      - pose proof (Wf.accepted_distinct_channels N _ md Hb) as H. simpl in H. now rewrite map_map in H.
      - intros c s Hin Hs0. pose proof (Wf.accepted_distinct_modifiers N _ md (conv_chan N c) (conv_sample N s) Hb) as H.
        simpl in H. rewrite mkey_conv in H. apply H; now apply in_map. }
    destruct (roundtrip_spec N Hf Heqb ws x file k Hw Ho Hs Hn Hg Hk Hc) as [ws2 [S1 [_ [_ S2]]]].
    rewrite R1 in S1. inversion S1; subst ws2.
    apply (spec_rt_loglik_same_vector (to_spec N ws k) (to_spec N ws' k) S2 (to_spec_list_shape_ok N ws _) (to_spec_shape_ok N ws _) (to_spec_list_shape_ok N ws' _) (to_spec_shape_ok N ws' _)
             ia im st md md' lp ln pars data l l' Hb Hb' Hcg); auto.
    apply (same_channels_layout (to_spec N ws k) (to_spec N ws' k) md md'); auto. simpl. now rewrite R2. Qed.
  (* ---------- any listing order of the modifiers: where, in addition, no shapesys carries an uncertainty on a bin without
     yield (the same guard as for staterror), the re-imported channels are the original channels with the lumi modifier moved
     to the front; build does not depend on the listing order (ConfigPerm.build_listing_invariant), so the layouts coincide ---------- *)
  Definition shape_guard (ws : workspace N) : Prop :=
    Forall (fun c => Forall (fun s => Forall (fun m => match m_data N m with DShapesys d => mask N d (s_data N s) = d | _ => True end)
                                             (s_mods N s)) (c_samples N c)) (w_channels N ws).
  Lemma expected_nonlumi_id cname sdata ms :
    Forall (fun m => lumi_wf N m /\ stat_canon N cname sdata m) ms ->
    Forall (fun m => match m_data N m with DShapesys d => mask N d sdata = d | _ => True end) ms ->
    flat_map (expected_mod N cname sdata) ms = filter (fun m => negb (is_lumi_type N m)) ms.
  Proof. induction 1 as [|m ms [Hw Hc] _ IH]; intros Hsh; simpl; auto. inversion Hsh as [|? ? Hm Hsh']; subst. rewrite (IH Hsh').
    unfold expected_mod. destruct (is_lumi_type N m) eqn:E; simpl.
    - rewrite (lumi_is N m Hw E). reflexivity.
    - destruct (String.eqb_spec (m_name N m) "lumi") as [En|En].
      + exfalso. apply Hw in En. unfold is_lumi_type in E. rewrite En in E. discriminate.
      + unfold stat_canon in Hc. destruct m as [n d]; simpl in *. destruct d; simpl; auto.
        * now rewrite Hm.
        * destruct Hc as [Hc1 Hc2]. now rewrite Hc2, <- Hc1.
        * discriminate. Qed.
  Lemma expected_sample_perm cname s : lik_guard_sample N cname s ->
    Forall (fun m => match m_data N m with DShapesys d => mask N d (s_data N s) = d | _ => True end) (s_mods N s) ->
    ConfigPerm.sample_perm N (conv_sample N s) (conv_sample N (expected_sample N cname s)).
  Proof. intros [Hnd HF] Hsh. unfold ConfigPerm.sample_perm. simpl. split; auto. split; auto. apply Permutation_map.
    rewrite (expected_nonlumi_id _ _ _ HF Hsh), <- lumi_filter; auto.
    - apply Permutation_sym, filter_split_perm.
    - eapply Forall_impl; [|exact HF]. intros a Ha. apply Ha. Qed.
  Lemma expected_spec_perm ws m : lik_guard N ws -> shape_guard ws ->
    ConfigPerm.spec_perm N (to_spec_m N ws m)
      {| Spec.channels := map (conv_chan N) (map (expected_channel N) (w_channels N ws));
         Spec.parameters := Spec.parameters (to_spec_m N ws m); Spec.poi := Spec.poi (to_spec_m N ws m) |}.
  Proof. intros [_ Hg] Hsh. unfold ConfigPerm.spec_perm. simpl. split; [|split; auto].
    exists (map (conv_chan N) (map (expected_channel N) (w_channels N ws))). split; auto. rewrite map_map.
    apply Forall2_map_both. intros c Hc. unfold ConfigPerm.channel_perm. simpl. split; auto.
    exists (map (conv_sample N) (map (expected_sample N (c_name N c)) (c_samples N c))). split; auto. rewrite map_map.
    apply Forall2_map_both. intros s0 Hs0. rewrite Forall_forall in Hg. pose proof (Hg c Hc) as Hgc. rewrite Forall_forall in Hgc.
    unfold shape_guard in Hsh. rewrite Forall_forall in Hsh. pose proof (Hsh c Hc) as Hsc. rewrite Forall_forall in Hsc.
    apply expected_sample_perm; auto. Qed.

  Theorem roundtrip_loglik_same_vector ws x file k :
    write N ws = inl (x, file) -> w_obs N ws <> [] -> stat_ok N ws -> names_ok N ws ->
    lik_guard N ws -> shape_guard ws -> k < length (w_meas N ws) -> cfg_guard N ws (nth k (w_meas N ws) (no_meas N)) ->
    exists ws', read N x file = inl ws' /\
      forall ia im st md md' logpois lognorm pars data l l',
      Impl.build N (to_spec N ws k) = Impl.Ok md -> Impl.build N (to_spec N ws' k) = Impl.Ok md' -> RefineTop.clip_guard N st ->
      Impl.logpdf_terms N ia im (to_spec N ws k) st md pars data = Impl.Ok l ->
      Impl.logpdf_terms N ia im (to_spec N ws' k) st md' pars data = Impl.Ok l' ->
      sumlog logpois lognorm l' = sumlog logpois lognorm l.
  Proof. intros Hw Ho Hs Hn Hg Hsh Hk Hc.
    destruct (roundtrip_model N Hf Heqb ws x file Hw Ho Hs Hn) as [ws' [R1 [R2 _]]].
    exists ws'. split; auto. intros ia im st md md' lp ln pars data l l' Hb Hb' Hcg Hl Hl'.
    destruct (roundtrip_spec N Hf Heqb ws x file k Hw Ho Hs Hn Hg Hk Hc) as [ws2 [S1 [_ [_ S2]]]].
    rewrite R1 in S1. inversion S1; subst ws2.
    apply (spec_rt_loglik_same_vector (to_spec N ws k) (to_spec N ws' k) S2 (to_spec_list_shape_ok N ws _) (to_spec_shape_ok N ws _)
             (to_spec_list_shape_ok N ws' _) (to_spec_shape_ok N ws' _) ia im st md md' lp ln pars data l l' Hb Hb' Hcg); auto.
    set (m := nth k (w_meas N ws) (no_meas N)).
    set (spA := {| Spec.channels := map (conv_chan N) (map (expected_channel N) (w_channels N ws));
                   Spec.parameters := Spec.parameters (to_spec_m N ws m); Spec.poi := Spec.poi (to_spec_m N ws m) |}).
    assert (HbA : Impl.build N spA = Impl.Ok md).
    { unfold spA. rewrite (ConfigPerm.build_listing_invariant N _ _ (expected_spec_perm ws m Hg Hsh)). exact Hb. }
    apply (same_channels_layout spA (to_spec N ws' k) md md'); auto. unfold spA. simpl. now rewrite R2. Qed.
End Top.

(* ================= 7. boolean deciders of the guards (for the examples and for a correspondence run) ================= *)
Section Deciders.
  Variable N : Num.
  Notation V := (Num.V N).
  Hypothesis Heqb : forall a b : V, neqb N a b = true <-> a = b.

  Fixpoint leqb (l l' : list V) : bool :=
    match l, l' with [], [] => true | a :: t, b :: t' => neqb N a b && leqb t t' | _, _ => false end.
  Lemma leqb_sound l l' : leqb l l' = true -> l = l'.
  Proof. revert l'. induction l as [|a l IH]; intros [|b l']; simpl; intros H; try discriminate; auto.
    apply andb_prop in H. destruct H as [H1 H2]. apply Heqb in H1. subst. f_equal. auto. Qed.

  Definition lumi_wfb (m : modifier N) : bool := Bool.eqb (String.eqb (m_name N m) "lumi") (is_lumi_type N m).
  Lemma lumi_wfb_sound m : lumi_wfb m = true -> lumi_wf N m.
  Proof. unfold lumi_wfb, lumi_wf, is_lumi_type. intros H. apply Bool.eqb_prop in H. destruct (String.eqb_spec (m_name N m) "lumi") as [E|E].
    - split; auto. intros _. destruct (m_data N m); try discriminate; reflexivity.
    - split; [congruence|]. intros Hd. rewrite Hd in H. discriminate. Qed.
  Definition stat_canonb (cname : string) (sdata : list V) (m : modifier N) : bool :=
    match m_data N m with DStaterror d => String.eqb (m_name N m) ("staterror_" +s+ cname) && leqb (mask N d sdata) d | _ => true end.
  Lemma stat_canonb_sound cname sdata m : stat_canonb cname sdata m = true -> stat_canon N cname sdata m.
  Proof. unfold stat_canonb, stat_canon. destruct (m_data N m); auto. intros H. apply andb_prop in H. destruct H as [H1 H2].
    apply String.eqb_eq in H1. apply leqb_sound in H2. auto. Qed.
  Definition lik_guardb (ws : workspace N) : bool :=
    negb (Impl.has_dup (map (c_name N) (w_channels N ws))) &&
    forallb (fun c => forallb (fun s => negb (Impl.has_dup_pair (map (mkeyX N) (s_mods N s))) &&
                                         forallb (fun m => lumi_wfb m && stat_canonb (c_name N c) (s_data N s) m) (s_mods N s))
                              (c_samples N c)) (w_channels N ws).
  Lemma lik_guardb_sound ws : lik_guardb ws = true -> lik_guard N ws.
  Proof. unfold lik_guardb, lik_guard. intros H. apply andb_prop in H. destruct H as [H1 H2]. split.
    - apply Wf.has_dup_false_NoDup. now apply negb_true_iff.
    - apply Forall_forall. intros c Hc. apply Forall_forall. intros s Hs. rewrite forallb_forall in H2. specialize (H2 c Hc).
      rewrite forallb_forall in H2. specialize (H2 s Hs). apply andb_prop in H2. destruct H2 as [H3 H4]. split.
      + apply Wf.has_dup_pair_false_NoDup. now apply negb_true_iff.
      + apply Forall_forall. intros m Hm. rewrite forallb_forall in H4. specialize (H4 m Hm). apply andb_prop in H4. destruct H4.
        split; [now apply lumi_wfb_sound|now apply stat_canonb_sound]. Qed.

  Definition has_lumi_modb (ws : workspace N) : bool :=
    existsb (fun c => existsb (fun s => existsb (is_lumi_type N) (s_mods N s)) (c_samples N c)) (w_channels N ws).
  Definition lumi_cfgb (p : param N) : bool :=
    String.eqb (p_name N p) "lumi" && match p_auxdata N p, p_sigmas N p with Some (_ :: _), Some (_ :: _) => true | _, _ => false end.
  Definition cfg_guardb (ws : workspace N) (m : measurement N) : bool :=
    negb (Impl.has_dup (map (p_name N) (me_params N m))) &&
    forallb (fun p => String.eqb (p_name N p) "lumi" || match p_sigmas N p with None => true | Some _ => false end) (me_params N m) &&
    (negb (has_lumi_modb ws) || existsb lumi_cfgb (me_params N m)).
  Lemma cfg_guardb_sound ws m : cfg_guardb ws m = true -> cfg_guard N ws m.
  Proof. unfold cfg_guardb, cfg_guard. intros H. apply andb_prop in H. destruct H as [H H3]. apply andb_prop in H. destruct H as [H1 H2].
    split; [|split].
    - apply Wf.has_dup_false_NoDup. now apply negb_true_iff.
    - intros p Hp Hn. rewrite forallb_forall in H2. specialize (H2 p Hp). destruct (String.eqb_spec (p_name N p) "lumi"); [congruence|].
      simpl in H2. destruct (p_sigmas N p); [discriminate|reflexivity].
    - intros (c & s & mo & Hc & Hs & Hm & Hd).
      assert (Hb : has_lumi_modb ws = true).
      { unfold has_lumi_modb. apply existsb_exists. exists c. split; auto. apply existsb_exists. exists s. split; auto.
        apply existsb_exists. exists mo. split; auto. unfold is_lumi_type. now rewrite Hd. }
      rewrite Hb in H3. simpl in H3. apply existsb_exists in H3. destruct H3 as [p [Hp Hl]]. unfold lumi_cfgb in Hl.
      apply andb_prop in Hl. destruct Hl as [L1 L2]. apply String.eqb_eq in L1.
      destruct (p_auxdata N p) as [[|l lt]|] eqn:Ea; try discriminate. destruct (p_sigmas N p) as [[|s0 st]|] eqn:Es; try discriminate.
      exists p, l, lt, s0, st. auto. Qed.

  Definition shape_guardb (ws : workspace N) : bool :=
    forallb (fun c => forallb (fun s => forallb (fun m => match m_data N m with DShapesys d => leqb (mask N d (s_data N s)) d | _ => true end)
                                                (s_mods N s)) (c_samples N c)) (w_channels N ws).
  Lemma shape_guardb_sound ws : shape_guardb ws = true -> shape_guard N ws.
  Proof. unfold shape_guardb, shape_guard. intros H. apply Forall_forall. intros c Hc. apply Forall_forall. intros s Hs. apply Forall_forall.
    intros m Hm. rewrite forallb_forall in H. specialize (H c Hc). rewrite forallb_forall in H. specialize (H s Hs).
    rewrite forallb_forall in H. specialize (H m Hm). destruct (m_data N m); auto. now apply leqb_sound. Qed.

  (* all hypotheses of roundtrip_likelihood / roundtrip_loglik at once *)
  Definition lik_hypsb (ws : workspace N) (k : nat) : bool :=
    guardsb N ws && lik_guardb ws && Nat.ltb k (length (w_meas N ws)) && cfg_guardb ws (nth k (w_meas N ws) (no_meas N)).
End Deciders.

(* ================= 8. instances and a concrete workspace ================= *)
Lemma Qc_lt00 : nltb QcNum (n0 QcNum) (n0 QcNum) = false.
Proof. reflexivity. Qed.
Lemma R_lt00 : nltb RNum (n0 RNum) (n0 RNum) = false.
Proof. simpl. unfold rltb. destruct (Rlt_dec 0 0) as [H|H]; auto. exfalso. exact (Rlt_irrefl _ H). Qed.

Definition roundtrip_spec_Qc := roundtrip_spec QcNum Qcft Qc_eqb_spec.
Definition roundtrip_spec_R := roundtrip_spec RNum Rfield R_eqb_spec.
Definition roundtrip_likelihood_Qc := roundtrip_likelihood QcNum Qcft Qc_eqb_spec Qc_lt00.
Definition roundtrip_likelihood_R := roundtrip_likelihood RNum Rfield R_eqb_spec R_lt00.
Definition roundtrip_loglik_Qc := roundtrip_loglik QcNum Qcft Qc_eqb_spec Qc_lt00.
Definition roundtrip_loglik_R := roundtrip_loglik RNum Rfield R_eqb_spec R_lt00.
Definition roundtrip_loglik_canonical_Qc := roundtrip_loglik_canonical QcNum Qcft Qc_eqb_spec Qc_lt00.
Definition roundtrip_loglik_canonical_R := roundtrip_loglik_canonical RNum Rfield R_eqb_spec R_lt00.
Definition roundtrip_loglik_same_vector_Qc := roundtrip_loglik_same_vector QcNum Qcft Qc_eqb_spec Qc_lt00.
Definition roundtrip_loglik_same_vector_R := roundtrip_loglik_same_vector RNum Rfield R_eqb_spec R_lt00.
Definition spec_rt_loglik_same_vector_Qc := spec_rt_loglik_same_vector QcNum Qcft Qc_eqb_spec Qc_lt00.
Definition spec_rt_loglik_same_vector_R := spec_rt_loglik_same_vector RNum Rfield R_eqb_spec R_lt00.

Lemma lik_hypsb_sound ws k : lik_hypsb QcNum ws k = true ->
  (exists x f, write QcNum ws = inl (x, f)) /\ w_obs QcNum ws <> [] /\ stat_ok QcNum ws /\ names_ok QcNum ws /\
  lik_guard QcNum ws /\ (k < length (w_meas QcNum ws))%nat /\ cfg_guard QcNum ws (nth k (w_meas QcNum ws) (no_meas QcNum)).
Proof. unfold lik_hypsb. intros H. apply andb_prop in H. destruct H as [H H4]. apply andb_prop in H. destruct H as [H H3].
  apply andb_prop in H. destruct H as [H1 H2]. destruct (guardsb_sound ws H1) as [A [B [C D]]].
  split; [exact A|]. split; [exact B|]. split; [exact C|]. split; [exact D|]. split; [|split].
  - now apply (lik_guardb_sound QcNum Qc_eqb_spec).
  - now apply Nat.ltb_lt.
  - now apply (cfg_guardb_sound QcNum). Qed.

(* two channels; luminosity 2 +- 1/5 (the lumi modifier is NOT listed first); staterror named as the XML dictates, without
   uncertainty on the empty bin; shapesys WITH an uncertainty on an empty bin (dropped by the relative form, invisible to the
   likelihood); histosys, normsys shared by two channels, shapefactor, normfactor with custom init and bounds;
   two measurements, fixed parameters (ns; lumi and mu) *)
Definition lik_ws : workspace QcNum :=
  WS
    [CH "ch1"
       [SA "sig" [q 5 1; q 15 2] [MO "mu" DNF; MO "lumi" DL];
        SA "bkg" [q 50 1; q 0 1]
          [MO "staterror_ch1" (DST [q 3 1; q 0 1]); MO "ss" (DSS [q 2 1; q 1 1]);
           MO "ns" (DN (q 9 10) (q 11 10)); MO "hs" (DH [q 45 1; q 1 10] [q 55 1; q 1 1]);
           MO "sf" DSF]];
     CH "ch2"
       [SA "bkg2" [q 10 1; q 20 1; q 30 1]
          [MO "staterror_ch2" (DST [q 1 1; q 2 1; q 3 1]); MO "lumi" DL; MO "ns" (DN (q 4 5) (q 6 5))]]]
    [("ch1", [q 52 1; q 8 1]); ("ch2", [q 11 1; q 19 1; q 33 1])]
    [ME "m1" "mu" [PA "lumi" (Some [q 2 1]) (Some [(q 1 1, q 3 1)]) (Some [q 2 1]) (Some [q 1 5]) None;
                       PA "mu" (Some [q 3 2]) (Some [(q 0 1, q 7 1)]) None None None;
                       PA "ns" None None None None (Some true)];
     ME "m2" "mu" [PA "lumi" (Some [q 2 1]) (Some [(q 1 1, q 3 1)]) (Some [q 2 1]) (Some [q 1 5]) (Some true);
                       PA "mu" None None None None (Some true)]].

Example lik_demo_hyps : lik_hypsb QcNum lik_ws 0 = true /\ lik_hypsb QcNum lik_ws 1 = true.
Proof. split; vm_compute; reflexivity. Qed.
Example roundtrip_likelihood_nonvacuous : forall k, (k < 2)%nat ->
  (exists x f, write QcNum lik_ws = inl (x, f)) /\ w_obs QcNum lik_ws <> [] /\ stat_ok QcNum lik_ws /\ names_ok QcNum lik_ws /\
  lik_guard QcNum lik_ws /\ (k < length (w_meas QcNum lik_ws))%nat /\ cfg_guard QcNum lik_ws (nth k (w_meas QcNum lik_ws) (no_meas QcNum)).
Proof. intros k Hk. apply lik_hypsb_sound. destruct lik_demo_hyps as [H0 H1]. destruct k as [|[|k]]; auto; lia. Qed.

(* ... and the implementation side is not vacuous either: both specifications are accepted by build, the log-likelihood
   is defined at the same parameter vector and the workspace's own data vector, and the two layouts coincide *)
Definition demo_st : Impl.settings QcNum := Impl.Build_settings QcNum "code1" "code0" None None.
Definition demo_ia (c : string) (lo nom hi a : Qc) : Qc := (a * (hi - lo))%Qc.
Definition demo_im (c : string) (lo nom hi a : Qc) : Qc := (1 + a * (hi - lo))%Qc.
Definition is_Ok {A} (r : Impl.result A) : bool := match r with Impl.Ok _ => true | Impl.Err _ => false end.
Definition ptup_eqb (a b : string * Impl.ptype * nat * nat) : bool :=
  let '(n, t, sz, st) := a in let '(n', t', sz', st') := b in
  String.eqb n n' && Impl.ptype_eqb t t' && Nat.eqb sz sz' && Nat.eqb st st'.
Fixpoint tups_eqb (l l' : list (string * Impl.ptype * nat * nat)) : bool :=
  match l, l' with [] , [] => true | a :: t, b :: t' => ptup_eqb a b && tups_eqb t t' | _, _ => false end.
Lemma tups_eqb_sound l l' : tups_eqb l l' = true -> l = l'.
Proof. revert l'. induction l as [|[[[n t] sz] st] l IH]; intros [|[[[n' t'] sz'] st'] l']; simpl; intros H; try discriminate; auto.
  apply andb_prop in H. destruct H as [H H5]. apply andb_prop in H. destruct H as [H H4]. apply andb_prop in H. destruct H as [H H3].
  apply andb_prop in H. destruct H as [H1 H2]. apply String.eqb_eq in H1. apply Nat.eqb_eq in H3, H4.
  assert (t = t') by (destruct t, t'; try discriminate; reflexivity). subst. f_equal. auto. Qed.

Definition demo_impl_check (ws : workspace QcNum) (k : nat) : bool :=
  match write QcNum ws with
  | inl (x, f) =>
    match read QcNum x f with
    | inl ws' =>
      match Impl.build QcNum (to_spec QcNum ws k), Impl.build QcNum (to_spec QcNum ws' k) with
      | Impl.Ok md, Impl.Ok md' =>
          let pars := repeat 1%Qc (Impl.md_npars QcNum md) in
          let data := to_data QcNum ws md in
          is_Ok (Impl.logpdf_terms QcNum demo_ia demo_im (to_spec QcNum ws k) demo_st md pars data) &&
          is_Ok (Impl.logpdf_terms QcNum demo_ia demo_im (to_spec QcNum ws' k) demo_st md' pars data) &&
          tups_eqb (map (ptup QcNum) (Impl.md_psets QcNum md)) (map (ptup QcNum) (Impl.md_psets QcNum md')) &&
          leqb QcNum (to_data QcNum ws' md') data
      | _, _ => false end
    | inr _ => false end
  | inr _ => false end.
Example lik_demo_impl : demo_impl_check lik_ws 0 = true /\ demo_impl_check lik_ws 1 = true.
Proof. split; vm_compute; reflexivity. Qed.
Example roundtrip_loglik_nonvacuous : forall k, (k < 2)%nat ->
  exists x f ws' md md' pars data l l',
    write QcNum lik_ws = inl (x, f) /\ read QcNum x f = inl ws' /\
    Impl.build QcNum (to_spec QcNum lik_ws k) = Impl.Ok md /\ Impl.build QcNum (to_spec QcNum ws' k) = Impl.Ok md' /\
    RefineTop.clip_guard QcNum demo_st /\ same_layout QcNum md md' /\ data = to_data QcNum lik_ws md /\ to_data QcNum ws' md' = data /\
    Impl.logpdf_terms QcNum demo_ia demo_im (to_spec QcNum lik_ws k) demo_st md pars data = Impl.Ok l /\
    Impl.logpdf_terms QcNum demo_ia demo_im (to_spec QcNum ws' k) demo_st md' pars data = Impl.Ok l'.
Proof. intros k Hk.
  assert (H : demo_impl_check lik_ws k = true) by (destruct lik_demo_impl; destruct k as [|[|k]]; auto; lia).
  unfold demo_impl_check in H. destruct (write QcNum lik_ws) as [[x f]|] eqn:Ew; [|discriminate].
  destruct (read QcNum x f) as [ws'|] eqn:Er; [|discriminate].
  destruct (Impl.build QcNum (to_spec QcNum lik_ws k)) as [md|] eqn:Eb; [|discriminate].
  destruct (Impl.build QcNum (to_spec QcNum ws' k)) as [md'|] eqn:Eb'; [|discriminate]. cbv zeta in H.
  apply andb_prop in H. destruct H as [H H4]. apply andb_prop in H. destruct H as [H H3]. apply andb_prop in H. destruct H as [H1 H2].
  destruct (Impl.logpdf_terms QcNum demo_ia demo_im (to_spec QcNum lik_ws k) demo_st md _ _) as [l|] eqn:E1; [|discriminate].
  destruct (Impl.logpdf_terms QcNum demo_ia demo_im (to_spec QcNum ws' k) demo_st md' _ _) as [l'|] eqn:E2; [|discriminate].
  exists x, f, ws', md, md', (repeat 1%Qc (Impl.md_npars QcNum md)), (to_data QcNum lik_ws md), l, l'.
  split; [reflexivity|]. split; [exact Er|]. split; [reflexivity|]. split; [exact Eb'|]. split; [exact I|].
  split; [now apply tups_eqb_sound|]. split; [reflexivity|]. split; [now apply (leqb_sound QcNum Qc_eqb_spec)|]. split; [exact E1|exact E2]. Qed.

(* the same workspace without the shapesys uncertainty on the empty bin: additionally meets shape_guard (premises of
   roundtrip_loglik_same_vector), both specifications accepted *)
Definition lik_ws2 : workspace QcNum :=
  WS
    [CH "ch1"
       [SA "sig" [q 5 1; q 15 2] [MO "mu" DNF; MO "lumi" DL];
        SA "bkg" [q 50 1; q 0 1]
          [MO "staterror_ch1" (DST [q 3 1; q 0 1]); MO "ss" (DSS [q 2 1; q 0 1]);
           MO "ns" (DN (q 9 10) (q 11 10)); MO "hs" (DH [q 45 1; q 1 10] [q 55 1; q 1 1]);
           MO "sf" DSF]];
     CH "ch2"
       [SA "bkg2" [q 10 1; q 20 1; q 30 1]
          [MO "staterror_ch2" (DST [q 1 1; q 2 1; q 3 1]); MO "lumi" DL; MO "ns" (DN (q 4 5) (q 6 5))]]]
    (w_obs QcNum lik_ws) (w_meas QcNum lik_ws).
Example lik_demo2_hyps : lik_hypsb QcNum lik_ws2 0 = true /\ lik_hypsb QcNum lik_ws2 1 = true /\ shape_guardb QcNum lik_ws2 = true /\
  demo_impl_check lik_ws2 0 = true /\ demo_impl_check lik_ws2 1 = true.
Proof. repeat split; vm_compute; reflexivity. Qed.
Example roundtrip_loglik_same_vector_nonvacuous : forall k, (k < 2)%nat ->
  ((exists x f, write QcNum lik_ws2 = inl (x, f)) /\ w_obs QcNum lik_ws2 <> [] /\ stat_ok QcNum lik_ws2 /\ names_ok QcNum lik_ws2 /\
   lik_guard QcNum lik_ws2 /\ (k < length (w_meas QcNum lik_ws2))%nat /\ cfg_guard QcNum lik_ws2 (nth k (w_meas QcNum lik_ws2) (no_meas QcNum))) /\
  shape_guard QcNum lik_ws2 /\ demo_impl_check lik_ws2 k = true.
Proof. intros k Hk. destruct lik_demo2_hyps as (H0 & H1 & H2 & H3 & H4). split; [|split].
  - apply lik_hypsb_sound. destruct k as [|[|k]]; auto; lia.
  - now apply (shape_guardb_sound QcNum Qc_eqb_spec).
  - destruct k as [|[|k]]; auto; lia. Qed.
