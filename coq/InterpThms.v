(* C03 - real analysis of the interpolation codes.  Every theorem is about [slow_codeK RT ...]: the real-number
   instance of the definition translated from the python source on this run (gen/InterpGen.v); by
   InterpGeneric.fast_eq_slow_K the same holds for the hand model of the vectorised code. *)
From Coq Require Import ZArith Reals Lra Bool List.
From Coquelicot Require Import Coquelicot.
Require Import PV.Num PV.TNum PV.InterpFast PV.InterpGeneric PV.gen.InterpGen.
Import ListNotations.
Local Open Scope R_scope.

(* ------------------------------------------------------------------------------------------ *)
(* gluing                                                                                      *)
(* ------------------------------------------------------------------------------------------ *)
Lemma continuous_glue (f g h : R -> R) c :
  locally c (fun x => f x = g x \/ f x = h x) -> f c = g c -> f c = h c ->
  continuous g c -> continuous h c -> continuous f c.
Proof.
  intros Hloc Hg Hh Cg Ch. apply filterlim_locally. intro eps.
  pose proof (proj1 (filterlim_locally g (g c)) Cg eps) as Hg'.
  pose proof (proj1 (filterlim_locally h (h c)) Ch eps) as Hh'.
  generalize (filter_and _ _ Hloc (filter_and _ _ Hg' Hh')). apply filter_imp.
  intros y [[E | E] [B1 B2]]; rewrite E.
  - rewrite Hg; exact B1.
  - rewrite Hh; exact B2.
Qed.

Lemma derive_glue (f g h : R -> R) c l :
  locally c (fun x => f x = g x \/ f x = h x) -> f c = g c -> f c = h c ->
  is_derive g c l -> is_derive h c l -> is_derive f c l.
Proof.
  intros Hloc Hg Hh Dg Dh. split.
  - apply Dg.
  - intros x Hx eps.
    assert (Ex : c = x) by (apply is_filter_lim_locally_unique; exact Hx). subst x.
    pose proof (proj2 Dg c Hx eps) as G. pose proof (proj2 Dh c Hx eps) as H.
    generalize (filter_and _ _ Hloc (filter_and _ _ G H)). apply filter_imp.
    intros y [[E | E] [B1 B2]]; rewrite E.
    + rewrite Hg; exact B1.
    + rewrite Hh; exact B2.
Qed.

Lemma locally_lt c a : a < c -> locally a (fun x => x < c).
Proof. intro H. apply (locally_interval _ a m_infty c); simpl; auto. Qed.
Lemma locally_gt c a : c < a -> locally a (fun x => c < x).
Proof. intro H. apply (locally_interval _ a c p_infty); simpl; auto. Qed.
Lemma locally_between c1 c2 a : c1 < a < c2 -> locally a (fun x => c1 < x < c2).
Proof. intros [H1 H2]. apply (locally_interval _ a c1 c2); simpl; auto. Qed.

Section ThreePieces.
  Variables (f g1 g2 g3 : R -> R) (c1 c2 : R).
  Hypothesis Hc : c1 < c2.
  Hypothesis H1 : forall x, x <= c1 -> f x = g1 x.
  Hypothesis H2 : forall x, c1 <= x <= c2 -> f x = g2 x.
  Hypothesis H3 : forall x, c2 <= x -> f x = g3 x.

  Lemma continuous_3piece :
    (forall x, continuous g1 x) -> (forall x, continuous g2 x) -> (forall x, continuous g3 x) ->
    forall a, continuous f a.
  Proof.
    intros C1 C2 C3 a.
    destruct (Rtotal_order a c1) as [A1 | [A1 | A1]]; [| subst a |].
    { apply continuous_ext_loc with g1; [|apply C1].
      generalize (locally_lt c1 a A1). apply filter_imp. intros x Hx; cbv beta in Hx. symmetry; apply H1; lra. }
    { apply continuous_glue with g1 g2; auto; try (apply H1; lra); try (apply H2; lra).
      generalize (locally_lt c2 c1 Hc). apply filter_imp. intros x Hx; cbv beta in Hx.
      destruct (Rle_lt_dec x c1); [left; apply H1; lra | right; apply H2; lra]. }
    destruct (Rtotal_order a c2) as [A2 | [A2 | A2]]; [| subst a |].
    { apply continuous_ext_loc with g2; [|apply C2].
      assert (B : c1 < a < c2) by lra. generalize (locally_between c1 c2 a B). apply filter_imp. intros x Hx; cbv beta in Hx. symmetry; apply H2; lra. }
    { apply continuous_glue with g2 g3; auto; try (apply H2; lra); try (apply H3; lra).
      generalize (locally_gt c1 c2 Hc). apply filter_imp. intros x Hx; cbv beta in Hx.
      destruct (Rle_lt_dec x c2); [left; apply H2; lra | right; apply H3; lra]. }
    apply continuous_ext_loc with g3; [|apply C3].
    generalize (locally_gt c2 a A2). apply filter_imp. intros x Hx; cbv beta in Hx. symmetry; apply H3; lra.
  Qed.

  Lemma derive_3piece (f' : R -> R) :
    (forall x, x <= c1 -> is_derive g1 x (f' x)) -> (forall x, c1 <= x <= c2 -> is_derive g2 x (f' x)) ->
    (forall x, c2 <= x -> is_derive g3 x (f' x)) ->
    forall a, is_derive f a (f' a).
  Proof.
    intros D1 D2 D3 a.
    destruct (Rtotal_order a c1) as [A1 | [A1 | A1]]; [| subst a |].
    { apply is_derive_ext_loc with g1; [|apply D1; lra].
      generalize (locally_lt c1 a A1). apply filter_imp. intros x Hx; cbv beta in Hx. symmetry; apply H1; lra. }
    { apply derive_glue with g1 g2; auto; try (apply H1; lra); try (apply H2; lra); try (apply D1; lra); try (apply D2; lra).
      generalize (locally_lt c2 c1 Hc). apply filter_imp. intros x Hx; cbv beta in Hx.
      destruct (Rle_lt_dec x c1); [left; apply H1; lra | right; apply H2; lra]. }
    destruct (Rtotal_order a c2) as [A2 | [A2 | A2]]; [| subst a |].
    { apply is_derive_ext_loc with g2; [|apply D2; lra].
      assert (B : c1 < a < c2) by lra. generalize (locally_between c1 c2 a B). apply filter_imp. intros x Hx; cbv beta in Hx. symmetry; apply H2; lra. }
    { apply derive_glue with g2 g3; auto; try (apply H2; lra); try (apply H3; lra); try (apply D2; lra); try (apply D3; lra).
      generalize (locally_gt c1 c2 Hc). apply filter_imp. intros x Hx; cbv beta in Hx.
      destruct (Rle_lt_dec x c2); [left; apply H2; lra | right; apply H3; lra]. }
    apply is_derive_ext_loc with g3; [|apply D3; lra].
    generalize (locally_gt c2 a A2). apply filter_imp. intros x Hx; cbv beta in Hx. symmetry; apply H3; lra.
  Qed.
End ThreePieces.

Lemma derive_continuous (g g' : R -> R) : (forall x, is_derive g x (g' x)) -> forall x, continuous g x.
Proof. intros H x. apply (@ex_derive_continuous R_AbsRing R_NormedModule g x). exists (g' x). apply H. Qed.

(* ------------------------------------------------------------------------------------------ *)
(* code 0 : piecewise linear                                                                  *)
(* ------------------------------------------------------------------------------------------ *)
Section Code0.
  Variables lo nom hi : R.
  Let f : R -> R := slow_code0 RT lo nom hi.

  Lemma code0_pos a : 0 <= a -> f a = (hi - nom) * a.
  Proof.
    intro H. unfold f, slow_code0. rsimp. destruct (Req_dec a 0) as [-> | N].
    - cmp. ring.
    - cmp. ring.
  Qed.
  Lemma code0_neg a : a <= 0 -> f a = (nom - lo) * a.
  Proof.
    intro H. unfold f, slow_code0. rsimp. cmp. ring.
  Qed.

  Theorem code0_at_0 : f 0 = 0.
  Proof. rewrite code0_pos by lra. ring. Qed.
  Theorem code0_at_p1 : f 1 = hi - nom.
  Proof. rewrite code0_pos by lra. ring. Qed.
  Theorem code0_at_m1 : f (-1) = lo - nom.
  Proof. rewrite code0_neg by lra. ring. Qed.

  Theorem code0_continuous : forall a, continuous f a.
  Proof.
    apply continuous_3piece with (g1 := fun a => (nom - lo) * a) (g2 := fun a => (hi - nom) * a)
                                 (g3 := fun a => (hi - nom) * a) (c1 := 0) (c2 := 1); try lra.
    - intros; apply code0_neg; lra.
    - intros; apply code0_pos; lra.
    - intros; apply code0_pos; lra.
    - apply derive_continuous with (g' := fun _ => nom - lo). intro x. auto_derive; auto. ring.
    - apply derive_continuous with (g' := fun _ => hi - nom). intro x. auto_derive; auto. ring.
    - apply derive_continuous with (g' := fun _ => hi - nom). intro x. auto_derive; auto. ring.
  Qed.

  (* extrapolation: anchor plus (alpha -/+ 1) times the slope of the matching side *)
  Theorem code0_beyond : forall a,
    (1 <= a -> f a = (hi - nom) + (a - 1) * (hi - nom)) /\ (a <= -1 -> f a = (lo - nom) + (a + 1) * (nom - lo)).
  Proof.
    intro a; split; intro H.
    - rewrite code0_pos by lra. ring.
    - rewrite code0_neg by lra. ring.
  Qed.
End Code0.

(* ------------------------------------------------------------------------------------------ *)
(* code 2 : quadratic core, linear extrapolation                                              *)
(* ------------------------------------------------------------------------------------------ *)
Section Code2.
  Variables lo nom hi : R.
  Let f : R -> R := slow_code2 RT lo nom hi.
  Let qa := (hi + lo) / 2 - nom.
  Let qb := (hi - lo) / 2.

  Lemma code2_core a : -1 <= a <= 1 -> f a = qa * a * a + qb * a.
  Proof. intro H. unfold f, slow_code2, qa, qb. rsimp. cmp. cbn [andb]. field. Qed.
  Lemma code2_up a : 1 <= a -> f a = (qb + 2 * qa) * (a - 1) + (qa + qb).
  Proof.
    intro H. destruct (Req_dec a 1) as [-> | N].
    - rewrite code2_core by lra. ring.
    - unfold f, slow_code2, qa, qb. rsimp. cmp. field.
  Qed.
  Lemma code2_dn a : a <= -1 -> f a = (qb - 2 * qa) * (a + 1) + (qa - qb).
  Proof.
    intro H. destruct (Req_dec a (-1)) as [-> | N].
    - rewrite code2_core by lra. ring.
    - unfold f, slow_code2, qa, qb. rsimp. cmp. cbn [andb]. field.
  Qed.

  Theorem code2_at_0 : f 0 = 0.
  Proof. rewrite code2_core by lra. ring. Qed.
  Theorem code2_at_p1 : f 1 = hi - nom.
  Proof. rewrite code2_core by lra. unfold qa, qb. field. Qed.
  Theorem code2_at_m1 : f (-1) = lo - nom.
  Proof. rewrite code2_core by lra. unfold qa, qb. field. Qed.

  Definition code2_d1 (a : R) : R :=
    if Rle_dec a (-1) then qb - 2 * qa else if Rle_dec a 1 then 2 * qa * a + qb else qb + 2 * qa.

  Theorem code2_continuous : forall a, continuous f a.
  Proof.
    apply continuous_3piece with (g1 := fun a => (qb - 2 * qa) * (a + 1) + (qa - qb)) (g2 := fun a => qa * a * a + qb * a)
                                 (g3 := fun a => (qb + 2 * qa) * (a - 1) + (qa + qb)) (c1 := -1) (c2 := 1); try lra.
    - intros; apply code2_dn; lra.
    - intros; apply code2_core; lra.
    - intros; apply code2_up; lra.
    - apply derive_continuous with (g' := fun _ => qb - 2 * qa). intro x. auto_derive; auto. ring.
    - apply derive_continuous with (g' := fun x => 2 * qa * x + qb). intro x. auto_derive; auto. ring.
    - apply derive_continuous with (g' := fun _ => qb + 2 * qa). intro x. auto_derive; auto. ring.
  Qed.

  (* bonus: the first derivative exists everywhere and is continuous (the slopes match at +-1) *)
  Theorem code2_C1 : forall a, is_derive f a (code2_d1 a) /\ continuous code2_d1 a.
  Proof.
    intro a; split.
    - revert a.
      apply derive_3piece with (g1 := fun a => (qb - 2 * qa) * (a + 1) + (qa - qb)) (g2 := fun a => qa * a * a + qb * a)
                               (g3 := fun a => (qb + 2 * qa) * (a - 1) + (qa + qb)) (c1 := -1) (c2 := 1); try lra.
      + intros; apply code2_dn; lra.
      + intros; apply code2_core; lra.
      + intros; apply code2_up; lra.
      + intros x Hx. unfold code2_d1. destruct (Rle_dec x (-1)); [|lra]. auto_derive; auto. ring.
      + intros x Hx. auto_derive; auto. unfold code2_d1.
        destruct (Rle_dec x (-1)); [replace x with (-1) by lra; ring|]. destruct (Rle_dec x 1); [ring | lra].
      + intros x Hx. auto_derive; auto. unfold code2_d1.
        destruct (Rle_dec x (-1)); [lra|]. destruct (Rle_dec x 1); [replace x with 1 by lra; ring | ring].
    - revert a.
      apply continuous_3piece with (g1 := fun _ => qb - 2 * qa) (g2 := fun x => 2 * qa * x + qb) (g3 := fun _ => qb + 2 * qa)
                                   (c1 := -1) (c2 := 1); try lra.
      + intros x Hx. unfold code2_d1. destruct (Rle_dec x (-1)); [ring | lra].
      + intros x Hx. unfold code2_d1.
        destruct (Rle_dec x (-1)); [replace x with (-1) by lra; ring|]. destruct (Rle_dec x 1); [ring | lra].
      + intros x Hx. unfold code2_d1.
        destruct (Rle_dec x (-1)); [lra|]. destruct (Rle_dec x 1); [replace x with 1 by lra; ring | ring].
      + intro x. apply continuous_const.
      + apply derive_continuous with (g' := fun _ => 2 * qa). intro x. auto_derive; auto. ring.
      + intro x. apply continuous_const.
  Qed.

  Theorem code2_beyond : forall a,
    (1 <= a -> f a = (hi - nom) + (a - 1) * (qb + 2 * qa)) /\ (a <= -1 -> f a = (lo - nom) + (a + 1) * (qb - 2 * qa)).
  Proof.
    intro a; split; intro H.
    - rewrite code2_up by lra. unfold qa, qb. field.
    - rewrite code2_dn by lra. unfold qa, qb. field.
  Qed.
  (* the extrapolation slopes are the one-sided derivatives of the core at the breakpoints *)
  Lemma code2_slopes : code2_d1 1 = qb + 2 * qa /\ code2_d1 (-1) = qb - 2 * qa.
  Proof.
    unfold code2_d1. split.
    - destruct (Rle_dec 1 (-1)); [lra|]. destruct (Rle_dec 1 1); [ring | lra].
    - destruct (Rle_dec (-1) (-1)); [ring | lra].
  Qed.
End Code2.

(* ------------------------------------------------------------------------------------------ *)
(* code 4p : polynomial core, linear extrapolation, C2 at +-1                                 *)
(* ------------------------------------------------------------------------------------------ *)
Section Code4p.
  Variables lo nom hi : R.
  Let f : R -> R := slow_code4p RT lo nom hi.
  Let du := hi - nom.
  Let dd := nom - lo.
  Let S := (du + dd) / 2.
  Let A := (du - dd) / 16.
  Let core (a : R) := a * (S + a * A * (15 + a * a * (-10 + a * a * 3))).
  Let core1 (a : R) := S + A * (30 * a - 40 * a ^ 3 + 18 * a ^ 5).
  Let core2 (a : R) := A * (30 - 120 * a ^ 2 + 90 * a ^ 4).
  Let core3 (a : R) := A * (- 240 * a + 360 * a ^ 3).

  Lemma code4p_core a : -1 <= a <= 1 -> f a = core a.
  Proof. intro H. unfold f, slow_code4p, core, S, A, du, dd. rsimp. cmp. field. Qed.
  Lemma code4p_up a : 1 <= a -> f a = du * a.
  Proof.
    intro H. destruct (Req_dec a 1) as [-> | N].
    - rewrite code4p_core by lra. unfold core, S, A. field.
    - unfold f, slow_code4p, du. rsimp. cmp. ring.
  Qed.
  Lemma code4p_dn a : a <= -1 -> f a = dd * a.
  Proof.
    intro H. destruct (Req_dec a (-1)) as [-> | N].
    - rewrite code4p_core by lra. unfold core, S, A. field.
    - unfold f, slow_code4p, dd. rsimp. cmp. ring.
  Qed.

  Theorem code4p_at_0 : f 0 = 0.
  Proof. rewrite code4p_core by lra. unfold core. ring. Qed.
  Theorem code4p_at_p1 : f 1 = hi - nom.
  Proof. rewrite code4p_up by lra. unfold du. ring. Qed.
  Theorem code4p_at_m1 : f (-1) = lo - nom.
  Proof. rewrite code4p_dn by lra. unfold dd. ring. Qed.

  Definition code4p_d1 (a : R) : R := if Rle_dec a (-1) then dd else if Rle_dec a 1 then core1 a else du.
  Definition code4p_d2 (a : R) : R := if Rle_dec a (-1) then 0 else if Rle_dec a 1 then core2 a else 0.

  Lemma core_derive x : is_derive core x (core1 x).
  Proof. unfold core, core1. auto_derive; auto. ring. Qed.
  Lemma core1_derive x : is_derive core1 x (core2 x).
  Proof. unfold core1, core2. auto_derive; auto. ring. Qed.
  Lemma core2_derive x : is_derive core2 x (core3 x).
  Proof. unfold core2, core3. auto_derive; auto. ring. Qed.

  Theorem code4p_continuous : forall a, continuous f a.
  Proof.
    apply continuous_3piece with (g1 := fun a => dd * a) (g2 := core) (g3 := fun a => du * a) (c1 := -1) (c2 := 1); try lra.
    - intros; apply code4p_dn; lra.
    - intros; apply code4p_core; lra.
    - intros; apply code4p_up; lra.
    - apply derive_continuous with (g' := fun _ => dd). intro x. auto_derive; auto. ring.
    - apply derive_continuous with (g' := core1). apply core_derive.
    - apply derive_continuous with (g' := fun _ => du). intro x. auto_derive; auto. ring.
  Qed.

  Lemma d1_cases x : (x <= -1 -> code4p_d1 x = dd) /\ (-1 <= x <= 1 -> code4p_d1 x = core1 x) /\ (1 <= x -> code4p_d1 x = du).
  Proof.
    unfold code4p_d1. repeat split; intro H.
    - destruct (Rle_dec x (-1)); [reflexivity | lra].
    - destruct (Rle_dec x (-1)); [replace x with (-1) by lra; unfold core1, S, A; field|].
      destruct (Rle_dec x 1); [reflexivity | lra].
    - destruct (Rle_dec x (-1)); [lra|].
      destruct (Rle_dec x 1); [replace x with 1 by lra; unfold core1, S, A; field | reflexivity].
  Qed.
  Lemma d2_cases x : (x <= -1 -> code4p_d2 x = 0) /\ (-1 <= x <= 1 -> code4p_d2 x = core2 x) /\ (1 <= x -> code4p_d2 x = 0).
  Proof.
    unfold code4p_d2. repeat split; intro H.
    - destruct (Rle_dec x (-1)); [reflexivity | lra].
    - destruct (Rle_dec x (-1)); [replace x with (-1) by lra; unfold core2; ring|].
      destruct (Rle_dec x 1); [reflexivity | lra].
    - destruct (Rle_dec x (-1)); [lra|].
      destruct (Rle_dec x 1); [replace x with 1 by lra; unfold core2; ring | reflexivity].
  Qed.

  Theorem code4p_C1 : forall a, is_derive f a (code4p_d1 a) /\ continuous code4p_d1 a.
  Proof.
    intro a; split; revert a.
    - apply derive_3piece with (g1 := fun a => dd * a) (g2 := core) (g3 := fun a => du * a) (c1 := -1) (c2 := 1); try lra.
      + intros; apply code4p_dn; lra.
      + intros; apply code4p_core; lra.
      + intros; apply code4p_up; lra.
      + intros x Hx. rewrite (proj1 (d1_cases x) Hx). auto_derive; auto. ring.
      + intros x Hx. rewrite (proj1 (proj2 (d1_cases x)) Hx). apply core_derive.
      + intros x Hx. rewrite (proj2 (proj2 (d1_cases x)) Hx). auto_derive; auto. ring.
    - apply continuous_3piece with (g1 := fun _ => dd) (g2 := core1) (g3 := fun _ => du) (c1 := -1) (c2 := 1); try lra.
      + intros x Hx. apply (proj1 (d1_cases x) Hx).
      + intros x Hx. apply (proj1 (proj2 (d1_cases x)) Hx).
      + intros x Hx. apply (proj2 (proj2 (d1_cases x)) Hx).
      + intro x. apply continuous_const.
      + apply derive_continuous with (g' := core2). apply core1_derive.
      + intro x. apply continuous_const.
  Qed.

  Theorem code4p_C2 : forall a, is_derive code4p_d1 a (code4p_d2 a) /\ continuous code4p_d2 a.
  Proof.
    intro a; split; revert a.
    - apply derive_3piece with (g1 := fun _ => dd) (g2 := core1) (g3 := fun _ => du) (c1 := -1) (c2 := 1); try lra.
      + intros x Hx. apply (proj1 (d1_cases x) Hx).
      + intros x Hx. apply (proj1 (proj2 (d1_cases x)) Hx).
      + intros x Hx. apply (proj2 (proj2 (d1_cases x)) Hx).
      + intros x Hx. rewrite (proj1 (d2_cases x) Hx). auto_derive; auto.
      + intros x Hx. rewrite (proj1 (proj2 (d2_cases x)) Hx). apply core1_derive.
      + intros x Hx. rewrite (proj2 (proj2 (d2_cases x)) Hx). auto_derive; auto.
    - apply continuous_3piece with (g1 := fun _ => 0) (g2 := core2) (g3 := fun _ => 0) (c1 := -1) (c2 := 1); try lra.
      + intros x Hx. apply (proj1 (d2_cases x) Hx).
      + intros x Hx. apply (proj1 (proj2 (d2_cases x)) Hx).
      + intros x Hx. apply (proj2 (proj2 (d2_cases x)) Hx).
      + intro x. apply continuous_const.
      + apply derive_continuous with (g' := core3). apply core2_derive.
      + intro x. apply continuous_const.
  Qed.

  (* twice continuously differentiable, without reference to the explicit derivative formulas *)
  Theorem code4p_twice_differentiable :
    exists d1 d2 : R -> R, (forall a, is_derive f a (d1 a)) /\ (forall a, is_derive d1 a (d2 a)) /\ (forall a, continuous d2 a).
  Proof.
    exists code4p_d1, code4p_d2. split; [|split]; intro a.
    - apply code4p_C1. - apply code4p_C2. - apply code4p_C2.
  Qed.

  Theorem code4p_beyond : forall a,
    (1 <= a -> f a = (hi - nom) + (a - 1) * (hi - nom)) /\ (a <= -1 -> f a = (lo - nom) + (a + 1) * (nom - lo)).
  Proof.
    intro a; split; intro H.
    - rewrite code4p_up by lra. unfold du. ring.
    - rewrite code4p_dn by lra. unfold dd. ring.
  Qed.
End Code4p.

(* ------------------------------------------------------------------------------------------ *)
(* code 1 : piecewise exponential                                                             *)
(* ------------------------------------------------------------------------------------------ *)
Section Code1.
  Variables lo nom hi : R.
  Hypothesis Hlo : 0 < lo.
  Hypothesis Hnom : 0 < nom.
  Hypothesis Hhi : 0 < hi.
  Let f : R -> R := slow_code1 RT lo nom hi.
  Let du := hi / nom.
  Let dd := lo / nom.
  Lemma du_pos1 : 0 < hi / nom. Proof. apply Rdiv_lt_0_compat; auto. Qed.
  Lemma dd_pos1 : 0 < lo / nom. Proof. apply Rdiv_lt_0_compat; auto. Qed.

  Lemma code1_pos a : 0 <= a -> f a = exp (a * ln du).
  Proof.
    intro H. unfold f, slow_code1, du. rsimp. destruct (Req_dec a 0) as [-> | N].
    - cmp. rewrite rpow_pos by apply dd_pos1. f_equal. ring.
    - cmp. rewrite rpow_pos by apply du_pos1. reflexivity.
  Qed.
  Lemma code1_neg a : a <= 0 -> f a = exp (- a * ln dd).
  Proof.
    intro H. unfold f, slow_code1, dd. rsimp. cmp. rewrite rpow_pos by apply dd_pos1. reflexivity.
  Qed.

  Theorem code1_at_0 : f 0 = 1.
  Proof. rewrite code1_pos by lra. rewrite Rmult_0_l. apply exp_0. Qed.
  Theorem code1_at_p1 : f 1 = hi / nom.
  Proof. rewrite code1_pos by lra. rewrite Rmult_1_l. apply exp_ln, du_pos1. Qed.
  Theorem code1_at_m1 : f (-1) = lo / nom.
  Proof. rewrite code1_neg by lra. replace (- -1 * ln dd) with (ln dd) by ring. apply exp_ln, dd_pos1. Qed.

  Theorem code1_continuous : forall a, continuous f a.
  Proof.
    apply continuous_3piece with (g1 := fun a => exp (- a * ln dd)) (g2 := fun a => exp (a * ln du))
                                 (g3 := fun a => exp (a * ln du)) (c1 := 0) (c2 := 1); try lra.
    - intros; apply code1_neg; lra.
    - intros; apply code1_pos; lra.
    - intros; apply code1_pos; lra.
    - apply derive_continuous with (g' := fun x => - ln dd * exp (- x * ln dd)). intro x. auto_derive; auto. ring.
    - apply derive_continuous with (g' := fun x => ln du * exp (x * ln du)). intro x. auto_derive; auto. ring.
    - apply derive_continuous with (g' := fun x => ln du * exp (x * ln du)). intro x. auto_derive; auto. ring.
  Qed.

  (* the whole positive side is (hi/nom)^alpha, the whole negative side (lo/nom)^(-alpha) *)
  Theorem code1_beyond : forall a,
    (1 <= a -> f a = Rpower (hi / nom) a) /\ (a <= -1 -> f a = Rpower (lo / nom) (- a)).
  Proof.
    intro a; split; intro H; unfold Rpower.
    - rewrite code1_pos by lra. reflexivity.
    - rewrite code1_neg by lra. reflexivity.
  Qed.
End Code1.

(* ------------------------------------------------------------------------------------------ *)
(* code 4 : degree-6 polynomial core, exponential extrapolation, C2 at +-alpha0 for every alpha0 > 0 *)
(* ------------------------------------------------------------------------------------------ *)
(* the boundary-condition matrix of the docstring of _slow_code4 *)
Definition A_matrix (a0 : R) : list (list R) :=
  [[a0; a0 ^ 2; a0 ^ 3; a0 ^ 4; a0 ^ 5; a0 ^ 6];
   [- a0; a0 ^ 2; - a0 ^ 3; a0 ^ 4; - a0 ^ 5; a0 ^ 6];
   [1; 2 * a0; 3 * a0 ^ 2; 4 * a0 ^ 3; 5 * a0 ^ 4; 6 * a0 ^ 5];
   [1; - 2 * a0; 3 * a0 ^ 2; - 4 * a0 ^ 3; 5 * a0 ^ 4; - 6 * a0 ^ 5];
   [0; 2; 6 * a0; 12 * a0 ^ 2; 20 * a0 ^ 3; 30 * a0 ^ 4];
   [0; 2; - 6 * a0; 12 * a0 ^ 2; - 20 * a0 ^ 3; 30 * a0 ^ 4]].
Definition ident6 : list (list R) :=
  [[1; 0; 0; 0; 0; 0]; [0; 1; 0; 0; 0; 0]; [0; 0; 1; 0; 0; 0]; [0; 0; 0; 1; 0; 0]; [0; 0; 0; 0; 1; 0]; [0; 0; 0; 0; 0; 1]].
Definition col (j : nat) (m : list (list R)) : list R := map (fun row => nth j row 0) m.
Definition matmul (a b : list (list R)) : list (list R) :=
  map (fun row => map (fun j => dot RT row (col j b)) (seq 0 6)) a.

(* the matrix as typed in pyhf is the inverse of the boundary-condition matrix, for every alpha0 <> 0 *)
Theorem A_inverse_correct (a0 : R) : a0 <> 0 ->
  matmul (A_matrix a0) (A_inverse RT a0) = ident6 /\ matmul (A_inverse RT a0) (A_matrix a0) = ident6.
Proof.
  intro H. unfold matmul, A_matrix, A_inverse, ident6, col.
  cbn [map seq nth dot dot_from]. rsimp.
  split; repeat (f_equal; try (field; exact H)).
Qed.

Section Poly6.
  Variable c : nat -> R.
  Definition poly6 (x : R) : R := 1 + c 0%nat * x + c 1%nat * x ^ 2 + c 2%nat * x ^ 3 + c 3%nat * x ^ 4 + c 4%nat * x ^ 5 + c 5%nat * x ^ 6.
  Definition dpoly6 (x : R) : R := c 0%nat + 2 * c 1%nat * x + 3 * c 2%nat * x ^ 2 + 4 * c 3%nat * x ^ 3 + 5 * c 4%nat * x ^ 4 + 6 * c 5%nat * x ^ 5.
  Definition ddpoly6 (x : R) : R := 2 * c 1%nat + 6 * c 2%nat * x + 12 * c 3%nat * x ^ 2 + 20 * c 4%nat * x ^ 3 + 30 * c 5%nat * x ^ 4.
  Definition dddpoly6 (x : R) : R := 6 * c 2%nat + 24 * c 3%nat * x + 60 * c 4%nat * x ^ 2 + 120 * c 5%nat * x ^ 3.
  Lemma poly6_derive x : is_derive poly6 x (dpoly6 x).
  Proof. unfold poly6, dpoly6. auto_derive; auto. ring. Qed.
  Lemma dpoly6_derive x : is_derive dpoly6 x (ddpoly6 x).
  Proof. unfold dpoly6, ddpoly6. auto_derive; auto. ring. Qed.
  Lemma ddpoly6_derive x : is_derive ddpoly6 x (dddpoly6 x).
  Proof. unfold ddpoly6, dddpoly6. auto_derive; auto. ring. Qed.
End Poly6.

(* right-hand side of the six conditions and the resulting coefficients, with
   Eu = (hi/nom)^alpha0, Ed = (lo/nom)^alpha0, Lu = ln (hi/nom), Ld = ln (lo/nom) abstract *)
Definition bvec (Eu Ed Lu Ld : R) : list R := [Eu - 1; Ed - 1; Lu * Eu; - Ld * Ed; Lu ^ 2 * Eu; Ld ^ 2 * Ed].
Definition c4 (a0 Eu Ed Lu Ld : R) (i : nat) : R := dot RT (nth i (A_inverse RT a0) []) (bvec Eu Ed Lu Ld).

Ltac c4_unfold := unfold poly6, dpoly6, ddpoly6, c4, bvec, A_inverse; cbn [nth dot dot_from]; rsimp.

(* the six matching conditions: value, first and second derivative at +alpha0 and -alpha0 *)
Lemma code4_conditions a0 Eu Ed Lu Ld : a0 <> 0 ->
  let c := c4 a0 Eu Ed Lu Ld in
  poly6 c a0 = Eu /\ poly6 c (- a0) = Ed /\
  dpoly6 c a0 = Lu * Eu /\ dpoly6 c (- a0) = - Ld * Ed /\
  ddpoly6 c a0 = Lu ^ 2 * Eu /\ ddpoly6 c (- a0) = Ld ^ 2 * Ed.
Proof.
  intros H c. unfold c. repeat split; c4_unfold; field; exact H.
Qed.

Section Code4.
  Variables a0 lo nom hi : R.
  Hypothesis Ha0 : 0 < a0.
  Hypothesis Hlo : 0 < lo.
  Hypothesis Hnom : 0 < nom.
  Hypothesis Hhi : 0 < hi.
  Let f : R -> R := slow_code4 RT a0 lo nom hi.
  Let du := hi / nom.
  Let dd := lo / nom.
  Let Lu := ln du.
  Let Ld := ln dd.
  Let Eu := exp (a0 * Lu).
  Let Ed := exp (a0 * Ld).
  Let c := c4 a0 Eu Ed Lu Ld.
  Let up (x : R) := exp (x * Lu).
  Let dn (x : R) := exp (- x * Ld).

  Lemma code4_up x : a0 <= x -> f x = up x.
  Proof.
    intro H. unfold f, slow_code4, up, Lu, du. rsimp. cmp. rewrite rpow_pos by (apply du_pos1; auto). reflexivity.
  Qed.
  Lemma code4_dn x : x <= - a0 -> f x = dn x.
  Proof.
    intro H. unfold f, slow_code4, dn, Ld, dd. rsimp. cmp. cbn [andb]. rewrite rpow_pos by (apply dd_pos1; auto). reflexivity.
  Qed.
  Lemma code4_core_open x : - a0 < x < a0 -> f x = poly6 c x.
  Proof.
    intro H. unfold f, slow_code4. rsimp. cmp. cbn [andb].
    rewrite !rpow_pos by (first [apply du_pos1 | apply dd_pos1]; auto).
    unfold c, Eu, Ed, Lu, Ld, du, dd. c4_unfold.
    set (X := exp (a0 * ln (hi / nom))). set (Y := exp (a0 * ln (lo / nom))).
    set (P := ln (hi / nom)). set (Q := ln (lo / nom)).
    field. lra.
  Qed.
  Lemma code4_core x : - a0 <= x <= a0 -> f x = poly6 c x.
  Proof.
    intro H. assert (N : a0 <> 0) by lra.
    destruct (code4_conditions a0 Eu Ed Lu Ld N) as (B1 & B2 & _).
    destruct (Req_dec x a0) as [-> | N1].
    { rewrite code4_up by lra. unfold c. rewrite B1. reflexivity. }
    destruct (Req_dec x (- a0)) as [-> | N2].
    { rewrite code4_dn by lra. unfold c. rewrite B2. unfold dn, Ed. f_equal. ring. }
    apply code4_core_open. lra.
  Qed.

  Theorem code4_at_0 : f 0 = 1.
  Proof. rewrite code4_core by lra. unfold poly6. ring. Qed.
  (* the anchors at +-1 are reproduced when the core does not extend beyond them (alpha0 <= 1; pyhf's default is 1) *)
  Theorem code4_at_p1 : a0 <= 1 -> f 1 = hi / nom.
  Proof. intro H. rewrite code4_up by lra. unfold up, Lu. rewrite Rmult_1_l. apply exp_ln, du_pos1; auto. Qed.
  Theorem code4_at_m1 : a0 <= 1 -> f (-1) = lo / nom.
  Proof.
    intro H. rewrite code4_dn by lra. unfold dn, Ld. replace (- -1 * ln dd) with (ln dd) by ring.
    apply exp_ln, dd_pos1; auto.
  Qed.

  Definition code4_d1 (x : R) : R :=
    if Rle_dec x (- a0) then - Ld * dn x else if Rle_dec x a0 then dpoly6 c x else Lu * up x.
  Definition code4_d2 (x : R) : R :=
    if Rle_dec x (- a0) then Ld ^ 2 * dn x else if Rle_dec x a0 then ddpoly6 c x else Lu ^ 2 * up x.

  Lemma up_derive x : is_derive up x (Lu * up x).
  Proof. unfold up. auto_derive; auto. ring. Qed.
  Lemma dn_derive x : is_derive dn x (- Ld * dn x).
  Proof. unfold dn. auto_derive; auto. ring. Qed.
  Lemma up1_derive x : is_derive (fun x => Lu * up x) x (Lu ^ 2 * up x).
  Proof. unfold up. auto_derive; auto. ring. Qed.
  Lemma dn1_derive x : is_derive (fun x => - Ld * dn x) x (Ld ^ 2 * dn x).
  Proof. unfold dn. auto_derive; auto. ring. Qed.
  Lemma up2_derive x : is_derive (fun x => Lu ^ 2 * up x) x (Lu ^ 3 * up x).
  Proof. unfold up. auto_derive; auto. ring. Qed.
  Lemma dn2_derive x : is_derive (fun x => Ld ^ 2 * dn x) x (- Ld ^ 3 * dn x).
  Proof. unfold dn. auto_derive; auto. ring. Qed.

  Lemma up_a0 : up a0 = Eu. Proof. reflexivity. Qed.
  Lemma dn_ma0 : dn (- a0) = Ed. Proof. unfold dn, Ed. f_equal. ring. Qed.

  Lemma c4d1_cases x : (x <= - a0 -> code4_d1 x = - Ld * dn x) /\ (- a0 <= x <= a0 -> code4_d1 x = dpoly6 c x)
                       /\ (a0 <= x -> code4_d1 x = Lu * up x).
  Proof.
    assert (N : a0 <> 0) by lra.
    destruct (code4_conditions a0 Eu Ed Lu Ld N) as (_ & _ & B3 & B4 & _).
    unfold code4_d1. repeat split; intro H.
    - destruct (Rle_dec x (- a0)); [reflexivity | lra].
    - destruct (Rle_dec x (- a0)); [replace x with (- a0) by lra; rewrite dn_ma0; unfold c; rewrite B4; reflexivity|].
      destruct (Rle_dec x a0); [reflexivity | lra].
    - destruct (Rle_dec x (- a0)); [lra|].
      destruct (Rle_dec x a0); [replace x with a0 by lra; rewrite up_a0; unfold c; rewrite B3; reflexivity | reflexivity].
  Qed.
  Lemma c4d2_cases x : (x <= - a0 -> code4_d2 x = Ld ^ 2 * dn x) /\ (- a0 <= x <= a0 -> code4_d2 x = ddpoly6 c x)
                       /\ (a0 <= x -> code4_d2 x = Lu ^ 2 * up x).
  Proof.
    assert (N : a0 <> 0) by lra.
    destruct (code4_conditions a0 Eu Ed Lu Ld N) as (_ & _ & _ & _ & B5 & B6).
    unfold code4_d2. repeat split; intro H.
    - destruct (Rle_dec x (- a0)); [reflexivity | lra].
    - destruct (Rle_dec x (- a0)); [replace x with (- a0) by lra; rewrite dn_ma0; unfold c; rewrite B6; reflexivity|].
      destruct (Rle_dec x a0); [reflexivity | lra].
    - destruct (Rle_dec x (- a0)); [lra|].
      destruct (Rle_dec x a0); [replace x with a0 by lra; rewrite up_a0; unfold c; rewrite B5; reflexivity | reflexivity].
  Qed.

  Theorem code4_continuous : forall x, continuous f x.
  Proof.
    apply continuous_3piece with (g1 := dn) (g2 := poly6 c) (g3 := up) (c1 := - a0) (c2 := a0); try lra.
    - intros; apply code4_dn; lra.
    - intros; apply code4_core; lra.
    - intros; apply code4_up; lra.
    - apply derive_continuous with (g' := fun x => - Ld * dn x). apply dn_derive.
    - apply derive_continuous with (g' := dpoly6 c). apply poly6_derive.
    - apply derive_continuous with (g' := fun x => Lu * up x). apply up_derive.
  Qed.

  Theorem code4_C1 : forall x, is_derive f x (code4_d1 x) /\ continuous code4_d1 x.
  Proof.
    intro x; split; revert x.
    - apply derive_3piece with (g1 := dn) (g2 := poly6 c) (g3 := up) (c1 := - a0) (c2 := a0); try lra.
      + intros; apply code4_dn; lra.
      + intros; apply code4_core; lra.
      + intros; apply code4_up; lra.
      + intros x Hx. rewrite (proj1 (c4d1_cases x) Hx). apply dn_derive.
      + intros x Hx. rewrite (proj1 (proj2 (c4d1_cases x)) Hx). apply poly6_derive.
      + intros x Hx. rewrite (proj2 (proj2 (c4d1_cases x)) Hx). apply up_derive.
    - apply continuous_3piece with (g1 := fun x => - Ld * dn x) (g2 := dpoly6 c) (g3 := fun x => Lu * up x) (c1 := - a0) (c2 := a0); try lra.
      + intros x Hx. apply (proj1 (c4d1_cases x) Hx).
      + intros x Hx. apply (proj1 (proj2 (c4d1_cases x)) Hx).
      + intros x Hx. apply (proj2 (proj2 (c4d1_cases x)) Hx).
      + apply derive_continuous with (g' := fun x => Ld ^ 2 * dn x). apply dn1_derive.
      + apply derive_continuous with (g' := ddpoly6 c). apply dpoly6_derive.
      + apply derive_continuous with (g' := fun x => Lu ^ 2 * up x). apply up1_derive.
  Qed.

  Theorem code4_C2 : forall x, is_derive code4_d1 x (code4_d2 x) /\ continuous code4_d2 x.
  Proof.
    intro x; split; revert x.
    - apply derive_3piece with (g1 := fun x => - Ld * dn x) (g2 := dpoly6 c) (g3 := fun x => Lu * up x) (c1 := - a0) (c2 := a0); try lra.
      + intros x Hx. apply (proj1 (c4d1_cases x) Hx).
      + intros x Hx. apply (proj1 (proj2 (c4d1_cases x)) Hx).
      + intros x Hx. apply (proj2 (proj2 (c4d1_cases x)) Hx).
      + intros x Hx. rewrite (proj1 (c4d2_cases x) Hx). apply dn1_derive.
      + intros x Hx. rewrite (proj1 (proj2 (c4d2_cases x)) Hx). apply dpoly6_derive.
      + intros x Hx. rewrite (proj2 (proj2 (c4d2_cases x)) Hx). apply up1_derive.
    - apply continuous_3piece with (g1 := fun x => Ld ^ 2 * dn x) (g2 := ddpoly6 c) (g3 := fun x => Lu ^ 2 * up x) (c1 := - a0) (c2 := a0); try lra.
      + intros x Hx. apply (proj1 (c4d2_cases x) Hx).
      + intros x Hx. apply (proj1 (proj2 (c4d2_cases x)) Hx).
      + intros x Hx. apply (proj2 (proj2 (c4d2_cases x)) Hx).
      + apply derive_continuous with (g' := fun x => - Ld ^ 3 * dn x). apply dn2_derive.
      + apply derive_continuous with (g' := dddpoly6 c). apply ddpoly6_derive.
      + apply derive_continuous with (g' := fun x => Lu ^ 3 * up x). apply up2_derive.
  Qed.

  Theorem code4_twice_differentiable :
    exists d1 d2 : R -> R, (forall x, is_derive f x (d1 x)) /\ (forall x, is_derive d1 x (d2 x)) /\ (forall x, continuous d2 x).
  Proof.
    exists code4_d1, code4_d2. split; [|split]; intro x.
    - apply code4_C1. - apply code4_C2. - apply code4_C2.
  Qed.

  Theorem code4_beyond : forall x,
    (a0 <= x -> f x = Rpower (hi / nom) x) /\ (x <= - a0 -> f x = Rpower (lo / nom) (- x)).
  Proof.
    intro x; split; intro H; unfold Rpower.
    - rewrite code4_up by lra. reflexivity.
    - rewrite code4_dn by lra. reflexivity.
  Qed.
End Code4.
