(* C06 - tie to the source: the definitions translated on every run from pyhf/infer/test_statistics.py
   (coq/gen/TestStatGen.v, written by harness/props/c06.py:extract) coincide with the hand model of TestStat.v.
   The proofs are case analyses on the results of the two (abstract) fits and on pdf.config.poi_index; they
   succeed only while the translated text means what the model says. *)
From Coq Require Import ZArith QArith Qcanon Reals Bool List.
Require Import PV.Num PV.TestStat PV.gen.TestStatGen.
Import ListNotations.
Local Open Scope list_scope.

(* `==` of the number instance decides equality (needed for q0 only: `if mu != 0.0: mu = 0.0`) *)
Definition neqb_sound (N : Num) : Prop := forall a b : V N, neqb N a b = true -> a = b.
Lemma neqb_sound_Qc : neqb_sound QcNum.
Proof. intros a b H. apply Qc_eq_bool_correct. exact H. Qed.
Lemma neqb_sound_R : neqb_sound RNum.
Proof. intros a b H. simpl in H. unfold reqb in H. destruct (Req_EM_T a b); [assumption|discriminate]. Qed.

Section Tie.
Variable N : Num.
Variable Env : Type.
Variable fit : Env -> list (V N) * V N.
Variable fixed_poi_fit : V N -> Env -> list (V N) * V N.
Variable poi_index : Env -> option nat.
Variable poi_lower : Env -> V N.

Notation G f := (f N Env fit fixed_poi_fit poi_index poi_lower) (only parsing).
Notation M f := (f N Env fit fixed_poi_fit) (only parsing).
Notation MP f := (f N Env fit fixed_poi_fit poi_index poi_lower) (only parsing).
Notation Q0 := (q0 N Env fit fixed_poi_fit poi_index) (only parsing).

(* what f(.., return_fitted_pars=False) returns, in terms of the model of f(.., return_fitted_pars=True) *)
Definition value_only (r : result N) : tserr + (list tswarn * V N) :=
  match r with inl x => inl x | inr (w, (v, _)) => inr (w, v) end.

Lemma tie_tmu_like : forall mu e, G gen_tmu_like mu e = M tmu_like mu e.
Proof. intros. unfold gen_tmu_like, tmu_like, clip0. destruct (fixed_poi_fit mu e), (fit e). reflexivity. Qed.
Lemma tie_tmu_like_value : forall mu e, G gen_tmu_like_value mu e = fst (M tmu_like mu e).
Proof. intros. unfold gen_tmu_like_value, tmu_like, clip0. destruct (fixed_poi_fit mu e), (fit e). reflexivity. Qed.

Lemma tie_qmu_like : forall mu e, G gen_qmu_like mu e = qmu_like N Env fit fixed_poi_fit poi_index mu e.
Proof. intros. unfold gen_qmu_like, qmu_like, poi_of. rewrite tie_tmu_like.
  destruct (tmu_like N Env fit fixed_poi_fit mu e) as [t [a b]]. reflexivity. Qed.
Lemma tie_qmu_like_value : forall mu e, G gen_qmu_like_value mu e = fst (qmu_like N Env fit fixed_poi_fit poi_index mu e).
Proof. intros. unfold gen_qmu_like_value, qmu_like, poi_of. rewrite tie_tmu_like.
  destruct (tmu_like N Env fit fixed_poi_fit mu e) as [t [a b]]. reflexivity. Qed.

Lemma tie_qmu : forall mu e, G gen_qmu mu e = MP qmu mu e.
Proof. intros. unfold gen_qmu, qmu, warn_if. rewrite tie_qmu_like. destruct (poi_index e); reflexivity. Qed.
Lemma tie_qmu_tilde : forall mu e, G gen_qmu_tilde mu e = MP qmu_tilde mu e.
Proof. intros. unfold gen_qmu_tilde, qmu_tilde, warn_if. rewrite tie_qmu_like. destruct (poi_index e); reflexivity. Qed.
Lemma tie_tmu : forall mu e, G gen_tmu mu e = MP tmu mu e.
Proof. intros. unfold gen_tmu, tmu, warn_if. rewrite tie_tmu_like. destruct (poi_index e); reflexivity. Qed.
Lemma tie_tmu_tilde : forall mu e, G gen_tmu_tilde mu e = MP tmu_tilde mu e.
Proof. intros. unfold gen_tmu_tilde, tmu_tilde, warn_if. rewrite tie_tmu_like. destruct (poi_index e); reflexivity. Qed.

Lemma tie_q0 : neqb_sound N -> forall mu e, G gen_q0 mu e = Q0 mu e.
Proof. intros Hs mu e. unfold gen_q0, q0, warn_if, poi_of.
  assert (Hmu : (if negb (neqb N mu (n0 N)) then n0 N else mu) = n0 N).
  { destruct (neqb N mu (n0 N)) eqn:E; simpl; [apply Hs; exact E|reflexivity]. }
  rewrite Hmu, tie_tmu_like. destruct (poi_index e); [|reflexivity].
  destruct (tmu_like N Env fit fixed_poi_fit (n0 N) e) as [t [a b]]. reflexivity. Qed.

(* the calls with return_fitted_pars=False return the first component, same exceptions, same warnings *)
Lemma tie_value_only : forall mu e,
  G gen_qmu_value mu e = value_only (MP qmu mu e) /\ G gen_qmu_tilde_value mu e = value_only (MP qmu_tilde mu e) /\
  G gen_tmu_value mu e = value_only (MP tmu mu e) /\ G gen_tmu_tilde_value mu e = value_only (MP tmu_tilde mu e) /\
  (neqb_sound N -> G gen_q0_value mu e = value_only (Q0 mu e)).
Proof. intros mu e.
  unfold gen_qmu_value, gen_qmu_tilde_value, gen_tmu_value, gen_tmu_tilde_value, qmu, qmu_tilde, tmu, tmu_tilde, warn_if, value_only.
  rewrite tie_qmu_like_value, tie_tmu_like_value.
  split; [|split; [|split; [|split]]];
    try (destruct (poi_index e); [|reflexivity];
         match goal with |- context [fst ?x] => destruct x as [? [? ?]] end; reflexivity).
  intros Hs. unfold gen_q0_value, q0, warn_if, poi_of.
  assert (Hmu : (if negb (neqb N mu (n0 N)) then n0 N else mu) = n0 N).
  { destruct (neqb N mu (n0 N)) eqn:E; simpl; [apply Hs; exact E|reflexivity]. }
  rewrite Hmu, tie_tmu_like. destruct (poi_index e); [|reflexivity].
  destruct (tmu_like N Env fit fixed_poi_fit (n0 N) e) as [t [a b]]. reflexivity. Qed.
End Tie.

(* the premise of tie_q0 holds for both number instances in use *)
Lemma tie_q0_Qc : forall Env fit fixed_poi_fit poi_index poi_lower mu e,
  gen_q0 QcNum Env fit fixed_poi_fit poi_index poi_lower mu e = q0 QcNum Env fit fixed_poi_fit poi_index mu e.
Proof. intros. apply tie_q0. exact neqb_sound_Qc. Qed.
Lemma tie_q0_R : forall Env fit fixed_poi_fit poi_index poi_lower mu e,
  gen_q0 RNum Env fit fixed_poi_fit poi_index poi_lower mu e = q0 RNum Env fit fixed_poi_fit poi_index mu e.
Proof. intros. apply tie_q0. exact neqb_sound_R. Qed.

(* non-vacuity of neqb_sound: the executed instance *)
Example neqb_sound_nonvacuous : neqb_sound QcNum /\ neqb QcNum (mkq 1 2) (mkq 2 4) = true.
Proof. split; [exact neqb_sound_Qc|reflexivity]. Qed.

Lemma tie_value_only_all : forall (N : Num) Env fit fixed_poi_fit poi_index poi_lower mu (e : Env),
  gen_tmu_like_value N Env fit fixed_poi_fit poi_index poi_lower mu e = fst (tmu_like N Env fit fixed_poi_fit mu e) /\
  gen_qmu_like_value N Env fit fixed_poi_fit poi_index poi_lower mu e = fst (qmu_like N Env fit fixed_poi_fit poi_index mu e) /\
  gen_qmu_value N Env fit fixed_poi_fit poi_index poi_lower mu e = value_only N (qmu N Env fit fixed_poi_fit poi_index poi_lower mu e) /\
  gen_qmu_tilde_value N Env fit fixed_poi_fit poi_index poi_lower mu e = value_only N (qmu_tilde N Env fit fixed_poi_fit poi_index poi_lower mu e) /\
  gen_tmu_value N Env fit fixed_poi_fit poi_index poi_lower mu e = value_only N (tmu N Env fit fixed_poi_fit poi_index poi_lower mu e) /\
  gen_tmu_tilde_value N Env fit fixed_poi_fit poi_index poi_lower mu e = value_only N (tmu_tilde N Env fit fixed_poi_fit poi_index poi_lower mu e) /\
  (neqb_sound N -> gen_q0_value N Env fit fixed_poi_fit poi_index poi_lower mu e = value_only N (q0 N Env fit fixed_poi_fit poi_index mu e)).
Proof. intros. split; [apply tie_tmu_like_value|]. split; [apply tie_qmu_like_value|]. apply tie_value_only. Qed.
