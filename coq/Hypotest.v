(* C08 - pyhf.infer.hypotest: prerequisites, calculator creation, result assembly by flags; the
   asymptotic calculator's wiring (observed statistic, Asimov data, Asimov statistic); the analytic answer
   for counting models.  Parts: A layout, B prerequisites, C wiring/Asimov, D counting models. *)
From Coq Require Import ZArith QArith Qcanon Reals Lra Lia Bool List.
Require Import PV.Num PV.Asympt PV.TestStat.
Import ListNotations.
Local Open Scope list_scope.

(* ====================================================================================== *)
(* Part A: the returned tuple *)
Section Layout.
Variable T : Type.       (* a p-value tensor *)
Variable C : Type.       (* the calculator object *)

Inductive ritem := RScalar (v : T) | RList (l : list T) | RCalc (c : C).

Record pvals := mkPvals {
  CLsb_obs : T; CLb_obs : T; CLs_obs : T;
  CLsb_exp : list T; CLb_exp : list T; CLs_exp : list T }.

Variable dflt : T.       (* never used: the bands have five entries *)

(* literal: the tail of hypotest *)
Definition assemble (is_q0 return_tail_probs return_expected return_expected_set return_calculator : bool)
                    (p : pvals) (calc : C) : list ritem :=
  let _returns := [RScalar (if is_q0 then CLsb_obs p else CLs_obs p)] in
  let _returns :=
    if return_tail_probs then
      (if is_q0 then _returns ++ [RList [CLb_obs p]] else _returns ++ [RList [CLsb_obs p; CLb_obs p]])
    else _returns in
  let pvalues_exp_band := if is_q0 then CLsb_exp p else CLs_exp p in
  let _returns :=
    if return_expected_set then
      let _returns := if return_expected then _returns ++ [RScalar (nth 2 pvalues_exp_band dflt)] else _returns in
      _returns ++ [RList pvalues_exp_band]
    else if return_expected then _returns ++ [RScalar (nth 2 pvalues_exp_band dflt)]
    else _returns in
  let _returns := if return_calculator then _returns ++ [RCalc calc] else _returns in
  _returns.

(* return tuple(_returns) if len(_returns) > 1 else _returns[0] *)
Inductive retval := Bare (x : ritem) | Tuple (l : list ritem).
Definition finish (l : list ritem) : retval :=
  match l with [x] => Bare x | _ => Tuple l end.

(* the documented order: observed ; tail probabilities ; median expected ; five-point band ; calculator *)
Definition opt (b : bool) (x : ritem) : list ritem := if b then [x] else [].
Definition documented (is_q0 tail exp expset calcf : bool) (p : pvals) (calc : C) : list ritem :=
  let band := if is_q0 then CLsb_exp p else CLs_exp p in
  [RScalar (if is_q0 then CLsb_obs p else CLs_obs p)]
  ++ opt tail (RList (if is_q0 then [CLb_obs p] else [CLsb_obs p; CLb_obs p]))
  ++ opt exp (RScalar (nth 2 band dflt))
  ++ opt expset (RList band)
  ++ opt calcf (RCalc calc).

Theorem layout_documented_order : forall is_q0 tail exp expset calcf p calc,
  assemble is_q0 tail exp expset calcf p calc = documented is_q0 tail exp expset calcf p calc.
Proof. intros [] [] [] [] [] p calc; reflexivity. Qed.

Theorem layout_length : forall is_q0 tail exp expset calcf p calc,
  length (assemble is_q0 tail exp expset calcf p calc)
  = (1 + Nat.b2n tail + Nat.b2n exp + Nat.b2n expset + Nat.b2n calcf)%nat.
Proof. intros [] [] [] [] [] p calc; reflexivity. Qed.

Theorem singleton_unwrapped : forall is_q0 tail exp expset calcf p calc,
  (tail = false /\ exp = false /\ expset = false /\ calcf = false ->
     finish (assemble is_q0 tail exp expset calcf p calc) = Bare (RScalar (if is_q0 then CLsb_obs p else CLs_obs p))) /\
  (tail = true \/ exp = true \/ expset = true \/ calcf = true ->
     finish (assemble is_q0 tail exp expset calcf p calc) = Tuple (documented is_q0 tail exp expset calcf p calc)).
Proof. intros [] [] [] [] [] p calc; split; intro H; try reflexivity;
  try (destruct H as (?&?&?&?); discriminate); try (destruct H as [H|[H|[H|H]]]; discriminate). Qed.
End Layout.

Arguments RScalar {T C}. Arguments RList {T C}. Arguments RCalc {T C}.
Arguments Bare {T C}. Arguments Tuple {T C}.

(* ====================================================================================== *)
(* Part B: prerequisites and calculator creation *)
Inductive herr := HUnspecifiedPOI | HInvalidModel | HKeyError | HCalc (e : cerr).
Inductive calctype := CAsymptotics | CToybased | COtherCalc.

(* `x or default` on lists: None and [] fall back *)
Definition or_default {A} (x : option (list A)) (d : list A) : list A :=
  match x with None => d | Some [] => d | Some l => l end.

Definition check_prerequisites (poi_index : option nat) (fixed_params : list bool) : option herr :=
  match poi_index with
  | None => Some HUnspecifiedPOI
  | Some i => if nth i fixed_params false (* all_pois_floating = not fixed_params[poi_index] *)
              then Some HInvalidModel else None
  end.

Section Hypotest.
Variable T : Type.
Variable C : Type.
Variable dflt : T.
(* what the created calculator yields for poi_test (teststatistic ; distributions ; pvalues ; expected_pvalues) *)
Variable make_calc : calctype -> list bool (* fixed_params passed on *) -> option (C * (cerr + pvals T)).

Definition hypotest (poi_index : option nat) (fixed_given : option (list bool)) (suggested_fixed : list bool)
                    (ct : calctype) (is_q0 tail exp expset calcf : bool) : herr + retval T C :=
  let fixed_params := or_default fixed_given suggested_fixed in
  match check_prerequisites poi_index fixed_params with
  | Some e => inl e
  | None =>
    match make_calc ct fixed_params with
    | None => inl HKeyError
    | Some (calc, inl e) => inl (HCalc e)
    | Some (calc, inr p) => inr (finish T C (assemble T C dflt is_q0 tail exp expset calcf p calc))
    end
  end.

Theorem refused_without_poi : forall fg sf ct q0 a b c d, hypotest None fg sf ct q0 a b c d = inl HUnspecifiedPOI.
Proof. reflexivity. Qed.

Theorem refused_fixed_poi : forall i fg sf ct q0 a b c d,
  nth i (or_default fg sf) false = true -> hypotest (Some i) fg sf ct q0 a b c d = inl HInvalidModel.
Proof. intros. unfold hypotest, check_prerequisites. rewrite H. reflexivity. Qed.

Theorem accepted_layout : forall i fg sf ct q0 a b c d calc p,
  nth i (or_default fg sf) false = false -> make_calc ct (or_default fg sf) = Some (calc, inr p) ->
  hypotest (Some i) fg sf ct q0 a b c d = inr (finish T C (documented T C dflt q0 a b c d p calc)).
Proof. intros. unfold hypotest, check_prerequisites. rewrite H, H0. rewrite layout_documented_order. reflexivity. Qed.
End Hypotest.

(* ====================================================================================== *)
(* Part C: AsymptoticCalculator.teststatistic's wiring, over any number instance *)
Section Wiring.
Variable N : Num.
Notation V := (V N).
Variable Data Pars : Type.
Variable sqrt : V -> V.
Variable teststat_func : tkind -> V -> Data -> V * (Pars * Pars).  (* utils.get_test_stat(self.test_stat)(poi_test, data, ...) *)
Variable fixed_poi_fit : V -> Data -> Pars.                          (* pyhf.infer.mle.fixed_poi_fit(asimov_mu, data, ...) *)
Variable expected_data : Pars -> Data.                               (* pdf.expected_data *)

(* generate_asimov_data(asimov_mu, data, ..., return_fitted_pars=True) *)
Definition generate_asimov_data (asimov_mu : V) (data : Data) : Data * Pars :=
  let bestfit_nuisance_asimov := fixed_poi_fit asimov_mu data in
  (expected_data bestfit_nuisance_asimov, bestfit_nuisance_asimov).

Record fitted := mkFitted { asimov_pars : Pars; free_fit_to_data : Pars; free_fit_to_asimov : Pars;
                            fixed_poi_fit_to_data : Pars; fixed_poi_fit_to_asimov : Pars }.

(* returns (teststat, sqrtqmuA_v, fitted_pars, asimov_data) *)
Definition calc_teststatistic (k : tkind) (poi_test : V) (data : Data) : V * V * fitted * Data :=
  let '(qmu_v, (mubhathat, muhatbhat)) := teststat_func k poi_test data in
  let asimov_mu := match k with KQ0 => n1 N | _ => n0 N end in
  let '(asimov_data, asimov_mubhathat) := generate_asimov_data asimov_mu data in
  let '(qmuA_v, (mubhathat_A, muhatbhat_A)) := teststat_func k poi_test asimov_data in
  let '(ts, sA) := teststatistic N sqrt k qmu_v qmuA_v in
  (ts, sA, mkFitted asimov_mubhathat muhatbhat muhatbhat_A mubhathat mubhathat_A, asimov_data).

Definition asimov_of (k : tkind) (data : Data) : Data :=
  expected_data (fixed_poi_fit (match k with KQ0 => n1 N | _ => n0 N end) data).

(* the Asimov dataset is the model expectation at the conditional fit to the observed data with the POI at 0
   (at 1 for the discovery statistic); the second statistic is evaluated on it, at the same tested value *)
Theorem asimov_is_expectation : forall k poi_test data,
  let '(ts, sA, f, adata) := calc_teststatistic k poi_test data in
  adata = asimov_of k data /\
  asimov_pars f = fixed_poi_fit (match k with KQ0 => n1 N | _ => n0 N end) data /\
  (ts, sA) = teststatistic N sqrt k (fst (teststat_func k poi_test data)) (fst (teststat_func k poi_test (asimov_of k data))) /\
  free_fit_to_data f = snd (snd (teststat_func k poi_test data)) /\
  fixed_poi_fit_to_data f = fst (snd (teststat_func k poi_test data)) /\
  free_fit_to_asimov f = snd (snd (teststat_func k poi_test (asimov_of k data))) /\
  fixed_poi_fit_to_asimov f = fst (snd (teststat_func k poi_test (asimov_of k data))).
Proof. intros k poi_test data. unfold calc_teststatistic, generate_asimov_data, asimov_of.
  destruct (teststat_func k poi_test data) as [q [a b]].
  destruct (teststat_func k poi_test (expected_data (fixed_poi_fit match k with KQ0 => n1 N | _ => n0 N end data))) as [qA [aA bA]].
  simpl. repeat split. Qed.
End Wiring.

(* ====================================================================================== *)
(* Part D: counting models.  One bin (or several bins/channels with signal proportional to background, which
   reduce to one bin, see multi_bin_reduction): n ~ Pois(mu s + b), POI in [lo, hi], no nuisance parameter,
   exact fits. *)
Section CountingHypotest.
Local Open Scope R_scope.
Variable Phi : R -> R.
Variables s b lo hi C : R.
Hypothesis Hs : 0 < s.
Hypothesis Hlohi : lo <= hi.
Hypothesis Hlam_lo : 0 < lo * s + b.

Definition st_of (k : tkind) : tsname := match k with KQ => SQ | KQtilde => SQtilde | KQ0 => SQ0 end.

(* the exact-fit test statistic function of this model: data is the count n *)
Definition count_teststat (k : tkind) (mu : R) (n : R) : R * (list R * list R) :=
  match teststat RNum unit (cfit n s b lo hi C) (cfixed n s b C) (fun _ => Some 0%nat) (fun _ => lo) (st_of k) mu tt with
  | inr (_, r) => r
  | inl _ => (0, ([], []))
  end.
Definition count_fixed (mu : R) (n : R) : list R := [mu].
Definition count_expected (p : list R) : R := lam s b (nth 0 p 0).

Definition q_obs (k : tkind) (mu n : R) : R := stat_closed (st_of k) n s b lo hi mu.
Definition n_asimov (k : tkind) : R := match k with KQ0 => 1 * s + b | _ => 0 * s + b end.
Definition q_asimov (k : tkind) (mu : R) : R := stat_closed (st_of k) (n_asimov k) s b lo hi mu.

Lemma count_teststat_value : forall k mu n, 0 <= n -> lo <= mu <= hi -> (k = KQ0 -> lo <= 0 <= hi) ->
  fst (count_teststat k mu n) = q_obs k mu n.
Proof. intros k mu n Hn Hmu H0. unfold count_teststat, q_obs.
  pose proof (q_closed_form_counting n s b lo hi C Hn Hs Hlohi Hlam_lo (st_of k) mu Hmu) as Q.
  assert (Hst : st_of k = SQ0 -> lo <= 0 <= hi) by (destruct k; simpl; try discriminate; auto).
  specialize (Q Hst). unfold value_of in Q.
  destruct (teststat RNum unit (cfit n s b lo hi C) (cfixed n s b C) (fun _ => Some 0%nat) (fun _ => lo) (st_of k) mu tt) as [e|[w [v p]]].
  - discriminate.
  - simpl. inversion Q. unfold stat_closed. destruct (st_of k); reflexivity. Qed.

(* the whole chain for the asymptotic calculator on this model *)
Definition counting_calc (k : tkind) (base : basedist) (mu n : R) :=
  let '(ts, sA, _, adata) := calc_teststatistic RNum R (list R) sqrt count_teststat count_fixed count_expected k mu n in
  match distributions RNum (Some sA) base with
  | inl e => inl e
  | inr (dsb, db) => inr (adata, pvalues RNum Phi ts dsb db, expected_pvalues RNum Phi dsb db)
  end.

Theorem hypotest_counting_analytic : forall k base mu n,
  known base -> 0 <= n -> 0 <= 0 * s + b -> lo <= mu <= hi -> lo <= 0 <= hi -> (k = KQ0 -> lo <= 1 <= hi) ->
  exists exp_band,
  counting_calc k base mu n = inr (n_asimov k, (* the Asimov dataset *)
     (Some (Phi (- (tstat k (q_obs k mu n) (q_asimov k mu) + sqrt (q_asimov k mu)))),
      Some (Phi (- tstat k (q_obs k mu n) (q_asimov k mu))),
      Some (Phi (- (tstat k (q_obs k mu n) (q_asimov k mu) + sqrt (q_asimov k mu))) / Phi (- tstat k (q_obs k mu n) (q_asimov k mu)))),
     exp_band) /\
  inr exp_band = run_exp RNum Phi sqrt k base (q_obs k mu n) (q_asimov k mu).
Proof. intros k base mu n Hb Hn Hb0 Hmu H0 H1.
  assert (HnA : 0 <= n_asimov k) by (unfold n_asimov; destruct k; lra).
  assert (E1 : fst (count_teststat k mu n) = q_obs k mu n) by (apply count_teststat_value; auto).
  assert (EA : count_expected (count_fixed (match k with KQ0 => 1 | _ => 0 end) n) = n_asimov k)
    by (unfold count_expected, count_fixed, n_asimov, lam; destruct k; simpl; ring).
  assert (E2 : fst (count_teststat k mu (n_asimov k)) = q_asimov k mu) by (apply count_teststat_value; auto).
  assert (Hq : 0 <= q_obs k mu n).
  { unfold q_obs, stat_closed. destruct (st_of k); try destruct (Rlt_dec _ _); try lra; apply t_closed_nonneg; auto; lra. }
  assert (HqA : 0 <= q_asimov k mu).
  { unfold q_asimov, stat_closed. destruct (st_of k); try destruct (Rlt_dec _ _); try lra; apply t_closed_nonneg; auto; lra. }
  pose proof (run_obs_closed Phi k base (q_obs k mu n) (q_asimov k mu) Hb Hq HqA) as RO. simpl in RO.
  pose proof (asimov_is_expectation RNum R (list R) sqrt count_teststat count_fixed count_expected k mu n) as W.
  unfold counting_calc.
  destruct (calc_teststatistic RNum R (list R) sqrt count_teststat count_fixed count_expected k mu n) as [[[ts sA] f] adata].
  destruct W as (Wa & _ & Wt & _).
  assert (Ha : asimov_of RNum R (list R) count_fixed count_expected k n = n_asimov k) by exact EA.
  rewrite Ha in Wa, Wt. subst adata. change (V RNum) with R in Wt. rewrite E1, E2 in Wt.
  assert (Ets : ts = tstat k (q_obs k mu n) (q_asimov k mu)) by (unfold tstat; rewrite <- Wt; reflexivity).
  assert (EsA : sA = sqrt (q_asimov k mu)) by (unfold teststatistic in Wt; inversion Wt; reflexivity).
  subst ts sA. clear Wt.
  unfold run_obs, run_exp, tstat, teststatistic in *. cbn beta iota in *. cbn [fst] in *. change (V RNum) with R in *.
  destruct (distributions RNum (Some (sqrt (q_asimov k mu))) base) as [e | [dsb db]] eqn:D; try rewrite D in RO; cbn beta iota in RO; [discriminate RO|].
  eexists. split; [|reflexivity]. inversion RO as [RO']. reflexivity. Qed.
End CountingHypotest.

(* several bins (any number of channels laid end to end) with signal proportional to background, s_i = r b_i:
   the likelihood is that of one bin with the summed counts, up to a term that does not depend on mu *)
Section MultiBin.
Local Open Scope R_scope.
Variable r : R.
Fixpoint sumR (l : list R) : R := match l with [] => 0 | x :: t => x + sumR t end.
(* sum over bins of lam_i - n_i ln lam_i, lam_i = (mu r + 1) b_i; bins given as (b_i, n_i) *)
Fixpoint nll_bins (mu : R) (bins : list (R * R)) : R :=
  match bins with [] => 0 | (bi, ni) :: t => ((mu * r + 1) * bi - ni * ln ((mu * r + 1) * bi)) + nll_bins mu t end.
Fixpoint konst (bins : list (R * R)) : R :=
  match bins with [] => 0 | (bi, ni) :: t => ni * ln bi + konst t end.

Theorem multi_bin_reduction : forall bins mu,
  Forall (fun p => 0 < fst p) bins -> 0 < mu * r + 1 -> bins <> [] ->
  let B := sumR (map fst bins) in let Nn := sumR (map snd bins) in
  nll_bins mu bins = ((mu * (r * B) + B) - Nn * ln (mu * (r * B) + B)) + (Nn * ln B - konst bins).
Proof. intros bins mu Hpos Hmu Hne B Nn.
  assert (HB : 0 < B).
  { subst B. destruct bins as [|[b0 n0] t]; [congruence|]. clear Hne. inversion Hpos as [|x l Hx Hl]; subst. simpl in *.
    assert (0 <= sumR (map fst t)).
    { clear -Hl. induction t as [|[bi ni] t IH]; simpl; [lra|]. inversion Hl; subst. simpl in *. specialize (IH H2). lra. }
    lra. }
  assert (G : nll_bins mu bins = (mu * r + 1) * B - Nn * ln (mu * r + 1) - konst bins).
  { subst B Nn. clear Hne HB. induction bins as [|[bi ni] t IH]; simpl; [ring|].
    inversion Hpos; subst. simpl in *. rewrite (IH H2). rewrite ln_mult by assumption. ring. }
  rewrite G. replace (mu * (r * B) + B) with ((mu * r + 1) * B) by ring. rewrite ln_mult by assumption. ring. Qed.
End MultiBin.
