(* C15, specification level, part 6: the constraint terms of the merge and of the signal rescaling.
   (1) Two adjacent samples of one channel that carry the same modifiers (same names, types and data, except that every
       sample brings its own MC-statistical uncertainties) are replaced by one sample with the summed yields whose
       staterror uncertainties are the quadrature sums: expected data equal, ALL likelihood terms the same multiset.
       The staterror width of a bin is (sum of unc^2) / (sum of nominal)^2 over the carrying samples, so the merged
       sample's uncertainty enters only through its square: u^2 = u1^2 + u2^2 (no square root needed).
       Shapesys: a shapesys name belongs to one sample of one channel (wf_spec, conjunct 6), two samples can therefore
       never carry "the same" shapesys -- samples with a shapesys are outside the premise of the merge (Hno).
   (2) Signal rescaling: when the samples carrying the normfactor mu have no staterror and no shapesys, the constraint
       terms of the rescaled specification at the rescaled parameter function are LITERALLY the same list. *)
From Coq Require Import Bool Arith Lia Permutation Ring Field String List.
Require Import PV.Num PV.Sort PV.Spec PV.Impl PV.Ref PV.RefineMonoid PV.Invariance PV.InvarianceSpec PV.InvarianceRewrite.
Import ListNotations.
Local Open Scope list_scope.

Lemma flat_map_nil_in {A B} (f : A -> list B) l : (forall a, In a l -> f a = []) -> flat_map f l = [].
Proof. induction l as [|a l IH]; intros H; simpl; auto. rewrite (H a) by now left. apply IH. intros; apply H; now right. Qed.
Lemma filter_map_fix {A} (p : A -> bool) (F : A -> A) l :
  (forall a, In a l -> F a = a \/ (p (F a) = false /\ p a = false)) -> filter p (map F l) = filter p l.
Proof. induction l as [|a l IH]; intros H; simpl; auto. rewrite IH by (intros; apply H; now right).
  destruct (H a (or_introl eq_refl)) as [E|[E1 E2]]; [now rewrite E|now rewrite E1, E2]. Qed.

(* the staterror width as a function of the list of carrying samples *)
Section Sd2.
  Variable N : Num.
  Notation V := (V N).
  Definition sd2 (name : string) (b : nat) (carriers : list (sample N)) : V :=
    let tot := rsum N (map (fun s => nth b (s_data s) (n0 N)) carriers) in
    let v := rsum N (map (fun s => if rpos N tot then nmul N (ndiv N (stat_unc N s name b) tot) (ndiv N (stat_unc N s name b) tot) else n0 N) carriers) in
    if rzero N v then n1 N else v.
  Lemma stat_delta2_sd2 n c b : stat_delta2 N n c b = sd2 n b (filter (fun s => has_mod N s n Staterror) (c_samples c)).
  Proof. reflexivity. Qed.
  Lemma chan_shape_terms_is (sp0 : spec N) theta aux c :
    chan_shape_terms N sp0 theta aux c = flat_map (fun s => flat_map (mod_shape_terms N sp0 theta aux c s) (s_mods s)) (c_samples c).
  Proof. reflexivity. Qed.
End Sd2.

(* ------------------------------------------------------------------ 6'. merge, all terms *)
Section MergeFull.
  Variable N : Num.
  Notation V := (V N).
  Hypothesis Hring : ring_theory (n0 N) (n1 N) (nadd N) (nmul N) (nsub N) (nopp N) eq.
  Hypothesis Hdiv : forall a b : V, ndiv N a b = nmul N a (ninv N b).
  Add Ring NRm1 : Hring.
  Notation "0" := (n0 N). Notation "1" := (n1 N).
  Infix "+" := (nadd N). Infix "*" := (nmul N).
  Variable interp_add interp_mul : string -> V -> V -> V -> V -> V.
  Variables ncode hcode : string.
  Variable clip_b : option V.
  Notation spec := (spec N). Notation channel := (channel N). Notation sample := (sample N). Notation modifier := (modifier N).
  Notation mfac := (mod_factor N interp_mul ncode).
  Notation mdel := (mod_delta N interp_add hcode).
  Notation srate := (sample_rate N interp_add interp_mul ncode hcode None).
  Notation rrate := (ref_rate N interp_add interp_mul ncode hcode None clip_b).
  Notation rexp := (ref_expected N interp_add interp_mul ncode hcode None clip_b).
  Notation rterms := (ref_terms N interp_add interp_mul ncode hcode None clip_b).

  (* same modifier up to the listed MC-statistical uncertainties *)
  Definition mod_sim (m m' : modifier) : Prop :=
    m_name m = m_name m' /\ m_type m = m_type m' /\ (m_type m <> Staterror -> m_data m = m_data m').
  Lemma mod_sim_refl m : mod_sim m m. Proof. repeat split. Qed.

  Lemma rsum_app l1 l2 : rsum N (l1 ++ l2) = rsum N l1 + rsum N l2.
  Proof. induction l1 as [|a l1 IH]; simpl; [ring|]. rewrite IH. ring. Qed.

  Lemma sim_existsb n t l l' : Forall2 mod_sim l l' ->
    existsb (fun m => String.eqb (m_name m) n && mtype_eqb (m_type m) t) l = existsb (fun m => String.eqb (m_name m) n && mtype_eqb (m_type m) t) l'.
  Proof. induction 1 as [|a a' l l' [Hn [Ht _]] Hf IH]; simpl; auto. now rewrite IH, Hn, Ht. Qed.
  Lemma sim_has s s' n t : Forall2 mod_sim (s_mods s) (s_mods s') -> has_mod N s n t = has_mod N s' n t.
  Proof. intros H. unfold has_mod. now apply sim_existsb. Qed.
  Lemma sim_factors (sp : spec) theta c s s' b l l' : Forall2 mod_sim l l' ->
    map (fun m => mfac sp theta c s m b) l = map (fun m => mfac sp theta c s' m b) l'.
  Proof. induction 1 as [|a a' l l' [Hn [Ht Hd]] Hf IH]; simpl; auto. f_equal; auto. unfold mod_factor. rewrite <- Hn, <- Ht.
    destruct (m_type a) eqn:E; auto. rewrite <- Hd; auto. discriminate. Qed.
  Lemma sim_tnames t l l' : Forall2 mod_sim l l' ->
    flat_map (fun m : modifier => if mtype_eqb (m_type m) t then [m_name m] else []) l =
    flat_map (fun m : modifier => if mtype_eqb (m_type m) t then [m_name m] else []) l'.
  Proof. induction 1 as [|a a' l l' [Hn [Ht _]] Hf IH]; simpl; auto. now rewrite IH, Hn, Ht. Qed.
  Lemma sim_type_in l l' m' : Forall2 mod_sim l l' -> In m' l' -> exists m, In m l /\ m_type m = m_type m'.
  Proof. intros Hf Hin. destruct (Forall2_in_r l l' m' Hf Hin) as [m [H1 [_ [H2 _]]]]. eauto. Qed.
  Lemma nodelta theta (s : sample) b l : (forall m, In m l -> m_type m <> Histosys) -> rsum N (map (fun m => mdel theta s m b) l) = 0.
  Proof. intros Hno. change (rsum N ?l) with (foldm V (nadd N) 0 l). apply foldm_neutral; [intros; ring|]. intros m Hm. unfold mod_delta.
    specialize (Hno m Hm). destruct (m_type m); auto. contradiction. Qed.

  Variable sp : spec.
  Variables pre post : list channel.
  Variable c0 : channel.
  Variables spre spost : list sample.
  Variables s1 s2 sm : sample.
  Hypothesis Hch : channels sp = pre ++ c0 :: post.
  Hypothesis Hsm : c_samples c0 = spre ++ s1 :: s2 :: spost.
  Hypothesis Hnd : NoDup (map c_name (channels sp)).
  (* the two samples carry the same modifiers; so does the merged sample; its yields are the sums *)
  Hypothesis Hm2 : Forall2 mod_sim (s_mods s1) (s_mods s2).
  Hypothesis Hmm : Forall2 mod_sim (s_mods s1) (s_mods sm).
  Hypothesis Hmd : s_data sm = vadd N (s_data s1) (s_data s2).
  Hypothesis Hlen : length (s_data s1) = length (s_data s2).
  (* no histosys (its variations would have to be added as well) and no shapesys (never shared between samples) *)
  Hypothesis Hno : forall m, In m (s_mods s1) -> m_type m <> Histosys /\ m_type m <> Shapesys.
  (* the merged MC-statistical uncertainty is the quadrature sum, bin by bin, for every staterror the samples carry *)
  Hypothesis Hquad : forall n b, has_mod N s1 n Staterror = true -> b < length (s_data s1) ->
    stat_unc N sm n b * stat_unc N sm n b = stat_unc N s1 n b * stat_unc N s1 n b + stat_unc N s2 n b * stat_unc N s2 n b.
  Let c0' : channel := with_samples c0 (spre ++ sm :: spost).
  Let sp' : spec := with_channels sp (pre ++ c0' :: post).

  Lemma no_types (s : sample) : Forall2 mod_sim (s_mods s1) (s_mods s) -> forall m, In m (s_mods s) -> m_type m <> Histosys /\ m_type m <> Shapesys.
  Proof. intros Hf m Hm. destruct (sim_type_in _ _ m Hf Hm) as [m1 [H1 <-]]. now apply Hno. Qed.
  Lemma s1_sim : Forall2 mod_sim (s_mods s1) (s_mods s1). Proof. apply Forall2_refl_in. intros; apply mod_sim_refl. Qed.

  Lemma no_histo (s : sample) : Forall2 mod_sim (s_mods s1) (s_mods s) -> forall m, In m (s_mods s) -> m_type m <> Histosys.
  Proof. intros Hf m Hm. now destruct (no_types s Hf m Hm). Qed.
  Lemma mergeF_srate theta c b : srate sp theta c sm b = srate sp theta c s1 b + srate sp theta c s2 b.
  Proof. unfold sample_rate, rclip.
    rewrite <- (sim_factors sp theta c s1 sm b _ _ Hmm), <- (sim_factors sp theta c s1 s2 b _ _ Hm2).
    rewrite (nodelta theta sm b _ (no_histo sm Hmm)), (nodelta theta s1 b _ (no_histo s1 s1_sim)), (nodelta theta s2 b _ (no_histo s2 Hm2)).
    rewrite Hmd, (vadd_nth N Hring) by auto. ring. Qed.
  Lemma mergeF_nbins : chan_nbins N c0 = chan_nbins N c0'.
  Proof. unfold chan_nbins. rewrite Hsm. unfold c0', with_samples. cbn [c_samples]. destruct spre; cbn [app]; auto. rewrite Hmd.
    now rewrite vadd_length. Qed.
  Lemma mergeF_sim : chan_sim N c0 c0'.
  Proof. split; [reflexivity|]. split; [apply mergeF_nbins|]. intros n. unfold chan_has. rewrite Hsm. unfold c0', with_samples. cbn [c_samples].
    rewrite !existsb_app. cbn [existsb]. rewrite <- (sim_has s1 sm n Staterror Hmm), <- (sim_has s1 s2 n Staterror Hm2).
    destruct (has_mod N s1 n Staterror); reflexivity. Qed.
  Lemma mergeF_rate theta b : rrate sp theta c0' b = rrate sp theta c0 b.
  Proof. unfold ref_rate. f_equal. rewrite Hsm. unfold c0' at 2, with_samples. cbn [c_samples]. rewrite !map_app. cbn [map].
    rewrite !rsum_app. cbn [rsum fold_right]. rewrite (mergeF_srate theta c0' b).
    assert (E : forall s, srate sp theta c0' s b = srate sp theta c0 s b) by reflexivity. rewrite !E.
    change (map (fun s => srate sp theta c0' s b) spre) with (map (fun s => srate sp theta c0 s b) spre).
    change (map (fun s => srate sp theta c0' s b) spost) with (map (fun s => srate sp theta c0 s b) spost).
    generalize (fold_right (nadd N) 0 (map (fun s => srate sp theta c0 s b) spost)). intros x. ring. Qed.

  Lemma mergeF_tnames t n : In n (chan_tnames N t c0') <-> In n (chan_tnames N t c0).
  Proof. unfold chan_tnames. rewrite Hsm. unfold c0', with_samples. cbn [c_samples]. rewrite !flat_map_app. cbn [flat_map].
    rewrite <- (sim_tnames t _ _ Hmm), <- (sim_tnames t _ _ Hm2). rewrite !in_app_iff. tauto. Qed.

  Lemma mergeF_sd2 n b P Q : has_mod N s1 n Staterror = true -> b < length (s_data s1) ->
    sd2 N n b (P ++ sm :: Q) = sd2 N n b (P ++ s1 :: s2 :: Q).
  Proof. intros Hh Hb. unfold sd2.
    assert (Et : rsum N (map (fun s : sample => nth b (s_data s) 0) (P ++ sm :: Q)) = rsum N (map (fun s : sample => nth b (s_data s) 0) (P ++ s1 :: s2 :: Q))).
    { rewrite !map_app. cbn [map]. rewrite !rsum_app. cbn [rsum fold_right]. rewrite Hmd, (vadd_nth N Hring) by auto. ring. }
    cbv zeta. rewrite Et. set (T := rsum N (map (fun s : sample => nth b (s_data s) 0) (P ++ s1 :: s2 :: Q))).
    assert (Ev : rsum N (map (fun s : sample => if rpos N T then (ndiv N (stat_unc N s n b) T) * (ndiv N (stat_unc N s n b) T) else 0) (P ++ sm :: Q)) =
                 rsum N (map (fun s : sample => if rpos N T then (ndiv N (stat_unc N s n b) T) * (ndiv N (stat_unc N s n b) T) else 0) (P ++ s1 :: s2 :: Q))).
    { rewrite !map_app. cbn [map]. rewrite !rsum_app. cbn [rsum fold_right]. destruct (rpos N T); [|ring].
      rewrite !Hdiv. assert (Hq := Hquad n b Hh Hb).
      replace (stat_unc N sm n b * ninv N T * (stat_unc N sm n b * ninv N T)) with ((stat_unc N sm n b * stat_unc N sm n b) * (ninv N T * ninv N T)) by ring.
      rewrite Hq. ring. }
    rewrite Ev. reflexivity. Qed.

  Lemma mergeF_delta2 n b : b < chan_nbins N c0 -> (forall s, In s (c_samples c0) -> length (s_data s) = chan_nbins N c0) ->
    stat_delta2 N n c0 b = stat_delta2 N n c0' b.
  Proof. intros Hb Hu. rewrite !stat_delta2_sd2. rewrite Hsm. unfold c0', with_samples. cbn [c_samples]. rewrite !filter_app. cbn [filter].
    rewrite <- (sim_has s1 sm n Staterror Hmm), <- (sim_has s1 s2 n Staterror Hm2).
    destruct (has_mod N s1 n Staterror) eqn:Eh; [|reflexivity]. symmetry. apply mergeF_sd2; auto.
    rewrite (Hu s1); auto. rewrite Hsm. apply in_or_app. right. now left. Qed.

  Lemma no_shape_terms theta aux (sp0 : spec) c (s : sample) : (forall m, In m (s_mods s) -> m_type m <> Histosys /\ m_type m <> Shapesys) ->
    flat_map (mod_shape_terms N sp0 theta aux c s) (s_mods s) = [].
  Proof. intros H. apply flat_map_nil_in. intros m Hm. unfold mod_shape_terms. destruct (H m Hm) as [_ H2]. destruct (m_type m); auto. contradiction. Qed.

  Hypothesis Hbins : forall s, In s (c_samples c0) -> length (s_data s) = chan_nbins N c0.

  Lemma mergeF_cong theta aux : chan_cong N sp sp' theta aux c0 c0'.
  Proof. split; [|split; [|split]].
    - intros n b _ Hb. now apply mergeF_delta2.
    - intros n. symmetry. apply mergeF_tnames.
    - intros n. symmetry. apply mergeF_tnames.
    - cut (chan_shape_terms N sp theta aux c0 = chan_shape_terms N sp' theta aux c0'); [intros ->; reflexivity|]. rewrite !(chan_shape_terms_is N). rewrite Hsm. change (c_samples c0') with (spre ++ sm :: spost). rewrite !flat_map_app.
      rewrite !fm_cons. rewrite (no_shape_terms theta aux sp c0 s1 (no_types s1 s1_sim)), (no_shape_terms theta aux sp c0 s2 (no_types s2 Hm2)),
        (no_shape_terms theta aux sp' c0' sm (no_types sm Hmm)). cbn [app].
      f_equal; apply flat_map_ext; intros s; apply flat_map_ext; intros m; apply mod_shape_terms_change; auto; apply mergeF_nbins. Qed.

  Theorem merge_samples_invariant_full theta obs aux :
    (forall b, rrate sp theta c0' b = rrate sp theta c0 b) /\ rexp sp' theta = rexp sp theta /\
    Permutation (rterms sp' theta obs aux) (rterms sp theta obs aux).
  Proof. split; [apply mergeF_rate|split].
    - apply (replace_channel_expected N interp_add interp_mul ncode hcode None clip_b sp pre post c0 c0' Hch Hnd mergeF_sim). intros b _. apply mergeF_rate.
    - apply (replace_channel_terms N interp_add interp_mul ncode hcode None clip_b sp pre post c0 c0' Hch Hnd mergeF_sim).
      + intros b _. apply mergeF_rate.
      + apply mergeF_cong.
      + intros n. now rewrite !mergeF_tnames. Qed.
End MergeFull.

(* the same theorem for the special case of the existing rewrite `merged` (merged sample = first sample's modifier list with the
   summed yields): it applies when the samples carry no staterror at all *)
Theorem merge_identical_samples_invariant_terms : forall N, ring_theory (n0 N) (n1 N) (nadd N) (nmul N) (nsub N) (nopp N) eq ->
  (forall a b : V N, ndiv N a b = nmul N a (ninv N b)) ->
  forall ia im nc hc cb (sp : spec N) pre post c0 spre spost s1 s2,
  channels sp = pre ++ c0 :: post -> c_samples c0 = spre ++ s1 :: s2 :: spost -> NoDup (map c_name (channels sp)) ->
  s_mods s2 = s_mods s1 -> length (s_data s1) = length (s_data s2) ->
  (forall m, In m (s_mods s1) -> m_type m <> Histosys /\ m_type m <> Shapesys /\ m_type m <> Staterror) ->
  (forall s, In s (c_samples c0) -> length (s_data s) = chan_nbins N c0) ->
  forall theta obs aux,
  let c0' := with_samples c0 (spre ++ merged N s1 s2 :: spost) in
  Permutation (ref_terms N ia im nc hc None cb (with_channels sp (pre ++ c0' :: post)) theta obs aux) (ref_terms N ia im nc hc None cb sp theta obs aux).
Proof.
  intros N Hr Hd ia im nc hc cb sp pre post c0 spre spost s1 s2 Hch Hsm Hnd Hm Hl Hno Hb theta obs aux c0'.
  assert (Hrefl : Forall2 (mod_sim N) (s_mods s1) (s_mods s1)) by (apply Forall2_refl_in; intros; apply mod_sim_refl).
  apply (merge_samples_invariant_full N Hr Hd ia im nc hc cb sp pre post c0 spre spost s1 s2 (merged N s1 s2) Hch Hsm Hnd); auto.
  - now rewrite Hm.
  - intros m Hm'. destruct (Hno m Hm') as [H1 [H2 _]]. auto.
  - intros n b Hh _. exfalso. unfold has_mod in Hh. apply existsb_exists in Hh. destruct Hh as [m [Hm' Hh]]. apply andb_prop in Hh.
    destruct Hh as [_ Ht]. apply mtype_eqb_eq in Ht. destruct (Hno m Hm') as [_ [_ H3]]. contradiction.
Qed.

(* ------------------------------------------------------------------ 7'. signal rescaling: the constraint terms *)
Section RescaleTerms.
  Variable N : Num.
  Notation V := (V N).
  Notation "0" := (n0 N). Notation "1" := (n1 N).
  Variable interp_add interp_mul : string -> V -> V -> V -> V -> V.
  Variables ncode hcode : string.
  Variables clip_s clip_b : option V.
  Notation spec := (spec N). Notation channel := (channel N). Notation sample := (sample N). Notation modifier := (modifier N).
  Variable mu : string.
  Variable k : V.
  Notation ssample := (scale_sample N mu k).
  Notation schannel := (scale_channel N mu k).
  Notation sspec := (rescale_signal N mu k).
  Notation stheta := (rescale_theta N mu k).

  Variable sp : spec.
  Variable theta aux : string -> nat -> V.
  (* the name mu is used for the normfactor only; the samples carrying it have no staterror and no shapesys *)
  Hypothesis Honly : forall c s m, In c (channels sp) -> In s (c_samples c) -> In m (s_mods s) -> m_name m = mu -> m_type m = Normfactor.
  Hypothesis Hnobin : forall c s m, In c (channels sp) -> In s (c_samples c) -> has_mod N s mu Normfactor = true -> In m (s_mods s) ->
    m_type m <> Staterror /\ m_type m <> Shapesys.

  Lemma stheta_other n j : n <> mu -> stheta theta n j = theta n j.
  Proof. intros H. apply String.eqb_neq in H. unfold rescale_theta. now rewrite H. Qed.
  Lemma scale_tnames t c : chan_tnames N t (schannel c) = chan_tnames N t c.
  Proof. unfold chan_tnames, scale_channel, with_samples. cbn [c_samples]. rewrite flat_map_map2. apply flat_map_ext. intros s. now rewrite scale_mods. Qed.
  Lemma scale_names_with t : names_with N (sspec sp) t = names_with N sp t.
  Proof. rewrite !names_with_is. unfold rescale_signal, with_channels. cbn [channels]. rewrite flat_map_map2. f_equal. apply flat_map_ext. intros c. apply scale_tnames. Qed.
  Lemma tname_not_mu t n : t <> Normfactor -> In n (names_with N sp t) -> n <> mu.
  Proof. intros Ht Hin E. apply names_with_in in Hin. destruct Hin as [c [Hc Hin]]. unfold chan_tnames in Hin. apply in_flat_map in Hin.
    destruct Hin as [s [Hs Hin]]. apply in_flat_map in Hin. destruct Hin as [m [Hm Hin]]. destruct (mtype_eqb (m_type m) t) eqn:Et; [|destruct Hin].
    destruct Hin as [Hin|[]]. apply mtype_eqb_eq in Et. apply Ht. rewrite <- Et. apply (Honly c s m); auto. congruence. Qed.
  Lemma alpha_not_mu n : In n (alpha_names N sp) -> n <> mu.
  Proof. unfold alpha_names. rewrite nodup_In, in_app_iff. intros [H|H]; eapply tname_not_mu; eauto; discriminate. Qed.
  Lemma scale_sorted : sorted_channels N (sspec sp) = map schannel (sorted_channels N sp).
  Proof. unfold sorted_channels, rescale_signal, with_channels. cbn [channels]. rewrite (ssort_map (@c_name N) schannel). reflexivity. Qed.
  Lemma scale_PermRel : PermRel (chan_sim N) (channels sp) (channels (sspec sp)).
  Proof. apply PermRel_Forall2. unfold rescale_signal, with_channels. cbn [channels]. apply Forall2_map_r. intros c _. apply scale_sim. Qed.
  Lemma signal_no (s : sample) c t : In c (channels sp) -> In s (c_samples c) -> has_mod N s mu Normfactor = true -> t = Staterror \/ t = Shapesys ->
    forall n, has_mod N s n t = false.
  Proof. intros Hc Hs Hh Ht n. unfold has_mod. destruct (existsb _ (s_mods s)) eqn:E; auto. apply existsb_exists in E. destruct E as [m [Hm E]].
    apply andb_prop in E. destruct E as [_ E]. apply mtype_eqb_eq in E. destruct (Hnobin c s m Hc Hs Hh Hm) as [H1 H2]. destruct Ht; congruence. Qed.
  Lemma scale_sample_bkg s : has_mod N s mu Normfactor = false -> ssample s = s.
  Proof. intros H. unfold scale_sample. now rewrite H. Qed.
  Lemma scale_has s n t : has_mod N (ssample s) n t = has_mod N s n t.
  Proof. unfold has_mod. now rewrite scale_mods. Qed.
  Lemma scale_delta2 n c b : In c (channels sp) -> stat_delta2 N n (schannel c) b = stat_delta2 N n c b.
  Proof. intros Hc. rewrite !stat_delta2_sd2. f_equal. unfold scale_channel, with_samples. cbn [c_samples]. apply filter_map_fix. intros s Hs.
    destruct (has_mod N s mu Normfactor) eqn:Hh; [right|left; now apply scale_sample_bkg].
    rewrite scale_has. split; apply (signal_no s c Staterror Hc Hs Hh); auto. Qed.
  Lemma scale_stat_block n c : In c (channels sp) -> n <> mu ->
    stat_block N (sspec sp) (stheta theta) aux n (schannel c) = stat_block N sp theta aux n c.
  Proof. intros Hc Hn. unfold stat_block. destruct (scale_sim N mu k c) as [Hcn [Hb Hs]]. rewrite <- Hs, <- Hb.
    destruct (chan_has N c n Staterror); auto. apply map_ext. intros b. cbv zeta.
    rewrite <- (stat_offset_sim N sp (sspec sp) scale_PermRel n c (schannel c) Hcn). rewrite stheta_other by auto.
    rewrite <- (user_sigmas2_params N sp (sspec sp)) by reflexivity. now rewrite scale_delta2. Qed.
  Lemma scale_chan_shape c : In c (channels sp) ->
    chan_shape_terms N (sspec sp) (stheta theta) aux (schannel c) = chan_shape_terms N sp theta aux c.
  Proof. intros Hc. rewrite !(chan_shape_terms_is N). unfold scale_channel at 2, with_samples. cbn [c_samples]. rewrite flat_map_map2. apply flat_map_ext_in2. intros s Hs.
    destruct (has_mod N s mu Normfactor) eqn:Hh.
    - rewrite !flat_map_nil_in; auto.
      + intros m Hm. unfold mod_shape_terms. destruct (Hnobin c s m Hc Hs Hh Hm) as [_ H2]. destruct (m_type m); auto. contradiction.
      + intros m Hm. rewrite scale_mods in Hm. unfold mod_shape_terms. destruct (Hnobin c s m Hc Hs Hh Hm) as [_ H2]. destruct (m_type m); auto. contradiction.
    - rewrite (scale_sample_bkg s Hh). apply flat_map_ext_in2. intros m Hm. unfold mod_shape_terms. rewrite <- (scale_nbins N mu k c).
      destruct (m_type m) eqn:Et; auto. destruct (m_data m); auto. apply map_ext. intros b.
      rewrite stheta_other; [reflexivity|]. intros E. rewrite (Honly c s m Hc Hs Hm E) in Et. discriminate. Qed.
  Lemma sorted_in2 c : In c (sorted_channels N sp) -> In c (channels sp).
  Proof. unfold sorted_channels, ssort. apply isort_in. Qed.

  Theorem signal_rescale_cterms : ref_cterms N (sspec sp) (stheta theta) aux = ref_cterms N sp theta aux.
  Proof. rewrite !ref_cterms_is. f_equal; [|f_equal; [|f_equal]].
    - unfold ct_alpha. unfold alpha_names. rewrite !scale_names_with. apply map_ext_in. intros n Hn. rewrite stheta_other; auto. now apply alpha_not_mu.
    - unfold ct_lumi. rewrite scale_names_with. apply map_ext_in. intros n Hn. rewrite stheta_other by (eapply tname_not_mu; eauto; discriminate).
      now rewrite <- (user_sigmas2_params N sp (sspec sp)) by reflexivity.
    - unfold ct_stat. rewrite scale_names_with. apply flat_map_ext_in2. intros n Hn. rewrite scale_sorted, flat_map_map2.
      apply flat_map_ext_in2. intros c Hc. apply scale_stat_block; [now apply sorted_in2|]. eapply tname_not_mu; eauto. discriminate.
    - unfold ct_shape. change (channels (sspec sp)) with (map schannel (channels sp)). rewrite flat_map_map2. apply flat_map_ext_in2. intros c Hc. now apply scale_chan_shape.
  Qed.
End RescaleTerms.

(* 7, all terms: yields of the samples carrying the normfactor mu times k, theta mu divided by k -- the whole term list is unchanged *)
Theorem signal_rescale_covariant_terms : forall N,
  field_theory (n0 N) (n1 N) (nadd N) (nmul N) (nsub N) (nopp N) (ndiv N) (ninv N) eq ->
  forall ia im nc hc cs cb (mu : string) (k : V N), k <> n0 N ->
  forall (sp : spec N) (theta : string -> nat -> V N),
  NoDup (map c_name (channels sp)) ->
  (forall c s m, In c (channels sp) -> In s (c_samples c) -> In m (s_mods s) -> m_name m = mu -> m_type m = Normfactor) ->
  (forall c s, In c (channels sp) -> In s (c_samples c) -> has_mod N s mu Normfactor = true -> NoDup (map mkey (s_mods s))) ->
  (forall c s m, In c (channels sp) -> In s (c_samples c) -> has_mod N s mu Normfactor = true -> In m (s_mods s) ->
     m_type m <> Histosys /\ m_type m <> Staterror /\ m_type m <> Shapesys) ->
  forall obs aux,
  ref_expected N ia im nc hc cs cb (rescale_signal N mu k sp) (rescale_theta N mu k theta) = ref_expected N ia im nc hc cs cb sp theta /\
  ref_cterms N (rescale_signal N mu k sp) (rescale_theta N mu k theta) aux = ref_cterms N sp theta aux /\
  ref_terms N ia im nc hc cs cb (rescale_signal N mu k sp) (rescale_theta N mu k theta) obs aux = ref_terms N ia im nc hc cs cb sp theta obs aux.
Proof.
  intros N Hf ia im nc hc cs cb mu k Hk sp theta Hnd Honly Honce Hno obs aux.
  destruct (signal_rescale_covariant_spec N Hf ia im nc hc cs cb mu k Hk sp theta Hnd Honly Honce
              (fun c s m Hc Hs Hh Hm => proj1 (Hno c s m Hc Hs Hh Hm)) obs) as [H1 H2].
  assert (H3 : ref_cterms N (rescale_signal N mu k sp) (rescale_theta N mu k theta) aux = ref_cterms N sp theta aux).
  { apply signal_rescale_cterms; auto. intros c s m Hc Hs Hh Hm. destruct (Hno c s m Hc Hs Hh Hm) as [_ H]. exact H. }
  split; auto. split; auto. unfold ref_terms. now rewrite H2, H3.
Qed.
