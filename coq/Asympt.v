(* C07 - pyhf.infer.calculators: AsymptoticTestStatDistribution and the asymptotic part of
   AsymptoticCalculator (teststatistic's transform, distributions, pvalues, expected_pvalues).
   Part 1: literal transcription over the number record, with the normal cdf `Phi` and `sqrt`
   abstract.  Part 2: the formulae of arXiv:1007.1727 at the real instance.  Part 3: ordering
   and the band, from named hypotheses about Phi.  AsymptPhi.v supplies the concrete Phi. *)
From Coq Require Import ZArith QArith Qcanon Reals Lra Lia Bool List.
Require Import PV.Num.
Import ListNotations.
Local Open Scope list_scope.

Inductive tkind := KQ | KQtilde | KQ0.                    (* test_stat = 'q' | 'qtilde' | 'q0' *)
Inductive basedist := BNormal | BClipped | BOther.        (* calc_base_dist; BOther = any other string *)
Inductive cerr := ENeedTeststat | EUnknownBase.           (* RuntimeError | ValueError *)

(* ====================================================================================== *)
Section Model.
Variable N : Num.
Variable Phi : V N -> V N.          (* tensorlib.normal_cdf *)
Variable sqrt : V N -> V N.         (* tensorlib.sqrt *)
Notation T := (V N).
Notation "a + b" := (nadd N a b). Notation "a - b" := (nsub N a b).
Notation "a * b" := (nmul N a b). Notation "a / b" := (ndiv N a b). Notation "- a" := (nopp N a).
Notation two := (nadd N (n1 N) (n1 N)).

(* AsymptoticTestStatDistribution(shift, cutoff=float("-inf")) ; None is -inf *)
Record dist := mkDist { shift : T; cutoff : option T }.

(* value >= self.cutoff *)
Definition ge_cutoff (x : T) (c : option T) : bool := match c with None => true | Some c => nleb N c x end.

(* def cdf(self, value): return tensorlib.normal_cdf(value - self.shift) *)
Definition cdf (d : dist) (value : T) : T := Phi (value - shift d).

(* def pvalue(self, value):
     return_value = normal_cdf(-(value - self.shift)); where(value >= self.cutoff, return_value, nan)
   nan is None *)
Definition pvalue (d : dist) (value : T) : option T :=
  let return_value := Phi (- (value - shift d)) in
  if ge_cutoff value (cutoff d) then Some return_value else None.

(* def expected_value(self, nsigma):
     where(self.shift + nsigma > self.cutoff, self.shift + nsigma, self.cutoff) *)
Definition expected_value (d : dist) (nsigma : T) : T :=
  match cutoff d with
  | None => shift d + nsigma                      (* anything finite > -inf *)
  | Some c => if nltb N c (shift d + nsigma) then shift d + nsigma else c
  end.

(* AsymptoticCalculator.distributions: needs the cached sqrtqmuA_v *)
Definition distributions (sqrtqmuA_v : option T) (b : basedist) : cerr + (dist * dist) :=
  match sqrtqmuA_v with
  | None => inl ENeedTeststat
  | Some sA =>
    match (match b with BNormal => Some None | BClipped => Some (Some (- sA)) | BOther => None end) with
    | None => inl EUnknownBase
    | Some cut => inr (mkDist (- sA) cut, mkDist (n0 N) cut)
    end
  end.

(* the tail of AsymptoticCalculator.teststatistic, after sqrtqmu_v = sqrt(qmu_v), sqrtqmuA_v = sqrt(qmuA_v) *)
Definition true_case (s sA : T) : T := s - sA.
Definition false_case (s sA : T) : T :=
  let qmu := s * s in            (* tensorlib.power(sqrtqmu_v, 2) *)
  let qmu_A := sA * sA in
  (qmu - qmu_A) / (two * sA).
Definition teststat_of_sqrt (k : tkind) (s sA : T) : T :=
  match k with
  | KQ | KQ0 => s - sA
  | KQtilde => if nleb N s sA then true_case s sA else false_case s sA
  end.
(* returns (teststat, new value of self.sqrtqmuA_v) *)
Definition teststatistic (k : tkind) (qmu_v qmuA_v : T) : T * T :=
  let sqrtqmu_v := sqrt qmu_v in
  let sqrtqmuA_v := sqrt qmuA_v in
  (teststat_of_sqrt k sqrtqmu_v sqrtqmuA_v, sqrtqmuA_v).

(* CLs = CLsb / CLb on floats: nan propagates *)
Definition odiv (a b : option T) : option T :=
  match a, b with Some x, Some y => Some (x / y) | _, _ => None end.

Definition pvalues (teststat : T) (sb b : dist) : option T * option T * option T :=
  let CLsb := pvalue sb teststat in
  let CLb := pvalue b teststat in
  (CLsb, CLb, odiv CLsb CLb).

Definition nsigmas : list T := map (nofZ N) [2; 1; 0; -1; -2]%Z.

(* list(map(list, zip( *(self.pvalues(ts, sb, b) for ts in [b.expected_value(n) for n in [2,1,0,-1,-2]])))) *)
Definition expected_pvalues (sb b : dist) : list (list (option T)) :=
  let rows := map (fun ts => pvalues ts sb b) (map (expected_value b) nsigmas) in
  [map (fun r => fst (fst r)) rows; map (fun r => snd (fst r)) rows; map (fun r => snd r) rows].

(* what hypotest does with a calculator: teststatistic ; distributions ; pvalues ; expected_pvalues *)
Definition run_obs (k : tkind) (b : basedist) (q qA : T) : cerr + (option T * option T * option T) :=
  let (ts, sA) := teststatistic k q qA in
  match distributions (Some sA) b with
  | inl e => inl e
  | inr (dsb, db) => inr (pvalues ts dsb db)
  end.
Definition run_exp (k : tkind) (b : basedist) (q qA : T) : cerr + list (list (option T)) :=
  let (ts, sA) := teststatistic k q qA in
  match distributions (Some sA) b with
  | inl e => inl e
  | inr (dsb, db) => inr (expected_pvalues dsb db)
  end.

(* the expected band depends on the base distribution and on qA only *)
Lemma run_exp_indep : forall k k' b q q' qA, run_exp k b q qA = run_exp k' b q' qA.
Proof. reflexivity. Qed.

Definition CLsb_of (r : cerr + (option T * option T * option T)) := match r with inr (a, _, _) => a | _ => None end.
Definition CLb_of (r : cerr + (option T * option T * option T)) := match r with inr (_, b, _) => b | _ => None end.
Definition CLs_of (r : cerr + (option T * option T * option T)) := match r with inr (_, _, c) => c | _ => None end.

(* ---------- facts that hold for every number instance (no order theory needed) ---------- *)
Lemma cls_is_ratio_gen : forall ts sb b, snd (pvalues ts sb b) = odiv (fst (fst (pvalues ts sb b))) (snd (fst (pvalues ts sb b))).
Proof. reflexivity. Qed.

Lemma distributions_need_teststat : forall b, distributions None b = inl ENeedTeststat.
Proof. reflexivity. Qed.
Lemma distributions_unknown_base : forall sA, distributions (Some sA) BOther = inl EUnknownBase.
Proof. reflexivity. Qed.

Lemma expected_pvalues_shape : forall sb b, length (expected_pvalues sb b) = 3%nat /\
  Forall (fun l => length l = 5%nat) (expected_pvalues sb b).
Proof. intros. split; [reflexivity|]. repeat constructor. Qed.

Section Ring.
Hypothesis Hring : ring_theory (n0 N) (n1 N) (nadd N) (nmul N) (nsub N) (nopp N) eq.
Add Ring NR : Hring.

(* with the normal base every p-value is defined and the arguments of the cdf are these *)
Lemma pvalues_normal_args : forall k s sA,
  let ts := teststat_of_sqrt k s sA in
  pvalues ts (mkDist (- sA) None) (mkDist (n0 N) None)
  = (Some (Phi (- (ts + sA))), Some (Phi (- ts)), Some (Phi (- (ts + sA)) / Phi (- ts))).
Proof. intros. unfold pvalues, pvalue; simpl.
  replace (- (ts - - sA)) with (- (ts + sA)) by ring.
  replace (- (ts - n0 N)) with (- ts) by ring. reflexivity. Qed.

Lemma teststat_q_arg : forall k s sA, k <> KQtilde -> teststat_of_sqrt k s sA + sA = s.
Proof. intros k s sA Hk. destruct k; try congruence; simpl; ring. Qed.
Lemma teststat_qtilde_low_arg : forall s sA, nleb N s sA = true -> teststat_of_sqrt KQtilde s sA + sA = s.
Proof. intros s sA H. simpl. rewrite H. unfold true_case. ring. Qed.

Lemma expected_value_normal : forall sh n, expected_value (mkDist sh None) n = sh + n.
Proof. reflexivity. Qed.
End Ring.

Section Field.
Hypothesis Hfield : field_theory (n0 N) (n1 N) (nadd N) (nmul N) (nsub N) (nopp N) (ndiv N) (ninv N) eq.
Add Field NF : Hfield.
Hypothesis two_neq_0 : two <> n0 N.

Lemma false_case_arg_sb : forall s sA, sA <> n0 N -> false_case s sA + sA = (s * s + sA * sA) / (two * sA).
Proof. intros. unfold false_case. field. split; assumption. Qed.
(* the two branches give the same value where they meet *)
Lemma branches_agree_at_seam_gen : forall sA, sA <> n0 N -> false_case sA sA = true_case sA sA.
Proof. intros. unfold false_case, true_case. field. split; assumption. Qed.
End Field.
End Model.

Arguments mkDist {N}. Arguments shift {N}. Arguments cutoff {N}.

(* ====================================================================================== *)
(* the facts about the normal cdf that Part 3 uses, as named predicates (AsymptPhi.v proves them for the
   concrete Phi from the single fact that the Gaussian integrates to one) *)
Definition cdf_symmetric (Phi : R -> R) : Prop := forall x : R, Phi (- x)%R = (1 - Phi x)%R.
Definition cdf_increasing (Phi : R -> R) : Prop := forall x y : R, (x <= y)%R -> (Phi x <= Phi y)%R.
Definition cdf_positive (Phi : R -> R) : Prop := forall x : R, (0 < Phi x)%R.
(* log-concavity in four-point form *)
Definition cdf_logconcave (Phi : R -> R) : Prop :=
  forall u v t : R, (0 <= t)%R -> (t <= v - u)%R -> (Phi u * Phi v <= Phi (u + t) * Phi (v - t))%R.

(* ====================================================================================== *)
(* Part 2: the real instance: the formulae *)
Section Reals.
Local Open Scope R_scope.
Variable Phi : R -> R.

Notation mkD := (@mkDist RNum).
Notation run := (run_obs RNum Phi sqrt).
Notation runx := (run_exp RNum Phi sqrt).

Lemma rleb_true a b : a <= b -> rleb a b = true.
Proof. intro. apply rleb_le; assumption. Qed.
Lemma rleb_false a b : b < a -> rleb a b = false.
Proof. intro. unfold rleb. destruct (Rle_dec a b); auto. lra. Qed.
Lemma rltb_true a b : a < b -> rltb a b = true.
Proof. intro. apply rltb_lt; assumption. Qed.
Lemma rltb_false a b : b <= a -> rltb a b = false.
Proof. intro. unfold rltb. destruct (Rlt_dec a b); auto. lra. Qed.

Lemma sqrt_le_iff q qA : 0 <= q -> 0 <= qA -> (sqrt q <= sqrt qA <-> q <= qA).
Proof. intros. split; intro.
  - apply sqrt_le_0; assumption.
  - apply sqrt_le_1; assumption. Qed.

Definition known (b : basedist) := b = BNormal \/ b = BClipped.

(* value of the transformed statistic *)
Definition tstat (k : tkind) (q qA : R) : R := fst (teststatistic RNum sqrt k q qA).

Lemma tstat_q : forall k q qA, k <> KQtilde -> tstat k q qA = sqrt q - sqrt qA.
Proof. intros k q qA Hk. destruct k; try congruence; reflexivity. Qed.
Lemma tstat_qtilde_low : forall q qA, 0 <= q -> 0 <= qA -> q <= qA -> tstat KQtilde q qA = sqrt q - sqrt qA.
Proof. intros. unfold tstat; simpl. rewrite rleb_true; [reflexivity|]. apply sqrt_le_iff; assumption. Qed.
Lemma tstat_qtilde_high : forall q qA, 0 < qA -> qA < q -> tstat KQtilde q qA = (q - qA) / (2 * sqrt qA).
Proof. intros. unfold tstat; simpl. rewrite rleb_false.
  - unfold false_case; simpl. rewrite !sqrt_sqrt by lra. reflexivity.
  - apply sqrt_lt_1; lra. Qed.

(* the observed statistic is never below the cutoff of the clipped base: no nan *)
Lemma tstat_ge_cutoff : forall k q qA, 0 <= q -> 0 <= qA -> - sqrt qA <= tstat k q qA.
Proof. intros k q qA Hq HqA.
  pose proof (sqrt_pos q). pose proof (sqrt_pos qA).
  destruct k; try (rewrite tstat_q by congruence; lra).
  destruct (Rle_dec q qA).
  - rewrite tstat_qtilde_low by assumption. lra.
  - destruct (Req_dec qA 0) as [->|Hne].
    + unfold tstat; simpl. rewrite sqrt_0. unfold rleb. destruct (Rle_dec (sqrt q) 0).
      * unfold true_case; simpl. lra.
      * unfold false_case; simpl. rewrite !Rmult_0_r. unfold Rdiv. rewrite Rinv_0. lra.
    + rewrite tstat_qtilde_high by lra.
      assert (0 < sqrt qA) by (apply sqrt_lt_R0; lra).
      assert (0 <= (q - qA) / (2 * sqrt qA)). { apply Rmult_le_pos; [lra|]. left. apply Rinv_0_lt_compat. lra. }
      lra. Qed.

(* observed p-values in closed form, for both bases *)
Lemma run_obs_closed : forall k b q qA, known b -> 0 <= q -> 0 <= qA ->
  let ts := tstat k q qA in
  run k b q qA = inr (Some (Phi (- (ts + sqrt qA))), Some (Phi (- ts)), Some (Phi (- (ts + sqrt qA)) / Phi (- ts))).
Proof. intros k b q qA Hb Hq HqA ts.
  pose proof (tstat_ge_cutoff k q qA Hq HqA) as Hc. fold ts in Hc.
  unfold run_obs. change (teststatistic RNum sqrt k q qA) with (ts, sqrt qA).
  destruct Hb as [-> | ->]; simpl; unfold pvalues, pvalue; simpl.
  - replace (- (ts - - sqrt qA)) with (- (ts + sqrt qA)) by ring.
    replace (- (ts - 0)) with (- ts) by ring. reflexivity.
  - rewrite rleb_true by exact Hc.
    replace (- (ts - - sqrt qA)) with (- (ts + sqrt qA)) by ring.
    replace (- (ts - 0)) with (- ts) by ring. reflexivity. Qed.

(* ---- the formulae, with Phi(-x) (what is computed) ---- *)
Theorem clsb_q_neg : forall k b q qA, k <> KQtilde -> known b -> 0 <= q -> 0 <= qA ->
  CLsb_of RNum (run k b q qA) = Some (Phi (- sqrt q)).
Proof. intros. rewrite run_obs_closed by assumption. simpl. rewrite tstat_q by assumption. do 2 f_equal. ring. Qed.
Theorem clb_q_neg : forall k b q qA, k <> KQtilde -> known b -> 0 <= q -> 0 <= qA ->
  CLb_of RNum (run k b q qA) = Some (Phi (- (sqrt q - sqrt qA))).
Proof. intros. rewrite run_obs_closed by assumption. simpl. rewrite tstat_q by assumption. reflexivity. Qed.
Theorem clsb_qtilde_low_neg : forall b q qA, known b -> 0 <= q -> 0 <= qA -> q <= qA ->
  CLsb_of RNum (run KQtilde b q qA) = Some (Phi (- sqrt q)).
Proof. intros. rewrite run_obs_closed by assumption. simpl. rewrite tstat_qtilde_low by assumption. do 2 f_equal. ring. Qed.
Theorem clb_qtilde_low_neg : forall b q qA, known b -> 0 <= q -> 0 <= qA -> q <= qA ->
  CLb_of RNum (run KQtilde b q qA) = Some (Phi (- (sqrt q - sqrt qA))).
Proof. intros. rewrite run_obs_closed by assumption. simpl. rewrite tstat_qtilde_low by assumption. reflexivity. Qed.
Theorem clsb_qtilde_high_neg : forall b q qA, known b -> 0 < qA -> qA < q ->
  CLsb_of RNum (run KQtilde b q qA) = Some (Phi (- ((q + qA) / (2 * sqrt qA)))).
Proof. intros. rewrite run_obs_closed by (assumption || lra). simpl. rewrite tstat_qtilde_high by assumption.
  do 2 f_equal. assert (Hpos : 0 < sqrt qA) by (apply sqrt_lt_R0; lra).
  assert (Hs : qA = sqrt qA * sqrt qA) by (symmetry; apply sqrt_sqrt; lra).
  set (s := sqrt qA) in *. clearbody s. subst qA. field. lra. Qed.
Theorem clb_qtilde_high_neg : forall b q qA, known b -> 0 < qA -> qA < q ->
  CLb_of RNum (run KQtilde b q qA) = Some (Phi (- ((q - qA) / (2 * sqrt qA)))).
Proof. intros. rewrite run_obs_closed by (assumption || lra). simpl. rewrite tstat_qtilde_high by assumption. reflexivity. Qed.

Theorem cls_is_ratio : forall k b q qA, known b -> 0 <= q -> 0 <= qA ->
  exists sb bb, CLsb_of RNum (run k b q qA) = Some sb /\ CLb_of RNum (run k b q qA) = Some bb /\
                CLs_of RNum (run k b q qA) = Some (sb / bb).
Proof. intros. rewrite run_obs_closed by assumption. simpl. eauto. Qed.

(* the two qtilde branches meet at q = qA *)
Theorem branches_agree_at_seam : forall qA, 0 < qA ->
  (qA + qA) / (2 * sqrt qA) = sqrt qA /\ (qA - qA) / (2 * sqrt qA) = sqrt qA - sqrt qA /\
  false_case RNum (sqrt qA) (sqrt qA) = true_case RNum (sqrt qA) (sqrt qA).
Proof. intros qA H. assert (0 < sqrt qA) by (apply sqrt_lt_R0; lra).
  repeat split.
  - assert (Hs : qA = sqrt qA * sqrt qA) by (symmetry; apply sqrt_sqrt; lra).
    set (s := sqrt qA) in *. clearbody s. subst qA. field. lra.
  - field. lra.
  - unfold false_case, true_case; simpl. field. lra. Qed.

(* beyond the seam the high branch exceeds the continuation of the low branch by a term quadratic in
   the distance to the seam: the transformed statistic is continuous (even C1) in q at q = qA *)
Theorem seam_gap : forall q qA, 0 < qA -> qA < q ->
  tstat KQtilde q qA - (sqrt q - sqrt qA) = (sqrt q - sqrt qA) * (sqrt q - sqrt qA) / (2 * sqrt qA).
Proof. intros q qA H1 H2. rewrite tstat_qtilde_high by assumption.
  assert (0 < sqrt qA) by (apply sqrt_lt_R0; lra).
  assert (Hs : qA = sqrt qA * sqrt qA) by (symmetry; apply sqrt_sqrt; lra).
  assert (Ht : q = sqrt q * sqrt q) by (symmetry; apply sqrt_sqrt; lra).
  set (s := sqrt qA) in *. set (t := sqrt q) in *. clearbody s t. subst q qA. field. lra. Qed.

(* ---- expected band ---- *)
Definition Ns : list R := [2; 1; 0; -1; -2].
Lemma nsigmas_R : nsigmas RNum = Ns. Proof. reflexivity. Qed.

Definition band_of (r : cerr + list (list (option R))) (i : nat) : list (option R) :=
  match r with inr l => nth i l [] | inl _ => [] end.

Theorem expected_N : forall k q qA,
  band_of (runx k BNormal q qA) 0 = map (fun n => Some (Phi (- n - sqrt qA))) Ns /\
  band_of (runx k BNormal q qA) 1 = map (fun n => Some (Phi (- n))) Ns /\
  band_of (runx k BNormal q qA) 2 = map (fun n => Some (Phi (- n - sqrt qA) / Phi (- n))) Ns.
Proof. intros. unfold run_exp. destruct (teststatistic RNum sqrt k q qA) as [ts sA] eqn:E.
  assert (sA = sqrt qA) as -> by (unfold teststatistic in E; congruence).
  simpl. unfold pvalues, pvalue; simpl.
  repeat split; repeat (f_equal; try (unfold expected_value; simpl; ring)). Qed.

(* clipped base: the expected statistic is max(n, -sA) *)
Lemma expected_value_clipped : forall sA n,
  expected_value RNum (mkD 0 (Some (- sA))) n = Rmax n (- sA).
Proof. intros. unfold expected_value; simpl. unfold rltb. rewrite Rplus_0_l.
  destruct (Rlt_dec (- sA) n); [rewrite Rmax_left|rewrite Rmax_right]; lra. Qed.

Theorem expected_N_clipped : forall k q qA,
  let x n := Rmax n (- sqrt qA) in
  band_of (runx k BClipped q qA) 0 = map (fun n => Some (Phi (- x n - sqrt qA))) Ns /\
  band_of (runx k BClipped q qA) 1 = map (fun n => Some (Phi (- x n))) Ns /\
  band_of (runx k BClipped q qA) 2 = map (fun n => Some (Phi (- x n - sqrt qA) / Phi (- x n))) Ns.
Proof. intros k q qA x. unfold run_exp. destruct (teststatistic RNum sqrt k q qA) as [ts sA] eqn:E.
  assert (sA = sqrt qA) as -> by (unfold teststatistic in E; congruence).
  unfold distributions, expected_pvalues. rewrite nsigmas_R. unfold Ns. cbn [map band_of nth].
  rewrite !expected_value_clipped. fold (x 2) (x 1) (x 0) (x (-1)) (x (-2)).
  assert (Hp : forall n, pvalues RNum Phi (x n) (mkD (- sqrt qA) (Some (- sqrt qA))) (mkD 0 (Some (- sqrt qA)))
     = (Some (Phi (- x n - sqrt qA)), Some (Phi (- x n)), Some (Phi (- x n - sqrt qA) / Phi (- x n)))).
  { intro n. unfold pvalues, pvalue; simpl. rewrite rleb_true by (unfold x; apply Rmax_r).
    replace (- (x n - - sqrt qA)) with (- x n - sqrt qA) by ring.
    replace (- (x n - 0)) with (- x n) by ring. reflexivity. }
  rewrite !Hp. simpl. repeat split. Qed.

(* with the clipped base no expected value corresponds to a negative test statistic:
   in -muhat/sigma space the s+b distribution sits at -sA, so sqrt(q_expected) = value + sA *)
Theorem clipped_never_negative_stat : forall sA n sb b,
  distributions RNum (Some sA) BClipped = inr (sb, b) ->
  0 <= expected_value RNum b n - shift sb /\ pvalue RNum Phi sb (expected_value RNum b n) <> None
  /\ pvalue RNum Phi b (expected_value RNum b n) <> None.
Proof. intros sA n sb b H. inversion H; subst; clear H. rewrite expected_value_clipped. simpl.
  pose proof (Rmax_r n (- sA)). split; [lra|]. unfold pvalue; simpl. rewrite rleb_true by assumption.
  split; discriminate. Qed.

(* ... and everything else is unchanged: expected values above the cutoff, and every observed p-value *)
Theorem clipped_else_unchanged : forall sA n sbc bc sbn bn,
  distributions RNum (Some sA) BClipped = inr (sbc, bc) ->
  distributions RNum (Some sA) BNormal = inr (sbn, bn) ->
  (0 <= n + sA ->
     expected_value RNum bc n = expected_value RNum bn n /\
     pvalues RNum Phi (expected_value RNum bc n) sbc bc = pvalues RNum Phi (expected_value RNum bn n) sbn bn) /\
  (forall x, - sA <= x -> pvalues RNum Phi x sbc bc = pvalues RNum Phi x sbn bn).
Proof. intros sA n sbc bc sbn bn Hc Hn. inversion Hc; subst; clear Hc. inversion Hn; subst; clear Hn.
  assert (Hx : forall x, - sA <= x -> pvalues RNum Phi x (mkD (- sA) (Some (- sA))) (mkD 0 (Some (- sA)))
                                   = pvalues RNum Phi x (mkD (- sA) None) (mkD 0 None)).
  { intros x Hx. unfold pvalues, pvalue; simpl. rewrite rleb_true by assumption. reflexivity. }
  split; [|exact Hx]. intro H.
  assert (He : expected_value RNum (mkD 0 (Some (- sA))) n = expected_value RNum (mkD 0 None) n).
  { rewrite expected_value_clipped. unfold expected_value; simpl. rewrite Rmax_left by lra. ring. }
  split; [exact He|]. rewrite He. apply Hx. unfold expected_value; simpl. lra. Qed.

Theorem clipped_observed_unchanged : forall k q qA, 0 <= q -> 0 <= qA ->
  run k BClipped q qA = run k BNormal q qA.
Proof. intros. rewrite !run_obs_closed by (assumption || (unfold known; auto)). reflexivity. Qed.

(* ====================================================================================== *)
(* Part 3: consequences that need facts about Phi *)
Section PhiFacts.
Hypothesis Phi_sym : cdf_symmetric Phi.
Hypothesis Phi_increasing : cdf_increasing Phi.
Hypothesis Phi_pos : cdf_positive Phi.
Hypothesis Phi_logconcave : cdf_logconcave Phi.

Lemma Phi_le_1 : forall x, Phi x <= 1.
Proof. intro x. pose proof (Phi_sym x). pose proof (Phi_pos (- x)). lra. Qed.

(* the formulae as printed in arXiv:1007.1727 *)
Theorem clsb_q : forall k b q qA, k <> KQtilde -> known b -> 0 <= q -> 0 <= qA ->
  CLsb_of RNum (run k b q qA) = Some (1 - Phi (sqrt q)).
Proof. intros. rewrite clsb_q_neg by assumption. now rewrite Phi_sym. Qed.
Theorem clb_q : forall k b q qA, k <> KQtilde -> known b -> 0 <= q -> 0 <= qA ->
  CLb_of RNum (run k b q qA) = Some (1 - Phi (sqrt q - sqrt qA)).
Proof. intros. rewrite clb_q_neg by assumption. now rewrite Phi_sym. Qed.
Theorem clsb_qtilde_low : forall b q qA, known b -> 0 <= q -> 0 <= qA -> q <= qA ->
  CLsb_of RNum (run KQtilde b q qA) = Some (1 - Phi (sqrt q)).
Proof. intros. rewrite clsb_qtilde_low_neg by assumption. now rewrite Phi_sym. Qed.
Theorem clb_qtilde_low : forall b q qA, known b -> 0 <= q -> 0 <= qA -> q <= qA ->
  CLb_of RNum (run KQtilde b q qA) = Some (1 - Phi (sqrt q - sqrt qA)).
Proof. intros. rewrite clb_qtilde_low_neg by assumption. now rewrite Phi_sym. Qed.
Theorem clsb_qtilde_high : forall b q qA, known b -> 0 < qA -> qA < q ->
  CLsb_of RNum (run KQtilde b q qA) = Some (1 - Phi ((q + qA) / (2 * sqrt qA))).
Proof. intros. rewrite clsb_qtilde_high_neg by assumption. now rewrite Phi_sym. Qed.
Theorem clb_qtilde_high : forall b q qA, known b -> 0 < qA -> qA < q ->
  CLb_of RNum (run KQtilde b q qA) = Some (1 - Phi ((q - qA) / (2 * sqrt qA))).
Proof. intros. rewrite clb_qtilde_high_neg by assumption. now rewrite Phi_sym. Qed.

Theorem ordering : forall k b q qA, known b -> 0 <= q -> 0 <= qA ->
  exists sb bb s, run k b q qA = inr (Some sb, Some bb, Some s) /\
    0 <= sb /\ sb <= bb /\ bb <= 1 /\ 0 <= s /\ s <= 1.
Proof. intros k b q qA Hb Hq HqA. rewrite run_obs_closed by assumption.
  set (ts := tstat k q qA). do 3 eexists. split; [reflexivity|].
  pose proof (sqrt_pos qA) as HsA.
  pose proof (Phi_pos (- (ts + sqrt qA))) as P1. pose proof (Phi_pos (- ts)) as P2.
  assert (P3 : Phi (- (ts + sqrt qA)) <= Phi (- ts)) by (apply Phi_increasing; lra).
  pose proof (Phi_le_1 (- ts)).
  repeat split; try lra.
  - apply Rmult_le_pos; [lra|]. left. now apply Rinv_0_lt_compat.
  - apply Rmult_le_reg_r with (Phi (- ts)); [assumption|]. unfold Rdiv. rewrite Rmult_assoc, Rinv_l by lra. lra. Qed.

(* ratio r a x = Phi(x - a)/Phi(x) is non-decreasing in x for a >= 0 *)
Lemma ratio_monotone : forall a x y, 0 <= a -> x <= y -> Phi (x - a) / Phi x <= Phi (y - a) / Phi y.
Proof. intros a x y Ha Hxy. pose proof (Phi_pos x). pose proof (Phi_pos y).
  apply Rmult_le_reg_r with (Phi x * Phi y); [apply Rmult_lt_0_compat; assumption|].
  replace (Phi (x - a) / Phi x * (Phi x * Phi y)) with (Phi (x - a) * Phi y) by (field; lra).
  replace (Phi (y - a) / Phi y * (Phi x * Phi y)) with (Phi x * Phi (y - a)) by (field; lra).
  pose proof (Phi_logconcave (x - a) y a Ha ltac:(lra)) as L.
  replace (x - a + a) with x in L by ring. exact L. Qed.

Fixpoint nondecr (l : list (option R)) : Prop :=
  match l with
  | Some a :: ((Some b :: _) as t) => a <= b /\ nondecr t
  | [Some _] => True | [] => True
  | _ => False
  end.

(* the five-point band, in the order returned (index 0 = -2 sigma ... index 4 = +2 sigma), is
   non-decreasing: for CLs (used for q, qtilde) and for CLsb (used for q0), and CLb, both bases *)
Theorem band_monotone : forall k b q qA, known b -> 0 <= qA ->
  nondecr (band_of (runx k b q qA) 0) /\ nondecr (band_of (runx k b q qA) 1) /\ nondecr (band_of (runx k b q qA) 2).
Proof. intros k b q qA Hb HqA. pose proof (sqrt_pos qA) as HsA.
  assert (Hgen : forall x2 x1 x0 xm1 xm2 : R, x1 <= x2 -> x0 <= x1 -> xm1 <= x0 -> xm2 <= xm1 ->
    nondecr (map (fun x => Some (Phi (- x - sqrt qA))) [x2; x1; x0; xm1; xm2]) /\
    nondecr (map (fun x => Some (Phi (- x))) [x2; x1; x0; xm1; xm2]) /\
    nondecr (map (fun x => Some (Phi (- x - sqrt qA) / Phi (- x))) [x2; x1; x0; xm1; xm2])).
  { intros. simpl. repeat split; try (apply Phi_increasing; lra); try (apply ratio_monotone; lra). }
  destruct Hb as [-> | ->].
  - destruct (expected_N k q qA) as (E0 & E1 & E2). rewrite E0, E1, E2. apply Hgen; lra.
  - destruct (expected_N_clipped k q qA) as (E0 & E1 & E2). rewrite E0, E1, E2.
    change (map (fun n : R => Some (Phi (- Rmax n (- sqrt qA) - sqrt qA))) Ns)
      with (map (fun x => Some (Phi (- x - sqrt qA))) (map (fun n => Rmax n (- sqrt qA)) Ns)).
    change (map (fun n : R => Some (Phi (- Rmax n (- sqrt qA)))) Ns)
      with (map (fun x => Some (Phi (- x))) (map (fun n => Rmax n (- sqrt qA)) Ns)).
    change (map (fun n : R => Some (Phi (- Rmax n (- sqrt qA) - sqrt qA) / Phi (- Rmax n (- sqrt qA)))) Ns)
      with (map (fun x => Some (Phi (- x - sqrt qA) / Phi (- x))) (map (fun n => Rmax n (- sqrt qA)) Ns)).
    unfold Ns; cbn [map]. apply Hgen; apply Rle_max_compat_r; lra. Qed.

End PhiFacts.
End Reals.

(* non-vacuity of the premises used above *)
Example known_nonvacuous : known BNormal /\ known BClipped /\ ~ known BOther.
Proof. unfold known. repeat split; auto. intros [H | H]; discriminate. Qed.
Example qtilde_high_region_nonvacuous : exists q qA : R, (0 < qA)%R /\ (qA < q)%R /\ tstat KQtilde q qA = ((q - qA) / (2 * sqrt qA))%R.
Proof. exists 4%R, 1%R. repeat split; try lra. apply tstat_qtilde_high; lra. Qed.
Example qtilde_low_region_nonvacuous : exists q qA : R, (0 <= q)%R /\ (q <= qA)%R /\ tstat KQtilde q qA = (sqrt q - sqrt qA)%R.
Proof. exists 1%R, 4%R. repeat split; try lra. apply tstat_qtilde_low; lra. Qed.
