(* C11 - pyhf.events / pyhf.tensor.manager.set_backend / the `_precompute` protocol of every tensor-holding class.

   Implementation model (literal): global state (current tensorlib = name x precision, current optimizer object),
   the registry of 'tensorlib_changed' (ordered list of weak references to bound methods), a heap of objects.
   `set_backend` swaps the state, fires 'tensorlib_changed' iff name or precision differ, 'optimizer_changed' iff the
   optimizer object differs; `Callables.__call__` walks the registry in subscription order, skips dead weak references,
   flushes them afterwards.  What `__init__`/`_precompute`/evaluation of a class do is driven by a fact table
   extracted from the source on every run (coq/gen/FactsC11.v).

   Reference side: `fresh_obs` - what a freshly built object of the same class/data holds under the current backend. *)
From Coq Require Import Bool Arith Lia String List.
Import ListNotations.
Local Open Scope string_scope.
Local Open Scope list_scope.

(* ---------- backends ---------- *)
Inductive bname := Numpy | Jax | Pytorch | Tensorflow.
Inductive prec := B64 | B32.
Inductive oname := Scipy | Minuit.
Definition tlib := (bname * prec)%type.

Definition bname_eqb (a b : bname) : bool :=
  match a, b with Numpy, Numpy | Jax, Jax | Pytorch, Pytorch | Tensorflow, Tensorflow => true | _, _ => false end.
Definition prec_eqb (a b : prec) : bool := match a, b with B64, B64 | B32, B32 => true | _, _ => false end.
Definition oname_eqb (a b : oname) : bool := match a, b with Scipy, Scipy | Minuit, Minuit => true | _, _ => false end.
Definition tlib_eqb (a b : tlib) : bool := bname_eqb (fst a) (fst b) && prec_eqb (snd a) (snd b).

Lemma bname_eqb_eq a b : bname_eqb a b = true <-> a = b.
Proof. destruct a, b; simpl; split; intro H; try discriminate; auto. Qed.
Lemma prec_eqb_eq a b : prec_eqb a b = true <-> a = b.
Proof. destruct a, b; simpl; split; intro H; try discriminate; auto. Qed.
Lemma tlib_eqb_eq a b : tlib_eqb a b = true <-> a = b.
Proof. destruct a as [a1 a2], b as [b1 b2]. unfold tlib_eqb; simpl. rewrite andb_true_iff, bname_eqb_eq, prec_eqb_eq.
  split; [intros [-> ->]; auto | intro H; inversion H; auto]. Qed.
Lemma tlib_eqb_refl a : tlib_eqb a a = true.
Proof. now apply tlib_eqb_eq. Qed.

(* ---------- the extracted fact table ---------- *)
Record cfacts := {
  cf_name : string;
  cf_has_pre : bool;                      (* the class defines _precompute *)
  cf_cached : list string;                (* attributes assigned from tensorlib results anywhere in the class *)
  cf_refreshed : list string;             (* attributes (re)assigned by _precompute and the methods it calls *)
  cf_read : list string;                  (* attributes read on evaluation paths (own methods, or by name elsewhere) *)
  cf_subscribes : bool;                   (* __init__ subscribes self._precompute to 'tensorlib_changed' *)
  cf_conditional : bool;                  (* ... under `if subscribe:` (a constructor argument) *)
  cf_members : list (string * string);    (* member attribute -> class of the tensor-holding object built in __init__ *)
  cf_members_before : bool;               (* every member is built before the own subscription and first _precompute *)
  cf_pre_members : list string;           (* members whose attributes _precompute reads *)
  cf_hazards : list string;               (* syntactic hazards in _precompute: stale dependency, read-before-write, ... *)
  cf_pre_guarded : bool;                  (* _precompute returns early when the object selects no parameter *)
  cf_unguarded_eval : list string;        (* evaluation methods that read cached attributes without that guard *)
  cf_shape_attrs : list string;           (* attributes _precompute derives from the cached alphasets_shape *)
  cf_shape_refreshed : list string        (* attributes _precompute_alphasets reassigns when the shape changes *)
}.

Definition mem (a : string) (l : list string) : bool := existsb (String.eqb a) l.
Lemma mem_In a l : mem a l = true <-> In a l.
Proof. unfold mem. rewrite existsb_exists. split.
  - intros [x [Hx He]]. apply String.eqb_eq in He. now subst.
  - intro H. exists a. split; auto. apply String.eqb_refl. Qed.
Definition inclb (l l' : list string) : bool := forallb (fun a => mem a l') l.
Lemma inclb_incl l l' : inclb l l' = true -> forall a, In a l -> In a l'.
Proof. unfold inclb. rewrite forallb_forall. intros H a Ha. apply mem_In. auto. Qed.
Definition is_nil {A} (l : list A) : bool := match l with [] => true | _ => false end.
Fixpoint nodupb (l : list string) : bool := match l with [] => true | a :: t => negb (mem a t) && nodupb t end.

Fixpoint find_class (F : list cfacts) (n : string) : option cfacts :=
  match F with [] => None | c :: r => if String.eqb (cf_name c) n then Some c else find_class r n end.

Definition INTERP := "<interpolator>".

Definition class_ok (F : list cfacts) (interps : list string) (c : cfacts) : bool :=
  cf_has_pre c
  && inclb (filter (fun a => mem a (cf_cached c)) (cf_read c)) (cf_refreshed c)      (* read at evaluation => refreshed *)
  && cf_subscribes c                                                                 (* every such class subscribes *)
  && cf_members_before c                                                             (* dependencies subscribe earlier *)
  && inclb (cf_pre_members c) (map fst (cf_members c))
  && forallb (fun m => if String.eqb (snd m) INTERP then negb (is_nil interps)
                       else match find_class F (snd m) with Some _ => true | None => false end) (cf_members c)
  && is_nil (cf_hazards c)
  && is_nil (cf_unguarded_eval c)
  && inclb (cf_shape_attrs c) (cf_shape_refreshed c).

Definition facts_ok (F : list cfacts) (interps : list string) : bool :=
  negb (is_nil F) && nodupb (map cf_name F) && forallb (class_ok F interps) F
  && forallb (fun n => match find_class F n with Some c => cf_conditional c | None => false end) interps.

Lemma find_class_In F n c : find_class F n = Some c -> In c F /\ cf_name c = n.
Proof. induction F as [|x r IH]; simpl; [discriminate|]. destruct (String.eqb (cf_name x) n) eqn:E.
  - intro H; inversion H; subst. apply String.eqb_eq in E. auto.
  - intro H. destruct (IH H). auto. Qed.

Lemma facts_ok_class F I c : facts_ok F I = true -> In c F -> class_ok F I c = true.
Proof. unfold facts_ok. rewrite !andb_true_iff. intros [[[_ _] H] _] Hc. rewrite forallb_forall in H. auto. Qed.

(* ---------- values, objects, state ---------- *)
Record aval := { av_tl : tlib; av_shape : option nat; av_clean : bool }.
Definition optnat_eqb (a b : option nat) : bool :=
  match a, b with Some x, Some y => Nat.eqb x y | None, None => true | _, _ => false end.
Definition aval_eqb (a b : aval) : bool :=
  tlib_eqb (av_tl a) (av_tl b) && optnat_eqb (av_shape a) (av_shape b) && Bool.eqb (av_clean a) (av_clean b).
Lemma aval_eqb_eq a b : aval_eqb a b = true <-> a = b.
Proof. destruct a as [t1 s1 c1], b as [t2 s2 c2]. unfold aval_eqb; simpl. rewrite !andb_true_iff, tlib_eqb_eq, eqb_true_iff.
  split.
  - intros [[-> H] ->]. destruct s1, s2; simpl in H; try discriminate; auto. apply Nat.eqb_eq in H. now subst.
  - intro H; inversion H; subst. repeat split; auto. destruct s2; simpl; auto. apply Nat.eqb_refl. Qed.

Record obj := {
  o_cls : cfacts; o_tree : nat; o_live : bool; o_active : bool; o_shape : nat;
  o_deps : list nat;                     (* heap ids of the members _precompute reads *)
  o_attrs : list (string * aval)
}.

Inductive oarg := OByName (o : oname) | OCurrent.   (* optimizer given by name / None: a new object; or the current object *)

Record state := {
  cur_tl : tlib; cur_opt : oname * nat; next_opt : nat; next_tree : nat;
  heap : list obj; registry : list nat
}.

Definition init_state : state :=
  {| cur_tl := (Numpy, B64); cur_opt := (Scipy, 0); next_opt := 1; next_tree := 0; heap := []; registry := [] |}.

Inductive ev :=
  | EvTrigger (name : string)            (* events.trigger(name) was asked for *)
  | EvPre (id : nat)                     (* a registry round invoked _precompute of object id *)
  | EvSub (id : nat) (cls : string)      (* object id subscribed *)
  | EvObs (id : nat) (fresh : bool)      (* evaluation: does the object hold what a fresh one would *)
  | EvAllObs (fresh : bool)               (* evaluation of every live object: do they all hold what fresh ones would *)
  | EvShape (id : nat) (shape : nat).

Inductive tree := T (cls : string) (mattr : string) (active sub : bool) (shape : nat) (kids : list tree).
Inductive op :=
  | SetBackend (b : bname) (p : prec) (o : oarg)
  | Create (t : tree)
  | Delete (stamp : nat)
  | Eval (id : nat)
  | EvalAll                                  (* evaluate every live object *)
  | CallInterp (id : nat) (shape : nat).

(* ---------- attribute store ---------- *)
Fixpoint lookup (a : string) (l : list (string * aval)) : option aval :=
  match l with [] => None | (k, v) :: r => if String.eqb a k then Some v else lookup a r end.
Definition set_attrs (keys : list string) (f : string -> aval) (l : list (string * aval)) : list (string * aval) :=
  map (fun k => (k, f k)) keys ++ filter (fun kv => negb (mem (fst kv) keys)) l.

Lemma lookup_app_map a keys f l :
  lookup a (map (fun k => (k, f k)) keys ++ l) = if mem a keys then Some (f a) else lookup a l.
Proof. induction keys as [|k r IH]; simpl; auto. destruct (String.eqb a k) eqn:E; simpl.
  - apply String.eqb_eq in E. now subst.
  - apply IH. Qed.
Lemma lookup_filter_out a keys l : mem a keys = false ->
  lookup a (filter (fun kv : string * aval => negb (mem (fst kv) keys)) l) = lookup a l.
Proof. intro H. induction l as [|[k v] r IH]; simpl; auto. destruct (mem k keys) eqn:Ek; simpl.
  - destruct (String.eqb a k) eqn:E; auto. apply String.eqb_eq in E. subst. congruence.
  - destruct (String.eqb a k); auto. Qed.
Lemma lookup_set_attrs a keys f l :
  lookup a (set_attrs keys f l) = if mem a keys then Some (f a) else lookup a l.
Proof. unfold set_attrs. rewrite lookup_app_map. destruct (mem a keys) eqn:E; auto. now apply lookup_filter_out. Qed.

(* ---------- what _precompute writes, what "current" means ---------- *)
Definition mkval (c : cfacts) (tl : tlib) (shape : nat) (clean : bool) (a : string) : aval :=
  {| av_tl := tl; av_shape := if mem a (cf_shape_attrs c) then Some shape else None; av_clean := clean |}.

Definition guarded_off (o : obj) : bool := cf_pre_guarded (o_cls o) && negb (o_active o).

Definition attr_current (tl : tlib) (o : obj) (a : string) : bool :=
  match lookup a (o_attrs o) with
  | Some v => aval_eqb v (mkval (o_cls o) tl (o_shape o) true a)
  | None => false end.
Definition currentb (tl : tlib) (o : obj) : bool :=
  guarded_off o || forallb (attr_current tl o) (cf_refreshed (o_cls o)).

Fixpoint upd_nth (n : nat) (f : obj -> obj) (h : list obj) {struct h} : list obj :=
  match h with [] => [] | o :: r => match n with 0 => f o :: r | S n' => o :: upd_nth n' f r end end.
Definition upd_heap (s : state) (id : nat) (f : obj -> obj) : state :=
  {| cur_tl := cur_tl s; cur_opt := cur_opt s; next_opt := next_opt s; next_tree := next_tree s;
     heap := upd_nth id f (heap s); registry := registry s |}.

Definition with_attrs (o : obj) (l : list (string * aval)) : obj :=
  {| o_cls := o_cls o; o_tree := o_tree o; o_live := o_live o; o_active := o_active o; o_shape := o_shape o;
     o_deps := o_deps o; o_attrs := l |}.

Definition dep_ok (s : state) (d : nat) : bool :=
  match nth_error (heap s) d with Some m => o_live m && currentb (cur_tl s) m | None => false end.

(* `_precompute` of object id under the current tensorlib *)
Definition precompute (s : state) (id : nat) : state :=
  match nth_error (heap s) id with
  | None => s
  | Some o =>
      if guarded_off o then s else
      let clean := forallb (dep_ok s) (o_deps o) && is_nil (cf_hazards (o_cls o)) in
      upd_heap s id (fun o => with_attrs o (set_attrs (cf_refreshed (o_cls o)) (mkval (o_cls o) (cur_tl s) (o_shape o) clean) (o_attrs o)))
  end.

Definition is_live (s : state) (id : nat) : bool :=
  match nth_error (heap s) id with Some o => o_live o | None => false end.

(* Callables.__call__: for func, arg in self._callbacks: if arg() is not None: func()(arg()) ; then self._flush() *)
Definition round_state (s : state) (reg : list nat) : state :=
  fold_left (fun s id => if is_live s id then precompute s id else s) reg s.
Definition with_registry (s : state) (r : list nat) : state :=
  {| cur_tl := cur_tl s; cur_opt := cur_opt s; next_opt := next_opt s; next_tree := next_tree s; heap := heap s; registry := r |}.
Definition call_round (s : state) : state * list ev :=
  let s' := round_state s (registry s) in
  (with_registry s' (filter (is_live s') (registry s')), map EvPre (filter (is_live s) (registry s))).

(* ---------- set_backend ---------- *)
Definition tl_changed (s : state) (b : bname) (p : prec) : bool :=
  negb (bname_eqb b (fst (cur_tl s))) || negb (prec_eqb p (snd (cur_tl s))).
Definition new_optimizer (s : state) (o : oarg) : (oname * nat) * nat :=
  match o with OByName n => ((n, next_opt s), S (next_opt s)) | OCurrent => (cur_opt s, next_opt s) end.
Definition opt_changed (s : state) (o : oarg) : bool :=
  let n := fst (new_optimizer s o) in negb (oname_eqb (fst (cur_opt s)) (fst n) && Nat.eqb (snd (cur_opt s)) (snd n)).

Definition set_backend (s : state) (b : bname) (p : prec) (o : oarg) : state * list ev :=
  let tc := tl_changed s b p in
  let oc := opt_changed s o in
  let '(nopt, nxt) := new_optimizer s o in
  let s1 := {| cur_tl := (b, p); cur_opt := nopt; next_opt := nxt; next_tree := next_tree s; heap := heap s; registry := registry s |} in
  let '(s2, l2) := if tc then (let '(s', l) := call_round s1 in (s', EvTrigger "tensorlib_changed" :: l)) else (s1, []) in
  let l3 := if oc then [EvTrigger "optimizer_changed"] else [] in
  (s2, [EvTrigger "change_backend::before"] ++ l2 ++ l3 ++ [EvTrigger "change_backend::after"]).

(* ---------- object creation ---------- *)
Definition alloc (s : state) (o : obj) : state :=
  {| cur_tl := cur_tl s; cur_opt := cur_opt s; next_opt := next_opt s; next_tree := next_tree s;
     heap := heap s ++ [o]; registry := registry s |}.
Definition subscribe (s : state) (id : nat) : state := with_registry s (registry s ++ [id]).
Definition new_obj (c : cfacts) (stamp : nat) (act : bool) (sh : nat) (deps : list nat) : obj :=
  {| o_cls := c; o_tree := stamp; o_live := true; o_active := act; o_shape := sh; o_deps := deps; o_attrs := [] |}.
Definition sub_eff (c : cfacts) (sub : bool) : bool := cf_subscribes c && (negb (cf_conditional c) || sub).
Definition deps_of (c : cfacts) (ids : list (nat * string)) : list nat :=
  map fst (filter (fun p => mem (snd p) (cf_pre_members c)) ids).
Definition set_deps (o : obj) (d : list nat) : obj :=
  {| o_cls := o_cls o; o_tree := o_tree o; o_live := o_live o; o_active := o_active o; o_shape := o_shape o;
     o_deps := d; o_attrs := o_attrs o |}.

Definition cres := (state * list ev * list (nat * string))%type.
Definition create_kids (f : tree -> state -> cres) (ks : list tree) (s : state) : cres :=
  fold_left (fun (acc : cres) k => let '(s, l, ids) := acc in let '(s', l', r) := f k s in (s', l ++ l', ids ++ r)) ks (s, [], []).

Fixpoint create (F : list cfacts) (stamp : nat) (t : tree) (s : state) {struct t} : cres :=
  match t with
  | T cls mattr act sub sh kids =>
    match find_class F cls with
    | None => (s, [], [])
    | Some c =>
      if cf_members_before c then
        (* members first, then the own _precompute(), then events.subscribe *)
        let '(s1, log1, ids) := create_kids (create F stamp) kids s in
        let id := length (heap s1) in
        let s2 := precompute (alloc s1 (new_obj c stamp act sh (deps_of c ids))) id in
        if sub_eff c sub then (subscribe s2 id, log1 ++ [EvSub id cls], [(id, mattr)]) else (s2, log1, [(id, mattr)])
      else
        (* subscription (or first _precompute) precedes the construction of some member *)
        let id := length (heap s) in
        let s1 := alloc s (new_obj c stamp act sh []) in
        let '(s2, log2) := if sub_eff c sub then (subscribe s1 id, [EvSub id cls]) else (s1, []) in
        let '(s3, log3, ids) := create_kids (create F stamp) kids s2 in
        (precompute (upd_heap s3 id (fun o => set_deps o (deps_of c ids))) id, log2 ++ log3, [(id, mattr)])
    end
  end.

Definition bump_tree (s : state) : state :=
  {| cur_tl := cur_tl s; cur_opt := cur_opt s; next_opt := next_opt s; next_tree := S (next_tree s); heap := heap s; registry := registry s |}.

(* ---------- deletion (del + gc.collect(): the whole tree dies, the registry keeps the dead references) ---------- *)
Definition kill (stamp : nat) (o : obj) : obj :=
  if Nat.eqb (o_tree o) stamp then
    {| o_cls := o_cls o; o_tree := o_tree o; o_live := false; o_active := o_active o; o_shape := o_shape o; o_deps := o_deps o; o_attrs := o_attrs o |}
  else o.
Definition delete (s : state) (stamp : nat) : state :=
  {| cur_tl := cur_tl s; cur_opt := cur_opt s; next_opt := next_opt s; next_tree := next_tree s;
     heap := map (kill stamp) (heap s); registry := registry s |}.

(* ---------- evaluation ---------- *)
Inductive obs := ObsDead | ObsNone | ObsAttrs (l : list (string * option aval)).
Definition read_cached (c : cfacts) : list string := filter (fun a => mem a (cf_cached c)) (cf_read c).
Definition eval_obj (o : obj) : obs :=
  if guarded_off o && is_nil (cf_unguarded_eval (o_cls o)) then ObsNone
  else ObsAttrs (map (fun a => (a, lookup a (o_attrs o))) (read_cached (o_cls o))).
Definition eval (s : state) (id : nat) : obs :=
  match nth_error (heap s) id with Some o => if o_live o then eval_obj o else ObsDead | None => ObsDead end.
(* reference: what a freshly built object of this class and data holds under tensorlib tl *)
Definition fresh_obs (c : cfacts) (tl : tlib) (act : bool) (sh : nat) : obs :=
  if (cf_pre_guarded c && negb act) && is_nil (cf_unguarded_eval c) then ObsNone
  else ObsAttrs (map (fun a => (a, Some (mkval c tl sh true a))) (read_cached c)).

Definition optaval_eqb (a b : option aval) : bool :=
  match a, b with Some x, Some y => aval_eqb x y | None, None => true | _, _ => false end.
Fixpoint obsl_eqb (l l' : list (string * option aval)) : bool :=
  match l, l' with
  | [], [] => true
  | (a, x) :: t, (b, y) :: t' => String.eqb a b && optaval_eqb x y && obsl_eqb t t'
  | _, _ => false end.
Definition obs_eqb (a b : obs) : bool :=
  match a, b with ObsDead, ObsDead | ObsNone, ObsNone => true | ObsAttrs l, ObsAttrs l' => obsl_eqb l l' | _, _ => false end.

(* `_precompute_alphasets(shape)` as called first thing by an interpolator's __call__ *)
Definition call_interp (s : state) (id : nat) (sh : nat) : state :=
  match nth_error (heap s) id with
  | None => s
  | Some o =>
      if negb (o_live o) || guarded_off o || Nat.eqb sh (o_shape o) then s else
      let clean := currentb (cur_tl s) o in
      upd_heap s id (fun o =>
        {| o_cls := o_cls o; o_tree := o_tree o; o_live := o_live o; o_active := o_active o; o_shape := sh; o_deps := o_deps o;
           o_attrs := set_attrs (cf_shape_refreshed (o_cls o)) (mkval (o_cls o) (cur_tl s) sh clean) (o_attrs o) |})
  end.

(* ---------- one step, a history ---------- *)
Definition step (F : list cfacts) (s : state) (o : op) : state * list ev :=
  match o with
  | SetBackend b p oa => set_backend s b p oa
  | Create t => let '(s', l, _) := create F (next_tree s) t (bump_tree s) in (s', l)
  | Delete k => (delete s k, [])
  | Eval id => (s, match nth_error (heap s) id with
                   | Some o => [EvObs id (obs_eqb (eval s id) (fresh_obs (o_cls o) (cur_tl s) (o_active o) (o_shape o)))]
                   | None => [] end)
  | EvalAll => (s, [EvAllObs (forallb (fun id => match nth_error (heap s) id with
                                                 | Some o => negb (o_live o) || obs_eqb (eval s id) (fresh_obs (o_cls o) (cur_tl s) (o_active o) (o_shape o))
                                                 | None => true end) (seq 0 (length (heap s))))])
  | CallInterp id sh => let s' := call_interp s id sh in
                        (s', match nth_error (heap s') id with Some o => [EvShape id (o_shape o)] | None => [] end)
  end.

Fixpoint run_from (F : list cfacts) (s : state) (h : list op) : state :=
  match h with [] => s | o :: r => run_from F (fst (step F s o)) r end.
Definition run (F : list cfacts) (h : list op) : state := run_from F init_state h.

(* per op: the events it produced and the raw length of the registry afterwards (what the harness observes) *)
Fixpoint report_from (F : list cfacts) (s : state) (h : list op) : list (list ev * nat) :=
  match h with [] => [] | o :: r => let '(s', l) := step F s o in (l, length (registry s')) :: report_from F s' r end.
Definition report (F : list cfacts) (h : list op) := report_from F init_state h.
