(* C08 - tie to the source: the tail of pyhf.infer.hypotest (assembly of the returned sequence by flags, singleton
   unwrapping, is_q0), _check_hypotest_prerequisites, and the POI value of the Asimov data, translated on every run
   (coq/gen/HypotestGen.v by harness/props/c08.py:extract; coq/gen/AsymptGen.v by harness/props/c07.py:extract)
   coincide with the hand model of Hypotest.v. *)
From Coq Require Import ZArith Bool List.
Require Import PV.Num PV.Asympt PV.Hypotest PV.gen.HypotestGen.
Import ListNotations.
Local Open Scope list_scope.

Section Tie.
Variable T C : Type.
Variable dflt : T.

Lemma tie_assemble : forall is_q0 tail exp expset calcf (p : pvals T) (calc : C),
  gen_assemble T C dflt is_q0 tail exp expset calcf p calc = assemble T C dflt is_q0 tail exp expset calcf p calc.
Proof. intros [] [] [] [] [] p calc; reflexivity. Qed.

(* the returned sequence starts as a one-element list and is only appended to: it is never empty, which is the
   domain on which the return expression `tuple(l) if len(l) > 1 else l[0]` is translated *)
Lemma tie_finish : forall (x : ritem T C) t, gen_finish T C x t = finish T C (x :: t).
Proof. intros x [|y t]; reflexivity. Qed.

Lemma tie_hypotest_tail : forall is_q0 tail exp expset calcf (p : pvals T) (calc : C),
  exists x t, gen_assemble T C dflt is_q0 tail exp expset calcf p calc = x :: t /\
              gen_finish T C x t = finish T C (assemble T C dflt is_q0 tail exp expset calcf p calc).
Proof. intros [] [] [] [] [] p calc; do 2 eexists; split; reflexivity. Qed.
End Tie.

(* is_q0 = (kwargs.get('test_stat', 'qtilde') == 'q0') *)
Lemma tie_is_q0 : forall ts, gen_is_q0 ts = match ts with Some KQ0 => true | _ => false end.
Proof. intros [[]|]; reflexivity. Qed.

Lemma tie_check_prerequisites : forall poi_index fixed_params,
  gen_check_prerequisites poi_index fixed_params = check_prerequisites poi_index fixed_params.
Proof. intros [i|] fp; [|reflexivity]. unfold gen_check_prerequisites, check_prerequisites.
  destruct (nth i fp false); reflexivity. Qed.
