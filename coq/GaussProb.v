(* C04 - consequences of the Gaussian integral (Gauss.v) for the concrete normal cdf `Phi` and the mathematical `erfc_def`
   of ProbThms.v:  Phi is the function NPhi of C07,  0 < Phi < 1,  Phi -> 0 / 1 at -oo / +oo with explicit tail bounds,
   erfc_def -> 0 at +oo,  0 < erfc_def < 2. *)
From Coq Require Import Reals Lra.
From Coquelicot Require Import Coquelicot.
From Interval Require Import Tactic.
Require Import PV.AsymptPhi PV.Gauss PV.ProbThms.
Local Open Scope R_scope.

Lemma phi_eq_nphi (t : R) : phi t = nphi t.
Proof. unfold phi, nphi. f_equal. f_equal. field. Qed.

Theorem Phi_eq_NPhi : forall x, Phi x = NPhi x.
Proof. intro x. unfold Phi, NPhi. f_equal. apply RInt_ext. intros t _. apply phi_eq_nphi. Qed.

Theorem Phi_bounds : forall x, 0 < Phi x < 1.
Proof. intro x. rewrite Phi_eq_NPhi. apply NPhi_bounds. Qed.

Theorem Phi_upper_tail : forall x, 0 <= x -> 1 - 2 / PI * exp (- x ^ 2 / 2) <= Phi x <= 1.
Proof. intros x Hx. rewrite Phi_eq_NPhi. replace (- x ^ 2 / 2) with (- (x * x) / 2) by field. apply NPhi_upper_tail. exact Hx. Qed.

Theorem Phi_lower_tail : forall x, 0 <= x -> 0 <= Phi (- x) <= 2 / PI * exp (- x ^ 2 / 2).
Proof. intros x Hx. rewrite Phi_eq_NPhi. replace (- x ^ 2 / 2) with (- (x * x) / 2) by field. apply NPhi_lower_tail. exact Hx. Qed.

Theorem Phi_limit_p : is_lim Phi p_infty 1.
Proof. apply (is_lim_ext NPhi Phi); [intro y; symmetry; apply Phi_eq_NPhi|apply NPhi_limit_p]. Qed.

Theorem Phi_limit_m : is_lim Phi m_infty 0.
Proof. apply (is_lim_ext NPhi Phi); [intro y; symmetry; apply Phi_eq_NPhi|apply NPhi_limit_m]. Qed.

(* the normal density integrates to one over the line, in the half-line form *)
Theorem phi_half_integral : is_lim (fun x => RInt phi 0 x) p_infty (1 / 2).
Proof. apply (is_lim_ext (fun x => RInt nphi 0 x)); [|apply nphi_half_integral].
  intro y. apply RInt_ext. intros t _. symmetry. apply phi_eq_nphi. Qed.

(* ---- erfc ---- *)
Lemma gauss_RInt (z : R) : RInt gauss 0 z = gI z.
Proof. unfold gI. apply RInt_ext. intros t _. unfold gauss, gexp. f_equal. ring. Qed.

Theorem erfc_upper_tail : forall z, 0 <= z -> 0 <= erfc_def z <= 4 / PI * exp (- z ^ 2).
Proof. intros z Hz. unfold erfc_def. rewrite gauss_RInt. destruct (gI_bounds z Hz) as [L U].
  unfold gc, gexp in *. replace (- z ^ 2) with (- (z * z)) by ring.
  pose proof sqrtPI_pos as HP. pose proof (sqrt_sqrt PI (Rlt_le _ _ PI_RGT_0)) as HPP.
  set (e := exp _) in *. set (I := gI z) in *. set (r := sqrt PI) in *.
  assert (E1 : 2 / r * (r / 2) = 1) by (field; lra).
  assert (E2 : 2 / r * (e / (r / 2)) = 4 / PI * e) by (rewrite <- HPP; field; lra).
  assert (Hr : 0 < 2 / r) by (apply Rdiv_lt_0_compat; lra).
  assert (M1 : 2 / r * (r / 2 - e / (r / 2)) <= 2 / r * I) by (apply Rmult_le_compat_l; lra).
  assert (M2 : 2 / r * I <= 2 / r * (r / 2)) by (apply Rmult_le_compat_l; lra).
  rewrite Rmult_minus_distr_l in M1. lra. Qed.

Theorem erfc_limit_p : is_lim erfc_def p_infty 0.
Proof. apply is_lim_spec. intro eps. destruct eps as [eps Heps]. simpl.
  exists (Rmax 2 (2 / eps)). intros z Hz.
  assert (H1 : 2 < z) by (eapply Rle_lt_trans; [apply Rmax_l|exact Hz]).
  assert (H2 : 2 / eps < z) by (eapply Rle_lt_trans; [apply Rmax_r|exact Hz]).
  destruct (erfc_upper_tail z ltac:(lra)) as [L U].
  rewrite Rminus_0_r, Rabs_pos_eq by assumption.
  (* 4/PI exp(-z^2) = 2 * (2/PI exp(-(w*w)/2)) with w = sqrt 2 z >= z *)
  assert (H3 : Rmax 1 (2 / eps) <= z) by (apply Rmax_lub; lra).
  pose proof (exp_tail_small eps Heps z H3) as S.
  assert (Hm : exp (- z ^ 2) <= exp (- (z * z) / 2) / 2).
  { apply Rle_div_r; [lra|].
    replace (- z ^ 2) with (- (z * z) / 2 + - (z * z) / 2) by field. rewrite exp_plus.
    assert (He : exp (- (z * z) / 2) <= / 2).
    { replace (- (z * z) / 2) with (- (z * z / 2)) by field. rewrite exp_Ropp. apply Rinv_le_contravar; [lra|].
      pose proof (exp_ineq1_le (z * z / 2)). nra. }
    pose proof (exp_pos (- (z * z) / 2)). nra. }
  assert (HPI : 0 < 4 / PI) by (apply Rdiv_lt_0_compat; [lra|apply PI_RGT_0]).
  assert (4 / PI * exp (- z ^ 2) <= 4 / PI * (exp (- (z * z) / 2) / 2)) by (apply Rmult_le_compat_l; lra).
  assert (4 / PI * (exp (- (z * z) / 2) / 2) = 2 / PI * exp (- (z * z) / 2)) by (field; pose proof PI_RGT_0; lra).
  lra. Qed.

Theorem erfc_bounds : forall z, 0 < erfc_def z < 2.
Proof. intro z. pose proof (torch_cdf_formula (- (z * sqrt 2))) as H.
  assert (H2 : 0 < sqrt 2) by (apply sqrt_lt_R0; lra).
  replace (- - (z * sqrt 2) / sqrt 2) with z in H by (field; lra).
  pose proof (Phi_bounds (- (z * sqrt 2))). lra. Qed.

Example erfc_at_2 : 0 <= erfc_def 2 <= 3 / 100.
Proof. destruct (erfc_upper_tail 2 ltac:(lra)) as [L U]. split; [exact L|]. eapply Rle_trans; [exact U|].
  interval. Qed.
