(* Theorems about the workspace algebra of PV.Workspace (all inputs, by induction). *)
From Coq Require Import Bool Arith Lia Permutation Sorting.Sorted String Ascii QArith Qcanon List.
Require Import PV.Sort PV.Json PV.Workspace.
Import ListNotations.
Local Open Scope string_scope.
Local Open Scope nat_scope.
Local Open Scope list_scope.

(* ---------- small list facts ---------- *)
Lemma fold_left_ext_l {A B} (g f : A -> B -> A) : (forall a b, f a b = g a b) -> forall l a, fold_left f l a = fold_left g l a.
Proof. intros H l. induction l as [|x t IH]; intros a; simpl; [reflexivity|]. now rewrite H, IH. Qed.
Lemma filter_nil_iff {A} (f : A -> bool) l : filter f l = [] <-> forall x, In x l -> f x = false.
Proof. induction l as [|a t IH]; simpl; [split; auto; intros _ ? []|].
  destruct (f a) eqn:E; split; intros H.
  - discriminate.
  - rewrite (H a (or_introl eq_refl)) in E. discriminate.
  - intros x [<-|Hx]; auto. now apply IH.
  - apply IH. intros x Hx. apply H. now right. Qed.
Lemma nonempty_filter_iff {A} (f : A -> bool) l : nonempty (filter f l) = true <-> exists x, In x l /\ f x = true.
Proof. induction l as [|a t IH]; simpl; [split; [discriminate|intros [x [[] _]]]|].
  destruct (f a) eqn:E; simpl.
  - split; auto. intros _. exists a. auto.
  - rewrite IH. split; intros [x [H1 H2]]; exists x; [auto|]. destruct H1 as [<-|H1]; [congruence|auto]. Qed.
Lemma nonempty_false {A} (l : list A) : nonempty l = false <-> l = [].
Proof. destruct l; simpl; split; congruence. Qed.
Lemma nonempty_true {A} (l : list A) : nonempty l = true <-> l <> [].
Proof. destruct l; simpl; split; congruence. Qed.

Lemma dedup_in l x : In x (dedup l) <-> In x l.
Proof. induction l as [|a t IH]; simpl; [tauto|]. rewrite filter_In, IH.
  destruct (String.eqb_spec a x); subst; simpl; intuition congruence. Qed.

Lemma count_cons n x t : count_str n (x :: t) = (if String.eqb n x then 1 else 0) + count_str n t.
Proof. unfold count_str. simpl. destruct (String.eqb n x); reflexivity. Qed.
Lemma count_app n a b : count_str n (a ++ b) = count_str n a + count_str n b.
Proof. unfold count_str. now rewrite filter_app, app_length. Qed.
Lemma count_pos n l : 0 < count_str n l <-> In n l.
Proof. induction l as [|x t IH]; [unfold count_str; simpl; split; [lia|tauto]|].
  rewrite count_cons. simpl. destruct (String.eqb_spec n x); subst; [split; [auto|lia]|].
  simpl. rewrite IH. intuition congruence. Qed.
Lemma count_zero n l : count_str n l = 0 <-> ~ In n l.
Proof. rewrite <- count_pos. lia. Qed.
Lemma NoDup_count l : NoDup l <-> forall n, count_str n l <= 1.
Proof. induction l as [|x t IH]; [split; [intros _ n; unfold count_str; simpl; lia|constructor]|]. split.
  - intros H n. inversion H as [|? ? Hni Hnd]; subst. rewrite count_cons. destruct (String.eqb_spec n x); subst.
    + apply count_zero in Hni. lia.
    + simpl. now apply IH.
  - intros H. constructor.
    + apply count_zero. specialize (H x). rewrite count_cons, String.eqb_refl in H. lia.
    + apply IH. intros n. specialize (H n). rewrite count_cons in H. lia. Qed.

Lemma dups_nil_iff l : dups l = [] <-> NoDup l.
Proof. unfold dups. rewrite filter_nil_iff, NoDup_count. split; intros H n.
  - destruct (Nat.ltb 1 (count_str n l)) eqn:E; [|apply Nat.ltb_ge in E; lia].
    assert (Hin : In n (dedup l)). { apply dedup_in, count_pos. apply Nat.ltb_lt in E. lia. }
    rewrite (H n Hin) in E. discriminate.
  - intros _. apply Nat.ltb_ge. apply H. Qed.
Lemma dups_nonempty_iff l : nonempty (dups l) = true <-> exists n, 1 < count_str n l.
Proof. unfold dups. rewrite nonempty_filter_iff. split; intros [n H]; exists n.
  - now apply Nat.ltb_lt.
  - split; [apply dedup_in, count_pos; lia|now apply Nat.ltb_lt]. Qed.
Lemma common_nonempty_iff l r : nonempty (common l r) = true <-> exists n, In n l /\ In n r.
Proof. unfold common. rewrite nonempty_filter_iff. split; intros [n [H1 H2]]; exists n.
  - split; [now apply dedup_in|now apply mem_str_iff].
  - split; [now apply dedup_in|now apply mem_str_iff]. Qed.

Lemma NoDup_key_inj {A} (key : A -> string) l x y : NoDup (map key l) -> In x l -> In y l -> key x = key y -> x = y.
Proof. induction l as [|a t IH]; simpl; [tauto|]. intros Hnd Hx Hy E. inversion Hnd as [|? ? Hni Hnd']; subst.
  destruct Hx as [<-|Hx], Hy as [<-|Hy]; auto.
  - exfalso. apply Hni. rewrite E. now apply in_map.
  - exfalso. apply Hni. rewrite <- E. now apply in_map. Qed.

(* ---------- _join_items without deep merge ---------- *)
Section JoinFacts.
  Variables (A : Type) (key : A -> string) (eqA : A -> A -> bool).
  Hypothesis eqA_iff : forall a b, eqA a b = true <-> a = b.

  Lemma existsb_eqA s l : existsb (eqA s) l = true <-> In s l.
  Proof. rewrite existsb_exists. split; [intros [x [H1 H2]]; apply eqA_iff in H2; now subst|intros H; exists s; split; auto; now apply eqA_iff]. Qed.

  Lemma fold_append (c : A -> bool) R acc :
    fold_left (fun acc s => if c s then acc ++ [s] else acc) R acc = acc ++ filter c R.
  Proof. revert acc. induction R as [|s t IH]; intros acc; simpl; [now rewrite app_nil_r|].
    rewrite IH. destruct (c s); [now rewrite <- app_assoc|reflexivity]. Qed.

  Lemma fold_snoc (R acc : list A) : fold_left (fun acc s => acc ++ [s]) R acc = acc ++ R.
  Proof. revert acc. induction R as [|s t IH]; intros acc; simpl; [now rewrite app_nil_r|]. now rewrite IH, <- app_assoc. Qed.

  Definition new_by_value (P : list A) (s : A) : bool := negb (existsb (eqA s) P).
  Definition new_by_key (P : list A) (s : A) : bool := negb (mem_str (key s) (map key P)).

  Lemma join_items_flat j L R :
    join_items A key eqA None j L R =
    match j with
    | JNone => L ++ R
    | JOuter => L ++ filter (new_by_value L) R
    | JLeft => L ++ filter (new_by_key L) R
    | JRight => R ++ filter (new_by_key R) L
    end.
  Proof. unfold join_items. destruct j.
    - rewrite (fold_left_ext_l (fun acc s => acc ++ [s])); [apply fold_snoc|].
      intros acc s. unfold join_step, new_by_key, new_by_value. destruct (mem_str (key s) (map key L)); reflexivity.
    - rewrite (fold_left_ext_l (fun acc s => if new_by_value L s then acc ++ [s] else acc)); [apply fold_append|].
      intros acc s. unfold join_step, new_by_key, new_by_value. destruct (mem_str (key s) (map key L)); reflexivity.
    - rewrite (fold_left_ext_l (fun acc s => if new_by_key L s then acc ++ [s] else acc)); [apply fold_append|].
      intros acc s. unfold join_step, new_by_key, new_by_value. destruct (mem_str (key s) (map key L)); reflexivity.
    - rewrite (fold_left_ext_l (fun acc s => if new_by_key R s then acc ++ [s] else acc)); [apply fold_append|].
      intros acc s. unfold join_step, new_by_key, new_by_value. destruct (mem_str (key s) (map key R)); reflexivity.
  Qed.

  (* ----- names shared / items in conflict ----- *)
  Definition shared (L R : list A) : Prop := exists x y, In x L /\ In y R /\ key x = key y.
  Definition conflict (L R : list A) : Prop := exists x y, In x L /\ In y R /\ key x = key y /\ x <> y.

  Lemma common_iff L R : nonempty (common (map key L) (map key R)) = true <-> shared L R.
  Proof. rewrite common_nonempty_iff. split.
    - intros [n [H1 H2]]. apply in_map_iff in H1, H2. destruct H1 as [x [E1 H1]], H2 as [y [E2 H2]]. exists x, y. repeat split; auto. congruence.
    - intros [x [y [H1 [H2 E]]]]. exists (key x). split; [now apply in_map|rewrite E; now apply in_map]. Qed.

  Lemma NoDup_map_filter (f : A -> bool) l : NoDup (map key l) -> NoDup (map key (filter f l)).
  Proof. induction l as [|a t IH]; simpl; auto. intros H. inversion H as [|? ? Hni Hnd]; subst.
    destruct (f a); simpl; auto. constructor; auto. intros Hin. apply Hni. apply in_map_iff in Hin. destruct Hin as [x [E Hx]].
    apply filter_In in Hx. rewrite <- E. apply in_map. tauto. Qed.

  Lemma new_by_value_iff P s : new_by_value P s = true <-> ~ In s P.
  Proof. unfold new_by_value. rewrite negb_true_iff. rewrite <- existsb_eqA. destruct (existsb (eqA s) P); split; congruence. Qed.
  Lemma new_by_key_iff P s : new_by_key P s = true <-> ~ In (key s) (map key P).
  Proof. unfold new_by_key. rewrite negb_true_iff. apply mem_str_false. Qed.

  (* the Counter test of the 'outer' joins fires exactly on same-named, different items *)
  Lemma outer_dups_iff L R : NoDup (map key L) -> NoDup (map key R) ->
    (nonempty (dups (map key (L ++ filter (new_by_value L) R))) = true <-> conflict L R).
  Proof. intros HL HR. rewrite dups_nonempty_iff. split.
    - intros [n Hn]. rewrite map_app, count_app in Hn.
      assert (H1 : count_str n (map key L) <= 1) by now apply NoDup_count.
      assert (H2 : count_str n (map key (filter (new_by_value L) R)) <= 1) by (apply NoDup_count; now apply NoDup_map_filter).
      assert (I1 : In n (map key L)) by (apply count_pos; lia).
      assert (I2 : In n (map key (filter (new_by_value L) R))) by (apply count_pos; lia).
      apply in_map_iff in I1, I2. destruct I1 as [x [E1 I1]], I2 as [y [E2 I2]]. apply filter_In in I2. destruct I2 as [I2 I3].
      apply new_by_value_iff in I3. exists x, y. repeat split; auto; congruence.
    - intros [x [y [H1 [H2 [E Hne]]]]]. exists (key x). rewrite map_app, count_app.
      assert (Hy : ~ In y L). { intros Hy. apply Hne. apply (NoDup_key_inj key L x y); auto. }
      assert (I1 : 0 < count_str (key x) (map key L)) by (apply count_pos; now apply in_map).
      assert (I2 : 0 < count_str (key x) (map key (filter (new_by_value L) R))).
      { apply count_pos. rewrite E. apply in_map. apply filter_In. split; auto. now apply new_by_value_iff. }
      lia. Qed.

  Lemma outer_NoDup L R : NoDup (map key L) -> NoDup (map key R) -> ~ conflict L R -> NoDup (map key (L ++ filter (new_by_value L) R)).
  Proof. intros HL HR Hc. apply dups_nil_iff. apply nonempty_false. destruct (nonempty (dups _)) eqn:E; auto.
    exfalso. apply Hc. now apply outer_dups_iff. Qed.

  (* ----- with deep merge ----- *)
  Section Deep.
    Variable mg : A -> A -> A.
    Hypothesis mg_key : forall x s, key (mg x s) = key x.

    Lemma update_at_keys n (f : A -> A) l : (forall x, key (f x) = key x) -> map key (update_at n f l) = map key l.
    Proof. intros H. revert n. induction l as [|a t IH]; intros [|n]; simpl; auto; [now rewrite H|now rewrite IH]. Qed.
    Lemma update_at_length n (f : A -> A) l : length (update_at n f l) = length l.
    Proof. revert n. induction l as [|a t IH]; intros [|n]; simpl; auto. Qed.
    Lemma update_at_Forall (Pr : A -> Prop) n (f : A -> A) l : (forall x, Pr x -> Pr (f x)) -> Forall Pr l -> Forall Pr (update_at n f l).
    Proof. intros H. revert n. induction l as [|a t IH]; intros [|n] Hl; simpl; auto; inversion Hl; subst; constructor; auto. Qed.

    Definition primary_of (j : join) (L R : list A) := match j with JRight => R | _ => L end.
    Definition secondary_of (j : join) (L R : list A) := match j with JRight => L | _ => R end.

    Lemma deep_fold_keys j P S joined : j <> JNone ->
      map key (fold_left (join_step A key eqA (Some mg) j P (map key P)) S joined) =
      map key joined ++ filter (fun k => negb (mem_str k (map key P))) (map key S).
    Proof. intros Hj. revert joined. induction S as [|s t IH]; intros joined; simpl; [now rewrite app_nil_r|].
      rewrite IH. unfold join_step. destruct (mem_str (key s) (map key P)) eqn:E; simpl.
      - rewrite update_at_keys; auto.
      - assert (Hc : match j with JOuter => negb (existsb (eqA s) P) | _ => true end = true).
        { destruct j; auto. apply negb_true_iff. destruct (existsb (eqA s) P) eqn:E2; auto.
          apply existsb_eqA in E2. apply mem_str_false in E. exfalso. apply E. now apply in_map. }
        rewrite Hc. rewrite map_app. simpl. now rewrite <- app_assoc. Qed.

    Lemma join_items_deep_keys j L R : j <> JNone ->
      map key (join_items A key eqA (Some mg) j L R) =
      map key (primary_of j L R) ++ filter (fun k => negb (mem_str k (map key (primary_of j L R)))) (map key (secondary_of j L R)).
    Proof. intros Hj. unfold join_items. destruct j; try congruence; apply deep_fold_keys; auto. Qed.

    Lemma deep_fold_length j P keys S joined : length joined <= length (fold_left (join_step A key eqA (Some mg) j P keys) S joined).
    Proof. revert joined. induction S as [|s t IH]; intros joined; simpl; auto.
      etransitivity; [|apply IH]. unfold join_step. destruct (mem_str (key s) keys).
      - now rewrite update_at_length.
      - match goal with |- _ <= length (if ?c then _ else _) => destruct c end; auto. rewrite app_length. lia. Qed.

    Lemma deep_fold_Forall (Pr : A -> Prop) j P keys S joined : (forall x s, Pr x -> Pr s -> Pr (mg x s)) ->
      Forall Pr S -> Forall Pr joined -> Forall Pr (fold_left (join_step A key eqA (Some mg) j P keys) S joined).
    Proof. intros Hmg HS. revert joined. induction HS as [|s t Hs Ht IH]; intros joined Hj; simpl; auto.
      apply IH. unfold join_step. destruct (mem_str (key s) keys).
      - apply update_at_Forall; auto.
      - match goal with |- Forall _ (if ?c then _ else _) => destruct c end; auto. apply Forall_app. auto. Qed.
  End Deep.

  Lemma filter_keys_NoDup (f : string -> bool) l : NoDup l -> NoDup (filter f l).
  Proof. apply NoDup_filter. Qed.
End JoinFacts.

(* ---------- the measurement mapping of the 'outer' join ---------- *)
Definition grp (n : string) (J : list measurement) : list measurement := filter (fun m => String.eqb (me_name m) n) J.
Lemma grp_cons n m t : grp n (m :: t) = grp n [m] ++ grp n t.
Proof. unfold grp. simpl. destruct (String.eqb (me_name m) n); reflexivity. Qed.
Lemma grp_one n m : grp n [m] = if String.eqb (me_name m) n then [m] else [].
Proof. unfold grp. simpl. destruct (String.eqb (me_name m) n); reflexivity. Qed.

Lemma sa_keys mp m n : In n (map fst (setdefault_append mp m)) <-> In n (map fst mp) \/ n = me_name m.
Proof. unfold setdefault_append. destruct (mem_str (me_name m) (map fst mp)) eqn:E.
  - rewrite map_map. erewrite map_ext; [|intros kv; destruct (String.eqb (fst kv) (me_name m)); reflexivity].
    apply mem_str_iff in E. intuition (subst; auto).
  - rewrite map_app, in_app_iff. simpl. intuition. Qed.

Lemma sa_in mp m n g : In (n, g) (setdefault_append mp m) <->
  (exists g0, In (n, g0) mp /\ g = g0 ++ grp n [m]) \/ (~ In n (map fst mp) /\ g = grp n [m] /\ g <> []).
Proof. unfold setdefault_append. rewrite grp_one. destruct (mem_str (me_name m) (map fst mp)) eqn:E.
  - apply mem_str_iff in E. rewrite in_map_iff. split.
    + intros [[k g0] [Heq Hin]]. simpl in Heq. left. exists g0. rewrite String.eqb_sym.
      assert (k = n) by (destruct (String.eqb k (me_name m)); inversion Heq; auto). subst k.
      destruct (String.eqb_spec n (me_name m)); inversion Heq; subst; split; auto. now rewrite app_nil_r.
    + intros [[g0 [Hin Hg]]|[Hni [Hg Hne]]].
      * exists (n, g0). split; auto. simpl. rewrite String.eqb_sym in Hg. destruct (String.eqb_spec n (me_name m)); subst; auto. now rewrite app_nil_r.
      * exfalso. destruct (String.eqb_spec (me_name m) n); subst; auto.
  - apply mem_str_false in E. rewrite in_app_iff. simpl. split.
    + intros [Hin|[Heq|[]]].
      * left. exists g. split; auto. destruct (String.eqb_spec (me_name m) n); [|now rewrite app_nil_r].
        exfalso. apply E. subst. apply (in_map fst) in Hin. exact Hin.
      * inversion Heq; subst. right. rewrite String.eqb_refl. repeat split; auto. discriminate.
    + intros [[g0 [Hin Hg]]|[Hni [Hg Hne]]].
      * left. destruct (String.eqb_spec (me_name m) n); [|rewrite app_nil_r in Hg; now subst].
        exfalso. apply E. subst. apply (in_map fst) in Hin. exact Hin.
      * right. left. destruct (String.eqb_spec (me_name m) n); subst; congruence. Qed.

Lemma mapping_in_gen J : forall mp n g, In (n, g) (fold_left setdefault_append J mp) <->
  (exists g0, In (n, g0) mp /\ g = g0 ++ grp n J) \/ (~ In n (map fst mp) /\ g = grp n J /\ g <> []).
Proof. induction J as [|m t IH]; intros mp n g; cbn [fold_left].
  - unfold grp at 1; simpl. split; [intros H; left; exists g; split; auto; now rewrite app_nil_r|].
    intros [[g0 [H1 H2]]|[_ [H2 H3]]]; [rewrite app_nil_r in H2; now subst|unfold grp in H2; simpl in H2; congruence].
  - rewrite IH. rewrite (grp_cons n m t). split.
    + intros [[g1 [Hin Hg]]|[Hni [Hg Hne]]].
      * apply sa_in in Hin. destruct Hin as [[g0 [Hin Hg1]]|[Hni [Hg1 Hne]]].
        -- left. exists g0. split; auto. subst. now rewrite app_assoc.
        -- right. split; auto. subst. split; auto. destruct (grp n [m]); [congruence|discriminate].
      * right. assert (H1 : ~ In n (map fst mp)) by (intros H; apply Hni; apply sa_keys; auto).
        assert (H2 : n <> me_name m) by (intros H; apply Hni; apply sa_keys; auto).
        split; auto. rewrite grp_one. destruct (String.eqb_spec (me_name m) n); [congruence|]. simpl. auto.
    + intros [[g0 [Hin Hg]]|[Hni [Hg Hne]]].
      * left. exists (g0 ++ grp n [m]). split; [|now rewrite <- app_assoc]. apply sa_in. left. exists g0. auto.
      * destruct (grp n [m]) as [|a l] eqn:E.
        -- right. split; auto. intros H. apply sa_keys in H. destruct H as [H|H]; auto.
           rewrite grp_one in E. subst n. rewrite String.eqb_refl in E. discriminate.
        -- left. exists (a :: l). split; auto. apply sa_in. right. rewrite E. repeat split; auto. discriminate. Qed.

Lemma mapping_in J n g : In (n, g) (meas_mapping J) <-> g = grp n J /\ g <> [].
Proof. unfold meas_mapping. rewrite mapping_in_gen. simpl. split.
  - intros [[g0 [[] _]]|[_ H]]; auto.
  - intros H. right. tauto. Qed.

Lemma grp_app n a b : grp n (a ++ b) = grp n a ++ grp n b.
Proof. unfold grp. apply filter_app. Qed.
Lemma grp_NoDup n l : NoDup (map me_name l) -> grp n l = [] \/ exists x, grp n l = [x] /\ In x l /\ me_name x = n.
Proof. induction l as [|a t IH]; [now left|]. intros H. simpl in H. inversion H as [|? ? Hni Hnd]; subst.
  rewrite (grp_cons n a t), grp_one. destruct (String.eqb_spec (me_name a) n).
  - right. exists a. simpl. split; auto. f_equal. unfold grp. apply filter_nil_iff. intros x Hx.
    destruct (String.eqb_spec (me_name x) n); auto. exfalso. apply Hni. rewrite e, <- e0. now apply in_map.
  - simpl. destruct (IH Hnd) as [H0|[x [H1 [H2 H3]]]]; auto. right. exists x. auto. Qed.
Lemma grp_in n l x : NoDup (map me_name l) -> In x l -> me_name x = n -> grp n l = [x].
Proof. intros Hnd Hin E. destruct (grp_NoDup n l Hnd) as [H0|[y [H1 [H2 H3]]]].
  - exfalso. assert (In x (grp n l)) by (apply filter_In; split; auto; now apply String.eqb_eq). rewrite H0 in H. destruct H.
  - rewrite H1. f_equal. apply (NoDup_key_inj me_name l y x); auto. congruence. Qed.

Lemma mapM_refuses {A B} (f : A -> result B) l : refuses (mapM f l) <-> exists x, In x l /\ refuses (f x).
Proof. induction l as [|a t IH]; simpl.
  - split; [intros [e H]; discriminate|intros [x [[] _]]].
  - destruct (f a) as [b|e] eqn:E; simpl.
    + destruct (mapM f t) as [bs|e'] eqn:E2; simpl.
      * split; [intros [e H]; discriminate|]. intros [x [[<-|Hx] [e H]]]; [congruence|].
        assert (Hr : refuses (Err (A:=list B) e) -> False) by (intros _; assert (refuses (Ok (A:=list B) bs)) by (apply IH; exists x; split; auto; now exists e); destruct H0; discriminate).
        exfalso. assert (refuses (Ok (A:=list B) bs)) by (apply IH; exists x; split; auto; now exists e). destruct H0; discriminate.
      * split; [intros _|intros _; now exists e'].
        assert (H : refuses (Err (A:=list B) e')) by now exists e'. apply IH in H. destruct H as [x [Hx Hr]]. exists x. auto.
    + split; [intros _; exists a; split; auto; now exists e|intros _; now exists e]. Qed.
Lemma mapM_ok_Forall {A B} (f : A -> result B) (P : B -> Prop) l ys : mapM f l = Ok ys ->
  (forall x y, In x l -> f x = Ok y -> P y) -> Forall P ys.
Proof. revert ys. induction l as [|a t IH]; simpl; intros ys H HP.
  - inversion H. constructor.
  - destruct (f a) as [b|e] eqn:E; simpl in H; [|discriminate]. destruct (mapM f t) as [bs|e'] eqn:E2; simpl in H; [|discriminate].
    inversion H; subst. constructor; [apply (HP a); auto|apply IH; auto]. intros x y Hx. apply HP. now right. Qed.
Lemma mapM_length {A B} (f : A -> result B) l ys : mapM f l = Ok ys -> length ys = length l.
Proof. revert ys. induction l as [|a t IH]; simpl; intros ys H; [inversion H; reflexivity|].
  destruct (f a); simpl in H; [|discriminate]. destruct (mapM f t); simpl in H; [|discriminate]. inversion H. simpl. f_equal. now apply IH. Qed.

(* ---------- Workspace.__init__ ---------- *)
Lemma schema_ok_iff w : schema_ok w = true <->
  (w_channels w <> [] /\ Forall (fun c => channel_ok c = true) (w_channels w)) /\
  (w_measurements w <> [] /\ Forall (fun m => measurement_ok m = true) (w_measurements w)) /\
  (w_observations w <> [] /\ Forall (fun o => observation_ok o = true) (w_observations w)) /\
  w_version w = "1.0.0".
Proof. unfold schema_ok. rewrite !andb_true_iff, !nonempty_true, !forallb_forall, !Forall_forall, String.eqb_eq. tauto. Qed.

Lemma construct_ok v w : schema_ok w = true -> construct v w = Ok w.
Proof. intros H. unfold construct. rewrite H. pose proof H as H'. apply schema_ok_iff in H'. destruct H' as [[_ Hc] [_ [_ Hv]]].
  rewrite Hv. simpl. rewrite !andb_false_r. simpl.
  assert (E : existsb (fun c => negb (nonempty (c_samples c))) (w_channels w) = false).
  { destruct (existsb _ _) eqn:E; auto. apply existsb_exists in E. destruct E as [c [Hin Hc']].
    rewrite Forall_forall in Hc. specialize (Hc c Hin). unfold channel_ok in Hc. apply andb_true_iff in Hc. destruct Hc as [Hc _].
    rewrite Hc in Hc'. discriminate. }
  now rewrite E. Qed.

Lemma construct_true_ok w w' : construct true w = Ok w' -> w' = w /\ schema_ok w = true.
Proof. unfold construct. cbn [andb]. destruct (negb (mem_str (w_version w) known_versions)); [discriminate|].
  destruct (schema_ok w); cbn [negb]; [|discriminate]. destruct (existsb _ _); [discriminate|]. intros H. inversion H. auto. Qed.

(* ---------- combine ---------- *)
Definition combine_pre (j : join) (l r : workspace) (merge : bool) : result workspace :=
  if merge && match j with JNone => true | _ => false end then Err PyValueError else
  bind (join_versions j (w_version l) (w_version r)) (fun v =>
  bind (join_channels j (w_channels l) (w_channels r) merge) (fun cs =>
  bind (join_observations j (w_observations l) (w_observations r)) (fun os =>
  bind (join_measurements j (w_measurements l) (w_measurements r)) (fun ms =>
  Ok {| w_channels := cs; w_observations := os; w_measurements := ms; w_version := v |})))).

Lemma combine_eq l r js merge v :
  combine l r js merge v = match join_of_string js with None => Err PyValueError
                           | Some j => bind (combine_pre j l r merge) (construct v) end.
Proof. unfold combine, combine_pre. destruct (join_of_string js) as [j|]; auto.
  destruct (merge && _); auto. destruct (join_versions _ _ _); simpl; auto.
  destruct (join_channels _ _ _ _); simpl; auto. destruct (join_observations _ _ _); simpl; auto.
  destruct (join_measurements _ _ _); simpl; auto. Qed.

Definition names_disjoint (a b : list string) : Prop := forall n, In n a -> ~ In n b.
Lemma common_disjoint a b : names_disjoint a b -> nonempty (common a b) = false.
Proof. intros H. destruct (nonempty (common a b)) eqn:E; auto. apply common_nonempty_iff in E. destruct E as [n [H1 H2]]. exfalso. eapply H; eauto. Qed.

Definition ch_eq_iff := eqb_of_iff channel_dec.
Definition ob_eq_iff := eqb_of_iff observation_dec.
Definition me_eq_iff := eqb_of_iff measurement_dec.
Definition pc_eq_iff := eqb_of_iff pconfig_dec.
Definition sa_eq_iff := eqb_of_iff sample_dec.

Definition ws_app (l r : workspace) : workspace :=
  {| w_channels := w_channels l ++ w_channels r; w_observations := w_observations l ++ w_observations r;
     w_measurements := w_measurements l ++ w_measurements r; w_version := w_version l |}.

Lemma schema_ok_app l r : schema_ok l = true -> schema_ok r = true -> schema_ok (ws_app l r) = true.
Proof. rewrite !schema_ok_iff. simpl. intros [[A1 A2] [[B1 B2] [[C1 C2] D]]] [[A1' A2'] [[B1' B2'] [[C1' C2'] D']]].
  repeat split; auto; try (apply Forall_app; auto); intros H; apply app_eq_nil in H; tauto. Qed.

(* combining workspaces that share no channel, observation or measurement name: everything of both, unchanged, left first *)
Theorem combine_none_disjoint l r v :
  schema_ok l = true -> schema_ok r = true ->
  names_disjoint (map c_name (w_channels l)) (map c_name (w_channels r)) ->
  names_disjoint (map o_name (w_observations l)) (map o_name (w_observations r)) ->
  names_disjoint (map me_name (w_measurements l)) (map me_name (w_measurements r)) ->
  combine l r "none" false v = Ok (ws_app l r).
Proof. intros Hl Hr Hc Ho Hm. rewrite combine_eq. simpl. unfold combine_pre. simpl.
  assert (Hv : w_version l = w_version r). { apply schema_ok_iff in Hl, Hr. destruct Hl as (_&_&_&->), Hr as (_&_&_&->). reflexivity. }
  unfold join_versions. rewrite Hv, String.eqb_refl. simpl.
  unfold join_channels, join_observations, join_measurements.
  rewrite (common_disjoint _ _ Hc), (common_disjoint _ _ Ho), (common_disjoint _ _ Hm). simpl.
  rewrite (join_items_flat channel c_name channel_eqb), (join_items_flat observation o_name observation_eqb),
          (join_items_flat measurement me_name measurement_eqb).
  rewrite <- Hv. apply (construct_ok v (ws_app l r)). now apply schema_ok_app. Qed.

(* ---------- when combine refuses ---------- *)
Lemma NoDup_app_iff_local (a b : list string) : NoDup a -> NoDup b -> NoDup (a ++ filter (fun k => negb (mem_str k a)) b).
Proof. intros Ha Hb. induction a as [|x t IH] in Ha, b, Hb |- *.
  - cbn [app].
    assert (E : filter (fun k => negb (mem_str k [])) b = b). { clear. induction b; unfold mem_str in *; simpl in *; congruence. }
    now rewrite E.
  - apply NoDup_count. intros n. rewrite count_app.
    assert (H1 : count_str n (x :: t) <= 1) by now apply NoDup_count.
    assert (H2 : count_str n (filter (fun k => negb (mem_str k (x :: t))) b) <= 1) by (apply NoDup_count; now apply NoDup_filter).
    destruct (Nat.eq_dec (count_str n (x :: t)) 0) as [E|E]; [lia|].
    assert (Hin : In n (x :: t)) by (apply count_pos; lia).
    assert (E2 : count_str n (filter (fun k => negb (mem_str k (x :: t))) b) = 0).
    { apply count_zero. intros Hc. apply filter_In in Hc. destruct Hc as [_ Hc]. apply negb_true_iff in Hc. apply mem_str_false in Hc. auto. }
    lia. Qed.
Lemma refuses_bind {A B} (x : result A) (f : A -> result B) :
  refuses (bind x f) <-> refuses x \/ exists a, x = Ok a /\ refuses (f a).
Proof. destruct x as [a|e]; simpl; split.
  - intros H. right. exists a. auto.
  - intros [[e H]|[a' [H1 H2]]]; [discriminate|]. inversion H1; subst. auto.
  - intros _. left. now exists e.
  - intros _. now exists e. Qed.
Lemma refuses_ok {A} (a : A) : ~ refuses (Ok a).
Proof. intros [e H]. discriminate. Qed.
Lemma refuses_err {A} e : refuses (Err (A:=A) e).
Proof. now exists e. Qed.
Lemma refuses_if {A} (b : bool) e (a : A) : refuses (if b then Err e else Ok a) <-> b = true.
Proof. destruct b; split; intros H; auto using refuses_err; try discriminate. now apply refuses_ok in H. Qed.

Definition wf_names (w : workspace) : Prop :=
  NoDup (map c_name (w_channels w)) /\ NoDup (map o_name (w_observations w)) /\ NoDup (map me_name (w_measurements w)) /\
  Forall (fun m => NoDup (map p_name (me_params m))) (w_measurements w).

Definition meas_conflict (L R : list measurement) : Prop :=
  exists x y, In x L /\ In y R /\ me_name x = me_name y /\ x <> y /\
              (me_poi x <> me_poi y \/ conflict pconfig p_name (me_params x) (me_params y)).

(* the statement's refusal rule *)
Definition refusal_spec (j : join) (merge : bool) (l r : workspace) : Prop :=
  w_version l <> w_version r \/
  match j with
  | JNone => merge = true \/ shared channel c_name (w_channels l) (w_channels r)
             \/ shared observation o_name (w_observations l) (w_observations r)
             \/ shared measurement me_name (w_measurements l) (w_measurements r)
  | JOuter => (merge = false /\ conflict channel c_name (w_channels l) (w_channels r))
              \/ conflict observation o_name (w_observations l) (w_observations r)
              \/ meas_conflict (w_measurements l) (w_measurements r)
  | JLeft | JRight => False
  end.

Section FlatOk.
  Variables (A : Type) (key : A -> string) (eqA : A -> A -> bool) (okA : A -> Prop).
  Lemma join_items_flat_Forall j L R : Forall okA L -> Forall okA R -> Forall okA (join_items A key eqA None j L R).
  Proof. intros HL HR. rewrite join_items_flat. destruct j; apply Forall_app; split; auto;
    apply Forall_forall; intros x Hx; apply filter_In in Hx; destruct Hx as [Hx _]; rewrite Forall_forall in HL, HR; auto. Qed.
  Lemma join_items_flat_nonempty j L R : L <> [] -> R <> [] -> join_items A key eqA None j L R <> [].
  Proof. intros HL HR. rewrite join_items_flat. destruct j; intros H; apply app_eq_nil in H; tauto. Qed.
End FlatOk.

Lemma merge_samples_ok jc sc : channel_ok jc = true -> channel_ok sc = true -> channel_ok (merge_samples jc sc) = true.
Proof. unfold channel_ok. rewrite !andb_true_iff, !nonempty_true, !forallb_forall. intros [H1 H2] [H3 H4]. simpl. split.
  - apply join_items_flat_nonempty; auto.
  - apply Forall_forall. apply join_items_flat_Forall; now apply Forall_forall. Qed.

Lemma join_channels_ok j L R merge cs : L <> [] -> R <> [] ->
  Forall (fun c => channel_ok c = true) L -> Forall (fun c => channel_ok c = true) R ->
  join_channels j L R merge = Ok cs -> cs <> [] /\ Forall (fun c => channel_ok c = true) cs.
Proof. intros HL HR FL FR H.
  assert (G : join_items channel c_name channel_eqb (if merge then Some merge_samples else None) j L R <> [] /\
              Forall (fun c => channel_ok c = true) (join_items channel c_name channel_eqb (if merge then Some merge_samples else None) j L R)).
  { destruct merge.
    - split.
      + unfold join_items. intros E. apply (f_equal (@length channel)) in E.
        pose proof (deep_fold_length channel c_name channel_eqb merge_samples j
                      (match j with JRight => R | _ => L end) (map c_name (match j with JRight => R | _ => L end))
                      (match j with JRight => L | _ => R end) (match j with JRight => R | _ => L end)) as Hlen.
        rewrite E in Hlen. simpl in Hlen. destruct j; destruct L, R; simpl in *; try congruence; lia.
      + unfold join_items. apply deep_fold_Forall; destruct j; auto using merge_samples_ok.
    - split; [now apply join_items_flat_nonempty|now apply join_items_flat_Forall]. }
  unfold join_channels in H. destruct j; try (inversion H; subst; exact G).
  - destruct (nonempty (common _ _)); [discriminate|]. inversion H; subst; exact G.
  - destruct (nonempty (dups _)); [discriminate|]. inversion H; subst; exact G. Qed.

Lemma NoDup_app_keys (a b : list string) : NoDup a -> NoDup b -> NoDup (a ++ filter (fun k => negb (mem_str k a)) b).
Proof. intros Ha Hb. apply NoDup_app_iff_local; auto. Qed.
Lemma join_channels_refuses j L R merge : NoDup (map c_name L) -> NoDup (map c_name R) ->
  (refuses (join_channels j L R merge) <->
   match j with JNone => shared channel c_name L R | JOuter => merge = false /\ conflict channel c_name L R | _ => False end).
Proof. intros HL HR. unfold join_channels. destruct j.
  - rewrite refuses_if. apply common_iff.
  - rewrite refuses_if. destruct merge.
    + split; [|intros [H _]; discriminate]. intros H. exfalso.
      rewrite (join_items_deep_keys channel c_name channel_eqb ch_eq_iff merge_samples) in H; [|reflexivity|discriminate].
      simpl in H. apply nonempty_true in H. apply H. apply dups_nil_iff.
      apply NoDup_app_keys; auto.
    + rewrite (join_items_flat channel c_name channel_eqb). rewrite (outer_dups_iff channel c_name channel_eqb ch_eq_iff); auto. tauto.
  - split; [apply refuses_ok|tauto].
  - split; [apply refuses_ok|tauto]. Qed.

Lemma join_observations_ok j L R os : L <> [] -> R <> [] ->
  Forall (fun o => observation_ok o = true) L -> Forall (fun o => observation_ok o = true) R ->
  join_observations j L R = Ok os -> os <> [] /\ Forall (fun o => observation_ok o = true) os.
Proof. intros HL HR FL FR H.
  assert (G : join_items observation o_name observation_eqb None j L R <> [] /\ Forall (fun o => observation_ok o = true) (join_items observation o_name observation_eqb None j L R))
    by (split; [now apply join_items_flat_nonempty|now apply join_items_flat_Forall]).
  unfold join_observations in H. destruct j; try (inversion H; subst; exact G).
  - destruct (nonempty (common _ _)); [discriminate|]. inversion H; subst; exact G.
  - destruct (nonempty (dups _)); [discriminate|]. inversion H; subst; exact G. Qed.

Lemma join_observations_refuses j L R : NoDup (map o_name L) -> NoDup (map o_name R) ->
  (refuses (join_observations j L R) <->
   match j with JNone => shared observation o_name L R | JOuter => conflict observation o_name L R | _ => False end).
Proof. intros HL HR. unfold join_observations. destruct j.
  - rewrite refuses_if. apply common_iff.
  - rewrite refuses_if. rewrite (join_items_flat observation o_name observation_eqb).
    apply (outer_dups_iff observation o_name observation_eqb ob_eq_iff); auto.
  - split; [apply refuses_ok|tauto].
  - split; [apply refuses_ok|tauto]. Qed.

(* ----- measurements ----- *)
Definition poi_bad (kv : string * list measurement) : bool := Nat.ltb 1 (length (dedup (map me_poi (snd kv)))).

Lemma join_parameter_configs_refuses pl pr : NoDup (map p_name pl) -> NoDup (map p_name pr) ->
  (refuses (join_parameter_configs pl pr) <-> conflict pconfig p_name pl pr).
Proof. intros Hl Hr. unfold join_parameter_configs. rewrite refuses_if. rewrite (join_items_flat pconfig p_name pconfig_eqb).
  apply (outer_dups_iff pconfig p_name pconfig_eqb pc_eq_iff); auto. Qed.

Lemma group_one n x : poi_bad (n, [x]) = false /\ merge_group (n, [x]) = Ok x.
Proof. split; reflexivity. Qed.
Lemma group_two n x y : NoDup (map p_name (me_params x)) -> NoDup (map p_name (me_params y)) ->
  ((poi_bad (n, [x; y]) = true \/ refuses (merge_group (n, [x; y]))) <->
   (me_poi x <> me_poi y \/ conflict pconfig p_name (me_params x) (me_params y))).
Proof. intros Hx Hy. unfold poi_bad, merge_group. simpl.
  rewrite refuses_bind. rewrite (join_parameter_configs_refuses _ _ Hx Hy).
  destruct (String.eqb_spec (me_poi x) (me_poi y)) as [e|ne]; simpl.
  - split.
    + intros [H|[H|[a [_ H]]]]; [discriminate|now right|now apply refuses_ok in H].
    + intros [H|H]; [congruence|right; now left].
  - split; [intros _; now left|intros _; now left]. Qed.

Lemma join_measurements_refuses j L R :
  NoDup (map me_name L) -> NoDup (map me_name R) ->
  Forall (fun m => NoDup (map p_name (me_params m))) L -> Forall (fun m => NoDup (map p_name (me_params m))) R ->
  (refuses (join_measurements j L R) <->
   match j with JNone => shared measurement me_name L R | JOuter => meas_conflict L R | _ => False end).
Proof. intros HL HR PL PR. unfold join_measurements. destruct j.
  - rewrite refuses_if. apply common_iff.
  - rewrite (join_items_flat measurement me_name measurement_eqb).
    set (F := filter (new_by_value measurement measurement_eqb L) R).
    assert (HF : NoDup (map me_name F)) by (apply NoDup_map_filter; auto).
    assert (Hgrp : forall n g, In (n, g) (meas_mapping (L ++ F)) ->
             (exists x, g = [x] /\ (In x L \/ In x R)) \/
             (exists x y, g = [x; y] /\ In x L /\ In y R /\ ~ In y L /\ me_name x = n /\ me_name y = n)).
    { intros n g Hin. apply mapping_in in Hin. destruct Hin as [Hg Hne]. rewrite grp_app in Hg.
      destruct (grp_NoDup n L HL) as [E1|[x [E1 [I1 N1]]]], (grp_NoDup n F HF) as [E2|[y [E2 [I2 N2]]]]; rewrite E1, E2 in Hg; simpl in Hg.
      - congruence.
      - left. exists y. split; auto. right. apply filter_In in I2. tauto.
      - left. exists x. auto.
      - right. exists x, y. apply filter_In in I2. destruct I2 as [I2 I3].
        apply (new_by_value_iff measurement measurement_eqb me_eq_iff) in I3. repeat split; auto. }
    transitivity (exists kv, In kv (meas_mapping (L ++ F)) /\ (poi_bad kv = true \/ refuses (merge_group kv))).
    { fold poi_bad. destruct (nonempty (filter poi_bad (meas_mapping (L ++ F)))) eqn:E.
      - split; [|intros _; apply refuses_err]. intros _. apply nonempty_filter_iff in E. destruct E as [kv [H1 H2]]. exists kv. auto.
      - rewrite mapM_refuses. split.
        + intros [kv [H1 H2]]. exists kv. auto.
        + intros [kv [H1 [H2|H2]]]; [|exists kv; auto]. exfalso.
          assert (nonempty (filter poi_bad (meas_mapping (L ++ F))) = true) by (apply nonempty_filter_iff; exists kv; auto). congruence. }
    split.
    + intros [[n g] [Hin Hbad]]. destruct (Hgrp n g Hin) as [[x [-> _]]|[x [y [-> [I1 [I2 [I3 [N1 N2]]]]]]]].
      * destruct (group_one n x) as [G1 G2]. rewrite G1, G2 in Hbad. destruct Hbad as [H|H]; [discriminate|now apply refuses_ok in H].
      * rewrite Forall_forall in PL, PR. apply group_two in Hbad; auto.
        exists x, y. repeat split; auto; [congruence|intros ->; auto].
    + intros [x [y [I1 [I2 [N [Hne Hc]]]]]].
      assert (Hy : ~ In y L). { intros Hy. apply Hne. apply (NoDup_key_inj me_name L x y); auto. }
      assert (IF : In y F). { apply filter_In. split; auto. now apply (new_by_value_iff measurement measurement_eqb me_eq_iff). }
      exists (me_name x, [x; y]). split.
      * apply mapping_in. split; [|discriminate]. rewrite grp_app, (grp_in (me_name x) L x), (grp_in (me_name x) F y); auto.
      * rewrite Forall_forall in PL, PR. apply group_two; auto.
  - split; [apply refuses_ok|tauto].
  - split; [apply refuses_ok|tauto]. Qed.

Lemma join_parameter_configs_ok pl pr ps : Forall (fun p => pconfig_ok p = true) pl -> Forall (fun p => pconfig_ok p = true) pr ->
  join_parameter_configs pl pr = Ok ps -> Forall (fun p => pconfig_ok p = true) ps.
Proof. intros Hl Hr. unfold join_parameter_configs. destruct (nonempty (dups _)); [discriminate|]. intros H. inversion H; subst.
  now apply join_items_flat_Forall. Qed.

Lemma join_measurements_ok j L R ms : L <> [] -> R <> [] ->
  Forall (fun m => measurement_ok m = true) L -> Forall (fun m => measurement_ok m = true) R ->
  join_measurements j L R = Ok ms -> ms <> [] /\ Forall (fun m => measurement_ok m = true) ms.
Proof. intros HL HR FL FR H.
  assert (G : join_items measurement me_name measurement_eqb None j L R <> [] /\
              Forall (fun m => measurement_ok m = true) (join_items measurement me_name measurement_eqb None j L R))
    by (split; [now apply join_items_flat_nonempty|now apply join_items_flat_Forall]).
  unfold join_measurements in H. destruct j; try (inversion H; subst; exact G).
  - destruct (nonempty (common _ _)); [discriminate|]. inversion H; subst; exact G.
  - destruct G as [G1 G2]. set (J := join_items measurement me_name measurement_eqb None JOuter L R) in *.
    destruct (nonempty (filter _ (meas_mapping J))); [discriminate|]. split.
    + intros ->. apply mapM_length in H. simpl in H. symmetry in H. apply length_zero_iff_nil in H.
      destruct J as [|x t] eqn:EJ; [congruence|].
      assert (Hin : In (me_name x, grp (me_name x) (x :: t)) (meas_mapping (x :: t))).
      { apply mapping_in. split; auto. rewrite (grp_cons (me_name x) x t), grp_one, String.eqb_refl. discriminate. }
      rewrite H in Hin. destruct Hin.
    + eapply mapM_ok_Forall; [exact H|]. intros [n g] y Hin Hy. apply mapping_in in Hin. destruct Hin as [Hg _].
      assert (Hsub : Forall (fun m => measurement_ok m = true) g).
      { subst g. apply Forall_forall. intros m Hm. apply filter_In in Hm. rewrite Forall_forall in G2. apply G2. tauto. }
      unfold merge_group in Hy. simpl in Hy. destruct g as [|m0 [|m1 [|m2 rest]]]; try discriminate.
      * inversion Hy; subst. now inversion Hsub.
      * simpl in Hy. destruct (join_parameter_configs (me_params m0) (me_params m1)) as [ps|e] eqn:E; simpl in Hy; [|discriminate].
        inversion Hy; subst. unfold measurement_ok. simpl. apply forallb_forall. apply Forall_forall.
        inversion Hsub as [|? ? H0 Hs1]; subst. inversion Hs1 as [|? ? H1 _]; subst.
        unfold measurement_ok in H0, H1. rewrite forallb_forall in H0, H1.
        eapply join_parameter_configs_ok; [| |exact E]; apply Forall_forall; auto. Qed.

(* before the new Workspace object is constructed: no validity assumption needed *)
Lemma combine_pre_refuses_iff j l r merge : wf_names l -> wf_names r ->
  (refuses (combine_pre j l r merge) <-> refusal_spec j merge l r).
Proof.
  intros (Lc & Lo & Lm & Lp) (Rc & Ro & Rm & Rp). unfold combine_pre, refusal_spec.
  destruct (merge && match j with JNone => true | _ => false end) eqn:Em.
  { split; [|intros _; apply refuses_err]. intros _. right. destruct j; try (rewrite andb_false_r in Em; discriminate).
    left. now apply andb_true_iff in Em. }
  unfold join_versions at 1. destruct (String.eqb_spec (w_version l) (w_version r)) as [ev|nv]; cbn [negb bind].
  2:{ split; [intros _; now left|intros _; apply refuses_err]. }
  rewrite refuses_bind.
  split.
  - intros [H|[cs [Hcs H]]].
    + apply join_channels_refuses in H; auto. right. destruct j; tauto.
    + apply refuses_bind in H. destruct H as [H|[os [Hos H]]].
      * apply join_observations_refuses in H; auto. right. destruct j; tauto.
      * apply refuses_bind in H. destruct H as [H|[ms [Hms H]]].
        -- apply join_measurements_refuses in H; auto. right. destruct j; tauto.
        -- now apply refuses_ok in H.
  - intros [H|H]; [congruence|].
    destruct (join_channels j (w_channels l) (w_channels r) merge) as [cs|e] eqn:Ec; [|left; apply refuses_err].
    assert (Hc : ~ refuses (join_channels j (w_channels l) (w_channels r) merge)) by (rewrite Ec; apply refuses_ok).
    rewrite (join_channels_refuses j _ _ merge Lc Rc) in Hc.
    right. exists cs. split; auto. apply refuses_bind.
    destruct (join_observations j (w_observations l) (w_observations r)) as [os|e] eqn:Eo; [|left; apply refuses_err].
    assert (Ho : ~ refuses (join_observations j (w_observations l) (w_observations r))) by (rewrite Eo; apply refuses_ok).
    rewrite (join_observations_refuses j _ _ Lo Ro) in Ho.
    right. exists os. split; auto. apply refuses_bind. left. apply join_measurements_refuses; auto.
    destruct j; try tauto.
    destruct H as [H|[H|[H|H]]]; try tauto. subst merge. discriminate.
Qed.

(* what combine hands to the constructor is schema-valid when both inputs are *)
Lemma combine_pre_schema_ok j l r merge w : schema_ok l = true -> schema_ok r = true ->
  combine_pre j l r merge = Ok w -> schema_ok w = true.
Proof.
  intros Sl Sr. apply schema_ok_iff in Sl, Sr.
  destruct Sl as [[A1 A2] [[B1 B2] [[C1 C2] D]]], Sr as [[A1' A2'] [[B1' B2'] [[C1' C2'] D']]].
  unfold combine_pre. destruct (merge && _); [discriminate|].
  unfold join_versions. rewrite D, D', String.eqb_refl. cbn [negb bind].
  destruct (join_channels j _ _ merge) as [cs|] eqn:Ec; [|discriminate]. cbn [bind].
  destruct (join_observations j _ _) as [os|] eqn:Eo; [|discriminate]. cbn [bind].
  destruct (join_measurements j _ _) as [ms|] eqn:Em; [|discriminate]. cbn [bind].
  intros H. inversion H; subst.
  destruct (join_channels_ok j _ _ merge cs A1 A1' A2 A2' Ec) as [X1 X2].
  destruct (join_observations_ok j _ _ os C1 C1' C2 C2' Eo) as [Y1 Y2].
  destruct (join_measurements_ok j _ _ ms B1 B1' B2 B2' Em) as [Z1 Z2].
  apply schema_ok_iff. simpl. repeat split; auto. Qed.

(* combine refuses exactly when the statement's rule says so (valid inputs with distinct names; every join mode, merge flag, validate flag) *)
Theorem combine_refuses_iff l r js merge v :
  wf_names l -> wf_names r -> schema_ok l = true -> schema_ok r = true ->
  (refuses (combine l r js merge v) <->
   match join_of_string js with None => True | Some j => refusal_spec j merge l r end).
Proof.
  intros Wl Wr Sl Sr. rewrite combine_eq.
  destruct (join_of_string js) as [j|]; [|split; auto using refuses_err].
  rewrite refuses_bind, (combine_pre_refuses_iff j l r merge Wl Wr). split; [|tauto].
  intros [H|[w [Hw H]]]; auto. exfalso. rewrite construct_ok in H; [now apply refuses_ok in H|].
  apply (combine_pre_schema_ok j l r merge w Sl Sr Hw). Qed.

(* non-vacuity: the rule is met by some pair and not met by another *)
Example refusal_spec_inhabited : exists l r, refusal_spec JNone false l r /\ ~ refusal_spec JLeft false l l.
Proof. pose (w := {| w_channels := [{| c_name := "a"; c_samples := [] |}]; w_observations := []; w_measurements := []; w_version := "1.0.0" |}).
  exists w, w. split.
  - right. right. left. exists {| c_name := "a"; c_samples := [] |}, {| c_name := "a"; c_samples := [] |}. simpl. auto.
  - intros [H|[]]. now apply H. Qed.
