(* Engine S, implementation side: transcription of pyhf.pdf (Model construction and evaluation),
   mixins._ChannelSummaryMixin, modifiers/*, parameters/*, constraints.py on lists.
   Tensors [modifier][sample][batch][global bin] are represented by their index functions; the
   where(mask, value, neutral) / gather(access field) / last-writer-wins dictionary structure is literal. *)
From Coq Require Import Bool Arith ZArith Lia String List.
Require Import PV.Num PV.Sort PV.Spec.
Import ListNotations.
Local Open Scope list_scope.

Inductive err :=
| EInvalidModel | EInvalidModifier | EInvalidNameReuse | EInvalidPdfParameters | EInvalidPdfData
| EPy (what : string).          (* a failure that is not one of pyhf's own exceptions *)
Inductive result (A : Type) := Ok (a : A) | Err (e : err).
Arguments Ok {A}. Arguments Err {A}.
Definition bind {A B} (r : result A) (f : A -> result B) : result B := match r with Ok a => f a | Err e => Err e end.
Notation "'do' x <- r ; k" := (bind r (fun x => k)) (at level 200, x name, r at level 100, k at level 200).

Inductive optv (A : Type) := Undef | PyNone | Val (a : A).   (* key not supported | None | value *)
Arguments Undef {A}. Arguments PyNone {A}. Arguments Val {A}.
Inductive ptype := PUnconstrained | PNormal | PPoisson.
Inductive fixedv := FBool (b : bool) | FList (l : list bool).

Definition tab {A} (n : nat) (f : nat -> A) : list A := map f (seq 0 n).
Definition last_find {A} (p : A -> bool) (l : list A) : option A := find p (rev l).
Fixpoint index_of (x : string) (l : list string) : option nat :=
  match l with [] => None | y :: t => if String.eqb x y then Some 0 else option_map S (index_of x t) end.
Definition pair_eqb (a b : string * string) : bool := String.eqb (fst a) (fst b) && String.eqb (snd a) (snd b).
Definition pair_dec : forall a b : string * string, {a = b} + {a <> b}.
Proof. decide equality; apply string_dec. Defined.
(* keep the first occurrence of every key *)
Fixpoint dedup_first {A} (key : A -> string) (l : list A) (seen : list string) : list A :=
  match l with
  | [] => []
  | x :: t => if existsb (String.eqb (key x)) seen then dedup_first key t seen else x :: dedup_first key t (key x :: seen)
  end.

Section Engine.
  Variable N : Num.
  Notation V := (V N).
  Notation "0" := (n0 N). Notation "1" := (n1 N).
  Infix "+" := (nadd N). Infix "*" := (nmul N). Infix "/" := (ndiv N).
  Notation spec := (spec N). Notation channel := (channel N). Notation sample := (sample N).
  Notation modifier := (modifier N). Notation parcfg := (parcfg N).

  (* interpolation: what these functions are is property C03; code names as in pyhf *)
  Variable interp_add : string -> V -> V -> V -> V -> V.     (* code lo nom hi alpha |-> delta *)
  Variable interp_mul : string -> V -> V -> V -> V -> V.     (* code lo nom hi alpha |-> factor *)

  Record settings := { normsys_code : string; histosys_code : string;
                       clip_sample : option V; clip_bin : option V }.

  Definition sumV (l : list V) : V := fold_right (nadd N) 0 l.
  Definition prodV (l : list V) : V := fold_right (nmul N) 1 l.
  Definition vmax (a b : V) : V := if nltb N a b then b else a.
  Definition clipv (c : option V) (x : V) : V := match c with Some m => vmax x m | None => x end.
  Definition is_pos (x : V) : bool := nltb N 0 x.
  Definition is_zero (x : V) : bool := neqb N x 0.
  Fixpoint list_eqb {A} (eqb : A -> A -> bool) (l l' : list A) : bool :=
    match l, l' with [], [] => true | a :: t, b :: t' => eqb a b && list_eqb eqb t t' | _, _ => false end.

  (* ------------------------------------------------------------------ mixins._ChannelSummaryMixin *)
  Section WithSpec.
  Variable sp : spec.

  Definition cfg_channels : list string := sort_uniq (map c_name (channels sp)).
  Definition all_samples : list sample := flat_map c_samples (channels sp).
  Definition cfg_samples : list string := sort_uniq (map s_name all_samples).
  Definition cfg_modifiers : list (string * string) :=
    psort (fun x => x) (nodup pair_dec (flat_map (fun s => map mkey (s_mods s)) all_samples)).
  (* channel_nbins[name] is assigned for every listed channel: the last one with that name stays *)
  Definition nbins (cn : string) : nat :=
    match last_find (fun c => String.eqb (c_name c) cn) (channels sp) with
    | Some c => match c_samples c with s :: _ => length (s_data s) | [] => O end
    | None => O end.
  Fixpoint running (ns : list nat) (start : nat) : list (nat * nat) :=
    match ns with [] => [] | n :: t => (start, (start + n)%nat) :: running t (start + n)%nat end.
  Definition channel_slices : list (string * (nat * nat)) :=
    combine cfg_channels (running (map nbins cfg_channels) 0).
  Definition nmaindata : nat := fold_right Nat.add O (map nbins cfg_channels).

  Section Hot.
  (* the three sorted lists of the configuration, computed once *)
  Variables (chs smps : list string) (mods : list (string * string)).
  (* ------------------------------------------------------------------ pdf._nominal_and_modifiers_from_spec, step 2 *)
  (* helper.setdefault(c, {})[s] = (sample, moddict): same-named channels merge, a later same-named sample
     overwrites; moddict[key] = x: a later modifier with the same type/name overwrites *)
  Definition cell (cn sn : string) : option sample :=
    last_find (fun s => String.eqb (s_name s) sn)
              (flat_map c_samples (filter (fun c => String.eqb (c_name c) cn) (channels sp))).
  Definition smod (s : sample) (k : string * string) : option modifier :=
    last_find (fun m => pair_eqb (mkey m) k) (s_mods s).
  Definition cellmod (cn sn : string) (k : string * string) : option modifier :=
    match cell cn sn with Some s => smod s k | None => None end.
  Definition declared (cn sn : string) (k : string * string) : bool :=
    match cellmod cn sn k with Some _ => true | None => false end.
  (* only shapesys is not shared: its key may occur once in the whole specification *)
  Definition shapesys_names_listed : list string :=
    flat_map (fun s => flat_map (fun m => match m_type m with Shapesys => [m_name m] | _ => [] end) (s_mods s)) all_samples.
  Fixpoint has_dup (l : list string) : bool :=
    match l with [] => false | x :: t => existsb (String.eqb x) t || has_dup t end.
  Fixpoint has_dup_pair (l : list (string * string)) : bool :=
    match l with [] => false | x :: t => existsb (pair_eqb x) t || has_dup_pair t end.
  (* two channels with one name, two samples with one name in a channel, one type/name key twice on a sample *)
  Definition listing_dups : bool :=
    has_dup (map c_name (channels sp))
    || existsb (fun c => has_dup (map s_name (c_samples c))) (channels sp)
    || existsb (fun s => has_dup_pair (map mkey (s_mods s))) all_samples.

  (* ------------------------------------------------------------------ step 3: nominal builder *)
  Definition nomf (cn sn : string) (b : nat) : V :=
    match cell cn sn with Some s => nth b (s_data s) 0 | None => 0 end.
  Definition nominal_lengths_ok : bool :=
    forallb (fun cn => forallb (fun sn => match cell cn sn with
                                          | Some s => Nat.eqb (length (s_data s)) (nbins cn) | None => true end)
                               smps) chs.

  (* per (modifier key, sample): builder data, blockwise by sorted channel *)
  Definition mods_of (t : mtype) : list (string * string) := filter (fun k => String.eqb (snd k) (tyname t)) mods.
  Definition names_of (t : mtype) : list string := map fst (mods_of t).
  Definition mdlist (m : modifier) : list V := match m_data m with MDList l => l | _ => [] end.
  Definition mdlo (m : modifier) : list V := match m_data m with MDHisto lo _ => lo | _ => [] end.
  Definition mdhi (m : modifier) : list V := match m_data m with MDHisto _ hi => hi | _ => [] end.
  Definition mdnlo (m : modifier) : V := match m_data m with MDNorm lo _ => lo | _ => 1 end.
  Definition mdnhi (m : modifier) : V := match m_data m with MDNorm _ hi => hi | _ => 1 end.
  (* the builders' finalize compares the lengths channel by channel *)
  Definition lengths_ok (t : mtype) (f : modifier -> list V) : bool :=
    forallb (fun k => forallb (fun sn => forallb (fun cn =>
       match cellmod cn sn k with Some m => Nat.eqb (length (f m)) (nbins cn) | None => true end) chs) smps) (mods_of t).

  (* ------------------------------------------------------------------ required paramsets *)
  Record req := { r_type : ptype; r_n : nat; r_scalar : bool;
                  r_inits : optv (list V); r_bounds : optv (list (V * V));
                  r_aux : optv (list V); r_factors : optv (list V);
                  r_var : optv (list V);            (* 'sigmas', kept squared: staterror computes a square root *)
                  r_fixed : fixedv }.
  Definition nten : V := nofZ N 10%Z.
  Definition nfive : V := nofZ N 5%Z.
  Definition eps10 : V := ndiv N 1 (nofZ N 10000000000%Z).
  Definition req_normfactor : req :=
    {| r_type := PUnconstrained; r_n := 1; r_scalar := true; r_inits := Val [1]; r_bounds := Val [(0, nten)];
       r_aux := Undef; r_factors := Undef; r_var := Undef; r_fixed := FBool false |}.
  Definition req_alpha : req :=   (* normsys and histosys *)
    {| r_type := PNormal; r_n := 1; r_scalar := true; r_inits := Val [0]; r_bounds := Val [(nopp N nfive, nfive)];
       r_aux := Val [0]; r_factors := Undef; r_var := Undef; r_fixed := FBool false |}.
  Definition req_lumi : req :=
    {| r_type := PNormal; r_n := 1; r_scalar := true; r_inits := PyNone; r_bounds := PyNone;
       r_aux := PyNone; r_factors := Undef; r_var := PyNone; r_fixed := FBool false |}.
  Definition req_shapefactor (n : nat) : req :=
    {| r_type := PUnconstrained; r_n := n; r_scalar := false; r_inits := Val (repeat 1 n);
       r_bounds := Val (repeat (0, nten) n); r_aux := Undef; r_factors := Undef; r_var := Undef; r_fixed := FBool false |}.
  (* shapesys.required_parset: zip(modifier_data, sample_data) truncates to the shorter *)
  Fixpoint zip3 (nom unc : list V) : list (V * V) :=
    match nom, unc with a :: t, b :: t' => (a, b) :: zip3 t t' | _, _ => [] end.
  Definition req_shapesys (nom unc : list V) : req :=
    let z := zip3 nom unc in
    let valid := map (fun p => is_pos (fst p) && is_pos (snd p)) z in
    let fac := map (fun p => if is_pos (fst p) && is_pos (snd p) then (fst p * fst p) / (snd p * snd p) else 1) z in
    let n := length z in
    {| r_type := PPoisson; r_n := n; r_scalar := false; r_inits := Val (repeat 1 n);
       r_bounds := Val (repeat (eps10, nten) n); r_aux := Val fac; r_factors := Val fac; r_var := Undef;
       r_fixed := FList (map negb valid) |}.
  Definition req_staterror (var : list V) : req :=
    let n := length var in
    {| r_type := PNormal; r_n := n; r_scalar := false; r_inits := Val (repeat 1 n);
       r_bounds := Val (repeat (eps10, nten) n); r_aux := Val (repeat 1 n); r_factors := Undef;
       r_var := Val (map (fun v => if is_zero v then 1 else v) var);
       r_fixed := FList (map is_zero var) |}.

  (* the first declaring cell in the walk (sorted channel, sorted sample, sorted modifier) registers the paramset *)
  Definition walk_decls (t : mtype) : list (string * (string * string * modifier)) :=
    flat_map (fun cn => flat_map (fun sn => flat_map (fun k =>
       match cellmod cn sn k with Some m => [(fst k, (cn, sn, m))] | None => [] end) (mods_of t)) smps) chs.
  Definition first_decls (t : mtype) : list (string * (string * string * modifier)) := dedup_first fst (walk_decls t) [].

  (* staterror_builder.finalize *)
  Definition gpos : list (string * nat) := flat_map (fun cn => tab (nbins cn) (fun b => (cn, b))) chs.
  Definition carries (k : string * string) (sn : string) : bool := existsb (fun cn => declared cn sn k) chs.
  Definition stat_nomsall (k : string * string) (cn : string) (b : nat) : V :=
    sumV (map (fun sn => nomf cn sn b) (filter (carries k) smps)).
  Definition uncf (cn sn : string) (k : string * string) (b : nat) : V :=
    match cellmod cn sn k with Some m => nth b (mdlist m) 0 | None => 0 end.
  Definition stat_relvar (k : string * string) (cn : string) (b : nat) : V :=
    let tot := stat_nomsall k cn b in
    sumV (map (fun sn => if is_pos tot then (uncf cn sn k b / tot) * (uncf cn sn k b / tot) else 0) smps).
  Definition first_carrier (k : string * string) : option string := find (carries k) smps.
  Definition last_carrier (k : string * string) : option string := last_find (carries k) smps.
  Definition maskrow (k : string * string) (sn : string) : list bool := map (fun p => declared (fst p) sn k) gpos.
  Definition stat_masks_consistent (k : string * string) : bool :=
    match first_carrier k with
    | Some s0 => forallb (fun sn => negb (carries k sn) || list_eqb Bool.eqb (maskrow k sn) (maskrow k s0)) smps
    | None => true end.
  Definition stat_vars (k : string * string) : list V :=
    match first_carrier k with
    | Some s0 => flat_map (fun p => if declared (fst p) s0 k then [stat_relvar k (fst p) (snd p)] else []) gpos
    | None => [] end.

  Definition sf_sizes (name : string) : list nat :=
    nodup Nat.eq_dec (flat_map (fun d => if String.eqb (fst d) name then
        [match cell (fst (fst (snd d))) (snd (fst (snd d))) with Some s => length (s_data s) | None => O end] else []) (walk_decls Shapefactor)).
  Definition required (t : mtype) : list (string * list req) :=
    match t with
    | Staterror => map (fun k => (fst k, [req_staterror (stat_vars k)])) (mods_of Staterror)
    | Shapefactor => map (fun d => (fst d, map req_shapefactor (sf_sizes (fst d)))) (first_decls Shapefactor)
    | _ => map (fun d => let '(name, (cn, sn, m)) := d in
                         (name, [match t with
                                 | Histosys | Normsys => req_alpha
                                 | Lumi => req_lumi
                                 | Normfactor => req_normfactor
                                 | Shapefactor => req_shapefactor (match cell cn sn with Some s => length (s_data s) | None => O end)
                                 | Shapesys => req_shapesys (match cell cn sn with Some s => s_data s | None => [] end) (mdlist m)
                                 | Staterror => req_normfactor end])) (first_decls t)
    end.
  (* _required_paramsets.setdefault(pname, []) += req_list, builders in histfactory_set order *)
  Fixpoint merge_req (acc : list (string * list req)) (name : string) (rs : list req) : list (string * list req) :=
    match acc with
    | [] => [(name, rs)]
    | (n, l) :: t => if String.eqb n name then (n, l ++ rs) :: t else (n, l) :: merge_req t name rs
    end.
  Definition required_all : list (string * list req) :=
    fold_left (fun acc t => fold_left (fun acc nr => merge_req acc (fst nr) (snd nr)) (required t) acc) all_types [].

  (* ------------------------------------------------------------------ parameters.utils.reduce_paramsets_requirements *)
  Definition ptype_eqb (a b : ptype) : bool :=
    match a, b with PUnconstrained, PUnconstrained | PNormal, PNormal | PPoisson, PPoisson => true | _, _ => false end.
  Definition veqb := neqb N.
  Definition vv_eqb (a b : V * V) : bool := veqb (fst a) (fst b) && veqb (snd a) (snd b).
  Definition optv_eqb {A} (eqb : A -> A -> bool) (a b : optv A) : bool :=
    match a, b with Undef, Undef => true | PyNone, PyNone => true | Val x, Val y => eqb x y | _, _ => false end.
  Definition fixedv_eqb (a b : fixedv) : bool :=
    match a, b with FBool x, FBool y => Bool.eqb x y | FList l, FList l' => list_eqb Bool.eqb l l' | _, _ => false end.
  Definition agree {A} (eqb : A -> A -> bool) (l : list A) : bool :=
    match l with [] => true | x :: t => forallb (eqb x) t end.
  (* one key: default value d (already known unique), user value u *)
  Definition user_merge {A} (n : nat) (d : optv (list A)) (u : option (list A)) : result (optv (list A)) :=
    match u with
    | None => match d with PyNone => Err EInvalidModel | _ => Ok d end     (* a property without default must be configured *)
    | Some l => match d with
                | Undef => Err EInvalidModel            (* both branches of the code end in InvalidModel *)
                | PyNone => if Nat.eqb (length l) n then Ok (Val l) else Err EInvalidModel
                | Val dl => match dl with
                            | [] => Ok (Val l)
                            | _ => if Nat.eqb (length l) (length dl) then Ok (Val l) else Err EInvalidModel
                            end
                end
    end.
  Definition find_user (name : string) : option parcfg := find (fun p => String.eqb (pc_name p) name) (parameters sp).
  Definition usr {A} (u : option parcfg) (f : parcfg -> option A) : option A := match u with Some p => f p | None => None end.

  Record pset := { p_name : string; p_type : ptype; p_n : nat; p_scalar : bool;
                   p_inits : optv (list V); p_bounds : optv (list (V * V));
                   p_aux : optv (list V); p_factors : optv (list V); p_var : optv (list V);
                   p_fixed : fixedv; p_start : nat }.

  Definition reduce_one (name : string) (rs : list req) (start : nat) : result pset :=
    let u := find_user name in
    match rs with
    | [] => Err (EPy "IndexError")
    | r0 :: _ =>
      if negb (agree ptype_eqb (map r_type rs)) then Err EInvalidNameReuse else
      if negb (agree Nat.eqb (map r_n rs)) then Err EInvalidNameReuse else
      if negb (agree Bool.eqb (map r_scalar rs)) then Err EInvalidNameReuse else
      if negb (agree (optv_eqb (list_eqb veqb)) (map r_inits rs)) then Err EInvalidNameReuse else
      do inits <- user_merge (r_n r0) (r_inits r0) (usr u pc_inits);
      if negb (agree (optv_eqb (list_eqb vv_eqb)) (map r_bounds rs)) then Err EInvalidNameReuse else
      do bounds <- user_merge (r_n r0) (r_bounds r0) (usr u pc_bounds);
      if negb (agree (optv_eqb (list_eqb veqb)) (map r_aux rs)) then Err EInvalidNameReuse else
      do aux <- user_merge (r_n r0) (r_aux r0) (usr u pc_auxdata);
      if negb (agree (optv_eqb (list_eqb veqb)) (map r_factors rs)) then Err EInvalidNameReuse else
      do factors <- user_merge (r_n r0) (r_factors r0) (usr u pc_factors);
      if negb (agree (optv_eqb (list_eqb veqb)) (map r_var rs)) then Err EInvalidNameReuse else
      do var <- user_merge (r_n r0) (r_var r0) (option_map (map (fun s => s * s)) (usr u pc_sigmas));
      if negb (agree fixedv_eqb (map r_fixed rs)) then Err EInvalidNameReuse else
      let fixed := match usr u pc_fixed with Some b => FBool b | None => r_fixed r0 end in
      Ok {| p_name := name; p_type := r_type r0; p_n := r_n r0; p_scalar := r_scalar r0;
            p_inits := inits; p_bounds := bounds; p_aux := aux; p_factors := factors; p_var := var;
            p_fixed := fixed; p_start := start |}
    end.

  Fixpoint reduce_all (l : list (string * list req)) (start : nat) : result (list pset) :=
    match l with
    | [] => Ok []
    | (name, rs) :: t =>
        do p <- reduce_one name rs start;
        do ps <- reduce_all t (start + p_n p)%nat;
        Ok (p :: ps)
    end.

  (* _finalize_parameters_specs: two user configurations for one name *)
  Definition user_dups : bool := has_dup (map pc_name (parameters sp)).

  (* _create_parameters_from_spec + paramset constructors + config.set_parameters *)
  Definition constrained (p : pset) : bool := match p_type p with PUnconstrained => false | _ => true end.
  Definition pset_create_ok (p : pset) : result unit :=
    match p_type p with
    | PUnconstrained => Ok tt
    | PNormal => match p_aux p with Val _ => Ok tt | PyNone => Err (EPy "TypeError") | Undef => Err (EPy "KeyError") end
    | PPoisson => match p_aux p, p_factors p with
                  | Val _, Val _ => Ok tt | PyNone, _ => Err (EPy "TypeError") | _, _ => Err (EPy "KeyError") end
    end.
  Definition inits_of (p : pset) : result (list V) :=
    match p_inits p with Val l => Ok l | _ => Err (EPy "TypeError") end.
  Fixpoint collect {A B} (f : A -> result (list B)) (l : list A) : result (list B) :=
    match l with [] => Ok [] | x :: t => do a <- f x; do r <- collect f t; Ok (a ++ r) end.
  Fixpoint check_all {A} (f : A -> result unit) (l : list A) : result unit :=
    match l with [] => Ok tt | x :: t => do _ <- f x; check_all f t end.
  Definition aux_of (p : pset) : list V := match p_aux p with Val l => l | _ => [] end.

  Definition find_pset (ps : list pset) (name : string) : option pset := find (fun p => String.eqb (p_name p) name) ps.

  (* ------------------------------------------------------------------ combined appliers: construction-time checks *)
  (* shapesys/staterror _reindex_access_field: zeros, then [mask of the LAST sample carrying it] = selection *)
  Definition count_true (l : list bool) : nat := length (filter (fun b => b) l).
  Definition reindex_ok (ps : list pset) (k : string * string) : result unit :=
    match last_carrier k, find_pset ps (fst k) with
    | None, _ => Err (EPy "IndexError")
    | _, None => Err (EPy "KeyError")
    | Some sn, Some p =>
        let c := count_true (maskrow k sn) in
        if Nat.eqb c (p_n p) || Nat.eqb (p_n p) 1 then Ok tt else Err (EPy "ValueError")
    end.

  Record model := { md_psets : list pset; md_npars : nat; md_auxdata : list V; md_poi : option nat }.

  Definition set_poi (ps : list pset) : result (option nat) :=
    match poi sp with
    | None => Ok None
    | Some nm => if String.eqb nm "" then Ok None else
        match find_pset ps nm with
        | None => Err EInvalidModel
        | Some p => if Nat.ltb 1 (p_n p) then Err EInvalidModel else Ok (Some (p_start p))
        end
    end.

  Definition build_hot : result model :=
    if listing_dups then Err EInvalidModel else
    if has_dup shapesys_names_listed then Err EInvalidModel else
    if negb nominal_lengths_ok then Err EInvalidModel else
    if negb (lengths_ok Histosys mdlo && lengths_ok Histosys mdhi) then Err EInvalidModifier else
    if negb (lengths_ok Shapesys mdlist) then Err EInvalidModifier else
    if negb (lengths_ok Staterror mdlist) then Err EInvalidModifier else
    if negb (forallb (fun k => match first_carrier k with Some _ => true | None => false end) (mods_of Staterror))
      then Err (EPy "KeyError") else
    if negb (forallb stat_masks_consistent (mods_of Staterror)) then Err EInvalidModifier else
    if user_dups then Err EInvalidModel else
    do ps <- reduce_all required_all 0;
    do _ <- check_all pset_create_ok ps;
    match ps with [] => Err EInvalidModel | _ =>
    do inits <- collect inits_of ps;
    do _ <- check_all (reindex_ok ps) (mods_of Shapesys);
    do _ <- check_all (reindex_ok ps) (mods_of Staterror);
    do p <- set_poi ps;
    Ok {| md_psets := ps; md_npars := length inits;
          md_auxdata := flat_map aux_of (filter constrained ps); md_poi := p |}
    end.

  (* ------------------------------------------------------------------ evaluation *)
  Variable st : settings.
  Variable md : model.
  Variable par : nat -> V.                 (* component i of the (flattened) parameter tensor *)
  Definition pstart (name : string) : nat := match find_pset (md_psets md) name with Some p => p_start p | None => O end.
  Definition psize (name : string) : nat := match find_pset (md_psets md) name with Some p => p_n p | None => O end.

  (* number of true mask entries of sample sn strictly before global position (cn, b) *)
  Definition rank_before (k : string * string) (sn cn : string) (b : nat) : nat :=
    let fix go (cs : list string) : nat :=
      match cs with
      | [] => O
      | c :: t => if String.eqb c cn then (if declared c sn k then b else O)
                  else ((if declared c sn k then nbins c else O) + go t)%nat
      end in go chs.
  (* access field entry of shapesys / staterror at (cn, b) *)
  Definition access_binwise (k : string * string) (cn : string) (b : nat) : nat :=
    match last_carrier k with
    | Some sl => if declared cn sl k then
                   (if Nat.eqb (psize (fst k)) 1 then pstart (fst k) else (pstart (fst k) + rank_before k sl cn b)%nat)
                 else O
    | None => O end.
  (* access field entry of shapefactor: local bin looked up in the paramset's indices, 0 when out of range *)
  Definition access_shapefactor (k : string * string) (b : nat) : nat :=
    if Nat.ltb b (psize (fst k)) then (pstart (fst k) + b)%nat else O.

  Definition factor (t : mtype) (k : string * string) (cn sn : string) (b : nat) : V :=
    if declared cn sn k then
      match t with
      | Normfactor | Lumi => par (pstart (fst k))
      | Normsys => match cellmod cn sn k with
                   | Some m => interp_mul (normsys_code st) (mdnlo m) 1 (mdnhi m) (par (pstart (fst k)))
                   | None => 1 end
      | Shapefactor => par (access_shapefactor k b)
      | Shapesys | Staterror => par (access_binwise k cn b)
      | Histosys => 1
      end
    else 1.
  Definition delta (k : string * string) (cn sn : string) (b : nat) : V :=
    match cellmod cn sn k with
    | Some m => interp_add (histosys_code st) (nth b (mdlo m) 0) (nomf cn sn b) (nth b (mdhi m) 0) (par (pstart (fst k)))
    | None => 0 end.

  Definition mult_types : list mtype := [Lumi; Normfactor; Normsys; Shapefactor; Shapesys; Staterror].
  Definition by_sample (cn sn : string) (b : nat) : V :=
    let nom_plus_delta := nomf cn sn b + sumV (map (fun k => delta k cn sn b) (mods_of Histosys)) in
    let fac := prodV (flat_map (fun t => map (fun k => factor t k cn sn b) (mods_of t)) mult_types) in
    clipv (clip_sample st) (fac * nom_plus_delta).
  Definition rate (cn : string) (b : nat) : V :=
    clipv (clip_bin st) (sumV (map (fun sn => by_sample cn sn b) smps)).
  Definition expected_actualdata_hot : list V := flat_map (fun cn => tab (nbins cn) (rate cn)) chs.
  Definition expected_by_sample_hot : list (list V) :=
    map (fun sn => flat_map (fun cn => tab (nbins cn) (by_sample cn sn)) chs) smps.

  (* constraint terms, walking auxdata_order with one running index over the auxiliary data *)
  Inductive term := TPois (n lam : V) | TNorm (x mu var : V).
  Definition var_of (p : pset) (i : nat) : V := match p_var p with Val l => nth i l 1 | _ => 1 end.
  Definition fac_of (p : pset) (i : nat) : V := match p_factors p with Val l => nth i l 1 | _ => 1 end.
  Fixpoint cterms (ps : list pset) (aux : list V) (k : nat) : list term :=
    match ps with
    | [] => []
    | p :: t =>
        match p_type p with
        | PUnconstrained => cterms t aux k
        | PNormal => tab (p_n p) (fun i => TNorm (nth (k + i) aux 0) (par (p_start p + i)) (var_of p i)) ++ cterms t aux (k + p_n p)
        | PPoisson => tab (p_n p) (fun i => TPois (nth (k + i) aux 0) (par (p_start p + i) * fac_of p i)) ++ cterms t aux (k + p_n p)
        end
    end.
  Definition expected_auxdata_hot : list V :=
    flat_map (fun p => match p_type p with
                       | PUnconstrained => []
                       | PNormal => tab (p_n p) (fun i => par (p_start p + i))
                       | PPoisson => tab (p_n p) (fun i => par (p_start p + i) * fac_of p i) end) (md_psets md).
  Definition main_terms (maindata : list V) : list term :=
    map (fun nl => TPois (fst nl) (snd nl)) (combine maindata expected_actualdata_hot).
  Definition logpdf_terms_hot (npars_given : nat) (data : list V) : result (list term) :=
    if negb (Nat.eqb npars_given (md_npars md)) then Err EInvalidPdfParameters else
    if negb (Nat.eqb (length data) (nmaindata + length (md_auxdata md))) then Err EInvalidPdfData else
    Ok (main_terms (firstn nmaindata data) ++ cterms (md_psets md) (skipn nmaindata data) 0).
  End Hot.
  Definition build : result model := build_hot cfg_channels cfg_samples cfg_modifiers.
  Definition parf (pars : list V) (i : nat) : V := nth i pars 0.
  Definition expected_actualdata (st : settings) (md : model) (pars : list V) : list V :=
    expected_actualdata_hot cfg_channels cfg_samples cfg_modifiers st md (parf pars).
  Definition expected_by_sample (st : settings) (md : model) (pars : list V) : list (list V) :=
    expected_by_sample_hot cfg_channels cfg_samples cfg_modifiers st md (parf pars).
  Definition expected_auxdata (md : model) (pars : list V) : list V := expected_auxdata_hot md (parf pars).
  Definition logpdf_terms (st : settings) (md : model) (pars data : list V) : result (list term) :=
    logpdf_terms_hot cfg_channels cfg_samples cfg_modifiers st md (parf pars) (length pars) data.
  (* batched model: the parameter tensor (N, npars) is flattened and gathered at r * npars + i *)
  Definition parf_batched (npars : nat) (rows : list (list V)) (r i : nat) : V := nth (r * npars + i) (concat rows) 0.
  Definition expected_actualdata_batched (st : settings) (md : model) (rows : list (list V)) : list (list V) :=
    map (fun r => expected_actualdata_hot cfg_channels cfg_samples cfg_modifiers st md (parf_batched (md_npars md) rows r))
        (seq 0 (length rows)).
  Definition logpdf_terms_batched (st : settings) (md : model) (rows datas : list (list V)) : list (result (list term)) :=
    map (fun r => logpdf_terms_hot cfg_channels cfg_samples cfg_modifiers st md (parf_batched (md_npars md) rows r)
                                   (length (nth r rows [])) (nth r datas []))
        (seq 0 (length rows)).
  End WithSpec.
End Engine.
Arguments TPois {N}. Arguments TNorm {N}.
