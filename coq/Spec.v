(* HistFactory JSON model specification as pyhf receives it (after schema validation), over any number type. *)
From Coq Require Import Bool Arith String List.
Require Import PV.Num.
Import ListNotations.
Local Open Scope list_scope.

Inductive mtype := Histosys | Lumi | Normfactor | Normsys | Shapefactor | Shapesys | Staterror.
Definition mtype_eqb (a b : mtype) : bool :=
  match a, b with
  | Histosys, Histosys | Lumi, Lumi | Normfactor, Normfactor | Normsys, Normsys
  | Shapefactor, Shapefactor | Shapesys, Shapesys | Staterror, Staterror => true
  | _, _ => false end.
Lemma mtype_eqb_eq a b : mtype_eqb a b = true <-> a = b.
Proof. destruct a, b; simpl; split; intro H; try discriminate; reflexivity. Qed.
Definition tyname (t : mtype) : string :=
  match t with Histosys => "histosys" | Lumi => "lumi" | Normfactor => "normfactor" | Normsys => "normsys"
          | Shapefactor => "shapefactor" | Shapesys => "shapesys" | Staterror => "staterror" end.
(* order of pyhf.modifiers.histfactory_set *)
Definition all_types : list mtype := [Histosys; Lumi; Normfactor; Normsys; Shapefactor; Shapesys; Staterror].
Definition ty_of_name (s : string) : option mtype := find (fun t => String.eqb (tyname t) s) all_types.
Lemma tyname_inj a b : tyname a = tyname b -> a = b.
Proof. destruct a, b; simpl; intro H; try reflexivity; discriminate. Qed.

Section Spec.
  Variable N : Num.
  Notation V := (V N).

  Inductive moddata :=
  | MDNone                                  (* normfactor, shapefactor, lumi: null *)
  | MDNorm (lo hi : V)                      (* normsys *)
  | MDHisto (lo hi : list V)                (* histosys *)
  | MDList (l : list V).                    (* shapesys, staterror *)

  Record modifier := { m_name : string; m_type : mtype; m_data : moddata }.
  Record sample := { s_name : string; s_data : list V; s_mods : list modifier }.
  Record channel := { c_name : string; c_samples : list sample }.
  (* measurement-level parameter configuration; None = key absent *)
  Record parcfg := { pc_name : string;
                     pc_inits : option (list V); pc_bounds : option (list (V * V));
                     pc_auxdata : option (list V); pc_factors : option (list V);
                     pc_sigmas : option (list V); pc_fixed : option bool }.
  Record spec := { channels : list channel; parameters : list parcfg; poi : option string }.

  Definition mkey (m : modifier) : string * string := (m_name m, tyname (m_type m)).
End Spec.
Arguments MDNone {N}. Arguments MDNorm {N}. Arguments MDHisto {N}. Arguments MDList {N}.
Arguments m_name {N}. Arguments m_type {N}. Arguments m_data {N}. Arguments Build_modifier {N}.
Arguments s_name {N}. Arguments s_data {N}. Arguments s_mods {N}. Arguments Build_sample {N}.
Arguments c_name {N}. Arguments c_samples {N}. Arguments Build_channel {N}.
Arguments pc_name {N}. Arguments pc_inits {N}. Arguments pc_bounds {N}. Arguments pc_auxdata {N}.
Arguments pc_factors {N}. Arguments pc_sigmas {N}. Arguments pc_fixed {N}. Arguments Build_parcfg {N}.
Arguments channels {N}. Arguments parameters {N}. Arguments poi {N}. Arguments Build_spec {N}.
Arguments mkey {N}.
