(* The unguarded statement is false of the faithful model: with a positive per-sample clip a sample that is absent
   from a channel still contributes the clip value there (finding recorded in known_findings.json). *)
From Coq Require Import String QArith Qcanon List.
Require Import PV.Num PV.Spec PV.Impl PV.Ref PV.InterpQ PV.RefineRates PV.EngineRun.
Import ListNotations.
Theorem clip_absent_sample_refuted :
  exists md, build QcNum clip_witness_spec = Ok md /\
    expected_actualdata QcNum q_interp_add (interp_mul_q []) clip_witness_spec clip_witness_st md clip_witness_pars
    <> ref_expected QcNum q_interp_add (interp_mul_q []) (normsys_code QcNum clip_witness_st) (histosys_code QcNum clip_witness_st)
                    (clip_sample QcNum clip_witness_st) (clip_bin QcNum clip_witness_st) clip_witness_spec
                    (theta QcNum md (parf QcNum clip_witness_pars)).
Proof.
  destruct (build QcNum clip_witness_spec) as [md|e] eqn:E; [|vm_compute in E; discriminate].
  exists md. split; auto. vm_compute in E. inversion E; subst. vm_compute. discriminate.
Qed.
