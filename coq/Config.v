(* C12: the configuration built by Impl is a consistent partition and honours overrides. *)
From Coq Require Import Bool Arith Lia Permutation String List.
Require Import PV.Num PV.Sort PV.Spec PV.Impl.
Import ListNotations.
Local Open Scope list_scope.

Section Config.
  Variable N : Num.
  Notation V := (V N).
  Variable sp : spec N.
  Variables (chs smps : list string) (mods : list (string * string)).

  (* ---- slices produced by the running index tile their range ---- *)
  Fixpoint tiles (start : nat) (ps : list (pset N)) : Prop :=
    match ps with [] => True | p :: t => p_start N p = start /\ tiles (start + p_n N p) t end.
  Definition total (ps : list (pset N)) : nat := fold_right Nat.add O (map (p_n N) ps).

  Lemma reduce_one_start name rs start p : reduce_one N sp name rs start = Ok p ->
    p_start N p = start /\ p_name N p = name.
  Proof.
    unfold reduce_one. destruct rs as [|r0 rs']; [discriminate|].
    repeat match goal with
           | |- context [if ?b then _ else _] => destruct b; try discriminate
           | |- context [bind ?r _] => destruct r; simpl; try discriminate
           end.
    intros H; inversion H; subst; simpl; auto.
  Qed.

  Theorem par_slices_tile : forall l start ps, reduce_all N sp l start = Ok ps -> tiles start ps.
  Proof.
    induction l as [|[name rs] t IH]; intros start ps H; simpl in H.
    - inversion H; simpl; auto.
    - destruct (reduce_one N sp name rs start) as [p|e] eqn:E1; simpl in H; [|discriminate].
      destruct (reduce_all N sp t (start + p_n N p)) as [ps'|e] eqn:E2; simpl in H; [|discriminate].
      inversion H; subst. simpl. split; [apply (reduce_one_start _ _ _ _ E1)|]. now apply IH.
  Qed.

  Theorem par_order_is_requirement_order : forall l start ps, reduce_all N sp l start = Ok ps -> map (p_name N) ps = map fst l.
  Proof.
    induction l as [|[name rs] t IH]; intros start ps H; simpl in H.
    - inversion H; auto.
    - destruct (reduce_one N sp name rs start) as [p|e] eqn:E1; simpl in H; [|discriminate].
      destruct (reduce_all N sp t (start + p_n N p)) as [ps'|e] eqn:E2; simpl in H; [|discriminate].
      inversion H; subst. simpl. f_equal; [apply (reduce_one_start _ _ _ _ E1)|]. eapply IH; eauto.
  Qed.

  (* tiling means: no gap, no overlap, ends at start + total *)
  Lemma tiles_spec : forall ps start, tiles start ps ->
    forall i p, nth_error ps i = Some p -> p_start N p = (start + total (firstn i ps))%nat.
  Proof.
    induction ps as [|q t IH]; intros start Ht i p Hn; [destruct i; discriminate|].
    destruct Ht as [Hs Ht]. destruct i; simpl in *.
    - inversion Hn; subst. unfold total; simpl. lia.
    - rewrite (IH _ Ht i p Hn). unfold total; simpl. lia.
  Qed.

  (* ---- channel slices ---- *)
  Lemma running_tiles : forall ns start, 
    forall i ab, nth_error (running ns start) i = Some ab ->
      fst ab = (start + fold_right Nat.add O (firstn i ns))%nat /\ snd ab = (fst ab + nth i ns O)%nat.
  Proof.
    induction ns as [|n t IH]; intros start i ab H; [destruct i; discriminate|].
    destruct i; simpl in *.
    - inversion H; subst; simpl. lia.
    - destruct (IH _ _ _ H) as [H1 H2]. rewrite H1 in *. split; lia.
  Qed.
  Lemma combine_running_tiles : forall cs start i cn ab,
    nth_error (combine cs (running (map (nbins N sp) cs) start)) i = Some (cn, ab) ->
    nth_error cs i = Some cn /\ fst ab = (start + fold_right Nat.add O (firstn i (map (nbins N sp) cs)))%nat /\
    snd ab = (fst ab + nbins N sp cn)%nat.
  Proof.
    induction cs as [|c t IH]; intros start i cn ab H; [destruct i; discriminate|].
    destruct i; simpl in *.
    - inversion H; subst; simpl. repeat split; lia.
    - destruct (IH _ _ _ _ H) as (H1 & H2 & H3). repeat split; auto; lia.
  Qed.
  Theorem channel_slices_tile : forall i cn ab, nth_error (channel_slices N sp) i = Some (cn, ab) ->
    nth_error (cfg_channels N sp) i = Some cn /\
    fst ab = fold_right Nat.add O (firstn i (map (nbins N sp) (cfg_channels N sp))) /\
    snd ab = (fst ab + nbins N sp cn)%nat.
  Proof. unfold channel_slices. intros i cn ab H. destruct (combine_running_tiles _ 0 i cn ab H) as (H1 & H2 & H3). repeat split; auto. Qed.

  (* ---- overrides appear verbatim, defaults otherwise ---- *)
  Lemma user_merge_some {A} n (d : optv (list A)) l r : user_merge n d (Some l) = Ok r -> r = Val l.
  Proof. unfold user_merge. destruct d as [| |dl]; try discriminate.
    - destruct (Nat.eqb _ _); [intros H; now inversion H|discriminate].
    - destruct dl; [intros H; now inversion H|]. destruct (Nat.eqb _ _); [intros H; now inversion H|discriminate]. Qed.
  Lemma user_merge_none {A} n (d : optv (list A)) r : user_merge n d None = Ok r -> r = d.
  Proof. simpl. destruct d; try discriminate; intros H; now inversion H. Qed.

  Ltac agree_step H :=
    match type of H with
    | context [if negb ?b then _ else _] => destruct b; simpl negb in H; cbv iota in H; [|discriminate H]
    end.
  Theorem overrides_verbatim name rs start p u : reduce_one N sp name rs start = Ok p -> find_user N sp name = Some u ->
    (forall l, pc_inits u = Some l -> p_inits N p = Val l) /\
    (forall l, pc_bounds u = Some l -> p_bounds N p = Val l) /\
    (forall l, pc_auxdata u = Some l -> p_aux N p = Val l) /\
    (forall l, pc_factors u = Some l -> p_factors N p = Val l) /\
    (forall l, pc_sigmas u = Some l -> p_var N p = Val (map (fun s => nmul N s s) l)) /\
    (forall b, pc_fixed u = Some b -> p_fixed N p = FBool b).
  Proof.
    unfold reduce_one. intros H Hu. rewrite Hu in H. destruct rs as [|r0 rs']; [discriminate|]. unfold usr, bind in H.
    do 4 agree_step H.
    destruct (user_merge (r_n N r0) (r_inits N r0) (pc_inits u)) as [xi|] eqn:Ei; [|discriminate].
    agree_step H.
    destruct (user_merge (r_n N r0) (r_bounds N r0) (pc_bounds u)) as [xb|] eqn:Eb; [|discriminate].
    agree_step H.
    destruct (user_merge (r_n N r0) (r_aux N r0) (pc_auxdata u)) as [xa|] eqn:Ea; [|discriminate].
    agree_step H.
    destruct (user_merge (r_n N r0) (r_factors N r0) (pc_factors u)) as [xf|] eqn:Ef; [|discriminate].
    agree_step H.
    destruct (user_merge (r_n N r0) (r_var N r0) (option_map (map (fun s => nmul N s s)) (pc_sigmas u))) as [xv|] eqn:Ev; [|discriminate].
    agree_step H.
    inversion H; subst; simpl. repeat split; intros l Hl.
    - rewrite Hl in Ei. now apply user_merge_some in Ei.
    - rewrite Hl in Eb. now apply user_merge_some in Eb.
    - rewrite Hl in Ea. now apply user_merge_some in Ea.
    - rewrite Hl in Ef. now apply user_merge_some in Ef.
    - rewrite Hl in Ev. simpl in Ev. now apply user_merge_some in Ev.
    - now rewrite Hl.
  Qed.

  Theorem defaults_otherwise name r0 rs start p : reduce_one N sp name (r0 :: rs) start = Ok p -> find_user N sp name = None ->
    p_inits N p = r_inits N r0 /\ p_bounds N p = r_bounds N r0 /\ p_aux N p = r_aux N r0 /\
    p_factors N p = r_factors N r0 /\ p_var N p = r_var N r0 /\ p_fixed N p = r_fixed N r0.
  Proof.
    unfold reduce_one. intros H Hu. rewrite Hu in H. unfold usr, bind, option_map in H.
    do 4 agree_step H.
    destruct (user_merge (r_n N r0) (r_inits N r0) None) as [xi|] eqn:Ei; [|discriminate]. apply user_merge_none in Ei.
    agree_step H.
    destruct (user_merge (r_n N r0) (r_bounds N r0) None) as [xb|] eqn:Eb; [|discriminate]. apply user_merge_none in Eb.
    agree_step H.
    destruct (user_merge (r_n N r0) (r_aux N r0) None) as [xa|] eqn:Ea; [|discriminate]. apply user_merge_none in Ea.
    agree_step H.
    destruct (user_merge (r_n N r0) (r_factors N r0) None) as [xf|] eqn:Ef; [|discriminate]. apply user_merge_none in Ef.
    agree_step H.
    destruct (user_merge (r_n N r0) (r_var N r0) None) as [xv|] eqn:Ev; [|discriminate]. apply user_merge_none in Ev.
    agree_step H.
    inversion H; subst; simpl. repeat split.
  Qed.

  (* ---- suggestions: one entry per component ---- *)
  Theorem fixed_list_length : forall (p : pset N) l, p_fixed N p = FList l -> length l = p_n N p ->
    length (match p_fixed N p with FBool b => repeat b (p_n N p) | FList l => l end) = p_n N p.
  Proof. intros p l H Hl. now rewrite H. Qed.
End Config.
