(* C06 - running the TestStat model at the executable rational instance with scripted fits
   (used by harness/props/c06.py).  The free fit returns fixed (pars, value); the fixed-POI fit returns the
   scripted parameter vector with the POI entry replaced by the value it was called with, and a value that is an
   affine function a + c*mu of that value, so that "which mu was fitted" is visible in the result. *)
From Coq Require Import ZArith QArith Qcanon Bool List.
Require Import PV.Num PV.Run PV.TestStat.
Import ListNotations.
Local Open Scope list_scope.

Fixpoint set_nth (i : nat) (x : Qc) (l : list Qc) : list Qc :=
  match l, i with
  | [], _ => []
  | _ :: t, O => x :: t
  | h :: t, S j => h :: set_nth j x t
  end.

Definition wcode (w : tswarn) : Z :=
  match w with WQmuBoundedAtZero => 1 | WQmuTildeNotBoundedAtZero => 2 | WTmuBoundedAtZero => 3
             | WTmuTildeNotBoundedAtZero => 4 | WQ0MuNonzero => 5 end%Z.

Definition run_ts (st : tsname) (mu : Qc) (free_pars : list Qc) (free_val : Qc)
                  (fixed_pars : list Qc) (a c : Qc) (poi : option nat) (lower : Qc) :=
  let fit := fun _ : unit => (free_pars, free_val) in
  let fixed := fun (m : Qc) (_ : unit) =>
     (match poi with Some i => set_nth i m fixed_pars | None => fixed_pars end, (a + c * m)%Qc) in
  match teststat QcNum unit fit fixed (fun _ => poi) (fun _ => lower) st mu tt with
  | inl _ => inl 0%Z
  | inr (w, (v, (p1, p2))) => inr (map wcode w, qout v, qouts p1, qouts p2)
  end.
