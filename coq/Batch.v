(* C10: the batched model (parameters flattened, gathered at r * npars + i) evaluates row by row. *)
From Coq Require Import Bool Arith Lia String List.
Require Import PV.Num PV.Sort PV.Spec PV.Impl.
Import ListNotations.
Local Open Scope list_scope.

(* flat index arithmetic of the (N, npars) parameter tensor *)
Lemma nth_concat_rows {A} (d : A) (n : nat) : forall (rows : list (list A)) r i,
  (forall row, In row rows -> length row = n) -> r < length rows -> i < n ->
  nth (r * n + i) (concat rows) d = nth i (nth r rows []) d.
Proof.
  induction rows as [|row rows IH]; intros r i Hl Hr Hi; [simpl in Hr; lia|].
  simpl concat. assert (Hrow : length row = n) by (apply Hl; now left).
  destruct r as [|r]; simpl.
  - rewrite app_nth1 by lia. reflexivity.
  - rewrite app_nth2 by lia. rewrite Hrow. replace (n + r * n + i - n) with (r * n + i) by lia.
    apply IH; auto. { intros; apply Hl; now right. } simpl in Hr; lia.
Qed.

Lemma map_seq_nth {A B} (f : A -> B) (d : A) l : map f l = map (fun r => f (nth r l d)) (seq 0 (length l)).
Proof.
  induction l as [|a l IH]; simpl; auto. f_equal. rewrite <- seq_shift, map_map. exact IH.
Qed.

Lemma flat_map_ext_in {A B} (f g : A -> list B) l : (forall a, In a l -> f a = g a) -> flat_map f l = flat_map g l.
Proof. induction l; simpl; intros H; auto. rewrite H by auto. f_equal. apply IHl. auto. Qed.

Section Batch.
  Variable N : Num.
  Notation V := (V N).
  Variable interp_add interp_mul : string -> V -> V -> V -> V -> V.
  Variable sp : spec N.
  Variables (chs smps : list string) (mods : list (string * string)).
  Variable st : settings N.
  Variable md : model N.

  (* every parameter index the evaluation of the main model can read *)
  Definition read_idx (t : mtype) (k : string * string) (cn : string) (b : nat) : nat :=
    match t with
    | Shapefactor => access_shapefactor N md k b
    | Shapesys | Staterror => access_binwise N sp chs smps md k cn b
    | _ => pstart N md (fst k) end.
  Definition main_reads : list nat :=
    flat_map (fun cn => flat_map (fun b => flat_map (fun t => map (fun k => read_idx t k cn b) (mods_of mods t)) all_types)
                                 (seq 0 (nbins N sp cn))) chs.
  Definition reads_in_range : bool := forallb (fun i => Nat.ltb i (md_npars N md)) main_reads.

  Lemma in_main_reads t k cn b : In cn chs -> b < nbins N sp cn -> In t all_types -> In k (mods_of mods t) ->
    In (read_idx t k cn b) main_reads.
  Proof.
    intros Hc Hb Ht Hk. unfold main_reads. apply in_flat_map. exists cn. split; auto.
    apply in_flat_map. exists b. split; [apply in_seq; lia|]. apply in_flat_map. exists t. split; auto.
    apply in_map_iff. exists k. auto.
  Qed.

  Section Local.
    Variables par par' : nat -> V.
    Hypothesis Hagree : forall i, In i main_reads -> par i = par' i.

    Lemma factor_local t k cn sn b : In cn chs -> b < nbins N sp cn -> In t all_types -> In k (mods_of mods t) ->
      factor N interp_mul sp chs smps st md par t k cn sn b = factor N interp_mul sp chs smps st md par' t k cn sn b.
    Proof.
      intros Hc Hb Ht Hk. unfold factor. destruct (declared N sp cn sn k); auto.
      pose proof (Hagree _ (in_main_reads t k cn b Hc Hb Ht Hk)) as H. unfold read_idx in H.
      destruct t; try (rewrite H; reflexivity); try reflexivity.
    Qed.
    Lemma delta_local k cn sn b : In cn chs -> b < nbins N sp cn -> In k (mods_of mods Histosys) ->
      delta N interp_add sp st md par k cn sn b = delta N interp_add sp st md par' k cn sn b.
    Proof.
      intros Hc Hb Hk. unfold delta. destruct (cellmod N sp cn sn k); auto.
      assert (Ht : In Histosys all_types) by (simpl; auto).
      pose proof (Hagree _ (in_main_reads Histosys k cn b Hc Hb Ht Hk)) as H. unfold read_idx in H. now rewrite H.
    Qed.
    Lemma by_sample_local cn sn b : In cn chs -> b < nbins N sp cn ->
      by_sample N interp_add interp_mul sp chs smps mods st md par cn sn b = by_sample N interp_add interp_mul sp chs smps mods st md par' cn sn b.
    Proof.
      intros Hc Hb. unfold by_sample. f_equal. f_equal.
      - f_equal. apply flat_map_ext_in. intros t Ht. apply map_ext_in. intros k Hk. apply factor_local; auto.
        unfold mult_types in Ht. simpl in Ht. simpl. intuition (subst; auto).
      - f_equal. f_equal. apply map_ext_in. intros k Hk. apply delta_local; auto.
    Qed.
    Lemma rate_local cn b : In cn chs -> b < nbins N sp cn ->
      rate N interp_add interp_mul sp chs smps mods st md par cn b = rate N interp_add interp_mul sp chs smps mods st md par' cn b.
    Proof. intros Hc Hb. unfold rate. f_equal. f_equal. apply map_ext_in. intros sn _. now apply by_sample_local. Qed.
    Lemma expected_local :
      expected_actualdata_hot N interp_add interp_mul sp chs smps mods st md par =
      expected_actualdata_hot N interp_add interp_mul sp chs smps mods st md par'.
    Proof.
      unfold expected_actualdata_hot. apply flat_map_ext_in. intros cn Hc. unfold tab. apply map_ext_in. intros b Hb.
      apply in_seq in Hb. apply rate_local; auto. lia.
    Qed.
  End Local.
End Batch.

(* rows never influence each other: with every read inside the row, the batched model is the row-wise map *)
Theorem batched_expected_data (N : Num) interp_add interp_mul (sp : spec N) (st : settings N) (md : model N) (rows : list (list (V N))) :
  reads_in_range N sp (cfg_channels N sp) (cfg_samples N sp) (cfg_modifiers N sp) md = true ->
  (forall row, In row rows -> length row = md_npars N md) ->
  expected_actualdata_batched N interp_add interp_mul sp st md rows = map (expected_actualdata N interp_add interp_mul sp st md) rows.
Proof.
  intros Hr Hl. unfold expected_actualdata_batched, expected_actualdata.
  rewrite (map_seq_nth _ [] rows). apply map_ext_in. intros r Hrin. apply in_seq in Hrin.
  apply expected_local. intros i Hi. unfold reads_in_range in Hr. rewrite forallb_forall in Hr.
  specialize (Hr i Hi). apply Nat.ltb_lt in Hr. unfold parf_batched, parf. apply nth_concat_rows; auto. lia.
Qed.
