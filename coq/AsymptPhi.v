(* C07 - the concrete standard normal cdf  Phi x = 1/2 + int_0^x phi  and the facts Asympt.v uses about it.
   Proved outright: symmetry, derivative, strict monotonicity.  From the single hypothesis `gauss_total`
   (Phi tends to 0 at minus infinity, i.e. the Gaussian integrates to one - no installed library proves it):
   positivity, the Mills bound  -x Phi x <= phi x,  log-concavity.  Hence every C07 theorem holds for this Phi
   with `gauss_total` as its only premise about the cdf. *)
From Coq Require Import Reals Lra List.
From Coquelicot Require Import Coquelicot.
Require Import PV.Num PV.Asympt.
Import ListNotations.
Local Open Scope R_scope.

Definition nphi (x : R) : R := exp (- (x * x) / 2) / sqrt (2 * PI).
Definition NPhi (x : R) : R := 1 / 2 + RInt nphi 0 x.

Lemma sqrt2pi_pos : 0 < sqrt (2 * PI).
Proof. apply sqrt_lt_R0. pose proof PI_RGT_0. lra. Qed.

Lemma nphi_pos : forall x, 0 < nphi x.
Proof. intro x. unfold nphi. apply Rdiv_lt_0_compat; [apply exp_pos|apply sqrt2pi_pos]. Qed.

Lemma nphi_even : forall x, nphi (- x) = nphi x.
Proof. intro x. unfold nphi. replace (- x * - x) with (x * x) by ring. reflexivity. Qed.

Lemma nphi_derive : forall x, is_derive nphi x (- x * nphi x).
Proof. intro x. unfold nphi. auto_derive; [trivial|]. pose proof sqrt2pi_pos as H.
  set (e := exp _). set (r := sqrt _) in *.
  replace (- (x * x) / 2) with (- (x * x) * / 2) by reflexivity.
  fold e. field. lra. Qed.

Lemma nphi_continuous : forall x, continuous nphi x.
Proof. intro x. apply (ex_derive_continuous nphi x). eexists. apply nphi_derive. Qed.

Lemma nphi_ex_RInt : forall a b, ex_RInt nphi a b.
Proof. intros a b. apply (ex_RInt_continuous nphi). intros z _. apply nphi_continuous. Qed.

(* Phi' = phi *)
Lemma NPhi_derive : forall x, is_derive NPhi x (nphi x).
Proof. intro x. unfold NPhi.
  replace (nphi x) with (0 + nphi x) by ring.
  apply (is_derive_plus (fun _ => 1 / 2) (fun x => RInt nphi 0 x) x 0 (nphi x)).
  - apply (is_derive_const (1 / 2) x).
  - apply (is_derive_RInt nphi (fun b => RInt nphi 0 b) 0 x).
    + apply filter_forall. intro b. apply (RInt_correct nphi 0 b). apply nphi_ex_RInt.
    + apply nphi_continuous. Qed.

Lemma Derive_NPhi : forall z, Derive (fun x : R => NPhi x) z = nphi z.
Proof. intro z. apply is_derive_unique. apply NPhi_derive. Qed.
Lemma Derive_nphi : forall z, Derive (fun x : R => nphi x) z = - z * nphi z.
Proof. intro z. apply is_derive_unique. apply nphi_derive. Qed.

Lemma NPhi_continuity_pt : forall x, continuity_pt NPhi x.
Proof. intro x. apply continuity_pt_filterlim. apply (ex_derive_continuous NPhi x). eexists. apply NPhi_derive. Qed.

Lemma NPhi_0 : NPhi 0 = 1 / 2.
Proof. unfold NPhi. rewrite RInt_point. unfold zero; simpl. ring. Qed.

(* symmetry *)
Theorem NPhi_sym : cdf_symmetric NPhi.
Proof. intro x. unfold NPhi.
  assert (E : RInt nphi 0 (- x) = - RInt nphi 0 x).
  { assert (H1 : is_RInt nphi (- 0) (- x) (RInt nphi (- 0) (- x))) by (apply (RInt_correct nphi); apply nphi_ex_RInt).
    apply is_RInt_comp_opp in H1. apply (@is_RInt_unique R_CompleteNormedModule) in H1.
    rewrite (RInt_ext _ (fun y => opp (nphi y))) in H1 by (intros y _; rewrite nphi_even; reflexivity).
    replace (- 0) with 0 in H1 by ring. rewrite <- H1.
    exact (@RInt_opp R_CompleteNormedModule nphi 0 x (nphi_ex_RInt 0 x)). }
  rewrite E. lra. Qed.

(* mean value form *)
Lemma NPhi_mvt : forall x y, exists c, Rmin x y <= c <= Rmax x y /\ NPhi y - NPhi x = nphi c * (y - x).
Proof. intros x y. apply (MVT_gen NPhi x y nphi).
  - intros z _. apply NPhi_derive.
  - intros z _. apply NPhi_continuity_pt. Qed.

Theorem NPhi_strict : forall x y, x < y -> NPhi x < NPhi y.
Proof. intros x y H. destruct (NPhi_mvt x y) as (c & _ & E).
  assert (0 < nphi c * (y - x)) by (apply Rmult_lt_0_compat; [apply nphi_pos|lra]). lra. Qed.

Theorem NPhi_increasing : cdf_increasing NPhi.
Proof. intros x y [H | ->]; [left; apply NPhi_strict; assumption|right; reflexivity]. Qed.

(* ---------------------------------------------------------------------------------------- *)
(* the Gaussian integral, int_{-inf}^0 phi = 1/2, in the form "Phi tends to 0 at minus infinity" *)
Definition gauss_total_stmt : Prop := forall eps, 0 < eps -> exists s, forall t, t <= s -> Rabs (NPhi t) < eps.

Section FromGaussTotal.
Hypothesis gauss_total : gauss_total_stmt.

Theorem NPhi_positive : cdf_positive NPhi.
Proof. intro x. assert (H0 : 0 <= NPhi (x - 1)).
  { destruct (Rle_dec 0 (NPhi (x - 1))) as [H | H]; [assumption|]. exfalso.
    destruct (gauss_total (- NPhi (x - 1)) ltac:(lra)) as [s Hs].
    specialize (Hs (Rmin s (x - 1)) (Rmin_l _ _)).
    pose proof (NPhi_increasing (Rmin s (x - 1)) (x - 1) (Rmin_r _ _)) as Hm.
    rewrite Rabs_left in Hs by lra. lra. }
  pose proof (NPhi_strict (x - 1) x ltac:(lra)). lra. Qed.

(* Mills: for t < 0, Phi t * (-t) <= phi t *)
Lemma mills_neg : forall t, t < 0 -> NPhi t * (- t) <= nphi t.
Proof. intros t Ht.
  (* k s = (Phi t - Phi s)(-t) - (phi t - phi s) is non-decreasing on s <= t and k t = 0 *)
  assert (K : forall s, s <= t -> (NPhi t - NPhi s) * (- t) <= nphi t - nphi s).
  { intros s Hs. set (k := fun s => (NPhi t - NPhi s) * (- t) - (nphi t - nphi s)).
    assert (Dk : forall z, is_derive k z (nphi z * (t - z))).
    { intro z. unfold k. auto_derive.
      - split; [eexists; apply NPhi_derive|]. split; [eexists; apply nphi_derive|trivial].
      - rewrite Derive_NPhi, Derive_nphi. ring. }
    destruct (MVT_gen k s t (fun z => nphi z * (t - z))) as (c & Hc & E).
    - intros z _. apply Dk.
    - intros z _. apply continuity_pt_filterlim. apply (ex_derive_continuous k z). eexists. apply Dk.
    - rewrite Rmin_left, Rmax_right in Hc by assumption.
      assert (0 <= nphi c * (t - c) * (t - s)).
      { apply Rmult_le_pos; [apply Rmult_le_pos|]; try lra. left. apply nphi_pos. }
      assert (Ekt : k t = 0) by (unfold k; ring).
      unfold k at 2 in E. lra. }
  apply le_epsilon. intros eps Heps.
  assert (He : 0 < eps / (- t)) by (apply Rdiv_lt_0_compat; lra).
  destruct (gauss_total (eps / (- t)) He) as [s Hs].
  specialize (Hs (Rmin s t) (Rmin_l _ _)). specialize (K (Rmin s t) (Rmin_r _ _)).
  pose proof (nphi_pos (Rmin s t)).
  assert (NPhi (Rmin s t) * (- t) < eps).
  { apply Rabs_def2 in Hs. destruct Hs as [Hs _].
    replace eps with (eps / (- t) * (- t)) by (field; lra). apply Rmult_lt_compat_r; lra. }
  lra. Qed.

Lemma mills_all : forall x, 0 <= nphi x + x * NPhi x.
Proof. intro x. pose proof (nphi_pos x). pose proof (NPhi_positive x).
  destruct (Rlt_dec x 0) as [Hx | Hx].
  - pose proof (mills_neg x Hx). lra.
  - assert (0 <= x * NPhi x) by (apply Rmult_le_pos; lra). lra. Qed.

(* for a <= b:  phi a * Phi b >= Phi a * phi b   (phi/Phi is non-increasing) *)
Lemma hazard_monotone : forall a b, a <= b -> NPhi a * nphi b <= nphi a * NPhi b.
Proof. intros a b Hab.
  set (d := fun y => nphi a * NPhi y - NPhi a * nphi y).
  assert (Dd : forall z, is_derive d z (nphi z * (nphi a + z * NPhi a))).
  { intro z. unfold d. auto_derive.
    - split; [eexists; apply NPhi_derive|]. split; [eexists; apply nphi_derive|trivial].
    - rewrite Derive_NPhi, Derive_nphi. ring. }
  destruct (MVT_gen d a b (fun z => nphi z * (nphi a + z * NPhi a))) as (c & Hc & E).
  - intros z _. apply Dd.
  - intros z _. apply continuity_pt_filterlim. apply (ex_derive_continuous d z). eexists. apply Dd.
  - rewrite Rmin_left, Rmax_right in Hc by assumption.
    assert (0 <= nphi c * (nphi a + c * NPhi a) * (b - a)).
    { apply Rmult_le_pos; [apply Rmult_le_pos|]; try lra.
      - left. apply nphi_pos.
      - pose proof (mills_all a). pose proof (NPhi_positive a).
        assert (a * NPhi a <= c * NPhi a) by (apply Rmult_le_compat_r; lra). lra. }
    assert (Eda : d a = 0) by (unfold d; ring).
    unfold d at 1 in E. lra. Qed.

Theorem NPhi_logconcave : cdf_logconcave NPhi.
Proof. intros u v t Ht Htv.
  set (P := fun t => NPhi (u + t) * NPhi (v - t)).
  assert (DP : forall z, is_derive P z (nphi (u + z) * NPhi (v - z) - NPhi (u + z) * nphi (v - z))).
  { intro z. unfold P. auto_derive.
    - split; [eexists; apply NPhi_derive|]. split; [eexists; apply NPhi_derive|trivial].
    - rewrite !Derive_NPhi. replace (v + - z) with (v - z) by ring. ring. }
  (* P is non-decreasing on [0, (v-u)/2] *)
  assert (Mono : forall t1, 0 <= t1 -> t1 <= (v - u) / 2 -> P 0 <= P t1).
  { intros t1 H1 H2.
    destruct (MVT_gen P 0 t1 (fun z => nphi (u + z) * NPhi (v - z) - NPhi (u + z) * nphi (v - z))) as (c & Hc & E).
    - intros z _. apply DP.
    - intros z _. apply continuity_pt_filterlim. apply (ex_derive_continuous P z). eexists. apply DP.
    - rewrite Rmin_left, Rmax_right in Hc by assumption.
      pose proof (hazard_monotone (u + c) (v - c) ltac:(lra)).
      assert (0 <= (nphi (u + c) * NPhi (v - c) - NPhi (u + c) * nphi (v - c)) * (t1 - 0)) by (apply Rmult_le_pos; lra).
      lra. }
  assert (E0 : NPhi u * NPhi v = P 0) by (unfold P; rewrite Rplus_0_r, Rminus_0_r; reflexivity).
  assert (Et : NPhi (u + t) * NPhi (v - t) = P t) by reflexivity.
  rewrite E0, Et.
  destruct (Rle_dec t ((v - u) / 2)) as [H | H].
  - apply Mono; assumption.
  - (* reflect: P t = P (v - u - t) *)
    assert (Es : P t = P (v - u - t)).
    { unfold P. replace (u + (v - u - t)) with (v - t) by ring. replace (v - (v - u - t)) with (u + t) by ring. ring. }
    rewrite Es. apply Mono; lra. Qed.

(* ---- the C07 consequences for the concrete cdf, with gauss_total as the only premise about it ---- *)
Theorem ordering_concrete : forall k b q qA, known b -> 0 <= q -> 0 <= qA ->
  exists sb bb s, run_obs RNum NPhi sqrt k b q qA = inr (Some sb, Some bb, Some s) /\
    0 <= sb /\ sb <= bb /\ bb <= 1 /\ 0 <= s /\ s <= 1.
Proof. exact (ordering NPhi NPhi_sym NPhi_increasing NPhi_positive). Qed.

Theorem band_monotone_concrete : forall k b q qA, known b -> 0 <= qA ->
  nondecr (band_of (run_exp RNum NPhi sqrt k b q qA) 0) /\ nondecr (band_of (run_exp RNum NPhi sqrt k b q qA) 1) /\
  nondecr (band_of (run_exp RNum NPhi sqrt k b q qA) 2).
Proof. exact (band_monotone NPhi NPhi_increasing NPhi_positive NPhi_logconcave). Qed.
End FromGaussTotal.

(* the formulae as printed in arXiv:1007.1727, for the concrete cdf: no premise about Phi left *)
Definition clsb_q_concrete := clsb_q NPhi NPhi_sym.
Definition clb_q_concrete := clb_q NPhi NPhi_sym.
Definition clsb_qtilde_low_concrete := clsb_qtilde_low NPhi NPhi_sym.
Definition clb_qtilde_low_concrete := clb_qtilde_low NPhi NPhi_sym.
Definition clsb_qtilde_high_concrete := clsb_qtilde_high NPhi NPhi_sym.
Definition clb_qtilde_high_concrete := clb_qtilde_high NPhi NPhi_sym.
