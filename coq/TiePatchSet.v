(* C17 - tie to the source: the definitions translated on every run from pyhf/patchset.py and pyhf/utils.py
   (coq/gen/PatchSetGen.v, written by harness/props/c17_tie.py) coincide with the hand model of PatchSet.v.
   The proofs succeed only while the translated text means what the model says. *)
From Coq Require Import Bool Arith Lia String QArith Qcanon List.
Require Import PV.Json PV.PatchSet PV.gen.PatchSetGen.
Import ListNotations.
Local Open Scope nat_scope.
Local Open Scope list_scope.

(* ---------- the python dict: storing under a key that is not there appends ---------- *)
Lemma tset_absent t k v : tmem k t = false -> tset t k v = t ++ [(k, v)].
Proof. unfold tmem. induction t as [|[k' e] r IH]; simpl; intros E; [reflexivity|].
  destruct (key_eqb k k'); [discriminate|]. now rewrite IH. Qed.
Lemma tmem_app_single k t k' v : tmem k t = false -> key_eqb k k' = false -> tmem k (t ++ [(k', v)]) = false.
Proof. unfold tmem. intros E1 E2. rewrite tlookup_app. destruct (tlookup k t); [discriminate|]. simpl. now rewrite E2. Qed.

(* ---------- utils.digest ---------- *)
Section Digest.
  Variable H : string -> json -> string.
  Variable known : string -> bool.        (* hashlib has an attribute of that name *)

  Lemma tie_digest obj alg : gen_digest H known obj alg = if known alg then Ok (digest H alg obj) else Err PyValueError.
  Proof. unfold gen_digest, digest. now destruct (known alg). Qed.

  (* PatchSet.verify with the algorithm check of utils.digest written out: the model's verify, plus ValueError at the first
     algorithm hashlib does not provide *)
  Fixpoint verify_x (ds : list (string * string)) (ws : json) : result unit :=
    match ds with
    | [] => Ok tt
    | (alg, d) :: r => if known alg then (if String.eqb (digest H alg ws) d then verify_x r ws else Err PatchSetVerificationError)
                       else Err PyValueError
    end.

  Lemma tie_verify ds ws : gen_verify H known ds ws = verify_x ds ws.
  Proof. unfold gen_verify.
    match goal with |- context [foldM ?F _ _] => set (F0 := F) end.
    assert (G : forall u, match foldM F0 ds u with Err e => Err e | Ok _ => Ok tt end = verify_x ds ws).
    { induction ds as [|[a d] r IH]; intros u; simpl; [reflexivity|].
      unfold F0 at 1. rewrite tie_digest. cbn [fst snd]. destruct (known a); [|reflexivity].
      destruct (String.eqb (digest H a ws) d); cbn [negb]; [apply IH|reflexivity]. }
    apply G. Qed.

  (* every listed algorithm known (the schema admits md5 and sha256 only): exactly the hand model *)
  Lemma verify_x_known ds ws : (forall a d, In (a, d) ds -> known a = true) ->
    verify_x ds ws = match verify H ds ws with None => Ok tt | Some _ => Err PatchSetVerificationError end.
  Proof. induction ds as [|[a d] r IH]; intros K; simpl; [reflexivity|].
    rewrite (K a d (or_introl eq_refl)). destruct (String.eqb (digest H a ws) d); [|reflexivity].
    apply IH. intros a' d' Hin. apply (K a' d'). now right. Qed.

  Theorem tie_verify_model ds ws : (forall a d, In (a, d) ds -> known a = true) ->
    gen_verify H known ds ws = match verify H ds ws with None => Ok tt | Some _ => Err PatchSetVerificationError end.
  Proof. intros K. rewrite tie_verify. now apply verify_x_known. Qed.
End Digest.

(* ---------- PatchSet.__init__ ---------- *)
Definition init_view (n : nat) (r : table + perr) : result (list nat * table) :=
  match r with inl t => Ok (seq 0 n, t) | inr _ => Err InvalidPatchSet end.      (* the three refusals are one exception class *)

Theorem tie_patchset_init labels ps :
  gen_patchset_init labels ps = init_view (length ps) (construct [] (length labels) ps).
Proof.
  unfold gen_patchset_init, construct, init_table, init_view. simpl map.
  match goal with |- context [foldM ?F _ _] => set (F0 := F) end.
  assert (G : forall ps i acc t,
    foldM F0 (combine (seq i (length ps)) ps) (acc, t) =
    match load (length labels) t i ps with inl t' => Ok (acc ++ seq i (length ps), t') | inr _ => Err InvalidPatchSet end).
  { clear ps. induction ps as [|p rest IH]; intros i acc t; simpl; [now rewrite app_nil_r|].
    unfold F0 at 1. cbn [fst snd].
    destruct (tmem (KName (ps_name p)) t) eqn:E1; [reflexivity|].
    destruct (tmem (KVals (ps_values p)) t) eqn:E2; [reflexivity|].
    destruct (negb (Nat.eqb (length (ps_values p)) (length labels))); [reflexivity|].
    rewrite (tset_absent t _ _ E1).
    rewrite tset_absent by (apply tmem_app_single; [exact E2|reflexivity]).
    rewrite <- app_assoc. simpl app. rewrite IH. rewrite <- app_assoc. reflexivity. }
  match goal with |- match ?X with _ => _ end = _ =>
    assert (E : X = match load (length labels) [] 0 ps with inl t' => Ok (seq 0 (length ps), t') | inr _ => Err InvalidPatchSet end)
      by exact (G ps 0 [] []); rewrite E end.
  destruct (load (length labels) [] 0 ps) as [t'|e]; reflexivity.
Qed.

(* ---------- PatchSet.__getitem__ ---------- *)
Definition key_of (k : pykey) : key :=          (* list keys are turned into tuples first *)
  match k with PKStr s => KName s | PKTuple l => KVals l | PKList l => KVals l | PKOther n => KOther n end.
Definition got_view (r : result entry) : got :=
  match r with Ok (EPatch i) => GPatch i | Ok EBook => GBook | Err _ => GLookupError end.

Lemma tie_getitem_lookup t k : gen_getitem t k = match tlookup (key_of k) t with Some e => Ok e | None => Err InvalidPatchLookup end.
Proof. destruct k; reflexivity. Qed.
Theorem tie_getitem t k : got_view (gen_getitem t k) = getitem t (key_of k) /\
  (forall e, gen_getitem t k = Err e -> e = InvalidPatchLookup).
Proof. rewrite tie_getitem_lookup. unfold getitem, got_view. destruct (tlookup (key_of k) t) as [[|i]|]; split; try reflexivity; intros e E; congruence. Qed.

(* ---------- Patch.apply / PatchSet.apply ---------- *)
Section Apply.
  Variable H : string -> json -> string.
  Variable known : string -> bool.
  Variable jpatch : list json -> json -> result json.     (* jsonpatch.JsonPatch(private copy of ops).apply(doc) *)
  Variable mkws : json -> result json.                     (* Workspace(doc) *)

  Lemma tie_patch_apply ops obj : gen_patch_apply jpatch ops obj = jpatch ops obj.
  Proof. unfold gen_patch_apply. now destruct (jpatch ops obj). Qed.

  (* verify, then look up, then patch the workspace that was verified, then Workspace *)
  Definition apply_model (ps : list pspec) (ds : list (string * string)) (t : table) (ws : json) (k : pykey) : result json :=
    match verify_x H known ds ws with
    | Err e => Err e
    | Ok _ =>
        match getitem t (key_of k) with
        | GLookupError => Err InvalidPatchLookup
        | GBook => Err PyAttributeError
        | GPatch i => match jpatch (ps_ops (nth i ps dflt_pspec)) ws with Err e => Err e | Ok d => mkws d end
        end
    end.

  Theorem tie_apply ps ds t ws k : gen_apply H known jpatch mkws ps ds t ws k = apply_model ps ds t ws k.
  Proof. unfold gen_apply, apply_model. rewrite tie_verify. destruct (verify_x H known ds ws); [|reflexivity].
    rewrite tie_getitem_lookup. unfold getitem. destruct (tlookup (key_of k) t) as [[|i]|]; try reflexivity.
    destruct (jpatch (ps_ops (nth i ps dflt_pspec)) ws); [|reflexivity]. now destruct (mkws a0). Qed.

  (* what a successful apply returned: the patch found under the key, applied to the workspace whose digests all matched *)
  Theorem apply_is_patch_of_verified ps ds t ws k w : (forall a d, In (a, d) ds -> known a = true) ->
    gen_apply H known jpatch mkws ps ds t ws k = Ok w ->
    verify H ds ws = None /\
    exists i d, getitem t (key_of k) = GPatch i /\ jpatch (ps_ops (nth i ps dflt_pspec)) ws = Ok d /\ mkws d = Ok w.
  Proof. intros K. rewrite tie_apply. unfold apply_model. rewrite (verify_x_known H known ds ws K).
    destruct (verify H ds ws); [discriminate|]. split; [reflexivity|].
    destruct (getitem t (key_of k)) as [i| |]; try discriminate.
    destruct (jpatch (ps_ops (nth i ps dflt_pspec)) ws) as [d|] eqn:E; [|discriminate]. eauto. Qed.

  (* a digest that does not match refuses, whatever the key *)
  Theorem apply_refuses_unverified ps ds t ws k alg : (forall a d, In (a, d) ds -> known a = true) ->
    verify H ds ws = Some alg -> gen_apply H known jpatch mkws ps ds t ws k = Err PatchSetVerificationError.
  Proof. intros K E. rewrite tie_apply. unfold apply_model. now rewrite (verify_x_known H known ds ws K), E. Qed.
End Apply.

(* ---------- non-vacuity: the translated functions on a concrete patch set ---------- *)
Definition ex_ps : list pspec :=
  [ {| ps_name := "a"; ps_values := [PNum (Q2Qc 1)]; ps_ops := [JStr "op-a"] |};
    {| ps_name := "b"; ps_values := [PNum (Q2Qc 2)]; ps_ops := [JStr "op-b"] |} ].
Definition ex_H (alg : string) (j : json) : string := match j with JStr s => (alg ++ s)%string | _ => alg end.
Definition ex_known (alg : string) : bool := String.eqb alg "md5".
Definition ex_tbl : table := match construct [] 1 ex_ps with inl t => t | inr _ => [] end.
Example ex_init_accepts : gen_patchset_init ["x"%string] ex_ps = Ok ([0; 1], ex_tbl).
Proof. reflexivity. Qed.
Example ex_init_refuses : gen_patchset_init ["x"%string] (ex_ps ++ ex_ps) = Err InvalidPatchSet.
Proof. reflexivity. Qed.
Example ex_getitem_list_key : gen_getitem ex_tbl (PKList [PNum (Q2Qc 2)]) = Ok (EPatch 1) /\ gen_getitem ex_tbl (PKStr "c") = Err InvalidPatchLookup.
Proof. split; reflexivity. Qed.
Example ex_apply_verified :
  gen_apply ex_H ex_known (fun ops d => Ok (JArr (d :: ops))) (fun d => Ok d) ex_ps [("md5"%string, "md5ws"%string)] ex_tbl (JStr "ws") (PKStr "b")
  = Ok (JArr [JStr "ws"; JStr "op-b"]).
Proof. reflexivity. Qed.
Example ex_apply_unverified :
  gen_apply ex_H ex_known (fun ops d => Ok (JArr (d :: ops))) (fun d => Ok d) ex_ps [("md5"%string, "md5ws"%string)] ex_tbl (JStr "other") (PKStr "b")
  = Err PatchSetVerificationError.
Proof. reflexivity. Qed.
Example ex_verify_unknown_algorithm : gen_verify ex_H ex_known [("sha0"%string, "x"%string)] (JStr "ws") = Err PyValueError.
Proof. reflexivity. Qed.
