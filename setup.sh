#!/bin/bash
# MANIFEST.setup_cmd: tool sanity + warm build of the repo-independent part of the Coq development.
cd "$(dirname "$0")" || exit 2
set -e
coqc --version | head -1
/venv/bin/python -c "import pyhf, numpy, scipy; print('pyhf import ok')"
mkdir -p coq/gen evidence replays .work
export PYTHONPATH=$(pwd -P):/repo/src PYTHONHASHSEED=0 PYTHONDONTWRITEBYTECODE=1
/venv/bin/python -W ignore -m harness.setup
